"""TYPED source-to-Lean translator for the local ReBAC checker (C12: rbacx/rebac/local.py) — a sibling of harness/pytolean*.py.

The other translators map every Python value to `PyVal`; `local.py` works on tuples of strings, dataclass instances, dicts keyed by
tuples and a registry of callables, none of which is a JSON value.  This translator is therefore typed by the source's ANNOTATIONS
(meanings: lean/Rbacx/Model/PyRebac.lean, namespace `Rbacx.PyR`):

  `str` ↦ `String`, `int` ↦ `Int`, `bool` ↦ `Bool`, `tuple[A, B]` ↦ `A × B`, `list[T]` / `Iterable[T]` ↦ `List T`, `set[T]` ↦ `PySet T`,
  `dict[K, V]` ↦ `Dict K V`, `T | None` ↦ `Option T`; a designated RECORD dataclass (`RelTuple`) ↦ a generated `structure` (fields and
  defaults from the class body); the designated OBJECT classes (`This`, `ComputedUserset`, `TupleToUserset`: dataclasses with `str`
  fields), lists of them, `None` and anything else ↦ `PyR.Obj` (`UsersetExpr`, `UsersetExpr | None`); a class whose `__init__` only
  stores attributes ↦ a generated `structure` (one field per attribute) + `<prefix><Class>_init`.

Everything is syntax-directed; whatever is outside the shapes below raises `Unsupported` (reported as a failed extraction).

* methods take `self : <structure>`; `self.x` is the field.  A method that MUTATES `self` (`self.<attr>.setdefault(k, []).append(v)`)
  returns the new `self` (state passing; value-faithful because the lists are created by the store and only read by others).
* ERASED parameters (`context`): may only be passed on to translated methods (dropped there) or to a registry callable.
* a REGISTRY attribute (`caveats: dict[str, Callable]`) is `PyR.Registry`: name ↦ unregistered / outcome of `bool(pred(context))`
  (EXTERNAL: user code).  `try: <if bool(pred(context)): … | return bool(pred(context))> except Exception [as e]: <handler>` becomes a
  `match PyR.callBool pred` — the handler for `.raises`, the body with the call replaced by its truth value for `.returns b`; nothing
  else in the `try` body may raise (only `if`/`return`/constants are accepted there).  Calls on the module's `logger` are dropped
  (reading: logging neither raises nor changes a result).
* `time.perf_counter_ns()`: the function gets a parameter `clock : Nat → Int` (the i-th reading of the clock in this call) and a hidden
  local `clk` = number of readings so far; each call site is hoisted in front of its statement: `let now_i := clock clk; let clk := clk + 1`.
* `while test: body` → `PyR.whileRet fuel state cond body` (budget of body runs; the function gets a LAST parameter `fuel : Nat` and
  returns `Option T`, `none` = the budget ran out).  The body may `return` (`.ret v`), `continue` or end (`.next state`).  STATE = `clk`
  (when the body reads the clock) and the variables bound before the loop that the body assigns or mutates, in the order of their first
  binding in the function; everything else the body assigns is a temporary of one iteration.
  `x = xs.pop(0)` (also with tuple targets) → `pop0` / `afterPop0`; `xs.append(e)` → `xs ++ [e]`; `s.add(e)` → `setAdd`; `d[k] = v` → `setItem`
  — on locals bound to a fresh `[...]` / `set()` / `{}` only.
* `for x in it: body`:  with a `return` in the body and no mutation → `PyR.forRet` (body: `some v` = returned, `none` = `continue`/end);
  a body that only appends to ONE list local (under `if`/`continue`) → `acc ++ (iter it).flatMap …`; otherwise the variables bound before
  the loop that the body assigns/mutates are carried through `PyR.forState`.  Tuple targets are unpacked by projections.
* a GENERATOR (`yield` / `yield from self.m(…)`) is the list of what it yields, in order; `return` ends it; `for` inside it is `flatMap`
  (`continue` = nothing more from this iteration; no `return` inside such a `for`).  A method that calls itself on the loop variable of
  `for e in <param>` gets `termination_by sizeOf <param>` (proved from `PyR.Obj.sizeOf_lt_of_mem_iter`).
* an INDEXED EXTERNAL method (`batch_check`'s `self.check`): the method is not unfolded; the function gets a parameter
  `<m> : Nat → <argument types> → <result>` = what the j-th call of it in this invocation returns, and a hidden counter `calls`.
"""
from __future__ import annotations

import ast
from dataclasses import dataclass, field

from pytolean import Unsupported, ident, lean_str

PYR = "Rbacx.PyR."


@dataclass
class Cfg:
    prefix: str
    records: list[str]                       # dataclasses → structures
    obj_classes: list[str]                   # dataclasses with str fields → PyR.Obj.inst
    obj_alias: str                           # the type alias of the object kind
    classes: dict[str, str]                  # Python class → Lean structure suffix (e.g. InMemoryRelationshipStore → Store)
    registry_annotation: str = "Callable"    # dict[str, Callable[...]] is a registry
    erased: tuple[str, ...] = ("context",)
    clock: tuple[str, str] = ("time", "perf_counter_ns")
    loggers: tuple[str, ...] = ("logger",)
    functions: list[str] = field(default_factory=list)          # module-level functions
    methods: dict[str, list[str]] = field(default_factory=dict)  # class → methods (callees first)
    indexed_externals: dict[str, list[str]] = field(default_factory=dict)  # "Class.method" → methods of self kept external


def _mentions(node: ast.AST, name: str) -> bool:
    return any(isinstance(n, ast.Name) and n.id == name for n in ast.walk(node))


class Ctx:
    """how `return e`, `continue` and running off the end are rendered in the current position"""

    def __init__(self, ret, end: str, cont: str | None):
        self.ret, self.end, self.cont = ret, end, cont


class T:
    def __init__(self, tree: ast.Module, cfg: Cfg):
        self.tree, self.cfg = tree, cfg
        self.classes = {n.name: n for n in tree.body if isinstance(n, ast.ClassDef)}
        self.funcs = {n.name: n for n in tree.body if isinstance(n, ast.FunctionDef)}
        self.struct_fields: dict[str, list[tuple[str, str]]] = {}   # Python class → [(attr, lean type)]
        self.sig: dict[str, dict] = {}          # "Class.method" / "function" → {lean, params:[(py, ty)], ret, fuel, clock, mutates}
        self.notes: list[str] = []
        self.tmp = 0

    # ------------------------------------------------------------------ types
    def ty(self, a: ast.expr | None) -> str:
        c = self.cfg
        if a is None:
            raise Unsupported("missing annotation")
        if isinstance(a, ast.Constant) and isinstance(a.value, str):
            return self.ty(ast.parse(a.value, mode="eval").body)
        if isinstance(a, ast.Constant) and a.value is None:
            return "Unit"
        if isinstance(a, ast.Name):
            if a.id in ("str", "int", "bool"):
                return {"str": "String", "int": "Int", "bool": "Bool"}[a.id]
            if a.id in c.records:
                return c.prefix + a.id
            if a.id == c.obj_alias or a.id in c.obj_classes:
                return PYR + "Obj"
            if a.id in c.classes:
                return c.prefix + c.classes[a.id]
            raise Unsupported(f"type {a.id}")
        if isinstance(a, ast.BinOp) and isinstance(a.op, ast.BitOr):
            if isinstance(a.right, ast.Constant) and a.right.value is None:
                inner = self.ty(a.left)
                return inner if inner == PYR + "Obj" else f"(Option {inner})"
            raise Unsupported(f"type {ast.unparse(a)}")
        if isinstance(a, ast.Subscript) and isinstance(a.value, ast.Name):
            args = list(a.slice.elts) if isinstance(a.slice, ast.Tuple) else [a.slice]
            h = a.value.id
            if h == "tuple":
                return "(" + " × ".join(self.ty(x) for x in args) + ")"
            if h in ("list", "Iterable") and len(args) == 1:
                return f"(List {self.ty(args[0])})"
            if h == "set" and len(args) == 1:
                return f"({PYR}PySet {self.ty(args[0])})"
            if h == "dict" and len(args) == 2:
                if isinstance(args[1], ast.Subscript) and isinstance(args[1].value, ast.Name) and args[1].value.id == c.registry_annotation \
                        and isinstance(args[0], ast.Name) and args[0].id == "str":
                    return PYR + "Registry"
                return f"({PYR}Dict {self.ty(args[0])} {self.ty(args[1])})"
        raise Unsupported(f"type {ast.unparse(a)}")

    def is_erased_ann(self, name: str) -> bool:
        return name in self.cfg.erased

    # ------------------------------------------------------------------ dataclasses
    def dataclass_fields(self, name: str) -> list[tuple[str, ast.expr, ast.expr | None]]:
        cls = self.classes.get(name)
        if cls is None:
            raise Unsupported(f"class {name} not found")
        decs = [ast.unparse(d) for d in cls.decorator_list]
        if not any(d.startswith("dataclass") for d in decs) or "frozen=True" not in "".join(decs):
            raise Unsupported(f"{name} is not a frozen dataclass")
        if cls.bases:
            raise Unsupported(f"{name} has base classes")
        out = []
        for st in cls.body:
            if isinstance(st, ast.Pass) or (isinstance(st, ast.Expr) and isinstance(st.value, ast.Constant) and isinstance(st.value.value, str)):
                continue
            if isinstance(st, ast.AnnAssign) and isinstance(st.target, ast.Name):
                out.append((st.target.id, st.annotation, st.value))
                continue
            raise Unsupported(f"{name}: member {ast.unparse(st)[:50]}")
        return out

    def record(self, name: str) -> str:
        fs = self.dataclass_fields(name)
        lines = []
        for f, ann, dflt in fs:
            d = ""
            if dflt is not None:
                if not (isinstance(dflt, ast.Constant) and dflt.value is None):
                    raise Unsupported(f"{name}.{f}: default {ast.unparse(dflt)}")
                d = " := none"
            lines.append(f"  {ident(f)} : {self.ty(ann)}{d}")
        self.struct_fields[name] = [(f, self.ty(ann)) for f, ann, _ in fs]
        return (f"/-- the frozen dataclass `{name}` ({', '.join(ast.unparse(a) and f + ': ' + ast.unparse(a) for f, a, _ in fs)}) -/\n"
                f"structure {self.cfg.prefix}{name} where\n" + "\n".join(lines) + "\nderiving DecidableEq, Repr, Inhabited\n")

    def obj_accessors(self) -> tuple[str, dict]:
        table, seen, out = {}, [], []
        for c in self.cfg.obj_classes:
            fs = self.dataclass_fields(c)
            for f, ann, dflt in fs:
                if not (isinstance(ann, ast.Name) and ann.id == "str") or dflt is not None:
                    raise Unsupported(f"{c}.{f}: only `str` fields without defaults")
                if f not in seen:
                    seen.append(f)
            table[c] = [f for f, _, _ in fs]
        for f in seen:
            out.append(f"/-- `o.{f}` on an object of the userset-expression kind -/\n"
                       f"def _root_.Rbacx.PyR.Obj.{ident(f)} (o : {PYR}Obj) : String := o.attr {lean_str(f)}\n")
        rows = ", ".join(f"({lean_str(c)}, [{', '.join(lean_str(f) for f in fs)}])" for c, fs in table.items())
        out.append(f"/-- the object classes (frozen dataclasses with `str` fields) and their fields in declaration order -/\n"
                   f"def {self.cfg.prefix}obj_classes : List (String × List String) := [{rows}]\n")
        alias = [n for n in self.tree.body if isinstance(n, ast.Assign) and len(n.targets) == 1 and isinstance(n.targets[0], ast.Name)
                 and n.targets[0].id == self.cfg.obj_alias]
        if len(alias) != 1:
            raise Unsupported(f"alias {self.cfg.obj_alias} not found")
        parts = []
        v = alias[0].value
        while isinstance(v, ast.BinOp) and isinstance(v.op, ast.BitOr):
            parts.insert(0, v.right)
            v = v.left
        parts.insert(0, v)
        names = [p.id for p in parts if isinstance(p, ast.Name)]
        lists = [p for p in parts if not isinstance(p, ast.Name)]
        if sorted(names) != sorted(self.cfg.obj_classes) or len(lists) != 1 or "list[" not in ast.unparse(lists[0]):
            raise Unsupported(f"{self.cfg.obj_alias} = {ast.unparse(alias[0].value)}: expected the union of {self.cfg.obj_classes} and list[...]")
        return "\n".join(out), table

    # ------------------------------------------------------------------ classes with an attribute-storing __init__
    def class_struct(self, cname: str) -> str:
        cls = self.classes.get(cname)
        if cls is None:
            raise Unsupported(f"class {cname} not found")
        fns = {n.name: n for n in cls.body if isinstance(n, ast.FunctionDef)}
        if "__init__" not in fns:
            raise Unsupported(f"{cname} has no __init__")
        init = fns["__init__"]
        a = init.args
        if a.vararg or a.kwarg or a.posonlyargs:
            raise Unsupported(f"signature of {cname}.__init__")
        params = [(x.arg, x.annotation) for x in a.args[1:] + a.kwonlyargs]
        ptypes = {p: self.ty(ann) for p, ann in params}
        lean = self.cfg.prefix + self.cfg.classes[cname]
        fields: list[tuple[str, str, str]] = []
        self.cur = {"self": "self", "locals": set(ptypes), "bound": set(ptypes), "sets": set(), "lists": set(), "dicts": set(), "cls": None,
                    "erased": set(), "order": [], "notes": [], "indexed": [], "subst": {}}
        for st in init.body:
            if isinstance(st, ast.Expr) and isinstance(st.value, ast.Constant):
                continue
            tgt = st.targets[0] if isinstance(st, ast.Assign) and len(st.targets) == 1 else st.target if isinstance(st, ast.AnnAssign) else None
            if not (isinstance(tgt, ast.Attribute) and isinstance(tgt.value, ast.Name) and tgt.value.id == "self") or st.value is None:
                raise Unsupported(f"{cname}.__init__: {ast.unparse(st)[:60]}")
            v = st.value
            if isinstance(st, ast.AnnAssign):
                t = self.ty(st.annotation)
                val = f"({self.E(v)} : {t})"
            elif isinstance(v, ast.Name) and v.id in ptypes:
                t, val = ptypes[v.id], ident(v.id)
            elif isinstance(v, ast.BoolOp) and isinstance(v.op, ast.Or) and len(v.values) == 2 and isinstance(v.values[0], ast.Name) \
                    and v.values[0].id in ptypes and isinstance(v.values[1], ast.Dict) and not v.values[1].keys:
                pt = ptypes[v.values[0].id]
                if not pt.startswith("(Option "):
                    raise Unsupported(f"{cname}.__init__: {ast.unparse(v)} on a non-optional parameter")
                t, val = pt[len("(Option "):-1], f"({PYR}orEmpty {ident(v.values[0].id)})"
            else:
                raise Unsupported(f"{cname}.__init__: stored value {ast.unparse(v)[:60]}")
            if tgt.attr in [f for f, _, _ in fields]:
                raise Unsupported(f"{cname}.__init__ stores self.{tgt.attr} twice")
            fields.append((tgt.attr, t, val))
        for name, fn in fns.items():
            if name == "__init__":
                continue
            for n in ast.walk(fn):
                if isinstance(n, ast.Attribute) and isinstance(n.ctx, (ast.Store, ast.Del)):
                    raise Unsupported(f"{cname}.{name} stores to an attribute")
        self.struct_fields[cname] = [(f, t) for f, t, _ in fields]
        dflts = [f"`{x.arg}={ast.unparse(d)}`" for x, d in list(zip(a.args[len(a.args) - len(a.defaults):], a.defaults))
                 + [(x, d) for x, d in zip(a.kwonlyargs, a.kw_defaults) if d is not None]]
        struct = (f"/-- what `{cname}.__init__` stores -/\nstructure {lean} where\n"
                  + "\n".join(f"  {ident(f)} : {t}" for f, t, _ in fields) + "\n")
        ps = " ".join(f"({ident(p)} : {ptypes[p]})" for p, _ in params)
        init_def = (f"/-- `{cname}({', '.join(p for p, _ in params)})`" + (f"; defaults {', '.join(dflts)}: callers pass every argument" if dflts else "")
                    + f" -/\ndef {lean}_init {ps} : {lean} :=\n  {{ " + ", ".join(f"{ident(f)} := {val}" for f, _, val in fields) + " }\n")
        return struct + "\n" + init_def

    # ------------------------------------------------------------------ expressions
    def fresh(self, base: str) -> str:
        self.tmp += 1
        return f"{base}{self.tmp}"

    def test(self, e: ast.expr) -> str:
        """a Bool"""
        if isinstance(e, (ast.Compare, ast.BoolOp)) or (isinstance(e, ast.UnaryOp) and isinstance(e.op, ast.Not)) \
                or (isinstance(e, ast.Call) and isinstance(e.func, ast.Name) and e.func.id == "isinstance") \
                or (isinstance(e, ast.Constant) and isinstance(e.value, bool)):
            return self.E(e)
        return f"({PYR}truthy {self.E(e)})"

    def E(self, e: ast.expr) -> str:
        c, cur = self.cfg, self.cur
        if isinstance(e, ast.Name):
            if e.id in cur["erased"]:
                raise Unsupported(f"the erased parameter {e.id} is used as a value")
            if e.id in cur.get("subst", {}):
                return cur["subst"][e.id]
            if e.id not in cur["locals"]:
                raise Unsupported(f"name {e.id}")
            if e.id not in cur["bound"]:
                raise Unsupported(f"variable {e.id} may be read before it is bound")
            return ident(e.id)
        if isinstance(e, ast.Constant):
            v = e.value
            if isinstance(v, bool):
                return "true" if v else "false"
            if isinstance(v, int):
                return f"({v} : Int)"
            if isinstance(v, str):
                return lean_str(v)
            if v is None:
                return "none"
            raise Unsupported(f"constant {v!r}")
        if isinstance(e, ast.Tuple):
            if not e.elts:
                return "[]"
            return "(" + ", ".join(self.E(x) for x in e.elts) + ")"
        if isinstance(e, ast.List):
            return "[" + ", ".join(self.E(x) for x in e.elts) + "]"
        if isinstance(e, ast.Dict) and not e.keys:
            return PYR + "Dict.empty"
        if isinstance(e, ast.Attribute):
            if isinstance(e.value, ast.Name) and e.value.id == cur["self"]:
                if e.attr not in [f for f, _ in self.struct_fields.get(cur["cls"], [])]:
                    raise Unsupported(f"self.{e.attr}")
                return f"self.{ident(e.attr)}"
            return f"{self.E(e.value)}.{ident(e.attr)}"
        if isinstance(e, ast.Compare) and len(e.ops) == 1:
            a, b, op = e.left, e.comparators[0], e.ops[0]
            if isinstance(op, (ast.Is, ast.IsNot)):
                if not (isinstance(b, ast.Constant) and b.value is None):
                    raise Unsupported(f"{ast.unparse(e)}")
                t = f"({PYR}isNone {self.E(a)})"
                return t if isinstance(op, ast.Is) else f"(!{t})"
            if isinstance(op, (ast.In, ast.NotIn)):
                if isinstance(b, ast.Name) and b.id in cur["sets"] | cur["lists"] | cur["dicts"]:
                    pass
                t = f"({PYR}isIn {self.E(a)} {self.E(b)})"
                return t if isinstance(op, ast.In) else f"(!{t})"
            ops = {ast.Eq: "==", ast.NotEq: "!="}
            if type(op) in ops:
                return f"({self.E(a)} {ops[type(op)]} {self.E(b)})"
            rel = {ast.Gt: ">", ast.Lt: "<", ast.GtE: "≥", ast.LtE: "≤"}
            if type(op) in rel:
                return f"(decide ({self.E(a)} {rel[type(op)]} {self.E(b)}))"
        if isinstance(e, ast.UnaryOp) and isinstance(e.op, ast.Not):
            return f"(!{self.test(e.operand)})"
        if isinstance(e, ast.BoolOp):
            if isinstance(e.op, ast.Or) and len(e.values) == 2 and isinstance(e.values[1], ast.Dict) and not e.values[1].keys:
                return f"({PYR}orEmpty {self.E(e.values[0])})"
            sym = "&&" if isinstance(e.op, ast.And) else "||"
            return "(" + f" {sym} ".join(self.test(v) for v in e.values) + ")"
        if isinstance(e, ast.BinOp) and isinstance(e.op, (ast.Add, ast.Mult, ast.Sub)):
            sym = {ast.Add: "+", ast.Mult: "*", ast.Sub: "-"}[type(e.op)]
            return f"({self.E(e.left)} {sym} {self.E(e.right)})"
        if isinstance(e, ast.Subscript) and isinstance(e.value, ast.Name) and e.value.id in cur["dicts"]:
            return f"({PYR}Dict.getItem {self.E(e.value)} {self.E(e.slice)})"
        if isinstance(e, ast.Call):
            return self.call(e)
        raise Unsupported(f"expression {ast.unparse(e)[:60]}")

    def call_args(self, e: ast.Call, fn: ast.FunctionDef, skip_self: bool) -> list[str]:
        """arguments of a call of a translated function, in the order of its parameters, erased ones dropped"""
        a = fn.args
        names = [x.arg for x in a.args][1 if skip_self else 0:]
        kw = [x.arg for x in a.kwonlyargs]
        got: dict[str, ast.expr] = {}
        if len(e.args) > len(names):
            raise Unsupported(f"too many arguments: {ast.unparse(e)[:60]}")
        for n, v in zip(names, e.args):
            got[n] = v
        for k in e.keywords:
            if k.arg is None or k.arg not in names + kw or k.arg in got:
                raise Unsupported(f"keyword in {ast.unparse(e)[:60]}")
            got[k.arg] = k.value
        out = []
        for n in names + kw:
            if n in self.cfg.erased:
                if n in got and not (isinstance(got[n], ast.Name) and got[n].id in self.cur["erased"]):
                    raise Unsupported(f"erased parameter {n} given a value other than the caller's own: {ast.unparse(e)[:60]}")
                continue
            if n not in got:
                raise Unsupported(f"argument {n} missing in {ast.unparse(e)[:60]} (defaults are not applied)")
            out.append(self.E(got[n]))
        return out

    def call(self, e: ast.Call) -> str:
        c, cur = self.cfg, self.cur
        f = e.func
        if isinstance(f, ast.Name) and f.id not in cur["locals"]:
            if f.id == "isinstance" and len(e.args) == 2 and isinstance(e.args[1], ast.Name):
                k = e.args[1].id
                if k == "list":
                    return f"({PYR}Obj.isList {self.E(e.args[0])})"
                if k in c.obj_classes:
                    return f"({PYR}Obj.isInst {self.E(e.args[0])} {lean_str(k)})"
                raise Unsupported(f"isinstance(…, {k})")
            if f.id == "set" and not e.args and not e.keywords:
                return PYR + "setEmpty"
            if f.id in c.records:
                fs = [x for x, _ in self.struct_fields[f.id]]
                got = dict(zip(fs, e.args))
                for k in e.keywords:
                    if k.arg not in fs or k.arg in got:
                        raise Unsupported(f"{ast.unparse(e)[:60]}")
                    got[k.arg] = k.value
                return "({ " + ", ".join(f"{ident(k)} := {self.E(v)}" for k, v in got.items()) + f" }} : {c.prefix}{f.id})"
            if f.id in c.functions and f.id in self.sig:
                return "(" + " ".join([self.sig[f.id]["lean"]] + self.call_args(e, self.funcs[f.id], False)) + ")"
            raise Unsupported(f"call of {f.id}")
        if isinstance(f, ast.Attribute):
            recv = f.value
            # self.m(...)
            if isinstance(recv, ast.Name) and recv.id == cur["self"]:
                key = f"{cur['cls']}.{f.attr}"
                if key not in self.sig and key != cur.get("key"):
                    raise Unsupported(f"call of the untranslated method {key}")
                s = self.sig.get(key) or cur["sigself"]
                if s.get("fuel") or s.get("clock") or s.get("mutates"):
                    raise Unsupported(f"call of {key} (it loops, reads the clock or mutates): make it an indexed external")
                fn = next(n for n in self.classes[cur["cls"]].body if isinstance(n, ast.FunctionDef) and n.name == f.attr)
                return "(" + " ".join([s["lean"], "self"] + self.call_args(e, fn, True)) + ")"
            # self.attr.m(...) for an attribute that is a translated class
            if isinstance(recv, ast.Attribute) and isinstance(recv.value, ast.Name) and recv.value.id == cur["self"]:
                at = dict(self.struct_fields.get(cur["cls"], [])).get(recv.attr)
                owner = next((p for p, l in c.classes.items() if c.prefix + l == at), None)
                if owner is not None:
                    key = f"{owner}.{f.attr}"
                    if key not in self.sig or self.sig[key].get("mutates"):
                        raise Unsupported(f"call of {key}")
                    fn = next(n for n in self.classes[owner].body if isinstance(n, ast.FunctionDef) and n.name == f.attr)
                    return "(" + " ".join([self.sig[key]["lean"], self.E(recv)] + self.call_args(e, fn, True)) + ")"
            if f.attr == "get" and not e.keywords and len(e.args) == 1:
                return f"({PYR}get {self.E(recv)} {self.E(e.args[0])})"
            if f.attr == "get" and not e.keywords and len(e.args) == 2:
                return f"({PYR}Dict.getD {self.E(recv)} {self.E(e.args[0])} {self.E(e.args[1])})"
            if f.attr == "partition" and not e.keywords and len(e.args) == 1 and isinstance(e.args[0], ast.Constant) \
                    and isinstance(e.args[0].value, str) and len(e.args[0].value) == 1:
                ch = e.args[0].value
                if not (32 < ord(ch) < 127) or ch in "'\\":
                    raise Unsupported(f"partition separator {ch!r}")
                return f"({PYR}partitionChar {self.E(recv)} '{ch}')"
        raise Unsupported(f"call {ast.unparse(e)[:60]}")

    # ------------------------------------------------------------------ hoisting of clock reads / indexed externals
    def is_clock(self, n: ast.AST) -> bool:
        return (isinstance(n, ast.Call) and isinstance(n.func, ast.Attribute) and n.func.attr == self.cfg.clock[1]
                and isinstance(n.func.value, ast.Name) and n.func.value.id == self.cfg.clock[0] and not n.args and not n.keywords)

    def is_indexed(self, n: ast.AST) -> bool:
        return (isinstance(n, ast.Call) and isinstance(n.func, ast.Attribute) and isinstance(n.func.value, ast.Name)
                and n.func.value.id == self.cur["self"] and n.func.attr in self.cur["indexed"])

    def hoist(self, e: ast.expr, ind: str) -> tuple[str, ast.expr]:
        """(`let`s for the effectful calls of `e` in evaluation order, `e` with them replaced by fresh names)"""
        pre = []

        class R(ast.NodeTransformer):
            def visit_Call(s, n):  # noqa: N805
                n = s.generic_visit(n)           # arguments first (evaluation order)
                if self.is_clock(n):
                    v = self.fresh("now")
                    pre.append(f"let {v} := clock clk\n{ind}let clk := clk + 1\n{ind}")
                elif self.is_indexed(n):
                    v = self.fresh("ext")
                    m = n.func.attr
                    fn = next(x for x in self.classes[self.cur["cls"]].body if isinstance(x, ast.FunctionDef) and x.name == m)
                    args = self.call_args(n, fn, True)
                    pre.append(f"let {v} := {ident(m)} calls {' '.join(args)}\n{ind}let calls := calls + 1\n{ind}")
                else:
                    return n
                self.cur["locals"].add(v)
                self.cur["bound"].add(v)
                return ast.copy_location(ast.Name(v, ast.Load()), n)
        import copy
        e2 = R().visit(copy.deepcopy(e))
        return "".join(pre), e2

    # ------------------------------------------------------------------ statements
    def unpack(self, tgt: ast.expr, src: str, ind: str) -> str:
        """bind the target(s) of an assignment / loop to the value named `src`"""
        if isinstance(tgt, ast.Name):
            self.cur["bound"].add(tgt.id)
            return "" if ident(tgt.id) == src else f"let {ident(tgt.id)} := {src}\n{ind}"
        if isinstance(tgt, ast.Tuple) and all(isinstance(x, ast.Name) for x in tgt.elts) and len(tgt.elts) >= 2:
            out, n = "", len(tgt.elts)
            for i, x in enumerate(tgt.elts):
                if x.id == "_":
                    continue
                out += f"let {ident(x.id)} := {src}" + ".2" * i + ("" if i == n - 1 else ".1") + f"\n{ind}"
                self.cur["bound"].add(x.id)
            return out
        raise Unsupported(f"assignment target {ast.unparse(tgt)[:40]}")

    def S(self, stmts: list[ast.stmt], ind: str, ctx: Ctx) -> str:
        saved = set(self.cur["bound"])
        try:
            return self._S(stmts, ind, ctx)
        finally:
            self.cur["bound"] = saved

    def is_logger_call(self, st: ast.stmt) -> bool:
        return (isinstance(st, ast.Expr) and isinstance(st.value, ast.Call) and isinstance(st.value.func, ast.Attribute)
                and isinstance(st.value.func.value, ast.Name) and st.value.func.value.id in self.cfg.loggers)

    def _S(self, stmts, ind, ctx) -> str:
        cur = self.cur
        if not stmts:
            return ctx.end
        st, rest = stmts[0], stmts[1:]
        if isinstance(st, ast.Pass) or (isinstance(st, ast.Expr) and isinstance(st.value, ast.Constant)) or self.is_logger_call(st) \
                or (isinstance(st, ast.AnnAssign) and st.value is None):
            return self.S(rest, ind, ctx)
        if isinstance(st, ast.Return):
            if st.value is None:
                return ctx.ret(None)
            pre, v = self.hoist(st.value, ind)
            return pre + ctx.ret(self.E(v))
        if isinstance(st, ast.Continue):
            if ctx.cont is None:
                raise Unsupported("continue outside a loop")
            return ctx.cont
        if isinstance(st, ast.If):
            pre, t = self.hoist(st.test, ind)
            i2 = ind + "  "
            return (f"{pre}if {self.test(t)} then\n{i2}{self.S(st.body + rest, i2, ctx)}\n{ind}else\n{i2}{self.S(st.orelse + rest, i2, ctx)}")
        if isinstance(st, (ast.Assign, ast.AnnAssign)):
            tgt = st.targets[0] if isinstance(st, ast.Assign) else st.target
            if isinstance(st, ast.Assign) and len(st.targets) != 1:
                raise Unsupported("chained assignment")
            v = st.value
            # d[k] = v on a local dict
            if isinstance(tgt, ast.Subscript) and isinstance(tgt.value, ast.Name) and tgt.value.id in cur["dicts"]:
                d = tgt.value.id
                pre, v2 = self.hoist(v, ind)
                return (f"{pre}let {ident(d)} := {PYR}Dict.setItem {ident(d)} {self.E(tgt.slice)} {self.E(v2)}\n{ind}" + self.S(rest, ind, ctx))
            # x = xs.pop(0)
            if isinstance(v, ast.Call) and isinstance(v.func, ast.Attribute) and v.func.attr == "pop":
                xs = v.func.value
                if not (isinstance(xs, ast.Name) and xs.id in cur["lists"] and len(v.args) == 1 and isinstance(v.args[0], ast.Constant)
                        and v.args[0].value == 0 and not v.keywords):
                    raise Unsupported(f"{ast.unparse(v)}: only `xs.pop(0)` on a list built in this function")
                t = self.fresh("popped")
                a = f"let {t} := {PYR}pop0 {self.E(xs)}\n{ind}let {ident(xs.id)} := {PYR}afterPop0 {self.E(xs)}\n{ind}"
                a += self.unpack(tgt, t, ind)
                return a + self.S(rest, ind, ctx)
            pre, v2 = self.hoist(v, ind)
            val = self.E(v2)
            if isinstance(st, ast.AnnAssign):
                val = f"({val} : {self.ty(st.annotation)})"
            if isinstance(tgt, ast.Name):
                cur["bound"].add(tgt.id)
                return f"{pre}let {ident(tgt.id)} := {val}\n{ind}" + self.S(rest, ind, ctx)
            t = self.fresh("tup")
            a = f"{pre}let {t} := {val}\n{ind}" + self.unpack(tgt, t, ind)
            return a + self.S(rest, ind, ctx)
        if isinstance(st, ast.Expr) and isinstance(st.value, ast.Call) and isinstance(st.value.func, ast.Attribute):
            cl = st.value
            r, m = cl.func.value, cl.func.attr
            if isinstance(r, ast.Name) and m == "add" and r.id in cur["sets"] and len(cl.args) == 1 and not cl.keywords:
                return f"let {ident(r.id)} := {PYR}setAdd {self.E(r)} {self.E(cl.args[0])}\n{ind}" + self.S(rest, ind, ctx)
            if isinstance(r, ast.Name) and m == "append" and r.id in cur["lists"] and len(cl.args) == 1 and not cl.keywords:
                pre, a2 = self.hoist(cl.args[0], ind)
                return f"{pre}let {ident(r.id)} := {self.E(r)} ++ [{self.E(a2)}]\n{ind}" + self.S(rest, ind, ctx)
            # self.attr.setdefault(k, []).append(v)
            if m == "append" and isinstance(r, ast.Call) and isinstance(r.func, ast.Attribute) and r.func.attr == "setdefault" \
                    and isinstance(r.func.value, ast.Attribute) and isinstance(r.func.value.value, ast.Name) and r.func.value.value.id == cur["self"] \
                    and len(r.args) == 2 and isinstance(r.args[1], ast.List) and not r.args[1].elts and len(cl.args) == 1 and cur.get("mutates"):
                at = ident(r.func.value.attr)
                return (f"let self := {{ self with {at} := {PYR}Dict.setdefaultAppend self.{at} {self.E(r.args[0])} {self.E(cl.args[0])} }}\n{ind}"
                        + self.S(rest, ind, ctx))
            raise Unsupported(f"statement {ast.unparse(st)[:60]}")
        if isinstance(st, ast.AugAssign) and isinstance(st.target, ast.Name) and isinstance(st.op, (ast.Add, ast.Sub)) \
                and st.target.id not in cur["lists"] | cur["sets"] | cur["dicts"]:
            pre, v2 = self.hoist(st.value, ind)
            x = self.E(ast.Name(st.target.id, ast.Load()))
            return f"{pre}let {x} := {x} {'+' if isinstance(st.op, ast.Add) else '-'} {self.E(v2)}\n{ind}" + self.S(rest, ind, ctx)
        if isinstance(st, ast.Try):
            return self.try_stmt(st, rest, ind, ctx)
        if isinstance(st, ast.For):
            return self.for_stmt(st, rest, ind, ctx)
        if isinstance(st, ast.While):
            return self.while_stmt(st, rest, ind, ctx)
        raise Unsupported(f"statement {ast.unparse(st)[:60]}")

    # -- try around one registry call
    def try_stmt(self, st: ast.Try, rest, ind, ctx) -> str:
        if st.orelse or st.finalbody or len(st.handlers) != 1:
            raise Unsupported("try with else/finally/several handlers")
        h = st.handlers[0]
        if not (isinstance(h.type, ast.Name) and h.type.id == "Exception"):
            raise Unsupported("only `except Exception`")
        calls = [n for b in st.body for n in ast.walk(b) if isinstance(n, ast.Call)]
        # the one raising operation: bool(pred(<erased>))
        def is_reg_call(n):
            return (isinstance(n, ast.Call) and isinstance(n.func, ast.Name) and n.func.id == "bool" and len(n.args) == 1
                    and isinstance(n.args[0], ast.Call) and isinstance(n.args[0].func, ast.Name) and n.args[0].func.id in self.cur["locals"]
                    and len(n.args[0].args) == 1 and isinstance(n.args[0].args[0], ast.Name) and n.args[0].args[0].id in self.cur["erased"]
                    and not n.args[0].keywords and not n.keywords)
        reg = [n for n in calls if is_reg_call(n)]
        if len(reg) != 1 or len(calls) != 2:
            raise Unsupported("try body: expected exactly one `bool(pred(context))` and no other call")
        if len(st.body) != 1:
            raise Unsupported("try body: one statement expected")
        b = st.body[0]
        ok = (isinstance(b, ast.Return) and b.value is reg[0]) or \
             (isinstance(b, ast.If) and b.test is reg[0] and not b.orelse and len(b.body) == 1 and isinstance(b.body[0], ast.Return)
              and isinstance(b.body[0].value, ast.Constant))
        if not ok:
            raise Unsupported("try body: `return bool(pred(context))` or `if bool(pred(context)): return <constant>` expected")
        pred = reg[0].args[0].func.id
        bname = self.fresh("truth")
        import copy
        body = copy.deepcopy(st.body)
        for n in ast.walk(body[0]):
            for fld, val in ast.iter_fields(n):
                if isinstance(val, ast.Call) and is_reg_call(val):
                    setattr(n, fld, ast.Name(bname, ast.Load()))
        i2 = ind + "  "
        saved = set(self.cur["bound"])
        self.cur["locals"].add(bname)
        self.cur["bound"].add(bname)
        okb = self.S(body + rest, i2, ctx)
        self.cur["bound"] = set(saved)
        if h.name:
            self.cur["erased"].add(h.name)      # the exception object: only logged
        hb = self.S(h.body + rest, i2, ctx)
        self.cur["bound"] = saved
        return (f"match {PYR}callBool {self.E(ast.Name(pred, ast.Load()))} with\n{ind}| .raises =>\n{i2}{hb}\n{ind}| .returns {bname} =>\n{i2}{okb}")

    # -- loops
    def assigned(self, body: list[ast.stmt]) -> list[str]:
        out = []
        for b in body:
            for n in ast.walk(b):
                name = None
                if isinstance(n, ast.Name) and isinstance(n.ctx, ast.Store):
                    name = n.id
                elif isinstance(n, ast.Call) and isinstance(n.func, ast.Attribute) and n.func.attr in ("append", "add", "pop") \
                        and isinstance(n.func.value, ast.Name):
                    name = n.func.value.id
                elif isinstance(n, ast.Subscript) and isinstance(n.ctx, ast.Store) and isinstance(n.value, ast.Name):
                    name = n.value.id
                if name and name not in out:
                    out.append(name)
        return out

    def state_of(self, body: list[ast.stmt]) -> list[str]:
        hidden = []
        if any(self.is_clock(n) for b in body for n in ast.walk(b)):
            hidden.append("clk")
        if any(self.is_indexed(n) for b in body for n in ast.walk(b)):
            hidden.append("calls")
        a = self.assigned(body)
        return hidden + [v for v in self.cur["order"] if v in a and v in self.cur["bound"]]

    @staticmethod
    def proj(i: int, n: int) -> str:
        return "st" if n == 1 else "st" + ".2" * i + ("" if i == n - 1 else ".1")

    def open_state(self, state: list[str], ind: str, text: str | None = None) -> str:
        """bind the state variables (those the following `text` mentions, when given) to the components of `st`"""
        import re
        return "".join(f"let {ident(v)} := {self.proj(i, len(state))}\n{ind}" for i, v in enumerate(state)
                       if text is None or re.search(r"(?<![\w.'])" + re.escape(ident(v)) + r"(?![\w'])", text))

    def tup(self, state: list[str]) -> str:
        return ident(state[0]) if len(state) == 1 else "(" + ", ".join(ident(v) for v in state) + ")"

    def while_stmt(self, st: ast.While, rest, ind, ctx) -> str:
        if st.orelse:
            raise Unsupported("while/else")
        if self.cur.get("in_loop"):
            raise Unsupported("nested while")
        for b in st.body:
            for n in ast.walk(b):
                if isinstance(n, (ast.Break, ast.While, ast.With, ast.Raise, ast.Yield, ast.YieldFrom)):
                    raise Unsupported(f"{type(n).__name__} inside a while body")
        state = self.state_of(st.body)
        if not state:
            raise Unsupported("while loop without state")
        i2 = ind + "    "
        t = self.tup(state)
        cond = self.test(st.test)
        cond = self.open_state(state, i2, cond) + cond
        self.cur["in_loop"] = True
        try:
            body = self.open_state(state, i2) + self.S(st.body, i2, Ctx(lambda v: f"{PYR}Step.ret {v}" if v is not None else (_ for _ in ()).throw(Unsupported("bare return in a loop")),
                                                                         f"{PYR}Step.next {t}", f"{PYR}Step.next {t}"))
        finally:
            self.cur["in_loop"] = False
        after = self.S(rest, ind + "  ", ctx)
        after = self.open_state(state, ind + "  ", after) + after
        self.cur["notes"].append("`while " + ast.unparse(st.test) + "`: state (" + ", ".join(state) + "), budget `fuel`")
        return (f"match {PYR}whileRet fuel {t}\n{ind}    (fun st =>\n{i2}{cond})\n{ind}    (fun st =>\n{i2}{body}) with\n"
                f"{ind}| none => none\n{ind}| some (.ret v) => some v\n{ind}| some (.done st) =>\n{ind}  {after}")

    def for_stmt(self, st: ast.For, rest, ind, ctx) -> str:
        if st.orelse:
            raise Unsupported("for/else")
        for b in st.body:
            for n in ast.walk(b):
                if isinstance(n, (ast.Break, ast.While, ast.With, ast.Raise, ast.For)):
                    raise Unsupported(f"{type(n).__name__} inside a for body")
        has_ret = any(isinstance(n, ast.Return) for b in st.body for n in ast.walk(b))
        state = self.state_of(st.body)
        x = self.fresh("x")
        pre, it = self.hoist(st.iter, ind)
        items = f"({PYR}iter {self.E(it)})"
        i2 = ind + "    "
        saved = set(self.cur["bound"])
        if has_ret:
            if state:
                raise Unsupported("a for loop that both returns and carries state")
            un = self.unpack(st.target, x, i2)
            body = self.S(st.body, i2, Ctx(lambda v: f"some {v}" if v is not None else (_ for _ in ()).throw(Unsupported("bare return in a loop")), "none", "none"))
            self.cur["bound"] = saved
            after = self.S(rest, ind + "  ", ctx)
            # the value of the statements after the loop must not be `Option`-wrapped twice: forRet works at the type of `ctx`
            return f"{pre}{PYR}forRet {items}\n{ind}  (fun {x} =>\n{i2}{un}{body})\n{ind}  ({after})"
        if len(state) == 1 and state[0] in self.cur["lists"] and self.append_only(st.body, state[0]):
            acc = state[0]
            un = self.unpack(st.target, x, i2)
            body = self.G(st.body, i2, acc)
            self.cur["bound"] = saved
            return (f"{pre}let {ident(acc)} := {ident(acc)} ++ {items}.flatMap (fun {x} =>\n{i2}{un}{body})\n{ind}" + self.S(rest, ind, ctx))
        if not state:
            raise Unsupported("for loop without effect")
        t = self.tup(state)
        un = self.unpack(st.target, x, i2)
        body = self.open_state(state, i2) + un + self.S(st.body, i2, Ctx(lambda v: (_ for _ in ()).throw(Unsupported("return")), t, t))
        self.cur["bound"] = saved
        s = self.fresh("st")
        after = self.S(rest, ind, ctx)
        after = self.open_state(state, ind, after).replace("st.", s + ".").replace(":= st\n", f":= {s}\n") + after
        return f"{pre}let {s} := {PYR}forState {items} {t} (fun st {x} =>\n{i2}{body})\n{ind}{after}"

    def append_only(self, body: list[ast.stmt], acc: str) -> bool:
        for b in body:
            if isinstance(b, ast.If):
                if not (self.append_only(b.body, acc) and self.append_only(b.orelse, acc)):
                    return False
            elif isinstance(b, (ast.Continue, ast.Pass)):
                pass
            elif isinstance(b, ast.Expr) and isinstance(b.value, ast.Call) and isinstance(b.value.func, ast.Attribute) \
                    and b.value.func.attr == "append" and isinstance(b.value.func.value, ast.Name) and b.value.func.value.id == acc:
                pass
            elif isinstance(b, (ast.Assign, ast.AnnAssign)) and acc not in self.assigned([b]):
                pass
            else:
                return False
        return True

    # -- generator bodies / append-only bodies: the list of what is yielded (appended to `acc`)
    def G(self, stmts: list[ast.stmt], ind: str, acc: str | None = None, in_for: bool = False) -> str:
        saved = set(self.cur["bound"])
        try:
            return self._G(stmts, ind, acc, in_for)
        finally:
            self.cur["bound"] = saved

    def _G(self, stmts, ind, acc, in_for) -> str:
        if not stmts:
            return "[]"
        st, rest = stmts[0], stmts[1:]
        nxt = lambda: self.G(rest, ind, acc, in_for)  # noqa: E731
        if isinstance(st, ast.Pass) or (isinstance(st, ast.Expr) and isinstance(st.value, ast.Constant)) or self.is_logger_call(st):
            return nxt()
        if isinstance(st, ast.Return):
            if st.value is not None or acc is not None:
                raise Unsupported("return with a value in a generator / return in an append-only loop")
            if in_for:
                raise Unsupported("return inside a for loop of a generator")
            return "[]"
        if isinstance(st, ast.Continue):
            if not (in_for or acc is not None):
                raise Unsupported("continue outside a loop")
            return "[]"
        if isinstance(st, ast.If):
            i2 = ind + "  "
            return f"if {self.test(st.test)} then\n{i2}{self.G(st.body + rest, i2, acc, in_for)}\n{ind}else\n{i2}{self.G(st.orelse + rest, i2, acc, in_for)}"
        if isinstance(st, (ast.Assign, ast.AnnAssign)) and st.value is not None:
            tgt = st.targets[0] if isinstance(st, ast.Assign) else st.target
            if not isinstance(tgt, ast.Name) or (isinstance(st, ast.Assign) and len(st.targets) != 1):
                raise Unsupported(f"assignment {ast.unparse(st)[:50]}")
            val = self.E(st.value)
            self.cur["bound"].add(tgt.id)
            return f"let {ident(tgt.id)} := {val}\n{ind}" + nxt()
        if isinstance(st, ast.Expr) and isinstance(st.value, ast.Yield) and acc is None:
            if st.value.value is None:
                raise Unsupported("bare yield")
            return f"[{self.E(st.value.value)}] ++ " + nxt()
        if isinstance(st, ast.Expr) and isinstance(st.value, ast.YieldFrom) and acc is None:
            return f"{self.E(st.value.value)} ++ " + nxt()
        if acc is not None and isinstance(st, ast.Expr) and isinstance(st.value, ast.Call) and isinstance(st.value.func, ast.Attribute) \
                and st.value.func.attr == "append" and isinstance(st.value.func.value, ast.Name) and st.value.func.value.id == acc \
                and len(st.value.args) == 1:
            return f"[{self.E(st.value.args[0])}] ++ " + nxt()
        if isinstance(st, ast.For) and acc is None:
            if st.orelse or in_for:
                raise Unsupported("for/else or nested for in a generator")
            x = self.fresh("x")
            i2 = ind + "    "
            items = f"({PYR}iter {self.E(st.iter)})"
            saved = set(self.cur["bound"])
            un = self.unpack(st.target, x, i2)
            body = self.G(st.body, i2, None, True)
            self.cur["bound"] = saved
            return f"{items}.flatMap (fun {x} =>\n{i2}{un}{body}) ++\n{ind}" + nxt()
        raise Unsupported(f"statement {ast.unparse(st)[:60]} in a generator / append-only loop")

    # ------------------------------------------------------------------ functions
    def function(self, fn: ast.FunctionDef, cls: str | None, lean_name: str, key: str) -> str:
        c = self.cfg
        if fn.decorator_list:
            raise Unsupported(f"decorated {fn.name}")
        a = fn.args
        if a.vararg or a.kwarg or a.posonlyargs:
            raise Unsupported(f"signature of {fn.name}")
        pos = a.args[1:] if cls else a.args
        allp = pos + a.kwonlyargs
        erased = {x.arg for x in allp if x.arg in c.erased}
        params = [(x.arg, self.ty(x.annotation)) for x in allp if x.arg not in erased]
        stores = [n.id for n in ast.walk(fn) if isinstance(n, ast.Name) and isinstance(n.ctx, ast.Store)]
        order = []
        for n in sorted((n for n in ast.walk(fn) if isinstance(n, ast.Name) and isinstance(n.ctx, ast.Store)), key=lambda n: (n.lineno, n.col_offset)):
            if n.id not in order:
                order.append(n.id)
        locs = {p for p, _ in params} | set(stores)
        taken = {ident(v) for v in locs}
        for reserved in ("fuel", "st", "self", "clock", "clk", "calls", "v"):
            if reserved in taken:
                raise Unsupported(f"the source uses the name {reserved}")
        if len(taken) != len(locs):
            raise Unsupported("variable names clash after renaming")
        is_gen = any(isinstance(n, (ast.Yield, ast.YieldFrom)) for n in ast.walk(fn))
        has_while = any(isinstance(n, ast.While) for n in ast.walk(fn))
        indexed = c.indexed_externals.get(key, [])
        self.cur = {"self": a.args[0].arg if cls else None, "cls": cls, "locals": set(locs), "bound": {p for p, _ in params}, "erased": set(erased),
                    "sets": set(), "lists": set(), "dicts": set(), "order": order, "notes": [], "indexed": indexed, "key": key, "subst": {}}
        reads_clock = any(self.is_clock(n) for n in ast.walk(fn))
        uses_indexed = any(self.is_indexed(n) for n in ast.walk(fn))
        mutates = bool(cls) and any(isinstance(n, ast.Attribute) and n.attr == "setdefault" for n in ast.walk(fn))
        self.cur["mutates"] = mutates
        # fresh mutable locals
        for n in ast.walk(fn):
            if isinstance(n, (ast.Assign, ast.AnnAssign)) and n.value is not None:
                tg = n.targets[0] if isinstance(n, ast.Assign) else n.target
                if isinstance(tg, ast.Name):
                    v = n.value
                    kind = ("lists" if isinstance(v, ast.List) else "dicts" if isinstance(v, ast.Dict) and not v.keys else
                            "sets" if isinstance(v, ast.Call) and isinstance(v.func, ast.Name) and v.func.id == "set" and not v.args else None)
                    if kind:
                        if stores.count(tg.id) != 1:
                            raise Unsupported(f"the mutable local {tg.id} is bound more than once")
                        self.cur[kind].add(tg.id)
        for n in ast.walk(fn):
            if isinstance(n, ast.Call) and isinstance(n.func, ast.Attribute) and n.func.attr in ("append", "add", "pop") and isinstance(n.func.value, ast.Name):
                if n.func.value.id not in self.cur["lists"] | self.cur["sets"]:
                    raise Unsupported(f"in-place mutation of {n.func.value.id}, which is not a fresh local list/set")
        # mutable locals may not escape (be aliased): allowed uses only
        par = {id(ch): p for p in ast.walk(fn) for ch in ast.iter_child_nodes(p)}
        for n in ast.walk(fn):
            if isinstance(n, ast.Name) and isinstance(n.ctx, ast.Load) and n.id in self.cur["lists"] | self.cur["sets"] | self.cur["dicts"]:
                p = par[id(n)]
                ok = (isinstance(p, ast.Attribute) and isinstance(par[id(p)], ast.Call) and par[id(p)].func is p) \
                    or (isinstance(p, ast.Compare) and p.comparators and p.comparators[0] is n) \
                    or (isinstance(p, (ast.While, ast.If)) and p.test is n) \
                    or (isinstance(p, ast.Subscript) and p.value is n) \
                    or (isinstance(p, ast.Return) and n.id in self.cur["lists"])
                if not ok:
                    raise Unsupported(f"the mutable local {n.id} is used as a value ({ast.unparse(p)[:40]}): it could be aliased")
        ret_ty = self.ty(fn.returns)
        if mutates:
            if ret_ty != "Unit":
                raise Unsupported(f"{fn.name} mutates self and returns a value")
            ret_ty = c.prefix + c.classes[cls]
        sigself = {"lean": lean_name, "fuel": has_while, "clock": reads_clock, "mutates": mutates}
        self.cur["sigself"] = sigself
        head = ""
        if reads_clock:
            head += "let clk : Nat := 0\n  "
            self.cur["bound"].add("clk")
        if uses_indexed:
            head += "let calls : Nat := 0\n  "
        if is_gen:
            if has_while or reads_clock or mutates:
                raise Unsupported("generator with while / clock / mutation")
            body = self.G(fn.body, "  ")
        else:
            wrap = (lambda v: f"some {v}") if has_while else (lambda v: v)
            end = "self" if mutates else None

            def ret(v):
                if mutates:
                    if v is not None:
                        raise Unsupported("return of a value in a mutating method")
                    return "self"
                if v is None:
                    raise Unsupported("bare return")
                return wrap(v)
            body = self.S(fn.body, "  ", Ctx(ret, end or "«off-end»", None))
            if "«off-end»" in body:
                raise Unsupported(f"{fn.name} can run off its end (an implicit `return None`)")
        ps = ([f"(self : {c.prefix}{c.classes[cls]})"] if cls else []) + [f"({ident(p)} : {t})" for p, t in params]
        if reads_clock:
            ps.insert(1 if cls else 0, "(clock : Nat → Int)")
        extern_notes = []
        for m in indexed if uses_indexed else []:
            mfn = next(x for x in self.classes[cls].body if isinstance(x, ast.FunctionDef) and x.name == m)
            mps = [self.ty(x.annotation) for x in mfn.args.args[1:] + mfn.args.kwonlyargs if x.arg not in c.erased]
            ps.insert(1, f"({ident(m)} : Nat → " + " → ".join(mps + [self.ty(mfn.returns)]) + ")")
            extern_notes.append(f"`{ident(m)} j …`: what the j-th call of `self.{m}` in this invocation returns (the method is not unfolded here)")
        if has_while:
            ps.append("(fuel : Nat)")
            ret_ty = f"(Option {ret_ty})"
        term = ""
        rec = [n for n in ast.walk(fn) if isinstance(n, ast.Call) and isinstance(n.func, ast.Attribute) and isinstance(n.func.value, ast.Name)
               and cls and n.func.value.id == a.args[0].arg and n.func.attr == fn.name]
        if rec:
            fors = [n for n in ast.walk(fn) if isinstance(n, ast.For) and isinstance(n.iter, ast.Name) and n.iter.id in {p for p, _ in params}]
            if len(fors) != 1:
                raise Unsupported(f"recursion of {fn.name}: expected one `for e in <parameter>` around the recursive calls")
            p = fors[0].iter.id
            term = (f"termination_by sizeOf {ident(p)}\ndecreasing_by\n  all_goals simp_wf\n"
                    f"  all_goals exact {PYR}Obj.sizeOf_lt_of_mem_iter (by assumption)\n")
        notes = ([f"erased: {', '.join(sorted(erased))}"] if erased else []) \
            + (["`clock i`: the i-th reading of `time.perf_counter_ns()` in this call"] if reads_clock else []) + extern_notes + self.cur["notes"] \
            + (["result: `none` = the budget of `fuel` loop-body runs did not suffice"] if has_while else []) \
            + (["result: the object after the call (state passing)"] if mutates else []) \
            + (["result: the values the generator yields, in order"] if is_gen else [])
        doc = f"/-- `{(cls + '.') if cls else ''}{fn.name}`" + ("; " + "; ".join(notes) if notes else "") + " -/\n"
        self.sig[key] = dict(sigself, params=params, ret=ret_ty)
        return f"{doc.replace('-/', '- /') if False else doc}def {lean_name} {' '.join(ps)} : {ret_ty} :=\n  {head}{body}\n{term}"


def translate(source: str, cfg: Cfg) -> dict:
    """{"defs": [[lean name, text], …] in dependency order, "obj_classes": {class: [fields]}, "records": {class: [fields]}}"""
    tree = ast.parse(source)
    t = T(tree, cfg)
    defs: list[list[str]] = []
    for r in cfg.records:
        defs.append([cfg.prefix + r, t.record(r)])
    acc_text, table = t.obj_accessors()
    defs.append([cfg.prefix + "obj_classes", acc_text])
    for f in cfg.functions:
        if f not in t.funcs:
            raise Unsupported(f"function {f} not found")
        name = cfg.prefix + ident(f)
        defs.append([name, t.function(t.funcs[f], None, name, f)])
    for cname, methods in cfg.methods.items():
        defs.append([cfg.prefix + cfg.classes[cname], t.class_struct(cname)])
        fns = {n.name: n for n in t.classes[cname].body if isinstance(n, ast.FunctionDef)}
        if len(fns) != len([n for n in t.classes[cname].body if isinstance(n, (ast.FunctionDef, ast.AsyncFunctionDef))]):
            raise Unsupported(f"{cname}: async or duplicate methods")
        for m in methods:
            if m not in fns:
                raise Unsupported(f"method {cname}.{m} not found")
            name = f"{cfg.prefix}{cfg.classes[cname]}_{ident(m)}"
            defs.append([name, t.function(fns[m], cname, name, f"{cname}.{m}")])
    return {"defs": defs, "obj_classes": table, "records": {r: [f for f, _ in t.struct_fields[r]] for r in cfg.records},
            "signatures": {k: {"lean": v["lean"], "params": [p for p, _ in v["params"]], "fuel": v["fuel"], "clock": v["clock"]} for k, v in t.sig.items()}}


if __name__ == "__main__":
    import sys
    sys.path.insert(0, __file__.rsplit("/", 1)[0])
    from extractors import src_translation_rebac as plug
    print(plug.render(plug.extract(sys.argv[1])))
