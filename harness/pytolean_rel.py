"""Extension of harness/pytolean_except.py for the last hand-modelled pieces of the condition evaluator (core/policy.py):
`_parse_dt` (C04), `_canon_subject` / `_canon_resource` and the statement `if "rel" in cond: …` of `eval_condition` (C13).
Plugin: harness/extractors/src_translation_rel.py; meanings of the new operations: lean/Rbacx/Model/PyRel.lean.
Nothing the existing plugins emit changes: this is a subclass, used by the new plugin only.

A. MORE OF THE EXCEPTION-PASSING SUBSET (functions `… → Except CondErr PyVal`, as in pytolean_except.py):
  * positional parameters with constant defaults (`override: Any = None`): ordinary parameters; a call that omits them passes the constant;
  * f-strings whose fields have no conversion / format spec (`Rbacx.Py.fstr`, fields are `Rbacx.Py.strO o x`);
  * `d.get(k, default)` (`PyR.getDE`); `X.tzinfo is None` / `is not None` (`PyR.tzAwareE`: nothing else may be done with `.tzinfo`);
    `X.replace(tzinfo=timezone.utc)` (`PyR.replaceTzUtcE`);
  * `try: x = E  except C [as e]: <ends in raise/return>` followed by more statements (`PyE.tryBind`: only `E` is protected);
  * `x.update(E)` as a statement, for a local `x` bound by `x = dict(…)` and not stored anywhere before (`PyR.updateE`, value semantics);
  * EXTERNAL EXPRESSIONS (`ext_exprs`): a call `datetime.fromtimestamp(…)` / `datetime.fromisoformat(…)` is NOT translated — arguments
    included, it becomes an application of a function parameter (an OUTCOME function: value or raised class) to the local variables the
    expression reads.  The expression, with its variables renamed `v0, v1, …`, must be EXACTLY the text the plugin gives (the text the
    model's oracle field is documented to stand for), otherwise `Unsupported`: the reading "parameter = this expression" is pinned.

B. STATE-AND-EXCEPTION-PASSING translation of ONE statement range that reads ContextVars (`translate_rel_range`): the body of the first
  top-level `if <test>:` of a function whose test has the given text becomes `def name … : Rbacx.PyR.M PyVal` (`St → Except CondErr PyVal ×
  St`; the state = the content of the memo object + the list of checker calls, and it survives an exception).  Stateless operations are
  bound by `PyR.bindE`, stateful ones by `PyR.bind`.  ContextVars (`contextvars` = {python name: (kind, parameter)}):
  * kind `checker`: `c = CV.get()` binds `c` to a HANDLE (`None` when the parameter — an optional outcome function of the argument
    list — is absent); `c.check(a, b, c, context=d)` (exactly the configured method and argument shape) is `PyR.callChecker`: the call
    is recorded, then returns or raises;
  * kind `object`: `l = CV.get()` binds `l` to the parameter (a handle or `None`);
  * kind `state`: `m = CV.get()` makes `m` an ALIAS of the state: `isinstance(m, dict)` / `k in m` / `m[k]` / `m[k] = v` are
    `PyR.memoIsDict` / `memoContains` / `memoItem` / `memoSet` on the CURRENT content (`k` must be a local bound once, by a tuple display).
  Handles and aliases may occur only in these positions (and a handle as an argument of an external function); they are bound once.
  * `try: <body> except C [as e]: <handler>` where both FALL THROUGH and exactly one variable they assign is read afterwards
    (`PyR.tryCatch`); the other variables they assign may not be read afterwards; no `return` inside.
  * `logger.<level>(<names, constants>)` as a statement is skipped (logging is not modelled: it neither raises nor changes a result).
"""
from __future__ import annotations

import ast
import copy

import pytolean
from pytolean import Unsupported, ident, lean_str
from pytolean_except import ExceptTranslator, _ends, _loads

MARK = "«M»"       # prefix of a bind term that is `M`-typed (stateful)


def _canon(e: ast.expr, local: set[str]) -> tuple[str, list[str]]:
    """the text of an expression with its local variables renamed v0, v1, … in order of first occurrence"""
    names: list[str] = []
    e2 = copy.deepcopy(e)
    for n in ast.walk(e2):
        if isinstance(n, ast.Name) and n.id in local:
            if n.id not in names:
                names.append(n.id)
            n.id = f"v{names.index(n.id)}"
    return ast.unparse(e2), names


def _dotted(f: ast.expr) -> str | None:
    if isinstance(f, ast.Attribute) and isinstance(f.value, ast.Name):
        return f"{f.value.id}.{f.attr}"
    return None


class RelTranslator(ExceptTranslator):
    def __init__(self, known, consts, externals, lean_names=None, presigs=None, ext_exprs: dict[str, dict] | None = None,
                 contextvars: dict[str, tuple] | None = None, ignorable: tuple[str, ...] = ()):
        super().__init__(known, consts, externals, lean_names, None, presigs, None)
        self.ext_exprs = ext_exprs or {}          # "datetime.fromisoformat" → {"name": parameter, "text": canonical text}
        self.contextvars = contextvars or {}
        self.ignorable = set(ignorable)
        self.pos_defaults: dict[str, list] = {}   # function → constants of its trailing positional parameters
        self.mode = "E"
        self.obj_locals: dict[str, tuple] = {}
        self.aliases: set[str] = set()
        self.tuple_locals: set[str] = set()
        self.ext_notes: dict[str, str] = {}

    # ------------------------------------------------------------------ the two monads
    def ok(self, atom: str) -> str:
        return f"(Rbacx.PyR.pure {atom})" if self.mode == "M" else f"(Except.ok {atom})"

    def wrap(self, binds, final, ind):   # noqa: D401  (overrides the static method of the base class)
        if self.mode != "M":
            return ExceptTranslator.wrap(binds, final, ind)
        out = ""
        for t, x in binds:
            if x.startswith(MARK):
                out += f"Rbacx.PyR.bind {x[len(MARK):]} fun {t} =>\n{ind}"
            else:
                out += f"Rbacx.PyR.bindE {x} fun {t} =>\n{ind}"
        return out + final

    def value(self, binds, atom, ind):
        if self.mode != "M":
            return super().value(binds, atom, ind)
        if binds and binds[-1][0] == atom:
            last = binds[-1][1]
            return self.wrap(binds[:-1], last[len(MARK):] if last.startswith(MARK) else f"(Rbacx.PyR.lift {last})", ind)
        return self.wrap(binds, self.ok(atom), ind)

    def exc(self, binds, term):
        # a term built from nested `value(…)`s in M mode is M-typed: those always mention `Rbacx.PyR.` (pure / lift / bind), stateless terms never do
        if self.mode == "M" and "Rbacx.PyR.bind" in term or self.mode == "M" and "Rbacx.PyR.pure" in term or self.mode == "M" and "Rbacx.PyR.lift" in term:
            term = MARK + term
        return super().exc(binds, term)

    def mbind(self, binds, term):
        t = self.fresh()
        binds.append((t, MARK + term))
        return binds, t

    def lam(self, g, elt):
        if self.mode == "M":
            raise Unsupported("all(…) / any(…) inside a stateful statement range")
        return super().lam(g, elt)

    # ------------------------------------------------------------------ expressions
    def key_atom(self, e: ast.expr) -> str:
        if not (isinstance(e, ast.Name) and e.id in self.tuple_locals):
            raise Unsupported(f"memo key {ast.unparse(e)}: must be a local bound once, by a tuple display")
        return ident(e.id)

    def EX(self, e: ast.expr):
        if isinstance(e, ast.Name) and e.id in self.aliases:
            raise Unsupported(f"the state alias {e.id} is used other than in isinstance(·, dict) / `k in ·` / `·[k]` / `·[k] = v`")
        if isinstance(e, ast.JoinedStr):
            binds, parts = [], []
            for p in e.values:
                if isinstance(p, ast.Constant) and isinstance(p.value, str):
                    parts.append(f"(PyVal.str {lean_str(p.value)})")
                elif isinstance(p, ast.FormattedValue) and p.conversion == -1 and p.format_spec is None:
                    if not self.cur_oracle:
                        raise Unsupported("f-string replacement field without the oracle parameter")
                    b, a = self.EX(p.value)
                    binds += b
                    parts.append(f"(Rbacx.Py.strO o {a})")
                else:
                    raise Unsupported(f"f-string part {ast.unparse(e)}")
            return binds, "(Rbacx.Py.fstr [" + ", ".join(parts) + "])"
        if isinstance(e, ast.IfExp):
            bt, at = self.EX(e.test)
            b1, a1 = self.EX(e.body)
            b2, a2 = self.EX(e.orelse)
            if not b1 and not b2:
                return bt, f"(if ({at}).truthy then {a1} else {a2})"
            return self.exc(bt, f"(if ({at}).truthy then ({self.value(b1, a1, '  ')}) else ({self.value(b2, a2, '  ')}))")
        if isinstance(e, ast.BoolOp):
            parts = [self.EX(v) for v in e.values]
            pure = "PyVal.por" if isinstance(e.op, ast.Or) else "Rbacx.Py.pand"
            sub_b, sub_a = parts[-1]
            for b, a in reversed(parts[:-1]):
                if not sub_b:
                    sub_b, sub_a = b, f"({pure} {a} {sub_a})"
                    continue
                later = "(" + self.value(sub_b, sub_a, "  ") + ")"
                keep = self.ok(a)
                term = (f"(if ({a}).truthy then {keep} else {later})" if isinstance(e.op, ast.Or)
                        else f"(if ({a}).truthy then {later} else {keep})")
                sub_b, sub_a = self.exc(list(b), term)
            return sub_b, sub_a
        if isinstance(e, ast.Attribute):
            raise Unsupported(f"attribute {ast.unparse(e)} (only `X.tzinfo is [not] None`)")
        if isinstance(e, ast.Subscript) and isinstance(e.ctx, ast.Load) and isinstance(e.value, ast.Name) and e.value.id in self.aliases:
            return self.mbind([], f"(Rbacx.PyR.memoItem {self.key_atom(e.slice)})")
        if isinstance(e, ast.Compare) and len(e.ops) == 1:
            op, a, b = e.ops[0], e.left, e.comparators[0]
            if isinstance(op, (ast.Is, ast.IsNot)) and isinstance(a, ast.Attribute) and a.attr == "tzinfo" \
                    and isinstance(b, ast.Constant) and b.value is None:
                bs, at = self.EX(a.value)
                bs, t = self.exc(bs, f"(Rbacx.PyR.tzAwareE {at})")
                return bs, t if isinstance(op, ast.IsNot) else f"(Rbacx.Py.pnot {t})"
            if isinstance(op, (ast.In, ast.NotIn)) and isinstance(b, ast.Name) and b.id in self.aliases:
                bs, t = self.mbind([], f"(Rbacx.PyR.memoContains {self.key_atom(a)})")
                return bs, t if isinstance(op, ast.In) else f"(Rbacx.Py.pnot {t})"
        return super().EX(e)

    def call(self, e: ast.Call):
        f = e.func
        dotted = _dotted(f)
        if dotted in self.ext_exprs and isinstance(f, ast.Attribute) and f.value.id not in self.locals:
            cfg = self.ext_exprs[dotted]
            text, names = _canon(e, self.locals)
            if text != cfg["text"]:
                raise Unsupported(f"external expression {dotted}(…): the source has `{text}`, the oracle stands for `{cfg['text']}`")
            name = cfg["name"]
            if name not in self.externals:
                raise Unsupported(f"external expression parameter {name} is not listed in the externals")
            self.ext_arity[name] = len(names)
            self.ext_shape[name] = (len(names), ())
            self.ext_notes[name] = f"the expression `{cfg['text']}` (v0… = the variables it reads)"
            return self.exc([], "(" + " ".join([ident(name)] + [ident(v) for v in names]) + ")")
        if isinstance(f, ast.Attribute) and isinstance(f.value, ast.Name) and f.value.id in self.obj_locals:
            kind, param, method, npos, kws = self.obj_locals[f.value.id]
            if kind != "checker" or f.attr != method or len(e.args) != npos or [k.arg for k in e.keywords] != list(kws) \
                    or any(isinstance(a, ast.Starred) for a in e.args):
                raise Unsupported(f"call {ast.unparse(e)}: not the designated method / argument shape of the object in {f.value.id}")
            if self.mode != "M":
                raise Unsupported("a checker call outside a stateful statement range")
            binds, atoms = [], []
            for a in list(e.args) + [k.value for k in e.keywords]:
                b, at = self.EX(a)
                binds += b
                atoms.append(at)
            return self.mbind(binds, f"(Rbacx.PyR.callChecker {ident(param)} [" + ", ".join(atoms) + "])")
        if isinstance(f, ast.Attribute) and f.attr == "replace" and not e.args and len(e.keywords) == 1 and e.keywords[0].arg == "tzinfo" \
                and ast.unparse(e.keywords[0].value) == "timezone.utc" and "timezone" not in self.locals:
            b, a = self.EX(f.value)
            return self.exc(b, f"(Rbacx.PyR.replaceTzUtcE {a})")
        if isinstance(f, ast.Attribute) and f.attr == "get" and len(e.args) == 2 and not e.keywords:
            b0, recv = self.EX(f.value)
            b1, k = self.EX(e.args[0])
            b2, d = self.EX(e.args[1])
            return self.exc(b0 + b1 + b2, f"(Rbacx.PyR.getDE {recv} {k} {d})")
        if isinstance(f, ast.Name) and f.id == "isinstance" and f.id not in self.locals and len(e.args) == 2 \
                and isinstance(e.args[0], ast.Name) and e.args[0].id in self.aliases:
            if not (isinstance(e.args[1], ast.Name) and e.args[1].id == "dict" and "dict" not in self.locals):
                raise Unsupported(f"{ast.unparse(e)}: only isinstance(<state alias>, dict)")
            return self.mbind([], "Rbacx.PyR.memoIsDict")
        if isinstance(f, ast.Name) and f.id in self.known and f.id not in self.locals and f.id in self.pos_defaults \
                and not e.keywords and len(e.args) < len(self.pos_defaults[f.id][0]):
            params, consts = self.pos_defaults[f.id]
            missing = params[len(e.args):]
            if any(p not in consts for p in missing):
                raise Unsupported(f"call of {f.id}: no argument for {missing}")
            e = ast.Call(f, list(e.args) + [ast.Constant(consts[p]) for p in missing], [])
        return super().call(e)

    # ------------------------------------------------------------------ statements
    def SX(self, stmts, ind, tail, ret):
        if not stmts:
            return super().SX(stmts, ind, tail, ret)
        st, rest = stmts[0], stmts[1:]
        if isinstance(st, ast.Expr) and isinstance(st.value, ast.Call):
            c = st.value
            f = c.func
            if isinstance(f, ast.Attribute) and isinstance(f.value, ast.Name) and f.value.id in self.ignorable and f.value.id not in self.locals:
                if not all(isinstance(a, (ast.Name, ast.Constant)) for a in list(c.args) + [k.value for k in c.keywords]):
                    raise Unsupported(f"statement {ast.unparse(st)[:60]}: arguments of a skipped logging call must be names / constants")
                return self.SX(rest, ind, tail, ret)
            if isinstance(f, ast.Attribute) and f.attr == "update" and isinstance(f.value, ast.Name) and len(c.args) == 1 and not c.keywords:
                x = f.value.id
                if x not in self.fresh_dicts or not self.unaliased_before(x, st):
                    raise Unsupported(f"{x}.update(…): {x} is not provably an unaliased dict built by `{x} = dict(…)`")
                b, a = self.EX(c.args[0])
                b, t = self.exc(b, f"(Rbacx.PyR.updateE {ident(x)} {a})")
                return self.wrap(b, f"let {ident(x)} := {t}\n{ind}{self.SX(rest, ind, tail, ret)}", ind)
        if isinstance(st, ast.Raise) and self.mode == "M":
            term = super().SX([st], ind, tail, ret)
            return term.replace("Rbacx.PyE.raise", "Rbacx.PyR.raise", 1)
        if isinstance(st, ast.Assign) and len(st.targets) == 1:
            tgt, v = st.targets[0], st.value
            if isinstance(v, ast.Call) and isinstance(v.func, ast.Attribute) and v.func.attr == "get" and not v.args and not v.keywords \
                    and isinstance(v.func.value, ast.Name) and v.func.value.id in self.contextvars and v.func.value.id not in self.locals:
                if self.mode != "M" or not isinstance(tgt, ast.Name):
                    raise Unsupported(f"statement {ast.unparse(st)[:60]}: a ContextVar is read outside a stateful statement range")
                cfg = self.contextvars[v.func.value.id]
                x = tgt.id
                if x in self.aliases:
                    return self.SX(rest, ind, tail, ret)
                if x not in self.obj_locals:
                    raise Unsupported(f"{x}: not pre-registered")
                if cfg[0] == "checker":
                    return f"let {ident(x)} := Rbacx.PyR.handle ({ident(cfg[1])}).isSome\n{ind}{self.SX(rest, ind, tail, ret)}"
                return f"let {ident(x)} := {ident(cfg[1])}\n{ind}{self.SX(rest, ind, tail, ret)}"
            if isinstance(tgt, ast.Subscript) and isinstance(tgt.value, ast.Name) and tgt.value.id in self.aliases:
                k = self.key_atom(tgt.slice)
                b, a = self.EX(v)
                b, t = self.mbind(b, f"(Rbacx.PyR.memoSet {k} {a})")
                b[-1] = ("_" + t, b[-1][1])       # the value of the assignment statement is not used
                return self.wrap(b, self.SX(rest, ind, tail, ret), ind)
        if isinstance(st, ast.Try) and not st.orelse and not st.finalbody and len(st.handlers) == 1:
            h = st.handlers[0]
            if self.mode == "E" and len(st.body) == 1 and isinstance(st.body[0], ast.Assign) and len(st.body[0].targets) == 1 \
                    and isinstance(st.body[0].targets[0], ast.Name) and _ends(h.body) and rest:
                classes = self.handler_classes(h)
                self.check_exc_var(h)
                x = st.body[0].targets[0].id
                b, a = self.EX(st.body[0].value)
                i2 = ind + "    "
                protected = self.value(b, a, i2)
                handler = self.SX(h.body, i2, None, ret)
                t = self.fresh()
                k = self.SX(rest, ind + "  ", tail, ret)
                return (f"Rbacx.PyE.tryBind (\n{i2}{protected})\n{ind}  [" + ", ".join(lean_str(c) for c in classes) + f"] (\n{i2}{handler}) fun {t} =>\n"
                        f"{ind}  let {ident(x)} := {t}\n{ind}  {k}")
            if self.mode == "M":
                if _ends(st.body) or _ends(h.body):
                    raise Unsupported("try statement in a stateful range: body and handler must both fall through")
                for n in ast.walk(ast.Module(st.body + h.body, [])):
                    if isinstance(n, (ast.Return, ast.For, ast.While, ast.Try, ast.With)):
                        raise Unsupported(f"{type(n).__name__} inside a try statement of a stateful range")
                classes = self.handler_classes(h)
                assigned = self._stores(st.body + h.body) + ([h.name] if h.name else [])
                after = _loads(list(rest))
                carried = [v for v in assigned if v in after]
                if len(carried) != 1:
                    raise Unsupported(f"try statement: exactly one variable assigned inside may be read afterwards (here: {carried})")
                if h.name:
                    for n in ast.walk(ast.Module(h.body, [])):
                        if isinstance(n, ast.Name) and n.id == h.name and not self.in_ignorable(n, h.body):
                            raise Unsupported(f"the exception variable {h.name} is used outside a skipped logging call")
                cv = ident(carried[0])
                i2 = ind + "    "
                body = self.SX(st.body, i2, f"(Rbacx.PyR.pure {cv})", self.no_ret)
                handler = self.SX(h.body, i2, f"(Rbacx.PyR.pure {cv})", self.no_ret)
                k = self.SX(rest, ind, tail, ret)
                return (f"Rbacx.PyR.bind (Rbacx.PyR.tryCatch (\n{i2}{body})\n{ind}  [" + ", ".join(lean_str(c) for c in classes) + f"] (\n{i2}{handler})) fun {cv} =>\n"
                        f"{ind}{k}")
        if isinstance(st, ast.Try) and self.mode == "M":
            raise Unsupported("try statement shape in a stateful range")
        return super().SX(stmts, ind, tail, ret)

    def in_ignorable(self, name: ast.Name, stmts: list[ast.stmt]) -> bool:
        for st in stmts:
            if isinstance(st, ast.Expr) and isinstance(st.value, ast.Call) and isinstance(st.value.func, ast.Attribute) \
                    and isinstance(st.value.func.value, ast.Name) and st.value.func.value.id in self.ignorable:
                if any(n is name for n in ast.walk(st)):
                    return True
        return False

    def check_exc_var(self, h: ast.ExceptHandler) -> None:
        if h.name:
            mod = ast.Module(h.body, [])
            for n in ast.walk(mod):
                if isinstance(n, ast.Name) and n.id == h.name and not any(isinstance(r_, ast.Raise) and r_.cause is n for r_ in ast.walk(mod)):
                    raise Unsupported(f"the exception variable {h.name} is used other than as a cause (`raise … from {h.name}`)")

    def unaliased_before(self, x: str, upto: ast.stmt) -> bool:
        """every read of the local `x` textually before the statement `upto` is an argument of a call or the receiver of `.get`"""
        parents = {id(c): n for n in ast.walk(self.cur_fn) for c in ast.iter_child_nodes(n)}
        inside = {id(n) for n in ast.walk(upto)}
        for n in ast.walk(self.cur_fn):
            if isinstance(n, ast.Name) and n.id == x and isinstance(n.ctx, ast.Load) and id(n) not in inside and n.lineno <= upto.lineno:
                par = parents.get(id(n))
                if isinstance(par, ast.Call) and n in par.args:
                    continue
                if isinstance(par, ast.keyword):
                    continue
                if isinstance(par, ast.Attribute) and par.attr == "get":
                    continue
                return False
        return True

    # ------------------------------------------------------------------ functions
    def ext_uses(self, fn, fns, seen):
        out = super().ext_uses(fn, fns, seen)
        for n in ast.walk(fn):
            if isinstance(n, ast.Call) and _dotted(n.func) in self.ext_exprs:
                out.add(self.ext_exprs[_dotted(n.func)]["name"])
        return out

    def str_uses(self, fn, fns, seen):
        if any(isinstance(n, ast.JoinedStr) and any(isinstance(p, ast.FormattedValue) for p in n.values) for n in ast.walk(fn)):
            return True
        return super().str_uses(fn, fns, seen)

    def function_e(self, fn, fns, ranges):
        a = fn.args
        if a.defaults:
            if not all(isinstance(d, ast.Constant) for d in a.defaults):
                raise Unsupported(f"signature of {fn.name}: a default that is not a constant")
            params = [p.arg for p in a.args]
            consts = {p: d.value for p, d in zip(params[len(params) - len(a.defaults):], a.defaults)}
            self.pos_defaults[fn.name] = (params, consts)
            fn = copy.deepcopy(fn)
            fn.args.defaults = []
        self.mode = "E"
        self.obj_locals, self.aliases, self.tuple_locals = {}, set(), set()
        out = super().function_e(fn, fns, ranges)
        if fn.name in self.pos_defaults:
            out["pos_defaults"] = {k: v for k, v in self.pos_defaults[fn.name][1].items()}
            notes = "".join(f"; `{ident(k)}`: default {v!r} in the source" for k, v in out["pos_defaults"].items())
            out["lean"] = out["lean"].replace(" -/\ndef ", notes + " -/\ndef ", 1)
        for x, note in self.ext_notes.items():
            old = f"`{ident(x)}`: the function `{x}`, NOT translated"
            out["lean"] = out["lean"].replace(old, f"`{ident(x)}`: {note}, NOT translated")
        return out

    # ------------------------------------------------------------------ the stateful statement range
    def validate_handles(self, rng: list[ast.stmt]) -> None:
        mod = ast.Module(rng, [])
        parents = {id(c): n for n in ast.walk(mod) for c in ast.iter_child_nodes(n)}
        stores: dict[str, int] = {}
        for n in ast.walk(self.cur_fn):
            if isinstance(n, ast.Name) and isinstance(n.ctx, ast.Store):
                stores[n.id] = stores.get(n.id, 0) + 1
        for x in list(self.obj_locals) + list(self.aliases) + list(self.tuple_locals):
            if stores.get(x, 0) != 1:
                raise Unsupported(f"{x} (a handle / state alias / memo key) is assigned more than once")
        for n in ast.walk(mod):
            if not (isinstance(n, ast.Name) and isinstance(n.ctx, ast.Load)):
                continue
            par = parents.get(id(n))
            if n.id in self.obj_locals:
                ok = (isinstance(par, ast.Compare) and par.left is n and len(par.ops) == 1 and isinstance(par.ops[0], (ast.Is, ast.IsNot))
                      and isinstance(par.comparators[0], ast.Constant) and par.comparators[0].value is None) \
                    or (isinstance(par, ast.Attribute) and isinstance(parents.get(id(par)), ast.Call) and parents[id(par)].func is par) \
                    or (isinstance(par, ast.Call) and n in par.args and isinstance(par.func, ast.Name) and par.func.id in self.externals)
                if not ok:
                    raise Unsupported(f"the object handle {n.id} is used other than in `is [not] None`, as a receiver, or as an argument of an external")
            if n.id in self.aliases:
                ok = (isinstance(par, ast.Call) and isinstance(par.func, ast.Name) and par.func.id == "isinstance" and par.args and par.args[0] is n) \
                    or (isinstance(par, ast.Compare) and len(par.ops) == 1 and isinstance(par.ops[0], (ast.In, ast.NotIn)) and par.comparators[0] is n) \
                    or (isinstance(par, ast.Subscript) and par.value is n)
                if not ok:
                    raise Unsupported(f"the state alias {n.id} is used other than in isinstance(·, dict) / `k in ·` / `·[k]` / `·[k] = v`")

    def rel_range(self, fn: ast.FunctionDef, fns: dict, first: str, lean_name: str) -> dict:
        found = [st for st in fn.body if isinstance(st, ast.If) and ast.unparse(st.test) == first]
        if len(found) != 1 or found[0].orelse or not _ends(found[0].body):
            raise Unsupported(f"{fn.name}: exactly one top-level `if {first}:` without else whose body never falls through is expected")
        rng = found[0].body
        self.loop_stack, self.fresh_dicts, self.pre_loop, self.cur_group = [], set(), {}, []
        self.locals = {a.arg for a in fn.args.args + fn.args.kwonlyargs} | {n.id for n in ast.walk(fn) if isinstance(n, ast.Name) and isinstance(n.ctx, ast.Store)} \
            | {h.name for n in ast.walk(fn) if isinstance(n, ast.Try) for h in n.handlers if h.name}
        self.cur_fn, self.cur_name, self.ntmp, self.fns = fn, fn.name, 0, fns
        self.ranges, self.fragments, self.in_range = [], [], False
        self.cur_fuel = self.cur_dec = False
        self.mode = "M"
        self.obj_locals, self.aliases, self.tuple_locals = {}, set(), set()
        cvparams: list[str] = []
        for n in ast.walk(ast.Module(rng, [])):
            if isinstance(n, ast.Assign) and len(n.targets) == 1 and isinstance(n.targets[0], ast.Name):
                v = n.value
                if isinstance(v, ast.Call) and isinstance(v.func, ast.Attribute) and v.func.attr == "get" and not v.args and not v.keywords \
                        and isinstance(v.func.value, ast.Name) and v.func.value.id in self.contextvars and v.func.value.id not in self.locals:
                    cfg = self.contextvars[v.func.value.id]
                    if cfg[0] == "state":
                        self.aliases.add(n.targets[0].id)
                    else:
                        self.obj_locals[n.targets[0].id] = (cfg[0], cfg[1], *(cfg[2:] if cfg[0] == "checker" else (None, 0, ())))
                        if cfg[1] not in cvparams:
                            cvparams.append(cfg[1])
                elif isinstance(v, ast.Tuple):
                    self.tuple_locals.add(n.targets[0].id)
            elif isinstance(n, ast.Call) and isinstance(n.func, ast.Attribute) and isinstance(n.func.value, ast.Name) \
                    and n.func.value.id in self.contextvars and n.func.value.id not in self.locals and n.func.attr != "get":
                raise Unsupported(f"{ast.unparse(n)[:40]}: a ContextVar may only be read (`.get()`)")
        self.validate_handles(rng)
        args = self.range_vars(rng, f"range {lean_name}")
        self.cur_oracle = self.str_uses(ast.Module(rng, []), fns, {fn.name})
        uses = self.ext_uses(ast.Module(rng, []), fns, {fn.name})
        self.cur_exts = [x for x in self.externals if x in uses]
        taken = {"o", "fuel"} | {ident(x) for x in self.externals} | {self.lname(k) for k in self.known} | {ident(p) for p in cvparams}
        used = {v for v in _loads(rng) if v in self.locals} | set(self._stores(rng))
        clash = sorted(v for v in used if ident(v) in taken or ident(v).startswith("t") and ident(v)[1:].isdigit())
        if clash:
            raise Unsupported(f"{lean_name}: variable names clash with names the translation uses: {clash}")
        body = self.SX(list(rng), "  ", None, self.plain_ret)
        self.mode = "E"
        kinds = {cfg[1]: cfg[0] for cfg in self.contextvars.values()}
        cvdecl = [f"({ident(p)} : {'Rbacx.PyR.Checker' if kinds[p] == 'checker' else 'PyVal'})" for p in cvparams]
        head = [lean_name] + (["(o : Oracle)"] if self.cur_oracle else []) + [self.ext_param(x) for x in self.cur_exts] + cvdecl \
            + [f"({ident(v)} : PyVal)" for v in args]
        cvtext = "; ".join(f"`{ident(cfg[1])}` = `{cv}.get()`" + (" (absent, or the outcome of `." + cfg[2] + "(…)` as a function of the argument list: some v = returned v, none = raised)"
                                                                      if cfg[0] == "checker" else " (None or a handle)")
                           for cv, cfg in self.contextvars.items() if cfg[0] != "state" and cfg[1] in cvparams)
        states = [cv for cv, cfg in self.contextvars.items() if cfg[0] == "state"]
        doc = (f"/-- state-and-exception-passing translation of the body of `if {first}:` in `{fn.name}`; inputs: {', '.join(args)}; {cvtext}; "
               f"the state (Rbacx.PyR.St) = the content of the object `{'/'.join(states)}.get()` returns + the checker calls made; externals (NOT translated, "
               f"function parameters): {', '.join(self.cur_exts)} -/\n").replace("-/\n", "§").replace("-/", "- /").replace("§", "-/\n")
        text = f"{doc}def {' '.join(head)} : Rbacx.PyR.M PyVal :=\n  {body}\n"
        return {"lean": text, "oracle": self.cur_oracle, "externals": [[x, self.ext_arity[x]] for x in self.cur_exts], "args": args,
                "cvparams": cvparams, "lean_name": lean_name}


def translate(source: str, names: list[str], externals: list[str], lean_names: dict[str, str] | None = None, presigs: dict[str, dict] | None = None,
              ext_exprs: dict[str, dict] | None = None, contextvars: dict[str, tuple] | None = None, ignorable: tuple[str, ...] = (),
              rel_range: tuple[str, str, str] | None = None) -> dict[str, dict]:
    """like `pytolean_except.translate` for `names` (callees first), then — `rel_range = (function, test text, lean name)` — the
    stateful translation of that statement range, under the key `lean name`"""
    tree = ast.parse(source)
    fns = {n.name: n for n in tree.body if isinstance(n, ast.FunctionDef)}
    tr = RelTranslator(names, pytolean._module_consts(tree), externals, lean_names, presigs, ext_exprs, contextvars, ignorable)
    out = {}
    for name in names:
        if name not in fns:
            raise Unsupported(f"function {name} not found")
        try:
            out[name] = tr.function_e(fns[name], fns, [])
        except Unsupported as e:
            raise Unsupported(f"{name}: {e}") from e
    if rel_range is not None:
        fname, first, lean_name = rel_range
        if fname not in fns:
            raise Unsupported(f"function {fname} not found")
        try:
            out[lean_name] = tr.rel_range(fns[fname], fns, first, lean_name)
        except Unsupported as e:
            raise Unsupported(f"{lean_name} ({fname}): {e}") from e
    return out
