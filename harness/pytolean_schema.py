"""JSON-Schema → Lean: a SHALLOW embedding of a (draft 2020-12) schema document into the keyword combinators of
lean/Rbacx/Model/JsonSchema.lean (`Rbacx.JS.*`).

    translate(schema: dict) -> str      Lean text (inside `namespace Src`) defining

    inductive SchemaDef | <one constructor per "$defs" entry, in file order>
    def schema_def : Nat → SchemaDef → PyVal → Bool        -- structural recursion on the FUEL: `| 0, _, _ => false`, one arm per definition
    def schema_root (fuel : Nat) (v : PyVal) : Bool        -- the root schema object

A schema OBJECT is the conjunction (`&&`) of its keywords, each an application of its combinator to the instance variable; a SUB-SCHEMA is
a lambda; `"$ref": "#/$defs/X"` is `schema_def fuel .X x` (inside `schema_def (fuel+1) …` the callee gets `fuel`: every reference costs one
unit, which is what makes the recursion structural — `Condition` refers to itself).  Boolean schemas are `true` / `false`.

CANONICAL FORM (JSON object member order has no meaning in JSON Schema, so none is kept): the keywords of an object are emitted in the fixed
order of `ORDER` below, the members of `properties` sorted by key, the lists `required` / `enum` sorted, the branches of `oneOf` / `anyOf` /
`allOf` (exactly one / some / all of them: the order has no meaning) sorted by their own rendering, `prefixItems` in list order (positional).
Reordering the members of any object or any of these lists of the schema file therefore leaves the rendering — and the per-run obligation
`Run/C06_schema.lean` stated on it — unchanged.

IGNORED keywords (annotations; `jsonschema` ignores them too): `$schema`, `title`, `description`, and `$defs` where it is read as the table
of definitions (root only).

`Unsupported` (the plugin then renders a one-line comment and the obligation fails as a NAMED obligation): any other keyword, a `$ref` that
is not `#/$defs/<name of a definition>`, `type` that is not one of the seven names, `enum` with a non-string member,
`additionalProperties` with a schema value (only `true` / `false`) or next to `patternProperties`, a nested `$defs`, a definition name that
is not a Lean identifier, non-integer bounds.
"""
from __future__ import annotations

import json
import re


class Unsupported(Exception):
    pass


IGNORED = ("$schema", "title", "description")
TYPES = ("object", "array", "string", "number", "integer", "boolean", "null")
# emission order of the keywords of one schema object (`properties` last: the obligation reads it as the right-most conjunct)
ORDER = ("type", "enum", "minLength", "minItems", "maxItems", "prefixItems", "items", "minProperties", "maxProperties", "required",
         "additionalProperties", "$ref", "format", "oneOf", "anyOf", "allOf", "not", "properties")


def _s(x: str) -> str:
    """a Lean string literal"""
    return json.dumps(x, ensure_ascii=False)


def _nat(kw: str, x) -> str:
    if isinstance(x, bool) or not isinstance(x, int) or x < 0:
        raise Unsupported(f"{kw}: {x!r} is not a non-negative integer")
    return str(x)


class _Tr:
    def __init__(self, defs: list[str], ref_call):
        self.defs = defs
        self.ref_call = ref_call     # name -> Lean term prefix, applied to the instance variable
        self.n = 0

    def fresh(self) -> str:
        self.n += 1
        return f"x{self.n}"

    def lam(self, schema, where: str) -> str:
        """the sub-schema as a Lean function `PyVal → Bool`"""
        if schema is True:
            return "(fun _ => true)"
        if schema is False:
            return "(fun _ => false)"
        x = self.fresh()
        return f"(fun {x} => {self.obj(schema, x, where)})"

    def term(self, schema, x: str, where: str) -> str:
        """the sub-schema applied to the variable `x`"""
        if schema is True:
            return "true"
        if schema is False:
            return "false"
        return "(" + self.obj(schema, x, where) + ")"

    def obj(self, schema, x: str, where: str) -> str:
        if not isinstance(schema, dict):
            raise Unsupported(f"{where}: a schema must be an object or a boolean, found {type(schema).__name__}")
        for k in schema:
            if k not in ORDER and k not in IGNORED:
                raise Unsupported(f"{where}: keyword {k!r} has no meaning in Model/JsonSchema.lean")
        parts = []
        for kw in ORDER:
            if kw not in schema:
                continue
            val = schema[kw]
            w = f"{where}/{kw}"
            if kw == "type":
                if not isinstance(val, str) or val not in TYPES:
                    raise Unsupported(f"{w}: {val!r} (one type name of {list(TYPES)})")
                parts.append(f"JS.typeIs {_s(val)} {x}")
            elif kw == "enum":
                if not isinstance(val, list) or not all(isinstance(e, str) for e in val):
                    raise Unsupported(f"{w}: only lists of strings")
                parts.append(f"JS.enumStr {x} [{', '.join(_s(e) for e in sorted(val))}]")
            elif kw in ("minLength", "minItems", "maxItems", "minProperties", "maxProperties"):
                parts.append(f"JS.{kw} {x} {_nat(w, val)}")
            elif kw == "prefixItems":
                if not isinstance(val, list):
                    raise Unsupported(f"{w}: a list of schemas")
                parts.append(f"JS.prefixItems {x} [{', '.join(self.lam(s, f'{w}/{i}') for i, s in enumerate(val))}]")
            elif kw == "items":
                pre = schema.get("prefixItems")
                skip = len(pre) if isinstance(pre, list) else 0
                parts.append(f"JS.items {x} {skip} {self.lam(val, w)}")
            elif kw == "required":
                if not isinstance(val, list) or not all(isinstance(e, str) for e in val):
                    raise Unsupported(f"{w}: a list of strings")
                parts.append(f"JS.required {x} [{', '.join(_s(e) for e in sorted(val))}]")
            elif kw == "additionalProperties":
                if "patternProperties" in schema:
                    raise Unsupported(f"{w}: next to patternProperties")
                if val is True:
                    continue
                if val is not False:
                    raise Unsupported(f"{w}: only true / false, not a schema")
                ps = schema.get("properties", {})
                if not isinstance(ps, dict):
                    raise Unsupported(f"{where}/properties: an object")
                parts.append(f"JS.noAdditional {x} [{', '.join(_s(k) for k in sorted(ps))}]")
            elif kw == "$ref":
                m = re.fullmatch(r"#/\$defs/(.+)", val) if isinstance(val, str) else None
                if not m or m.group(1) not in self.defs:
                    raise Unsupported(f"{w}: {val!r} is not a reference to one of the definitions {self.defs}")
                parts.append(f"{self.ref_call(m.group(1))} {x}")
            elif kw == "format":
                if not isinstance(val, str):
                    raise Unsupported(f"{w}: a string")
                parts.append(f"JS.format {_s(val)} {x}")
            elif kw in ("oneOf", "anyOf", "allOf"):
                if not isinstance(val, list) or not val:
                    raise Unsupported(f"{w}: a non-empty list of schemas")
                # exactly-one / some / all of: the order has no meaning — sorted by each branch's own rendering (annotations do not count)
                branches = sorted(val, key=lambda b: _Tr(self.defs, self.ref_call).term(b, "v", w))
                parts.append(f"JS.{kw} [{', '.join(self.term(s, x, f'{w}/{i}') for i, s in enumerate(branches))}]")
            elif kw == "not":
                parts.append(f"!{self.term(val, x, w)}")
            elif kw == "properties":
                if not isinstance(val, dict):
                    raise Unsupported(f"{w}: an object")
                parts.append(f"JS.props {x} [{', '.join('(' + _s(k) + ', ' + self.lam(val[k], f'{w}/{k}') + ')' for k in sorted(val))}]")
        return " && ".join(parts) if parts else "true"


def translate(schema) -> str:
    if not isinstance(schema, dict):
        raise Unsupported("the schema document is not an object")
    defs = schema.get("$defs", {})
    if not isinstance(defs, dict):
        raise Unsupported("$defs: an object")
    names = list(defs)
    for n in names:
        if not re.fullmatch(r"[A-Z][A-Za-z0-9]*", n):
            raise Unsupported(f"$defs/{n}: the name is not usable as a Lean constructor")
        if isinstance(defs[n], dict) and "$defs" in defs[n]:
            raise Unsupported(f"$defs/{n}/$defs: nested definitions")
    out = []
    if names:
        out.append("inductive SchemaDef where\n" + "\n".join(f"  | {n}" for n in names) + "\nderiving Repr, DecidableEq\n")
    else:
        out.append("inductive SchemaDef where\n  | NoDefinitions\nderiving Repr, DecidableEq\n")
    arms = ["  | 0, _, _ => false"]
    for n in names:
        tr = _Tr(names, lambda d: f"schema_def fuel .{d}")
        arms.append(f"  | fuel + 1, .{n}, v => {tr.term(defs[n], 'v', '$defs/' + n)}")
    if not names:
        arms.append("  | _ + 1, _, _ => false")
    out.append("/-- the definitions of the bundled schema (`$defs`), by structural recursion on the fuel: every `$ref` costs one unit -/\n"
               "def schema_def : Nat → SchemaDef → PyVal → Bool\n" + "\n".join(arms) + "\n")
    root = {k: v for k, v in schema.items() if k != "$defs"}
    tr = _Tr(names, lambda d: f"schema_def fuel .{d}")
    out.append("/-- the root schema object -/\n"
               f"def schema_root (fuel : Nat) (v : PyVal) : Bool := {tr.term(root, 'v', '#')}\n")
    return "\n".join(out)
