"""The TAIL of an `async def` method — from a designated top-level statement to the end of the body — as a SINK-CALL TRACE → Lean (on top
of harness/pytolean.py and harness/pytolean_async.py, neither of which is changed), and the ASSEMBLY of a method from designated ranges.

Made for the sink block of `Guard._evaluate_core_async` (core/engine.py; property C11): `if self.metrics is not None: …` up to `return d`.
What that block is FOR is which sinks it calls, in which order, with which arguments, and that it returns the Decision it was handed
whatever the sinks do.  The tail becomes a Lean definition of type `Rbacx.PyS.Trace` (lean/Rbacx/Model/PySinks.lean): the sink calls
made, in program order, and how the tail ended (`returned v` / `raised` / `next`).  Everything is syntax-directed; anything outside the
stated shapes raises `Unsupported`.

Parameters of the Lean definition, in this order:
* SINKS — one per designated `(attribute text, name)` pair the tail looks up (`("self.metrics", "inc")`), in order of first look-up:
  a `Rbacx.PyS.Sink` = absent / a plain function / a coroutine function, returning / raising.  NOT translated: a parameter the theorems
  quantify over.
* OPAQUE values — one per assignment whose right-hand side calls a designated opaque function (`_now`: the clock): `opaque<n> : PyVal`.
  The expression is not looked into (its source text is recorded in the facts and evaluated by CPython in the differential run).
* INPUTS — the variables that are read before the tail binds them, in order of first read; `self.<attr>` reads count as `self_<attr>`.

Statements:
* `x = getattr(<attribute text>, "<name>", None)` for a designated pair: `x` is bound to that SINK (`let x := <parameter>`); such an `x`
  may only be tested (`x is not None`, `x is None`, `inspect.iscoroutinefunction(x)` / `asyncio.iscoroutinefunction(x)`: the `Sink`'s own
  Boolean functions) and called.  (A `getattr` whose look-up itself raises — a property — is not representable.)
* `x(args…)` / `await x(args…)` as a statement, `x` a sink variable, positional arguments only: `Rbacx.PyS.call "<attribute
  text>.<name>" x <awaited> [args…]` — the label is the attribute path, not the local's name.  `<attribute text>.<name>(args…)` directly
  likewise (an absent attribute raises there).
* `try: B except Exception: H` (one handler, `Exception` / `BaseException` / bare, no `as`, no else/finally): `Rbacx.PyS.tryExcept B H`;
  a name first bound in `B` may not be read after the `try` or in `H`.  What `raised` stands for is an `Exception` coming out of a sink
  call; the pure expressions of the tail (dict displays, record fields, `is None` tests) do not raise on the values they are given.
* `if`: `Rbacx.PyS.seq (if <test> then <body> else <orelse>) <rest>`; when a branch binds a name that `<rest>` reads, `<rest>` is
  continued in both branches instead.  `x = E` (and `x: T = E`): `let`; `logger.<m>(…)`, `pass`, bare annotations: nothing.
* `return E`: `Rbacx.PyS.ret E` (must be the last statement of its block).
Expressions: pytolean's and pytolean_async's (records of frozen dataclasses: a local bound ONCE in the method to a construction of a
designated dataclass is a record wherever it is read).

`block_as_python` builds the SAME statements as a real `async def` from the source text and runs it with CPython against recording sink
objects.  `assembly` reads the shape of the whole method and of its API wrappers off the source (see there)."""
from __future__ import annotations

import ast
import copy

import pytolean
import pytolean_async as pa
from pytolean import Unsupported, ident, lean_str


class SinkCfg:
    def __init__(self, sinks: dict[tuple[str, str], str], dataclasses: dict[str, list[str]] | None = None,
                 opaque_calls: tuple = ("_now",), silent: tuple = ("logger",)):
        self.sinks = dict(sinks)                    # (attribute text, name) → Lean parameter
        self.dataclasses = dict(dataclasses or {})  # constructor name → declared fields
        self.opaque_calls = tuple(opaque_calls)     # module-level functions whose calls make a right-hand side opaque
        self.silent = tuple(silent)


def tail(fn, start: str) -> tuple[int, list[ast.stmt]]:
    hits = [i for i, st in enumerate(fn.body) if ast.unparse(st).startswith(start)]
    if len(hits) != 1:
        raise Unsupported(f"{fn.name}: {len(hits)} top-level statements start with {start!r} (need exactly one)")
    return hits[0], fn.body[hits[0]:]


def _stores(stmts: list[ast.stmt]) -> list[str]:
    out: list[str] = []
    for st in stmts:
        for n in ast.walk(st):
            if isinstance(n, ast.Name) and isinstance(n.ctx, ast.Store) and n.id not in out:
                out.append(n.id)
    return out


def _loads(stmts: list[ast.stmt]) -> set[str]:
    return {n.id for st in stmts for n in ast.walk(st) if isinstance(n, ast.Name) and isinstance(n.ctx, ast.Load)}


class SinkTranslator(pa.AsyncTranslator):
    def __init__(self, tree: ast.Module, fn, stmts: list[ast.stmt], cfg: SinkCfg):
        params = {a.arg for a in fn.args.args[1:] + fn.args.kwonlyargs}
        local = params | {n.id for n in ast.walk(fn) if isinstance(n, ast.Name) and isinstance(n.ctx, ast.Store)}
        super().__init__(tree, pa.Cfg({}, records={}, dataclasses=cfg.dataclasses, silent=cfg.silent), local, oracle=False)
        self.scfg = cfg
        self.tree = tree
        self.block_stores = set(_stores(stmts))
        self.inputs: list[str] = []                 # python-level names (`self.<attr>` for attribute reads), order of first read
        self.sink_order: list[tuple[str, str]] = []
        self.opaque: list[dict] = []
        self.scope: dict[str, str] = {}             # names bound by the tail so far: "val" | "sink"
        self.sink_of: dict[str, tuple[str, str]] = {}
        for n in ast.walk(fn):
            if isinstance(n, ast.Name) and isinstance(n.ctx, ast.Store):
                self.stores[n.id] = self.stores.get(n.id, 0) + 1
        for n in ast.walk(fn):
            if isinstance(n, ast.Assign) and len(n.targets) == 1 and isinstance(n.targets[0], ast.Name) and self.stores.get(n.targets[0].id) == 1 \
                    and isinstance(n.value, ast.Call) and isinstance(n.value.func, ast.Name) and n.value.func.id in cfg.dataclasses \
                    and n.value.func.id not in local:
                self.records[n.targets[0].id] = cfg.dataclasses[n.value.func.id]

    def note(self, text: str) -> None:
        if text not in self.notes:
            self.notes.append(text)

    # ------------------------------------------------------------------ expressions
    def _input(self, v: str) -> None:
        if v not in self.inputs:
            self.inputs.append(v)

    def E(self, e: ast.expr) -> str:
        if isinstance(e, ast.Name) and e.id in self.locals:
            kind = self.scope.get(e.id)
            if kind == "sink":
                raise Unsupported(f"sink variable {e.id} used as a value (it may only be tested against None / iscoroutinefunction and called)")
            if kind is None:
                if e.id in self.block_stores:
                    raise Unsupported(f"{e.id} may be read before the tail has bound it")
                self._input(e.id)
            return ident(e.id)
        if pa._is_self_attr(e) and isinstance(e.ctx, ast.Load):
            self._input("self." + e.attr)
            return pa.var_name("self." + e.attr)
        if isinstance(e, ast.Attribute) and isinstance(e.value, ast.Name) and e.value.id in self.records and e.value.id in self.locals:
            self.E(e.value)          # the record variable is read here (an input, or bound by the tail)
        if isinstance(e, ast.Call) and self.sink_lookup(e) is not None:
            raise Unsupported(f"sink look-up outside `x = getattr(…)`: {ast.unparse(e)[:60]}")
        return super().E(e)

    def sink_lookup(self, e: ast.expr) -> tuple[str, str] | None:
        """(attribute text, name) when `e` is `getattr(<attribute text>, "<name>", None)` for a designated pair"""
        if isinstance(e, ast.Call) and isinstance(e.func, ast.Name) and e.func.id == "getattr" and "getattr" not in self.locals \
                and len(e.args) == 3 and not e.keywords and isinstance(e.args[1], ast.Constant) and isinstance(e.args[1].value, str) \
                and isinstance(e.args[2], ast.Constant) and e.args[2].value is None:
            key = (ast.unparse(e.args[0]), e.args[1].value)
            if key in self.scfg.sinks:
                return key
        return None

    def _use_sink(self, key: tuple[str, str]) -> str:
        if key not in self.sink_order:
            self.sink_order.append(key)
        return self.scfg.sinks[key]

    def _module_name(self, name: str) -> bool:
        """`name` denotes the standard module: imported by a top-level `import name`, never rebound"""
        imported = any(isinstance(n, ast.Import) and any(a.name == name and a.asname is None for a in n.names) for n in self.tree.body)
        rebound = any(isinstance(n, ast.Name) and n.id == name and isinstance(n.ctx, ast.Store) for n in ast.walk(self.tree))
        return imported and not rebound and name not in self.locals

    def B(self, e: ast.expr) -> str:
        """a test as a Lean Bool"""
        if isinstance(e, ast.Compare) and len(e.ops) == 1 and isinstance(e.ops[0], (ast.Is, ast.IsNot)) and isinstance(e.left, ast.Name) \
                and self.scope.get(e.left.id) == "sink" and isinstance(e.comparators[0], ast.Constant) and e.comparators[0].value is None:
            t = f"(Rbacx.PyS.Sink.isNotNone {ident(e.left.id)})"
            return t if isinstance(e.ops[0], ast.IsNot) else f"(!{t})"
        if isinstance(e, ast.Call) and isinstance(e.func, ast.Attribute) and e.func.attr == "iscoroutinefunction" \
                and isinstance(e.func.value, ast.Name) and e.func.value.id in ("inspect", "asyncio") and self._module_name(e.func.value.id) \
                and len(e.args) == 1 and not e.keywords and isinstance(e.args[0], ast.Name) and self.scope.get(e.args[0].id) == "sink":
            self.note("`inspect.iscoroutinefunction(x)` on a sink variable: `Sink.isCoro` (an `async def` or not)")
            return f"(Rbacx.PyS.Sink.isCoro {ident(e.args[0].id)})"
        if isinstance(e, ast.UnaryOp) and isinstance(e.op, ast.Not):
            return f"(!{self.B(e.operand)})"
        return f"({self.E(e)}).truthy"

    def _is_opaque(self, e: ast.expr) -> bool:
        return any(isinstance(n, ast.Call) and isinstance(n.func, ast.Name) and n.func.id in self.scfg.opaque_calls and n.func.id not in self.locals
                   for n in ast.walk(e))

    def sink_call(self, st: ast.stmt) -> tuple[str, str, bool, ast.Call] | None:
        """(label, Lean term of the sink, awaited, call) for `x(args…)` / `await x(args…)` / `<attr text>.<name>(args…)` as a statement"""
        if not isinstance(st, ast.Expr):
            return None
        e, awaited = (st.value.value, True) if isinstance(st.value, ast.Await) else (st.value, False)
        if not isinstance(e, ast.Call):
            return None
        if isinstance(e.func, ast.Name) and self.scope.get(e.func.id) == "sink":
            key = self.sink_of[e.func.id]
            term = ident(e.func.id)
        elif isinstance(e.func, ast.Attribute) and (ast.unparse(e.func.value), e.func.attr) in self.scfg.sinks:
            key = (ast.unparse(e.func.value), e.func.attr)
            term = self._use_sink(key)
            self.note(f"`{key[0]}.{key[1]}(…)` called directly: an absent attribute raises there (`call` on `Sink.absent`)")
        else:
            return None
        if e.keywords or any(isinstance(a, ast.Starred) for a in e.args):
            raise Unsupported(f"sink call with keyword/starred arguments: {ast.unparse(e)[:60]}")
        return f"{key[0]}.{key[1]}", term, awaited, e

    # ------------------------------------------------------------------ statements
    def T(self, stmts: list[ast.stmt], ind: str) -> str:
        if not stmts:
            return "Rbacx.PyS.next"
        st, rest = stmts[0], stmts[1:]
        if isinstance(st, ast.Pass) or (isinstance(st, ast.Expr) and isinstance(st.value, ast.Constant)) \
                or (isinstance(st, ast.AnnAssign) and st.value is None and isinstance(st.target, ast.Name)):
            return self.T(rest, ind)
        if pa.is_silent(st, self.cfg, self.locals):
            self.note(f"`{st.value.func.value.id}.<method>(…)` statements (logging) make no sink call and are left out")
            return self.T(rest, ind)
        if isinstance(st, ast.Return):
            if rest:
                raise Unsupported("statements after a `return`")
            return f"(Rbacx.PyS.ret {self.E(st.value) if st.value is not None else 'PyVal.none'})"
        if isinstance(st, (ast.Assign, ast.AnnAssign)):
            tgt = st.targets[0] if isinstance(st, ast.Assign) else st.target
            if (isinstance(st, ast.Assign) and len(st.targets) != 1) or not isinstance(tgt, ast.Name):
                raise Unsupported(f"assignment {ast.unparse(st)[:60]}")
            x = tgt.id
            key = self.sink_lookup(st.value)
            if key is not None:
                self.note(f"`{x} = getattr({key[0]}, {key[1]!r}, None)`: `{x}` is the SINK parameter `{self.scfg.sinks[key]}` (absent / plain "
                          f"function / coroutine function, returning / raising), not translated")
                rhs = self._use_sink(key)
                self.scope[x] = "sink"
                self.sink_of[x] = key
            elif self._is_opaque(st.value):
                name = f"opaque{len(self.opaque) + 1}"
                reads: list[str] = []
                pa.areads(st.value, self.locals, self.cfg, reads)
                self.opaque.append({"param": name, "var": x, "source": ast.unparse(st.value), "reads": sorted(set(reads))})
                self.note(f"`{x} = {ast.unparse(st.value)}` reads the clock: `{x}` is the OPAQUE parameter `{name}`, the expression is not looked into")
                rhs = name
                self.scope[x] = "val"
            else:
                rhs = self.E(st.value)
                self.scope[x] = "val"
            return f"let {ident(x)} := {rhs}\n{ind}{self.T(rest, ind)}"
        sc = self.sink_call(st)
        if sc is not None:
            label, term, awaited, call = sc
            args = ", ".join(self.E(a) for a in call.args)
            t = f"(Rbacx.PyS.call {lean_str(label)} {term} {'true' if awaited else 'false'} [{args}])"
            return t if not rest else f"Rbacx.PyS.seq {t} (\n{ind}{self.T(rest, ind)})"
        if isinstance(st, ast.If):
            test = self.B(st.test)
            leak = [v for v in _stores(list(st.body) + list(st.orelse)) if v in _loads(rest) and v not in self.scope]
            saved = dict(self.scope)
            if leak:
                a = self.T(list(st.body) + rest, ind + "    ")
                self.scope = dict(saved)
                b = self.T(list(st.orelse) + rest, ind + "    ")
                self.scope = dict(saved)
                return f"(if {test} then\n{ind}    {a}\n{ind}  else\n{ind}    {b})"
            a = self.T(list(st.body), ind + "    ")
            self.scope = dict(saved)
            b = self.T(list(st.orelse), ind + "    ")
            # a name (re)bound in a branch is not relied on afterwards: what it was before the `if` stands only if no branch rebinds it
            self.scope = {k: v for k, v in saved.items() if k not in _stores(list(st.body) + list(st.orelse))}
            rebound = [v for v in saved if v not in self.scope and v in _loads(rest)]
            if rebound:
                raise Unsupported(f"{rebound} rebound inside `if {ast.unparse(st.test)[:40]}` and read after it")
            t = f"(if {test} then\n{ind}    {a}\n{ind}  else\n{ind}    {b})"
            return t if not rest else f"Rbacx.PyS.seq {t} (\n{ind}{self.T(rest, ind)})"
        if isinstance(st, ast.Try):
            if st.orelse or st.finalbody or len(st.handlers) != 1 or st.handlers[0].name is not None:
                raise Unsupported("try statement: only `try: … except Exception: …` without else/finally/`as`")
            ty = st.handlers[0].type
            if not (ty is None or (isinstance(ty, ast.Name) and ty.id in ("Exception", "BaseException") and ty.id not in self.locals)):
                raise Unsupported(f"handler `except {ast.unparse(ty)}` does not catch every Exception")
            bound = [v for v in _stores(list(st.body)) if v not in self.scope]
            bad = [v for v in bound if v in _loads(rest) or v in _loads(list(st.handlers[0].body))]
            if bad:
                raise Unsupported(f"{bad} bound inside a try body and read in its handler / after it (may be unbound)")
            saved = dict(self.scope)
            a = self.T(list(st.body), ind + "    ")
            self.scope = dict(saved)
            h = self.T(list(st.handlers[0].body), ind + "    ")
            self.scope = {k: v for k, v in saved.items() if k not in _stores(list(st.body) + list(st.handlers[0].body))}
            rebound = [v for v in saved if v not in self.scope and v in _loads(rest)]
            if rebound:
                raise Unsupported(f"{rebound} rebound inside a try statement and read after it")
            self.note("`try: B except Exception: H`: `tryExcept B H` — an Exception raised by a sink call ends B there, the calls made stay "
                      "made, H runs, the statements after the try run")
            t = f"(Rbacx.PyS.tryExcept (\n{ind}    {a}) (\n{ind}    {h}))"
            return t if not rest else f"Rbacx.PyS.seq {t} (\n{ind}{self.T(rest, ind)})"
        raise Unsupported(f"statement {ast.unparse(st)[:60]}")


_FORBIDDEN = tuple(t for t in pa._FORBIDDEN) + (ast.With,)


def translate_tail(source: str, designator: str, start: str, lean_name: str, cfg: SinkCfg) -> dict:
    """{"lean", "sinks": [[attribute text, name, parameter]…], "opaque": [{"param", "var", "source", "reads"}…], "inputs": […],
    "first": index of the tail's first statement in the method body, "count": number of top-level statements of the tail}"""
    tree = ast.parse(source)
    fn = pa.method(tree, designator)
    if not isinstance(fn, ast.AsyncFunctionDef):
        raise Unsupported(f"{designator} is not an `async def`")
    first, stmts = tail(fn, start)
    if not isinstance(stmts[-1], ast.Return):
        raise Unsupported(f"{designator}: the tail does not end with a `return`")
    for st in stmts:
        for n in ast.walk(st):
            if isinstance(n, _FORBIDDEN):
                raise Unsupported(f"{designator}: {type(n).__name__} inside the tail")
            if isinstance(n, (ast.Attribute, ast.Subscript)) and isinstance(n.ctx, (ast.Store, ast.Del)):
                raise Unsupported(f"{designator}: assignment to {ast.unparse(n)} inside the tail")
            if isinstance(n, ast.Name) and n.id == "self" and isinstance(n.ctx, ast.Store):
                raise Unsupported("assignment to self")
    tr = SinkTranslator(tree, fn, stmts, cfg)
    body = tr.T(list(stmts), "  ")
    sink_params = [cfg.sinks[k] for k in tr.sink_order]
    opaque_params = [o["param"] for o in tr.opaque]
    in_names = [pa.var_name(v) for v in tr.inputs]
    bound = [ident(v) for v in tr.block_stores]
    names = sink_params + opaque_params + in_names
    if len(set(names)) != len(names) or ident(lean_name) in names + bound or any(p in bound for p in sink_params + opaque_params) \
            or any(v in bound for v in in_names):
        raise Unsupported(f"{designator}: variable names clash after renaming: {names} / {bound}")
    sig = " ".join([f"({p} : Rbacx.PyS.Sink)" for p in sink_params] + [f"({p} : PyVal)" for p in opaque_params + in_names])
    notes = [f"`{cfg.sinks[k]}`: what `getattr({k[0]}, {k[1]!r}, None)` finds and what calling it does" for k in tr.sink_order] + tr.notes
    doc = (f"/-- the tail of `{designator}` from `{start}…` to the end of the body as its SINK-CALL TRACE (the sink calls made, in program "
           f"order, and how the tail ended); sinks: {', '.join(sink_params)}; opaque: {', '.join(opaque_params) or '-'}; inputs: "
           f"{', '.join(tr.inputs)}" + "".join("; " + n for n in notes)).replace("-/", "- /") + " -/\n"
    return {"lean": f"{doc}def {ident(lean_name)} {sig} : Rbacx.PyS.Trace :=\n  {body}\n",
            "sinks": [[k[0], k[1], cfg.sinks[k]] for k in tr.sink_order], "opaque": tr.opaque, "inputs": list(tr.inputs),
            "first": first, "count": len(stmts)}


# ---------------------------------------------------------------------- the same tail run by CPython

class _Obj:
    pass


def block_as_python(source: str, designator: str, start: str, cfg: SinkCfg, globs: dict):
    """(run, facts): `run(values, holders, clock)` executes the tail's statements — verbatim, as an `async def` compiled from the source
    text, in the module's own globals (the logger replaced by a silent one, the opaque functions by `clock`) — and returns
    ("returned", value) / ("raised", class name).  `values`: {input name: python value} for the plain inputs and for the variables the
    opaque expressions read; `holders`: {attribute text: object | None} — the objects `self.<attr>` the sinks are looked up on."""
    tr_facts = translate_tail(source, designator, start, "tail", cfg)
    tree = ast.parse(source)
    fn = pa.method(tree, designator)
    _, stmts = tail(fn, start)
    plain = [v for v in tr_facts["inputs"] if not v.startswith("self.")]
    for o in tr_facts["opaque"]:
        for v in o["reads"]:
            if not v.startswith("self.") and v not in plain:
                plain.append(v)
    mod = ast.parse(f"async def _fragment(self, {', '.join(plain)}):\n    pass\n")
    mod.body[0].body[0:1] = [copy.deepcopy(st) for st in stmts]
    ast.fix_missing_locations(mod)
    exprs = {o["param"]: compile(ast.Expression(ast.parse(o["source"], mode="eval").body), f"<opaque {o['param']}>", "eval") for o in tr_facts["opaque"]}

    def run(values: dict, holders: dict, clock):
        ns = dict(globs)
        for name in cfg.silent:
            ns[name] = pa._Silent()
        for name in cfg.opaque_calls:
            ns[name] = clock
        exec(compile(mod, f"<tail of {designator}>", "exec"), ns)  # noqa: S102
        me = _Obj()
        for text, obj in holders.items():
            path = text.split(".")
            if path[0] != "self" or len(path) != 2:
                raise Unsupported(f"sink holder {text}: only `self.<attr>`")
            setattr(me, path[1], obj)
        for v in tr_facts["inputs"]:
            if v.startswith("self.") and v not in holders:
                setattr(me, v[5:], values[v])
        coro = ns["_fragment"](me, *[values[v] for v in plain])
        try:
            coro.send(None)
        except StopIteration as stop:
            return ("returned", stop.value)
        except Exception as e:  # noqa: BLE001
            return ("raised", type(e).__name__)
        coro.close()
        raise RuntimeError("the tail suspended (a recording sink never does)")

    def opaque_values(values: dict, clock) -> dict:
        ns = dict(globs)
        for name in cfg.opaque_calls:
            ns[name] = clock
        return {p: eval(code, ns, {k: v for k, v in values.items() if not k.startswith("self.")}) for p, code in exprs.items()}  # noqa: S307
    return run, opaque_values, tr_facts


# ---------------------------------------------------------------------- the assembly of the method and of its API wrappers

def assembly(source: str, cls: str, core: str, ranges: list, wrappers: list[str], holders: list[str]) -> dict:
    raise Unsupported("assembly: not implemented yet")


def render_assembly(a: dict) -> str:
    return f"-- assembly not extracted: {a.get('failed')}\n" if "failed" in a else ""
