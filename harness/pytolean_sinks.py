"""The TAIL of an `async def` method — from a designated top-level statement to the end of the body — as a SINK-CALL TRACE → Lean (on top
of harness/pytolean.py and harness/pytolean_async.py, neither of which is changed), and the ASSEMBLY of a method from designated ranges.

Made for the sink block of `Guard._evaluate_core_async` (core/engine.py; property C11): `if self.metrics is not None: …` up to `return d`.
What that block is FOR is which sinks it calls, in which order, with which arguments, and that it returns the Decision it was handed
whatever the sinks do.  The tail becomes a Lean definition of type `Rbacx.PyS.Trace` (lean/Rbacx/Model/PySinks.lean): the sink calls
made, in program order, and how the tail ended (`returned v` / `raised` / `next`).  Everything is syntax-directed; anything outside the
stated shapes raises `Unsupported`.

Parameters of the Lean definition, in this order:
* SINKS — one per designated `(attribute text, name)` pair the tail looks up (`("self.metrics", "inc")`), in order of first look-up:
  a `Rbacx.PyS.Sink` = absent / a plain function / a coroutine function, returning / raising.  NOT translated: a parameter the theorems
  quantify over.
* OPAQUE values — one per assignment whose right-hand side calls a designated opaque function (`_now`: the clock): `opaque<n> : PyVal`.
  The expression is not looked into (its source text is recorded in the facts and evaluated by CPython in the differential run).
* INPUTS — the variables that are read before the tail binds them, in order of first read; `self.<attr>` reads count as `self_<attr>`.

Statements:
* `x = getattr(<attribute text>, "<name>", None)` for a designated pair: `x` is bound to that SINK (`let x := <parameter>`); such an `x`
  may only be tested (`x is not None`, `x is None`, `inspect.iscoroutinefunction(x)` / `asyncio.iscoroutinefunction(x)`: the `Sink`'s own
  Boolean functions) and called.  (A `getattr` whose look-up itself raises — a property — is not representable.)
* `await maybe_await(x(args…))` as a statement, `x` a sink variable, `maybe_await` the helper imported at the top of the module
  (await an awaitable, hand anything else on): `Rbacx.PyS.callMaybe "<attribute text>.<name>" x [args…]` — the sink's work runs once
  in every spelling (plain `def`, `async def`, plain `def` returning an awaitable).
* `x(args…)` / `await x(args…)` as a statement, `x` a sink variable, positional arguments only: `Rbacx.PyS.call "<attribute
  text>.<name>" x <awaited> [args…]` — the label is the attribute path, not the local's name; the work runs only when the way of
  calling fits the sink's spelling.  `<attribute text>.<name>(args…)` directly likewise (an absent attribute raises there).
* `try: B except Exception: H` (one handler, `Exception` / `BaseException` / bare, no `as`, no else/finally): `Rbacx.PyS.tryExcept B H`;
  a name first bound in `B` may not be read after the `try` or in `H`.  What `raised` stands for is an `Exception` coming out of a sink
  call; the pure expressions of the tail (dict displays, record fields, `is None` tests) do not raise on the values they are given.
* `if`: `Rbacx.PyS.seq (if <test> then <body> else <orelse>) <rest>`; when a branch binds a name that `<rest>` reads, `<rest>` is
  continued in both branches instead.  `x = E` (and `x: T = E`): `let`; `logger.<m>(…)`, `pass`, bare annotations: nothing.
* `return E`: `Rbacx.PyS.ret E` (must be the last statement of its block).
Expressions: pytolean's and pytolean_async's (records of frozen dataclasses: a local bound ONCE in the method to a construction of a
designated dataclass is a record wherever it is read).

`block_as_python` builds the SAME statements as a real `async def` from the source text and runs it with CPython against recording sink
objects.  `assembly` reads the shape of the whole method and of its API wrappers off the source (see there)."""
from __future__ import annotations

import ast
import copy

import pytolean
import pytolean_async as pa
from pytolean import Unsupported, ident, lean_str


class SinkCfg:
    def __init__(self, sinks: dict[tuple[str, str], str], dataclasses: dict[str, list[str]] | None = None,
                 opaque_calls: tuple = ("_now",), silent: tuple = ("logger",)):
        self.sinks = dict(sinks)                    # (attribute text, name) → Lean parameter
        self.dataclasses = dict(dataclasses or {})  # constructor name → declared fields
        self.opaque_calls = tuple(opaque_calls)     # module-level functions whose calls make a right-hand side opaque
        self.silent = tuple(silent)


def tail(fn, start: str) -> tuple[int, list[ast.stmt]]:
    hits = [i for i, st in enumerate(fn.body) if ast.unparse(st).startswith(start)]
    if len(hits) != 1:
        raise Unsupported(f"{fn.name}: {len(hits)} top-level statements start with {start!r} (need exactly one)")
    return hits[0], fn.body[hits[0]:]


def _stores(stmts: list[ast.stmt]) -> list[str]:
    out: list[str] = []
    for st in stmts:
        for n in ast.walk(st):
            if isinstance(n, ast.Name) and isinstance(n.ctx, ast.Store) and n.id not in out:
                out.append(n.id)
    return out


def _loads(stmts: list[ast.stmt]) -> set[str]:
    return {n.id for st in stmts for n in ast.walk(st) if isinstance(n, ast.Name) and isinstance(n.ctx, ast.Load)}


class SinkTranslator(pa.AsyncTranslator):
    def __init__(self, tree: ast.Module, fn, stmts: list[ast.stmt], cfg: SinkCfg):
        params = {a.arg for a in fn.args.args[1:] + fn.args.kwonlyargs}
        local = params | {n.id for n in ast.walk(fn) if isinstance(n, ast.Name) and isinstance(n.ctx, ast.Store)}
        super().__init__(tree, pa.Cfg({}, records={}, dataclasses=cfg.dataclasses, silent=cfg.silent), local, oracle=False)
        self.scfg = cfg
        self.tree = tree
        self.block_stores = set(_stores(stmts))
        self.inputs: list[str] = []                 # python-level names (`self.<attr>` for attribute reads), order of first read
        self.sink_order: list[tuple[str, str]] = []
        self.opaque: list[dict] = []
        self.scope: dict[str, str] = {}             # names bound by the tail so far: "val" | "sink"
        self.sink_of: dict[str, tuple[str, str]] = {}
        for n in ast.walk(fn):
            if isinstance(n, ast.Name) and isinstance(n.ctx, ast.Store):
                self.stores[n.id] = self.stores.get(n.id, 0) + 1
        for n in ast.walk(fn):
            if isinstance(n, ast.Assign) and len(n.targets) == 1 and isinstance(n.targets[0], ast.Name) and self.stores.get(n.targets[0].id) == 1 \
                    and isinstance(n.value, ast.Call) and isinstance(n.value.func, ast.Name) and n.value.func.id in cfg.dataclasses \
                    and n.value.func.id not in local:
                self.records[n.targets[0].id] = cfg.dataclasses[n.value.func.id]

    def note(self, text: str) -> None:
        if text not in self.notes:
            self.notes.append(text)

    # ------------------------------------------------------------------ expressions
    def _input(self, v: str) -> None:
        if v not in self.inputs:
            self.inputs.append(v)

    def E(self, e: ast.expr) -> str:
        if isinstance(e, ast.Name) and e.id in self.locals:
            kind = self.scope.get(e.id)
            if kind == "sink":
                raise Unsupported(f"sink variable {e.id} used as a value (it may only be tested against None / iscoroutinefunction and called)")
            if kind is None:
                if e.id in self.block_stores:
                    raise Unsupported(f"{e.id} may be read before the tail has bound it")
                self._input(e.id)
            return ident(e.id)
        if pa._is_self_attr(e) and isinstance(e.ctx, ast.Load):
            self._input("self." + e.attr)
            return pa.var_name("self." + e.attr)
        if isinstance(e, ast.Attribute) and isinstance(e.value, ast.Name) and e.value.id in self.records and e.value.id in self.locals:
            self.E(e.value)          # the record variable is read here (an input, or bound by the tail)
        if isinstance(e, ast.Call) and self.sink_lookup(e) is not None:
            raise Unsupported(f"sink look-up outside `x = getattr(…)`: {ast.unparse(e)[:60]}")
        return super().E(e)

    def sink_lookup(self, e: ast.expr) -> tuple[str, str] | None:
        """(attribute text, name) when `e` is `getattr(<attribute text>, "<name>", None)` for a designated pair"""
        if isinstance(e, ast.Call) and isinstance(e.func, ast.Name) and e.func.id == "getattr" and "getattr" not in self.locals \
                and len(e.args) == 3 and not e.keywords and isinstance(e.args[1], ast.Constant) and isinstance(e.args[1].value, str) \
                and isinstance(e.args[2], ast.Constant) and e.args[2].value is None:
            key = (ast.unparse(e.args[0]), e.args[1].value)
            if key in self.scfg.sinks:
                return key
        return None

    def _use_sink(self, key: tuple[str, str]) -> str:
        if key not in self.sink_order:
            self.sink_order.append(key)
        return self.scfg.sinks[key]

    def _module_name(self, name: str) -> bool:
        """`name` denotes the standard module: imported by a top-level `import name`, never rebound"""
        imported = any(isinstance(n, ast.Import) and any(a.name == name and a.asname is None for a in n.names) for n in self.tree.body)
        rebound = any(isinstance(n, ast.Name) and n.id == name and isinstance(n.ctx, ast.Store) for n in ast.walk(self.tree))
        return imported and not rebound and name not in self.locals

    def B(self, e: ast.expr) -> str:
        """a test as a Lean Bool"""
        if isinstance(e, ast.Compare) and len(e.ops) == 1 and isinstance(e.ops[0], (ast.Is, ast.IsNot)) and isinstance(e.left, ast.Name) \
                and self.scope.get(e.left.id) == "sink" and isinstance(e.comparators[0], ast.Constant) and e.comparators[0].value is None:
            t = f"(Rbacx.PyS.Sink.isNotNone {ident(e.left.id)})"
            return t if isinstance(e.ops[0], ast.IsNot) else f"(!{t})"
        if isinstance(e, ast.Call) and isinstance(e.func, ast.Attribute) and e.func.attr == "iscoroutinefunction" \
                and isinstance(e.func.value, ast.Name) and e.func.value.id in ("inspect", "asyncio") and self._module_name(e.func.value.id) \
                and len(e.args) == 1 and not e.keywords and isinstance(e.args[0], ast.Name) and self.scope.get(e.args[0].id) == "sink":
            self.note("`inspect.iscoroutinefunction(x)` on a sink variable: `Sink.isCoro` (an `async def` or not)")
            return f"(Rbacx.PyS.Sink.isCoro {ident(e.args[0].id)})"
        if isinstance(e, ast.UnaryOp) and isinstance(e.op, ast.Not):
            return f"(!{self.B(e.operand)})"
        return f"({self.E(e)}).truthy"

    def _is_opaque(self, e: ast.expr) -> bool:
        return any(isinstance(n, ast.Call) and isinstance(n.func, ast.Name) and n.func.id in self.scfg.opaque_calls and n.func.id not in self.locals
                   for n in ast.walk(e))

    def _imported_helper(self, name: str) -> bool:
        """`name` is imported by a top-level `from … import name` and never rebound (the engine's `maybe_await`)"""
        imported = any(isinstance(n, ast.ImportFrom) and any(a.name == name and a.asname is None for a in n.names) for n in self.tree.body)
        rebound = any(isinstance(n, ast.Name) and n.id == name and isinstance(n.ctx, ast.Store) for n in ast.walk(self.tree)) \
            or any(isinstance(n, (ast.FunctionDef, ast.AsyncFunctionDef, ast.ClassDef)) and n.name == name for n in ast.walk(self.tree))
        return imported and not rebound and name not in self.locals

    def sink_call(self, st: ast.stmt) -> tuple[str, str, bool | str, ast.Call] | None:
        """(label, Lean term of the sink, awaited, call) for `x(args…)` (awaited False) / `await x(args…)` (True) /
        `await maybe_await(x(args…))` ("maybe") as a statement, `x` a sink variable or `<attr text>.<name>` directly"""
        if not isinstance(st, ast.Expr):
            return None
        e, awaited = (st.value.value, True) if isinstance(st.value, ast.Await) else (st.value, False)
        if awaited and isinstance(e, ast.Call) and isinstance(e.func, ast.Name) and e.func.id == "maybe_await" and len(e.args) == 1 \
                and not e.keywords and self._imported_helper("maybe_await"):
            e, awaited = e.args[0], "maybe"
            self.note("`await maybe_await(x(args…))` on a sink: `callMaybe` — the call is made and an awaitable result is awaited (a "
                      "non-awaitable one handed on): the sink's work runs once whatever its spelling; a raise at call time or at await time "
                      "propagates from this statement")
        if not isinstance(e, ast.Call):
            return None
        if isinstance(e.func, ast.Name) and self.scope.get(e.func.id) == "sink":
            key = self.sink_of[e.func.id]
            term = ident(e.func.id)
        elif isinstance(e.func, ast.Attribute) and (ast.unparse(e.func.value), e.func.attr) in self.scfg.sinks:
            key = (ast.unparse(e.func.value), e.func.attr)
            term = self._use_sink(key)
            self.note(f"`{key[0]}.{key[1]}(…)` called directly: an absent attribute raises there (`call` on `Sink.absent`)")
        else:
            return None
        if e.keywords or any(isinstance(a, ast.Starred) for a in e.args):
            raise Unsupported(f"sink call with keyword/starred arguments: {ast.unparse(e)[:60]}")
        return f"{key[0]}.{key[1]}", term, awaited, e

    # ------------------------------------------------------------------ statements
    def T(self, stmts: list[ast.stmt], ind: str) -> str:
        if not stmts:
            return "Rbacx.PyS.next"
        st, rest = stmts[0], stmts[1:]
        if isinstance(st, ast.Pass) or (isinstance(st, ast.Expr) and isinstance(st.value, ast.Constant)) \
                or (isinstance(st, ast.AnnAssign) and st.value is None and isinstance(st.target, ast.Name)):
            return self.T(rest, ind)
        if pa.is_silent(st, self.cfg, self.locals):
            self.note(f"`{st.value.func.value.id}.<method>(…)` statements (logging) make no sink call and are left out")
            return self.T(rest, ind)
        if isinstance(st, ast.Return):
            if rest:
                raise Unsupported("statements after a `return`")
            return f"(Rbacx.PyS.ret {self.E(st.value) if st.value is not None else 'PyVal.none'})"
        if isinstance(st, (ast.Assign, ast.AnnAssign)):
            tgt = st.targets[0] if isinstance(st, ast.Assign) else st.target
            if (isinstance(st, ast.Assign) and len(st.targets) != 1) or not isinstance(tgt, ast.Name):
                raise Unsupported(f"assignment {ast.unparse(st)[:60]}")
            x = tgt.id
            key = self.sink_lookup(st.value)
            if key is not None:
                self.note(f"`{x} = getattr({key[0]}, {key[1]!r}, None)`: `{x}` is the SINK parameter `{self.scfg.sinks[key]}` (absent / plain "
                          f"function / coroutine function, returning / raising), not translated")
                rhs = self._use_sink(key)
                self.scope[x] = "sink"
                self.sink_of[x] = key
            elif self._is_opaque(st.value):
                name = f"opaque{len(self.opaque) + 1}"
                reads: list[str] = []
                pa.areads(st.value, self.locals, self.cfg, reads)
                self.opaque.append({"param": name, "var": x, "source": ast.unparse(st.value), "reads": sorted(set(reads))})
                self.note(f"`{x} = {ast.unparse(st.value)}` reads the clock: `{x}` is the OPAQUE parameter `{name}`, the expression is not looked into")
                rhs = name
                self.scope[x] = "val"
            else:
                rhs = self.E(st.value)
                self.scope[x] = "val"
            return f"let {ident(x)} := {rhs}\n{ind}{self.T(rest, ind)}"
        sc = self.sink_call(st)
        if sc is not None:
            label, term, awaited, call = sc
            args = ", ".join(self.E(a) for a in call.args)
            if awaited == "maybe":
                t = f"(Rbacx.PyS.callMaybe {lean_str(label)} {term} [{args}])"
            else:
                t = f"(Rbacx.PyS.call {lean_str(label)} {term} {'true' if awaited else 'false'} [{args}])"
            return t if not rest else f"Rbacx.PyS.seq {t} (\n{ind}{self.T(rest, ind)})"
        if isinstance(st, ast.If):
            test = self.B(st.test)
            leak = [v for v in _stores(list(st.body) + list(st.orelse)) if v in _loads(rest) and v not in self.scope]
            saved = dict(self.scope)
            if leak:
                a = self.T(list(st.body) + rest, ind + "    ")
                self.scope = dict(saved)
                b = self.T(list(st.orelse) + rest, ind + "    ")
                self.scope = dict(saved)
                return f"(if {test} then\n{ind}    {a}\n{ind}  else\n{ind}    {b})"
            a = self.T(list(st.body), ind + "    ")
            self.scope = dict(saved)
            b = self.T(list(st.orelse), ind + "    ")
            # a name (re)bound in a branch is not relied on afterwards: what it was before the `if` stands only if no branch rebinds it
            self.scope = {k: v for k, v in saved.items() if k not in _stores(list(st.body) + list(st.orelse))}
            rebound = [v for v in saved if v not in self.scope and v in _loads(rest)]
            if rebound:
                raise Unsupported(f"{rebound} rebound inside `if {ast.unparse(st.test)[:40]}` and read after it")
            t = f"(if {test} then\n{ind}    {a}\n{ind}  else\n{ind}    {b})"
            return t if not rest else f"Rbacx.PyS.seq {t} (\n{ind}{self.T(rest, ind)})"
        if isinstance(st, ast.Try):
            if st.orelse or st.finalbody or len(st.handlers) != 1 or st.handlers[0].name is not None:
                raise Unsupported("try statement: only `try: … except Exception: …` without else/finally/`as`")
            ty = st.handlers[0].type
            if not (ty is None or (isinstance(ty, ast.Name) and ty.id in ("Exception", "BaseException") and ty.id not in self.locals)):
                raise Unsupported(f"handler `except {ast.unparse(ty)}` does not catch every Exception")
            bound = [v for v in _stores(list(st.body)) if v not in self.scope]
            bad = [v for v in bound if v in _loads(rest) or v in _loads(list(st.handlers[0].body))]
            if bad:
                raise Unsupported(f"{bad} bound inside a try body and read in its handler / after it (may be unbound)")
            saved = dict(self.scope)
            a = self.T(list(st.body), ind + "    ")
            self.scope = dict(saved)
            h = self.T(list(st.handlers[0].body), ind + "    ")
            self.scope = {k: v for k, v in saved.items() if k not in _stores(list(st.body) + list(st.handlers[0].body))}
            rebound = [v for v in saved if v not in self.scope and v in _loads(rest)]
            if rebound:
                raise Unsupported(f"{rebound} rebound inside a try statement and read after it")
            self.note("`try: B except Exception: H`: `tryExcept B H` — an Exception raised by a sink call ends B there, the calls made stay "
                      "made, H runs, the statements after the try run")
            t = f"(Rbacx.PyS.tryExcept (\n{ind}    {a}) (\n{ind}    {h}))"
            return t if not rest else f"Rbacx.PyS.seq {t} (\n{ind}{self.T(rest, ind)})"
        raise Unsupported(f"statement {ast.unparse(st)[:60]}")


_FORBIDDEN = tuple(t for t in pa._FORBIDDEN) + (ast.With,)


def translate_tail(source: str, designator: str, start: str, lean_name: str, cfg: SinkCfg) -> dict:
    """{"lean", "sinks": [[attribute text, name, parameter]…], "opaque": [{"param", "var", "source", "reads"}…], "inputs": […],
    "first": index of the tail's first statement in the method body, "count": number of top-level statements of the tail}"""
    tree = ast.parse(source)
    fn = pa.method(tree, designator)
    if not isinstance(fn, ast.AsyncFunctionDef):
        raise Unsupported(f"{designator} is not an `async def`")
    first, stmts = tail(fn, start)
    if not isinstance(stmts[-1], ast.Return):
        raise Unsupported(f"{designator}: the tail does not end with a `return`")
    for st in stmts:
        for n in ast.walk(st):
            if isinstance(n, _FORBIDDEN):
                raise Unsupported(f"{designator}: {type(n).__name__} inside the tail")
            if isinstance(n, (ast.Attribute, ast.Subscript)) and isinstance(n.ctx, (ast.Store, ast.Del)):
                raise Unsupported(f"{designator}: assignment to {ast.unparse(n)} inside the tail")
            if isinstance(n, ast.Name) and n.id == "self" and isinstance(n.ctx, ast.Store):
                raise Unsupported("assignment to self")
    tr = SinkTranslator(tree, fn, stmts, cfg)
    body = tr.T(list(stmts), "  ")
    sink_params = [cfg.sinks[k] for k in tr.sink_order]
    opaque_params = [o["param"] for o in tr.opaque]
    in_names = [pa.var_name(v) for v in tr.inputs]
    bound = [ident(v) for v in tr.block_stores]
    names = sink_params + opaque_params + in_names
    if len(set(names)) != len(names) or ident(lean_name) in names + bound or any(p in bound for p in sink_params + opaque_params) \
            or any(v in bound for v in in_names):
        raise Unsupported(f"{designator}: variable names clash after renaming: {names} / {bound}")
    sig = " ".join([f"({p} : Rbacx.PyS.Sink)" for p in sink_params] + [f"({p} : PyVal)" for p in opaque_params + in_names])
    notes = [f"`{cfg.sinks[k]}`: what `getattr({k[0]}, {k[1]!r}, None)` finds and what calling it does" for k in tr.sink_order] + tr.notes
    doc = (f"/-- the tail of `{designator}` from `{start}…` to the end of the body as its SINK-CALL TRACE (the sink calls made, in program "
           f"order, and how the tail ended); sinks: {', '.join(sink_params)}; opaque: {', '.join(opaque_params) or '-'}; inputs: "
           f"{', '.join(tr.inputs)}" + "".join("; " + n for n in notes)).replace("-/", "- /") + " -/\n"
    return {"lean": f"{doc}def {ident(lean_name)} {sig} : Rbacx.PyS.Trace :=\n  {body}\n",
            "sinks": [[k[0], k[1], cfg.sinks[k]] for k in tr.sink_order], "opaque": tr.opaque, "inputs": list(tr.inputs),
            "first": first, "count": len(stmts)}


# ---------------------------------------------------------------------- the same tail run by CPython

class _Obj:
    pass


def block_as_python(source: str, designator: str, start: str, cfg: SinkCfg, globs: dict):
    """(run, facts): `run(values, holders, clock)` executes the tail's statements — verbatim, as an `async def` compiled from the source
    text, in the module's own globals (the logger replaced by a silent one, the opaque functions by `clock`) — and returns
    ("returned", value) / ("raised", class name).  `values`: {input name: python value} for the plain inputs and for the variables the
    opaque expressions read; `holders`: {attribute text: object | None} — the objects `self.<attr>` the sinks are looked up on."""
    tr_facts = translate_tail(source, designator, start, "tail", cfg)
    tree = ast.parse(source)
    fn = pa.method(tree, designator)
    _, stmts = tail(fn, start)
    plain = [v for v in tr_facts["inputs"] if not v.startswith("self.")]
    for o in tr_facts["opaque"]:
        for v in o["reads"]:
            if not v.startswith("self.") and v not in plain:
                plain.append(v)
    mod = ast.parse(f"async def _fragment(self, {', '.join(plain)}):\n    pass\n")
    mod.body[0].body[0:1] = [copy.deepcopy(st) for st in stmts]
    ast.fix_missing_locations(mod)
    exprs = {o["param"]: compile(ast.Expression(ast.parse(o["source"], mode="eval").body), f"<opaque {o['param']}>", "eval") for o in tr_facts["opaque"]}

    def run(values: dict, holders: dict, clock):
        ns = dict(globs)
        for name in cfg.silent:
            ns[name] = pa._Silent()
        for name in cfg.opaque_calls:
            ns[name] = clock
        exec(compile(mod, f"<tail of {designator}>", "exec"), ns)  # noqa: S102
        me = _Obj()
        for text, obj in holders.items():
            path = text.split(".")
            if path[0] != "self" or len(path) != 2:
                raise Unsupported(f"sink holder {text}: only `self.<attr>`")
            setattr(me, path[1], obj)
        for v in tr_facts["inputs"]:
            if v.startswith("self.") and v not in holders:
                setattr(me, v[5:], values[v])
        coro = ns["_fragment"](me, *[values[v] for v in plain])
        try:
            coro.send(None)
        except StopIteration as stop:
            return ("returned", stop.value)
        except Exception as e:  # noqa: BLE001
            return ("raised", type(e).__name__)
        coro.close()
        raise RuntimeError("the tail suspended (a recording sink never does)")

    def opaque_values(values: dict, clock) -> dict:
        ns = dict(globs)
        for name in cfg.opaque_calls:
            ns[name] = clock
        return {p: eval(code, ns, {k: v for k, v in values.items() if not k.startswith("self.")}) for p, code in exprs.items()}  # noqa: S307
    return run, opaque_values, tr_facts


# ---------------------------------------------------------------------- the assembly of the method and of its API wrappers
#
# Facts read off the source text (no translation of values): which designated range covers each top-level statement of the core method,
# and what each API method hands back as a term over the call of the core (`Rbacx.PyAsm.Api`, lean/Rbacx/Model/PyAssembly.lean):
#   `self.<core>(a, b, c, d)` with bare names → `core [a, b, c, d]`; `self.<other API method>(…)` likewise → `method`; `await E` → `await`;
#   `asyncio.run(E)` → `run`; a parameterless local `def f(): return E` called as `f()` → E, submitted to a `ThreadPoolExecutor` bound by
#   `with … as ex` (`fut = ex.submit(f)` … `fut.result()`) → `thread E`; `E.attr` → `attr`; `x = E` for a name assigned once → substituted
#   where `x` is used; `if T: …; return A` followed by the rest → `ite T A <rest>` (T may not contain a call of the core);
#   statements that contain no call of the core / an API method and no return/raise (the probe for a running loop) → skipped, the names
#   they bind become `other`; ANYTHING else → `other <text>`, which no obligation accepts.

_MUTATORS = ("update", "pop", "clear", "setdefault", "popitem", "append", "extend", "insert", "remove", "sort", "reverse")


def _class(tree: ast.Module, cls: str) -> ast.ClassDef:
    hits = [n for n in tree.body if isinstance(n, ast.ClassDef) and n.name == cls]
    if len(hits) != 1:
        raise Unsupported(f"class {cls} not found")
    return hits[0]


def _short(n: ast.AST, k: int = 70) -> str:
    return " ".join(ast.unparse(n).split())[:k]


def cover(fn, ranges: list) -> tuple[list[str], dict[int, str]]:
    """one entry per top-level statement of the method body (a docstring left out): the label of the designated range that covers it,
    `OTHER: <text>` for a statement in no range, `OVERLAP: …` for one in several; and {statement index: entry}"""
    body = list(fn.body)
    texts = [ast.unparse(st) for st in body]
    spans: list[tuple[str, int, int]] = []
    for label, first, last in ranges:
        a = [i for i, t in enumerate(texts) if t.startswith(first)]
        if len(a) != 1:
            raise Unsupported(f"{fn.name}: {len(a)} top-level statements start with {first!r} (range {label}; need exactly one)")
        if last is None:
            b = a
        elif last == "END":
            b = [len(body) - 1]
        else:
            b = [i for i, t in enumerate(texts) if t.startswith(last)]
            if len(b) != 1 or b[0] < a[0]:
                raise Unsupported(f"{fn.name}: {len(b)} top-level statements start with {last!r} (range {label}; need exactly one, after the first)")
        spans.append((label, a[0], b[0]))
    out, at = [], {}
    for i, st in enumerate(body):
        if i == 0 and isinstance(st, ast.Expr) and isinstance(st.value, ast.Constant) and isinstance(st.value.value, str):
            continue
        ls = [label for label, a, b in spans if a <= i <= b]
        entry = ls[0] if len(ls) == 1 else ("OTHER: " + _short(st) if not ls else "OVERLAP: " + "+".join(ls))
        out.append(entry)
        at[i] = entry
    return out, at


class _ApiTr:
    """a wrapper method's body as a term of `Rbacx.PyAsm.Api` (what the method hands back, over the call of the core)"""

    def __init__(self, tree: ast.Module, fn, core: str, wrappers: list[str]):
        a = fn.args
        if a.vararg or a.kwarg or a.posonlyargs or a.kwonlyargs or not a.args or a.args[0].arg != "self":
            raise Unsupported(f"signature of {fn.name}")
        self.tree, self.fn, self.core, self.wrappers = tree, fn, core, list(wrappers)
        self.params = [x.arg for x in a.args[1:]]
        self.env: dict[str, tuple] = {}
        self.stores: dict[str, int] = {}
        for n in ast.walk(fn):
            if isinstance(n, ast.Name) and isinstance(n.ctx, ast.Store):
                self.stores[n.id] = self.stores.get(n.id, 0) + 1
            if isinstance(n, (ast.FunctionDef, ast.AsyncFunctionDef)) and n is not fn:
                self.stores[n.name] = self.stores.get(n.name, 0) + 1

    def is_site(self, n: ast.AST) -> bool:
        return isinstance(n, ast.Call) and pa._is_self_attr(n.func) and n.func.attr in [self.core] + self.wrappers

    def sites(self, n: ast.AST) -> int:
        return sum(1 for x in ast.walk(n) if self.is_site(x))

    def _imported_from(self, module: str, name: str) -> bool:
        return any(isinstance(n, ast.ImportFrom) and n.module == module and any(a.name == name and a.asname is None for a in n.names)
                   for n in self.tree.body) and name not in self.stores and name not in self.params

    def _module(self, name: str) -> bool:
        return any(isinstance(n, ast.Import) and any(a.name == name and a.asname is None for a in n.names) for n in self.tree.body) \
            and name not in self.stores and name not in self.params

    @staticmethod
    def other(text: str) -> str:
        return f"(Rbacx.PyAsm.Api.other {lean_str(text)})"

    def names(self, call: ast.Call) -> str | None:
        if call.keywords or not all(isinstance(x, ast.Name) for x in call.args):
            return None
        return "[" + ", ".join(lean_str(x.id) for x in call.args) + "]"

    def AE(self, e: ast.expr | None) -> str:
        if e is None:
            return self.other("return None")
        if isinstance(e, ast.Name) and self.env.get(e.id, ("",))[0] == "api":
            return self.env[e.id][1]
        if isinstance(e, ast.Await):
            return f"(Rbacx.PyAsm.Api.await {self.AE(e.value)})"
        if isinstance(e, ast.Call):
            f = e.func
            if isinstance(f, ast.Attribute) and f.attr == "run" and isinstance(f.value, ast.Name) and f.value.id == "asyncio" and self._module("asyncio") \
                    and len(e.args) == 1 and not e.keywords:
                return f"(Rbacx.PyAsm.Api.run {self.AE(e.args[0])})"
            if self.is_site(e):
                ns = self.names(e)
                if ns is None:
                    return self.other(_short(e))
                return f"(Rbacx.PyAsm.Api.core {ns})" if f.attr == self.core else f"(Rbacx.PyAsm.Api.method {lean_str(f.attr)} {ns})"
            if isinstance(f, ast.Name) and self.env.get(f.id, ("",))[0] == "localfn" and not e.args and not e.keywords:
                return self.env[f.id][1]
            if isinstance(f, ast.Attribute) and f.attr == "result" and isinstance(f.value, ast.Name) and self.env.get(f.value.id, ("",))[0] == "future" \
                    and not e.args and not e.keywords:
                return f"(Rbacx.PyAsm.Api.thread {self.env[f.value.id][1]})"
        if isinstance(e, ast.Attribute) and isinstance(e.ctx, ast.Load) and not pa._is_self_attr(e):
            return f"(Rbacx.PyAsm.Api.attr {self.AE(e.value)} {lean_str(e.attr)})"
        return self.other(_short(e))

    def neutral(self, st: ast.stmt) -> bool:
        return self.sites(st) == 0 and not any(isinstance(n, (ast.Return, ast.Raise, ast.Yield, ast.YieldFrom)) for n in ast.walk(st))

    def taint(self, st: ast.stmt) -> None:
        for v in _stores([st]):
            self.env[v] = ("api", self.other(f"{v} is bound inside `{_short(st, 40)}`"))

    def AS(self, stmts: list[ast.stmt]) -> str:
        if not stmts:
            return self.other("falls off the end")
        st, rest = stmts[0], stmts[1:]
        if isinstance(st, ast.Pass) or (isinstance(st, ast.Expr) and isinstance(st.value, ast.Constant)):
            return self.AS(rest)
        if isinstance(st, ast.Return):
            return self.AE(st.value)
        if isinstance(st, ast.FunctionDef) and not st.args.args and not st.args.kwonlyargs and not st.args.vararg and not st.args.kwarg \
                and not st.decorator_list and self.stores.get(st.name) == 1:
            body = [b for b in st.body if not (isinstance(b, ast.Expr) and isinstance(b.value, ast.Constant))]
            if len(body) == 1 and isinstance(body[0], ast.Return):
                self.env[st.name] = ("localfn", self.AE(body[0].value))
                return self.AS(rest)
            return self.other(_short(st))
        if isinstance(st, (ast.Assign, ast.AnnAssign)):
            tgt = st.targets[0] if isinstance(st, ast.Assign) else st.target
            if (isinstance(st, ast.Assign) and len(st.targets) != 1) or not isinstance(tgt, ast.Name) or st.value is None:
                return self.other(_short(st)) if self.sites(st) else self.AS(rest)
            x, v = tgt.id, st.value
            if self.stores.get(x) != 1 or x in self.params:
                self.env[x] = ("api", self.other(f"{x} is assigned {self.stores.get(x)} times"))
                return self.other(_short(st)) if self.sites(st) else self.AS(rest)
            if isinstance(v, ast.Call) and isinstance(v.func, ast.Attribute) and v.func.attr == "submit" and isinstance(v.func.value, ast.Name) \
                    and self.env.get(v.func.value.id, ("",))[0] == "executor" and len(v.args) == 1 and not v.keywords \
                    and isinstance(v.args[0], ast.Name) and self.env.get(v.args[0].id, ("",))[0] == "localfn":
                self.env[x] = ("future", self.env[v.args[0].id][1])
            else:
                self.env[x] = ("api", self.AE(v))
            return self.AS(rest)
        if isinstance(st, ast.With):
            it = st.items[0] if len(st.items) == 1 else None
            if it is not None and isinstance(it.context_expr, ast.Call) and isinstance(it.context_expr.func, ast.Name) \
                    and it.context_expr.func.id == "ThreadPoolExecutor" and self._imported_from("concurrent.futures", "ThreadPoolExecutor") \
                    and isinstance(it.optional_vars, ast.Name) and self.stores.get(it.optional_vars.id) == 1 and self.sites(it.context_expr) == 0:
                self.env[it.optional_vars.id] = ("executor",)
                return self.AS(list(st.body) + rest)
            return self.other(_short(st))
        if isinstance(st, ast.If):
            if self.sites(st.test) == 0 and st.body and isinstance(st.body[-1], ast.Return):
                saved = dict(self.env)
                a = self.AS(list(st.body))
                self.env = dict(saved)
                b = self.AS(list(st.orelse) + rest)
                return f"(Rbacx.PyAsm.Api.ite {lean_str(_short(st.test, 50))} {a} {b})"
            if self.neutral(st):
                self.taint(st)
                return self.AS(rest)
            return self.other(_short(st))
        if isinstance(st, (ast.Try, ast.Expr)) and self.neutral(st):
            self.taint(st)
            return self.AS(rest)
        return self.other(_short(st))


def assembly(source: str, cls: str, core: str, ranges: list, wrappers: list[str], holders: list[str], tail_label: str, watch: list[str]) -> dict:
    """facts about the method `cls.core` and the API methods around it, read off the source text:
    * "sequence": the top-level statements of the core as the designated ranges that cover them, consecutive repeats merged;
    * "returns_outside": the number of `return` statements of the core outside the range `tail_label`;
    * "sink_loads_outside": every place of the class outside that range that READS one of the sink objects `holders` (`self.metrics`…);
    * "input_sites": for each variable of `watch` (what the tail reads), the ranges in which it is assigned or mutated in place;
    * "wrappers": per API method its parameters, whether it is `async`, its body as a `Rbacx.PyAsm.Api` term (Lean text) and the number of
      call sites of the core / of the other API methods in its source text."""
    tree = ast.parse(source)
    c = _class(tree, cls)
    fn = pa.method(tree, f"{cls}.{core}")
    per_stmt, at = cover(fn, ranges)
    seq: list[str] = []
    for e in per_stmt:
        if not seq or seq[-1] != e:
            seq.append(e)
    tail_idx = {i for i, e in at.items() if e == tail_label}
    returns_outside = 0
    for i, st in enumerate(fn.body):
        if i not in tail_idx:
            returns_outside += sum(1 for n in ast.walk(st) if isinstance(n, ast.Return))
    attrs = [h.split(".", 1)[1] for h in holders if h.startswith("self.")]
    loads: list[str] = []

    def scan(where: str, node: ast.AST) -> None:
        for n in ast.walk(node):
            if pa._is_self_attr(n) and n.attr in attrs and isinstance(n.ctx, ast.Load):
                loads.append(f"{where}: {_short(n)}")
            if isinstance(n, ast.Call) and isinstance(n.func, ast.Name) and n.func.id in ("getattr", "hasattr") and len(n.args) >= 2 \
                    and isinstance(n.args[0], ast.Name) and n.args[0].id == "self" \
                    and (not isinstance(n.args[1], ast.Constant) or n.args[1].value in attrs):
                loads.append(f"{where}: {_short(n)}")
    for m in c.body:
        if m is fn:
            for i, st in enumerate(fn.body):
                if i not in tail_idx:
                    scan(f"{fn.name}[{at.get(i, 'docstring')}]", st)
        else:
            scan(getattr(m, "name", type(m).__name__), m)
    sites: dict[str, list[str]] = {v: [] for v in watch}
    for i, st in enumerate(fn.body):
        for n in ast.walk(st):
            hit = None
            if isinstance(n, ast.Name) and isinstance(n.ctx, (ast.Store, ast.Del)):
                hit = n.id
            elif isinstance(n, (ast.Subscript, ast.Attribute)) and isinstance(n.ctx, (ast.Store, ast.Del)) and isinstance(n.value, ast.Name):
                hit = n.value.id
            elif isinstance(n, ast.Call) and isinstance(n.func, ast.Attribute) and n.func.attr in _MUTATORS and isinstance(n.func.value, ast.Name):
                hit = n.func.value.id
            if hit in sites and at.get(i, "docstring") not in sites[hit]:
                sites[hit].append(at.get(i, "docstring"))
    ws = []
    for w in wrappers:
        wf = pa.method(tree, f"{cls}.{w}")
        tr = _ApiTr(tree, wf, core, wrappers)
        ws.append({"name": w, "params": tr.params, "async": isinstance(wf, ast.AsyncFunctionDef), "body": tr.AS(list(wf.body)), "sites": tr.sites(wf)})
    return {"sequence": seq, "per_statement": per_stmt, "returns_outside": returns_outside, "sink_loads_outside": loads,
            "input_sites": [[v, sites[v]] for v in watch], "wrappers": ws}


def render_assembly(a: dict) -> str:
    if "failed" in a:
        return f"-- assembly not extracted: {a['failed']}\n"

    def strs(xs) -> str:
        return "[" + ", ".join(lean_str(x) for x in xs) + "]"
    ws = ",\n   ".join(f"⟨{lean_str(w['name'])}, {strs(w['params'])}, {'true' if w['async'] else 'false'},\n     {w['body']}, {w['sites']}⟩" for w in a["wrappers"])
    return ("/-- the top-level statements of the core method as the designated ranges that cover them, in order (`OTHER: …` = a statement in no range) -/\n"
            f"def core_sequence : List String := {strs(a['sequence'])}\n"
            "/-- `return` statements of the core outside the sink block -/\n"
            f"def core_returns_outside : Nat := {a['returns_outside']}\n"
            "/-- places of the class outside the sink block that read a sink object -/\n"
            f"def sink_loads_outside : List String := {strs(a['sink_loads_outside'])}\n"
            "/-- per variable the sink block reads: the ranges that assign it or mutate it in place -/\n"
            "def core_input_sites : List (String × List String) := ["
            + ", ".join(f"({lean_str(v)}, {strs(ls)})" for v, ls in a["input_sites"]) + "]\n"
            "/-- the API methods: name, parameters, async?, what the method hands back as a term over the call of the core, number of call sites of\n"
            "    the core / of API methods in its source text -/\n"
            f"def api_wrappers : List Rbacx.PyAsm.Wrapper :=\n  [{ws}]\n")


