"""STATEFUL (`async`) METHODS of a class that talk to collaborators, read a clock / a PRNG and dispatch on exception classes → Lean.

Combines three readings that exist separately — awaited collaborator calls as OUTCOME parameters (pytolean_async.py), `self._x` fields as
a state record passed in and out, clock readings as parameters, `with self._lock:` transparent (pytolean_methods.py), outcomes that carry
the exception CLASS (pytolean_trace.py) — and adds `try … except A … except B … except Exception …` by class, nested `try`, early
`return`, typed fields and float arithmetic over an abstract number type.  Stand-alone (only `ident`, `lean_str`, `Unsupported` are
shared with pytolean.py); meanings in lean/Rbacx/Model/PyReloader.lean (namespace `Rbacx.PyR`).  Made for
`HotReloader.check_and_reload_async` / `_register_error` (policy/loader.py, property C10; plugin extractors/src_translation_reloader.py).
Syntax-directed; anything outside the shapes below raises `Unsupported`.

`translate_class(src, cls, {method: lean name — callees first}, StateCfg(...), prefix, ranges=…, signatures=…)` renders

    structure <prefix>State (T : Type) where <field> : <type> …
    def <lean name> {T P : Type} (N : Rbacx.PyR.Num T) (<config> : T)… (<reading>k : T)… (<external>k : Except String <ret>)…
        (st : <prefix>State T) (tr : List (Rbacx.PyR.Call P)) (<parameter> : <type>)… : Rbacx.PyR.Res (<prefix>State T) P

* STATE — the attributes the translated methods ASSIGN (`self._x = …`): fields of the record `st`, in the order `__init__` first
  assigns them, typed by `__init__`'s annotations (`float` → `T`, `float | None` → `Option T`, `str | None` → `PyVal`,
  `Exception | None` → `Option String` = the exception's class).  An assignment rebinds `st`; a read is `st.<field>`.
* CONFIG — attributes the methods only read: `__init__` must set them as `self.f = float(<parameter>)`; parameters of type `T`.
* `with self.<lock>:` is transparent (the statements of its body in place): mutual exclusion is not this translation's business.
* READINGS — calls whose text is designated (`time.time()`, `random.uniform(-1.0, 1.0)`): parameters of type `T`, numbered in
  EXECUTION order along a path: `now1` is the first reading of the clock in this call, `now2` the second …  A reading inside a loop is
  impossible (there are no loops).
* EXTERNALS — designated collaborator calls `await maybe_await(C(a…))`, `await C(a…)` or `C(a…)`, as an assignment `x = …` or as a
  statement: NOT translated.  The call is appended to the trace `tr` (callee text + arguments: opaque objects or values), then its OUTCOME —
  a parameter `Except String <ret>`, numbered in execution order like the readings — is matched: `.ok v` binds `x`, `.error cls`
  raises `cls` at this point.  `<ret>`: `PyVal` (a value), `P` (an opaque object, only handed on), `Unit` (result not used).
* EXCEPTIONS — raised only by externals and by called methods (every other accepted operation is total on the typed values).  A raise
  goes to the innermost enclosing `try`: its handlers become ONE local function `onExc<n> st tr exc` defined where the `try` starts —
  `except pkg.A [as e]:` tests `exc == "A"` in clause order, `except Exception [as e]:` takes everything (BaseExceptions are outside the
  reading) — followed by the statements after the `try`; no handler matching re-raises outward; outside every `try` the method ends
  `.raised cls`.  A handler sees the locals bound BEFORE the `try` statement only (reading one bound inside the body is rejected), and
  may take a numbered reading / external only of a kind whose count is the same at every raise point of the body.
  No `else` / `finally`.
* `self.m(a…, k=v…)` as a statement, `m` an already translated method: called with the current `st`, `tr` and the next readings /
  outcomes it needs; its final `st`, `tr` continue; an exception it raises is raised at the call; its return value is dropped.
* SILENT — `logger.<m>(…)` statements: no effect on state, trace or result, skipped (their arguments are not evaluated: trusted to be
  total).  A local that is read only in silent statements (and in assignments to such locals) is LOG-ONLY: its assignments are
  skipped when the right-hand side is built from constants, names, tuples and designated total calls (`self._src_name()`), and an
  `if` whose branches thereby become empty and whose test compares `str`/`bool` parameters with constants is skipped too.
* statements: assignments / annotated assignments to a local or a field, `if`/`elif`/`else` (the statements after an `if` are
  duplicated into the branches that fall through), `return <bool expr | None>`, `pass`, doc strings, bare annotations.
* expressions (typed): names, `self.<field>`, `self.<config>`, None / True / False / str constants, float literals (`N.lit digits
  decimals`), `+ - *` `min(a, b)` `max(a, b)` `<` `<=` `>` `>=` on numbers (`N.add …`), `and` / `or` / `not` on bools, `x is None` / `x is not None`,
  `a == b` / `a != b` on values, `isinstance(x, str)`, `a if c else b`.  `None` is `Option.none` or `PyVal.none` by the expected type; a
  number / class flowing into an optional field is wrapped in `some`, a `str` into a value in `PyVal.str`.
* keyword-only parameters become positional ones in signature order; defaults are recorded in the doc comment, callers pass every argument.
* RANGES (`ranges={lean name: (method, start, last)}`) — the top-level statements of a method body from the ONE whose `ast.unparse` text
  starts with `start` up to and including the ONE that starts with `last`, translated like a method without parameters (the range may
  not mention the method's parameters): made for the state-creating statements of `__init__`, where every field is assigned, so the
  incoming `st` does not matter (the obligation proves that, it is not assumed).
* PROBES (`probes={text of a boolean expression with every local written `_`: stem}`) — a designated expression (e.g. `etag_attr is not
  None and not inspect.iscoroutinefunction(etag_attr)`, designated as `_ is not None and (not inspect.iscoroutinefunction(_))`) is NOT translated: a `Bool` parameter, numbered in execution order like a reading — what it
  evaluates to is an input.  A local that is read only inside probes is left out like a log-only local; its right-hand side must be a
  constant, a name or an expression designated total (`total_exprs`, e.g. `getattr(self.source, 'etag', None)`).
* a CONFIG field set as `self.f = bool(<parameter>)` is a `Bool` parameter; every definition takes the configuration fields it (or a
  method it calls) reads, in `__init__`'s order — or, with `signatures={lean name: [fields]}`, exactly the declared ones (a superset of what
  it reads), so that a source change which drops the last mention of a field changes the BODY, not the signature."""
from __future__ import annotations

import ast
import copy

from pytolean import Unsupported, ident, lean_str

LEAN_TYPE = {"num": "T", "num?": "Option T", "val": "PyVal", "exc": "String", "exc?": "Option String", "opaque": "P", "bool": "Bool",
             "str": "String", "unit": "Unit"}
RESERVED = {"st", "tr", "exc", "N", "T", "P", "self"}


class Ext:
    def __init__(self, param: str, returns: str):
        if returns not in ("val", "opaque", "unit"):
            raise ValueError(returns)
        self.param, self.returns = param, returns


class StateCfg:
    def __init__(self, externals: dict[str, Ext], readings: dict[str, str], lock: str, silent: tuple = ("logger",),
                 total_calls: tuple = (), wrappers: tuple = ("maybe_await",), probes: dict[str, str] | None = None, total_exprs: tuple = ()):
        self.externals = dict(externals)      # text of the callee → Ext
        self.readings = dict(readings)        # text of the whole call → parameter stem
        self.lock, self.silent, self.total_calls, self.wrappers = lock, tuple(silent), tuple(total_calls), tuple(wrappers)
        self.probes = dict(probes or {})      # text of a whole boolean expression → parameter stem (a Bool reading)
        self.total_exprs = tuple(total_exprs)  # texts of whole expressions taken to be total (right-hand sides of probe-only locals)


def _is_self_attr(n: ast.AST, attr: str | None = None) -> bool:
    return isinstance(n, ast.Attribute) and isinstance(n.value, ast.Name) and n.value.id == "self" and (attr is None or n.attr == attr)


def ann_type(a: ast.expr | None) -> str | None:
    """the reading of an annotation; None = no reading"""
    if a is None:
        return None
    t = ast.unparse(a).replace(" ", "")
    return {"float": "num", "float|None": "num?", "None|float": "num?", "str|None": "val", "None|str": "val", "Any": "val", "object": "val",
            "Exception": "exc", "Exception|None": "exc?", "None|Exception": "exc?", "BaseException|None": "exc?", "bool": "bool", "str": "str"}.get(t)


def float_literal(v: float) -> tuple[int, int]:
    r = repr(v)
    if "e" in r or "n" in r or r.startswith("-"):
        raise Unsupported(f"float literal {r}")
    whole, _, frac = r.partition(".")
    return int(whole + frac), len(frac)


class Ctx:
    """what is statically known at a program point of one path"""
    def __init__(self, env: dict[str, str], counts: dict[str, int], handlers: list[dict], poisoned: frozenset = frozenset()):
        self.env, self.counts, self.handlers, self.poisoned = env, counts, handlers, poisoned

    def bind(self, name: str, ty: str) -> "Ctx":
        e = dict(self.env)
        e[name] = ty
        return Ctx(e, self.counts, self.handlers, self.poisoned)

    def took(self, kind: str, n: int = 1) -> "Ctx":
        c = dict(self.counts)
        c[kind] = c.get(kind, 0) + n
        return Ctx(self.env, c, self.handlers, self.poisoned)


class _Pop(ast.stmt):
    """pseudo statement: the try body ended normally — leave its handler"""
    _fields = ()


class StateTranslator:
    def __init__(self, tree: ast.Module, cls: ast.ClassDef, cfg: StateCfg, methods: dict[str, str], prefix: str,
                 ranges: dict[str, tuple] | None = None, signatures: dict[str, list[str]] | None = None):
        # lean name → the configuration fields its definition takes (a superset of what it reads: the signature then does not depend on
        # which of them the current source happens to mention)
        self.signatures = {k: list(v) for k, v in (signatures or {}).items()}
        self.tree, self.cls, self.cfg, self.names, self.prefix = tree, cls, cfg, dict(methods), prefix
        self.fns = {n.name: n for n in cls.body if isinstance(n, (ast.FunctionDef, ast.AsyncFunctionDef))}
        for m in methods:
            if m not in self.fns:
                raise Unsupported(f"method {m} not found in class {cls.name}")
        # what is translated: whole methods, and statement ranges (lean name → (method, start, last): the top-level statements of the
        # method body from the ONE whose text starts with `start` up to and including the ONE that starts with `last`)
        self.units: dict[str, list[ast.stmt]] = {m: list(self.fns[m].body) for m in methods}
        self.ranges: dict[str, tuple] = {}
        for lean_name, (m, start, last) in (ranges or {}).items():
            if m not in self.fns:
                raise Unsupported(f"method {m} not found in class {cls.name}")
            body = self.fns[m].body
            a = [i for i, st in enumerate(body) if ast.unparse(st).startswith(start)]
            b = [i for i, st in enumerate(body) if ast.unparse(st).startswith(last)]
            if len(a) != 1 or len(b) != 1 or a[0] > b[0]:
                raise Unsupported(f"{m}: {len(a)} top-level statements start with {start!r}, {len(b)} with {last!r} (need exactly one each, in this order)")
            self.units["range:" + lean_name] = body[a[0]:b[0] + 1]
            self.ranges[lean_name] = (m, start, last)
        self.state: dict[str, str] = {}      # field → type, in order of first assignment in __init__
        self.config: list[str] = []
        self.config_type: dict[str, str] = {}
        self.done: dict[str, dict] = {}
        self.max_counts: dict[str, int] = {}
        self.n_handlers = 0
        self.notes: list[str] = []
        self.except_classes: list[str] = []
        self._classify_fields()

    # ------------------------------------------------------------------ the class as a whole
    def _classify_fields(self) -> None:
        init = self.fns.get("__init__")
        if init is None:
            raise Unsupported(f"class {self.cls.name} has no __init__")
        assigned, read = set(), set()
        walk = {u: [n for st in stmts for n in ast.walk(st)] for u, stmts in self.units.items()}
        for m in self.units:
            for n in walk[m]:
                if _is_self_attr(n):
                    if isinstance(n.ctx, ast.Store):
                        assigned.add(n.attr)
                    elif isinstance(n.ctx, ast.Del):
                        raise Unsupported(f"{m}: del {ast.unparse(n)}")
        roots = {x.split(".")[1] for x in list(self.cfg.externals) + list(self.cfg.total_calls) if x.startswith("self.") and x.count(".") >= 1}
        self.unit_reads: dict[str, set[str]] = {}
        for m in self.units:
            for n in walk[m]:
                if _is_self_attr(n) and isinstance(n.ctx, ast.Load) and n.attr not in assigned and n.attr != self.cfg.lock \
                        and n.attr not in roots and n.attr not in self.names:
                    read.add(n.attr)
                    self.unit_reads.setdefault(m, set()).add(n.attr)
        params = {a.arg for a in init.args.args[1:] + init.args.kwonlyargs}
        types: dict[str, str | None] = {}
        order: list[str] = []
        conf_ok: dict[str, int] = {}
        for n in ast.walk(init):
            tgt = None
            if isinstance(n, ast.Assign) and len(n.targets) == 1 and _is_self_attr(n.targets[0]):
                tgt, ann, val = n.targets[0].attr, None, n.value
            elif isinstance(n, ast.AnnAssign) and _is_self_attr(n.target):
                tgt, ann, val = n.target.attr, n.annotation, n.value
            if tgt is None:
                continue
            if tgt not in order:
                order.append(tgt)
            if ann is not None:
                t = ann_type(ann)
                if tgt in assigned and t is None:
                    raise Unsupported(f"__init__: annotation of the field {tgt}: {ast.unparse(ann)}")
                if types.get(tgt) not in (None, t):
                    raise Unsupported(f"__init__: field {tgt} is annotated twice, differently")
                types[tgt] = t
            if tgt in read or any(tgt in v for v in self.signatures.values()):
                ok = isinstance(val, ast.Call) and isinstance(val.func, ast.Name) and val.func.id in ("float", "bool") and len(val.args) == 1 \
                    and not val.keywords and isinstance(val.args[0], ast.Name) and val.args[0].id in params
                conf_ok[tgt] = conf_ok.get(tgt, 0) + (1 if ok else 100)
                if ok:
                    self.config_type[tgt] = {"float": "num", "bool": "bool"}[val.func.id]
        # ast.walk is breadth-first: order the fields by source position instead
        pos: dict[str, tuple] = {}
        for n in ast.walk(init):
            if _is_self_attr(n) and isinstance(n.ctx, ast.Store):
                pos[n.attr] = min(pos.get(n.attr, (10 ** 9, 0)), (n.lineno, n.col_offset))
        order.sort(key=lambda f: pos[f])
        for f in order:
            if f in assigned:
                if types.get(f) is None:
                    raise Unsupported(f"__init__: the field {f} (assigned by a translated method) has no annotation")
                self.state[f] = types[f]
        missing = assigned - set(self.state)
        if missing:
            raise Unsupported(f"fields {sorted(missing)} are assigned by a translated method but not created in __init__")
        for f in order:
            if f in read or any(f in v for v in self.signatures.values()):
                if conf_ok.get(f) != 1:
                    raise Unsupported(f"__init__: the configuration field {f} is not set exactly once as float(<parameter>) / bool(<parameter>)")
                self.config.append(f)
        missing = read - set(self.config)
        if missing:
            raise Unsupported(f"attributes {sorted(missing)} are read by a translated method but are neither state, configuration, the lock "
                              f"nor a designated collaborator")

    def state_name(self) -> str:
        return self.prefix + "State"

    # ------------------------------------------------------------------ recognisers
    def reading(self, e: ast.AST) -> str | None:
        if isinstance(e, ast.Call):
            t = ast.unparse(e)
            if t in self.cfg.readings:
                return self.cfg.readings[t]
        return None

    def external(self, e: ast.AST) -> tuple[str, ast.Call] | None:
        if isinstance(e, ast.Await):
            e = e.value
            if isinstance(e, ast.Call) and isinstance(e.func, ast.Name) and e.func.id in self.cfg.wrappers and len(e.args) == 1 and not e.keywords:
                e = e.args[0]
        if isinstance(e, ast.Call) and ast.unparse(e.func) in self.cfg.externals:
            if e.keywords or any(isinstance(a, ast.Starred) for a in e.args):
                raise Unsupported(f"external call with keyword/starred arguments: {ast.unparse(e)}")
            return ast.unparse(e.func), e
        return None

    def helper(self, e: ast.AST) -> str | None:
        if isinstance(e, ast.Call) and _is_self_attr(e.func) and e.func.attr in self.names:
            return e.func.attr
        return None

    def probe_of(self, e: ast.AST) -> str | None:
        """the parameter stem when `e` is a designated probe: its text with every local of the unit written `_`"""
        if not self.cfg.probes or not isinstance(e, (ast.BoolOp, ast.Compare, ast.UnaryOp, ast.Call)):
            return None
        c = copy.deepcopy(e)
        for n in ast.walk(c):
            if isinstance(n, ast.Name) and n.id in self.locals:
                n.id = "_"
        return self.cfg.probes.get(ast.unparse(c))

    def is_silent(self, st: ast.stmt) -> bool:
        return (isinstance(st, ast.Expr) and isinstance(st.value, ast.Call) and isinstance(st.value.func, ast.Attribute)
                and isinstance(st.value.func.value, ast.Name) and st.value.func.value.id in self.cfg.silent
                and st.value.func.value.id not in self.locals)

    # ------------------------------------------------------------------ log-only locals
    def _harmless(self, e: ast.expr) -> bool:
        if isinstance(e, (ast.Constant, ast.Name)):
            return True
        if isinstance(e, (ast.Tuple, ast.List)):
            return all(self._harmless(x) for x in e.elts)
        if isinstance(e, ast.Starred):
            return self._harmless(e.value)
        if isinstance(e, ast.Call) and ast.unparse(e.func) in self.cfg.total_calls and not e.args and not e.keywords:
            return True
        return ast.unparse(e) in self.cfg.total_exprs

    def _harmless_test(self, e: ast.expr, env: dict[str, str]) -> bool:
        def atom(x):
            return isinstance(x, ast.Constant) or (isinstance(x, ast.Name) and env.get(x.id) in ("str", "bool"))
        if isinstance(e, ast.Compare) and len(e.ops) == 1 and isinstance(e.ops[0], (ast.Eq, ast.NotEq, ast.In, ast.NotIn)):
            return atom(e.left) and atom(e.comparators[0])
        if isinstance(e, ast.UnaryOp) and isinstance(e.op, ast.Not):
            return self._harmless_test(e.operand, env)
        if isinstance(e, ast.BoolOp):
            return all(self._harmless_test(x, env) for x in e.values)
        return atom(e)

    def _log_only(self, fn, stmts: list[ast.stmt]) -> set[str]:
        name = fn.name
        fn = ast.Module(body=list(stmts), type_ignores=[])
        silent_nodes: set[int] = set()
        for n in ast.walk(fn):
            if (isinstance(n, ast.stmt) and self.is_silent(n)) or (isinstance(n, ast.expr) and self.probe_of(n) is not None):
                silent_nodes |= {id(m) for m in ast.walk(n)}
        stored = {n.id for n in ast.walk(fn) if isinstance(n, ast.Name) and isinstance(n.ctx, ast.Store)}
        params = set(self.param_names)
        cand = stored - params
        changed = True
        while changed:
            changed = False
            owner: dict[int, str] = {}          # nodes inside the right-hand side of an assignment to a candidate
            for n in ast.walk(fn):
                if isinstance(n, (ast.Assign, ast.AnnAssign)) and n.value is not None:
                    t = n.targets[0] if isinstance(n, ast.Assign) and len(n.targets) == 1 else getattr(n, "target", None)
                    if isinstance(t, ast.Name) and t.id in cand:
                        for m in ast.walk(n.value):
                            owner[id(m)] = t.id
            for n in ast.walk(fn):
                if isinstance(n, ast.Name) and isinstance(n.ctx, ast.Load) and n.id in cand and id(n) not in silent_nodes and id(n) not in owner:
                    cand.discard(n.id)
                    changed = True
        for n in ast.walk(fn):
            if isinstance(n, (ast.Assign, ast.AnnAssign)) and n.value is not None:
                t = n.targets[0] if isinstance(n, ast.Assign) and len(n.targets) == 1 else getattr(n, "target", None)
                if isinstance(t, ast.Name) and t.id in cand and not self._harmless(n.value):
                    raise Unsupported(f"{name}: the log-only local {t.id} is assigned something that is not obviously total: "
                                      f"{ast.unparse(n.value)[:60]}")
        return cand

    def _prune(self, stmts: list[ast.stmt], dead: set[str], env: dict[str, str]) -> list[ast.stmt]:
        out = []
        for st in stmts:
            if isinstance(st, (ast.Assign, ast.AnnAssign)):
                t = st.targets[0] if isinstance(st, ast.Assign) and len(st.targets) == 1 else getattr(st, "target", None)
                if isinstance(t, ast.Name) and t.id in dead:
                    continue
            if self.is_silent(st) or isinstance(st, ast.Pass) or (isinstance(st, ast.Expr) and isinstance(st.value, ast.Constant)):
                if self.is_silent(st):
                    self.note("`logger.<method>(…)` statements have no effect on state, trace or result and are left out (locals only they "
                              "read likewise)")
                continue
            if isinstance(st, ast.AnnAssign) and st.value is None and isinstance(st.target, ast.Name):
                continue
            if isinstance(st, ast.If):
                st = copy.copy(st)
                st.body, st.orelse = self._prune(st.body, dead, env), self._prune(st.orelse, dead, env)
                if not st.body and not st.orelse and self._harmless_test(st.test, env):
                    continue
                if not st.body:
                    st.body = [ast.Pass()]
            elif isinstance(st, ast.With):
                st = copy.copy(st)
                st.body = self._prune(st.body, dead, env) or [ast.Pass()]
            elif isinstance(st, ast.Try):
                st = copy.copy(st)
                st.body = self._prune(st.body, dead, env) or [ast.Pass()]
                hs = []
                for h in st.handlers:
                    h = copy.copy(h)
                    h.body = self._prune(h.body, dead, env) or [ast.Pass()]
                    hs.append(h)
                st.handlers = hs
            out.append(st)
        return out

    def note(self, s: str) -> None:
        if s not in self.notes:
            self.notes.append(s)

    # ------------------------------------------------------------------ expressions
    def coerce(self, text: str, ty: str, want: str | None, what: str) -> str:
        if want is None or ty == want:
            return text
        if ty == "none":
            if want in ("num?", "exc?"):
                return "Option.none"
            if want == "val":
                return "PyVal.none"
        if (ty, want) in (("num", "num?"), ("exc", "exc?")):
            return f"(Option.some {text})"
        if (ty, want) == ("str", "val"):
            return f"(PyVal.str {text})"
        if (ty, want) == ("bool", "val"):
            return f"(PyVal.bool {text})"
        raise Unsupported(f"{what}: a value of reading `{ty}` where `{want}` is expected")

    def E(self, e: ast.expr, ctx: Ctx, want: str | None = None) -> tuple[str, str, Ctx]:
        """(Lean text, reading, context after — readings taken are counted)"""
        text, ty, ctx = self._E(e, ctx, want)
        return self.coerce(text, ty, want, ast.unparse(e)[:60]), (want or ty), ctx

    def _E(self, e: ast.expr, ctx: Ctx, want: str | None) -> tuple[str, str, Ctx]:
        if isinstance(e, ast.Constant):
            v = e.value
            if v is None:
                return "none", "none", ctx
            if isinstance(v, bool):
                return ("true" if v else "false"), "bool", ctx
            if isinstance(v, str):
                return lean_str(v), "str", ctx
            if isinstance(v, float):
                m, d = float_literal(v)
                return f"(N.lit {m} {d})", "num", ctx
            raise Unsupported(f"constant {v!r}")
        if self.probe_of(e) is not None:
            kind = self.probe_of(e)
            if kind in ctx.poisoned:
                raise Unsupported(f"a handler evaluates the probe `{ast.unparse(e)}` although the raise points of its try body differ in it")
            ctx = ctx.took(kind)
            k = ctx.counts[kind]
            self.max_counts[kind] = max(self.max_counts.get(kind, 0), k)
            self.note(f"`{ast.unparse(e)}` is a PROBE: a Bool parameter (what it evaluates to is an input; the locals only it reads are left out)")
            return f"{kind}{k}", "bool", ctx
        if isinstance(e, ast.Name):
            if e.id == "self":
                raise Unsupported("self used as a value")
            if e.id not in ctx.env:
                raise Unsupported(f"{e.id} may be unbound here (or is not a local of a known reading)")
            return ident(e.id), ctx.env[e.id], ctx
        if _is_self_attr(e) and isinstance(e.ctx, ast.Load):
            if e.attr in self.state:
                return f"st.{ident(e.attr)}", self.state[e.attr], ctx
            if e.attr in self.config:
                return ident(e.attr), self.config_type[e.attr], ctx
            raise Unsupported(f"{ast.unparse(e)} used as a value")
        kind = self.reading(e)
        if kind is not None:
            if kind in ctx.poisoned:
                raise Unsupported(f"a handler takes a reading `{ast.unparse(e)}` although the raise points of its try body have taken different numbers of them")
            ctx = ctx.took(kind)
            k = ctx.counts[kind]
            self.max_counts[kind] = max(self.max_counts.get(kind, 0), k)
            return f"{kind}{k}", "num", ctx
        if isinstance(e, ast.BinOp) and isinstance(e.op, (ast.Add, ast.Sub, ast.Mult)):
            a, _, ctx = self.E(e.left, ctx, "num")
            b, _, ctx = self.E(e.right, ctx, "num")
            return f"(N.{ {ast.Add: 'add', ast.Sub: 'sub', ast.Mult: 'mul'}[type(e.op)]} {a} {b})", "num", ctx
        if isinstance(e, ast.Call) and isinstance(e.func, ast.Name) and e.func.id in ("min", "max") and e.func.id not in self.locals \
                and len(e.args) == 2 and not e.keywords:
            a, _, ctx = self.E(e.args[0], ctx, "num")
            b, _, ctx = self.E(e.args[1], ctx, "num")
            return f"(N.{e.func.id} {a} {b})", "num", ctx
        if isinstance(e, ast.Call) and isinstance(e.func, ast.Name) and e.func.id == "isinstance" and "isinstance" not in self.locals \
                and len(e.args) == 2 and not e.keywords and isinstance(e.args[1], ast.Name) and e.args[1].id == "str" and "str" not in self.locals:
            a, _, ctx = self.E(e.args[0], ctx, "val")
            return f"(Rbacx.PyR.isStr {a})", "bool", ctx
        if isinstance(e, ast.Compare) and len(e.ops) == 1:
            op, l, r = e.ops[0], e.left, e.comparators[0]
            if isinstance(op, (ast.Is, ast.IsNot)) and isinstance(r, ast.Constant) and r.value is None:
                a, ty, ctx = self._E(l, ctx, None)
                neg = isinstance(op, ast.IsNot)
                if ty == "val":
                    return f"(Rbacx.PyR.{'isNotNone' if neg else 'isNoneV'} {a})", "bool", ctx
                if ty in ("num?", "exc?"):
                    return f"({a}).{'isSome' if neg else 'isNone'}", "bool", ctx
                raise Unsupported(f"`is None` on a value of reading `{ty}`: {ast.unparse(e)}")
            if isinstance(op, (ast.Lt, ast.LtE, ast.Gt, ast.GtE)):
                a, _, ctx = self.E(l, ctx, "num")
                b, _, ctx = self.E(r, ctx, "num")
                if isinstance(op, (ast.Gt, ast.GtE)):
                    self.note("`a > b` / `a >= b` are read as `b < a` / `b <= a` (operands still evaluated left to right: they have no effects "
                              "other than numbered readings, which are numbered in the source's order)")
                    return f"(N.{'lt' if isinstance(op, ast.Gt) else 'le'} {b} {a})", "bool", ctx
                return f"(N.{'lt' if isinstance(op, ast.Lt) else 'le'} {a} {b})", "bool", ctx
            if isinstance(op, (ast.Eq, ast.NotEq)):
                a, _, ctx = self.E(l, ctx, "val")
                b, _, ctx = self.E(r, ctx, "val")
                t = f"(Rbacx.PyR.eq {a} {b})"
                return (t if isinstance(op, ast.Eq) else f"(!{t})"), "bool", ctx
        if isinstance(e, ast.BoolOp):
            parts = []
            for x in e.values:
                # operands after the first are evaluated conditionally: they may not take numbered readings
                before = dict(ctx.counts)
                t, _, ctx = self.E(x, ctx, "bool")
                if parts and ctx.counts != before:
                    raise Unsupported(f"a reading inside a conditionally evaluated operand: {ast.unparse(e)[:60]}")
                parts.append(t)
            return "(" + (" && " if isinstance(e.op, ast.And) else " || ").join(parts) + ")", "bool", ctx
        if isinstance(e, ast.UnaryOp) and isinstance(e.op, ast.Not):
            a, _, ctx = self.E(e.operand, ctx, "bool")
            return f"(!{a})", "bool", ctx
        if isinstance(e, ast.IfExp):
            c, _, ctx = self.E(e.test, ctx, "bool")
            before = dict(ctx.counts)
            if want is None:
                a, ta, ctx = self._E(e.body, ctx, None)
                b, tb, ctx = self._E(e.orelse, ctx, None)
                ty = ta if tb in (ta, "none") else tb if ta == "none" else None
                if ty is None or ty == "none":
                    raise Unsupported(f"conditional expression whose branches have different readings: {ast.unparse(e)[:60]}")
                ty = {"str": "val"}.get(ty, ty) if "none" in (ta, tb) else ty
                a, b = self.coerce(a, ta, ty, "conditional"), self.coerce(b, tb, ty, "conditional")
            else:
                ty = want
                a, _, ctx = self.E(e.body, ctx, want)
                b, _, ctx = self.E(e.orelse, ctx, want)
            if ctx.counts != before:
                raise Unsupported(f"a reading inside a conditionally evaluated operand: {ast.unparse(e)[:60]}")
            return f"(if {c} then {a} else {b})", ty, ctx
        if isinstance(e, ast.Await) or self.external(e):
            raise Unsupported(f"collaborator call / await outside the accepted shape (`x = <call>` or a statement): {ast.unparse(e)[:60]}")
        raise Unsupported(f"expression {ast.unparse(e)[:60]}")

    # ------------------------------------------------------------------ statements
    def RES(self) -> str:
        return f"Rbacx.PyR.Res ({self.state_name()} T) P"

    def raise_(self, ctx: Ctx, exc: str) -> str:
        if not ctx.handlers:
            return f"(⟨st, tr, Rbacx.PyR.Out.raised {exc}⟩ : {self.RES()})"
        h = ctx.handlers[-1]
        h["points"].append(dict(ctx.counts))
        return f"{h['name']} st tr {exc}"

    def S(self, stmts: list[ast.stmt], ctx: Ctx, ind: str) -> str:
        if not stmts:
            return f"(⟨st, tr, Rbacx.PyR.Out.returned PyVal.none⟩ : {self.RES()})"
        st, rest = stmts[0], stmts[1:]
        if isinstance(st, _Pop):
            return self.S(rest, Ctx(ctx.env, ctx.counts, ctx.handlers[:-1], ctx.poisoned), ind)
        if isinstance(st, ast.Pass):
            return self.S(rest, ctx, ind)
        if isinstance(st, ast.With):
            if len(st.items) != 1 or st.items[0].optional_vars is not None or not _is_self_attr(st.items[0].context_expr, self.cfg.lock):
                raise Unsupported(f"with statement {ast.unparse(st.items[0])} (only `with self.{self.cfg.lock}:`)")
            self.note(f"`with self.{self.cfg.lock}:` is transparent")
            return self.S(list(st.body) + rest, ctx, ind)
        if isinstance(st, ast.Return):
            if st.value is None or (isinstance(st.value, ast.Constant) and st.value.value is None):
                v = "PyVal.none"
            else:
                v, _, ctx = self.E(st.value, ctx, "val")
            return f"(⟨st, tr, Rbacx.PyR.Out.returned {v}⟩ : {self.RES()})"
        if isinstance(st, ast.If):
            c, _, ctx = self.E(st.test, ctx, "bool")
            a = self.S(list(st.body) + rest, ctx, ind + "  ")
            b = self.S(list(st.orelse) + rest, ctx, ind + "  ")
            return f"(if {c} then\n{ind}  {a}\n{ind}else\n{ind}  {b})"
        if isinstance(st, (ast.Assign, ast.AnnAssign)):
            if isinstance(st, ast.Assign):
                if len(st.targets) != 1:
                    raise Unsupported(f"assignment {ast.unparse(st)[:60]}")
                tgt, ann = st.targets[0], None
            else:
                tgt, ann = st.target, ann_type(st.annotation)
                if ann is None:
                    raise Unsupported(f"annotation {ast.unparse(st.annotation)} has no reading")
            ext = self.external(st.value)
            if ext is not None:
                if not isinstance(tgt, ast.Name):
                    raise Unsupported(f"the result of a collaborator call must be bound to a local: {ast.unparse(st)[:60]}")
                return self.ext_call(ext, tgt.id, rest, ctx, ind)
            if _is_self_attr(tgt):
                if tgt.attr not in self.state:
                    raise Unsupported(f"assignment to {ast.unparse(tgt)}")
                v, _, ctx = self.E(st.value, ctx, self.state[tgt.attr])
                return f"let st := {{ st with {ident(tgt.attr)} := {v} }}\n{ind}{self.S(rest, ctx, ind)}"
            if isinstance(tgt, ast.Name):
                ann = ann or self.local_ann.get(tgt.id)     # an annotation of a local holds for the whole function
                v, ty, ctx = self.E(st.value, ctx, ann)
                if ty == "none":
                    raise Unsupported(f"{tgt.id} = None without an annotation that gives it a reading")
                return f"let {ident(tgt.id)} := {v}\n{ind}{self.S(rest, ctx.bind(tgt.id, ty), ind)}"
            raise Unsupported(f"assignment {ast.unparse(st)[:60]}")
        if isinstance(st, ast.Expr):
            ext = self.external(st.value)
            if ext is not None:
                return self.ext_call(ext, None, rest, ctx, ind)
            h = self.helper(st.value)
            if h is not None:
                return self.helper_call(h, st.value, rest, ctx, ind)
            if isinstance(st.value, ast.Await) and self.helper(st.value.value) is not None:
                return self.helper_call(self.helper(st.value.value), st.value.value, rest, ctx, ind)
        if isinstance(st, ast.Try):
            return self.try_(st, rest, ctx, ind)
        raise Unsupported(f"statement {ast.unparse(st)[:70]}")

    def ext_call(self, ext: tuple[str, ast.Call], target: str | None, rest: list[ast.stmt], ctx: Ctx, ind: str) -> str:
        callee, call = ext
        x = self.cfg.externals[callee]
        args = []
        for a in call.args:
            t, ty, ctx = self._E(a, ctx, None)
            if ty == "opaque":
                args.append(f"Rbacx.PyR.Arg.opaque {t}")
            elif ty in ("val", "str", "bool"):
                args.append(f"Rbacx.PyR.Arg.val {self.coerce(t, ty, 'val', callee)}")
            else:
                raise Unsupported(f"argument of reading `{ty}` of the collaborator call {ast.unparse(call)[:60]}")
        if x.param in ctx.poisoned:
            raise Unsupported(f"a handler calls {callee} although the raise points of its try body have made different numbers of such calls")
        ctx = ctx.took(x.param)
        k = ctx.counts[x.param]
        self.max_counts[x.param] = max(self.max_counts.get(x.param, 0), k)
        if target is not None and x.returns == "unit":
            raise Unsupported(f"the result of {callee} is declared unused but is bound to {target}")
        pat = ident(target) if target is not None else "_"
        inner = ctx.bind(target, x.returns) if target is not None else ctx
        r = self.raise_(ctx, "exc")
        k_ = self.S(rest, inner, ind + "  ")
        return (f"let tr := tr ++ [⟨{lean_str(callee)}, [{', '.join(args)}]⟩]\n{ind}(match {x.param}{k} with\n{ind}| Except.error exc =>\n{ind}  {r}\n"
                f"{ind}| Except.ok {pat} =>\n{ind}  {k_})")

    def helper_call(self, h: str, call: ast.Call, rest: list[ast.stmt], ctx: Ctx, ind: str) -> str:
        if h not in self.done:
            raise Unsupported(f"call of {h}, which is not translated (yet): list callees first")
        d = self.done[h]
        given: dict[str, ast.expr] = {}
        pos = [p for p, _, kwonly in d["params"] if not kwonly]
        if len(call.args) > len(pos) or any(isinstance(a, ast.Starred) for a in call.args):
            raise Unsupported(f"call {ast.unparse(call)[:60]}")
        for p, a in zip(pos, call.args):
            given[p] = a
        for kw in call.keywords:
            if kw.arg is None or kw.arg in given or kw.arg not in {p for p, _, _ in d["params"]}:
                raise Unsupported(f"call {ast.unparse(call)[:60]}")
            given[kw.arg] = kw.value
        args = []
        for p, ty, _ in d["params"]:
            if p not in given:
                raise Unsupported(f"call {ast.unparse(call)[:60]}: parameter {p} is not given (defaults are not supported)")
            t, _, ctx = self.E(given[p], ctx, ty)
            args.append(t)
        nums = []
        for kind, n in d["counts"]:
            if n and kind in ctx.poisoned:
                raise Unsupported(f"a handler calls {h}, which takes `{kind}` readings/outcomes, although the raise points of its try body differ in them")
            for _ in range(n):
                ctx = ctx.took(kind)
                self.max_counts[kind] = max(self.max_counts.get(kind, 0), ctx.counts[kind])
                nums.append(f"{kind}{ctx.counts[kind]}")
        app = " ".join([self.names[h], "N"] + [ident(c) for c in d["config"]] + nums + ["st", "tr"] + args)
        self.cur_config |= set(d["config"])
        r = self.raise_(ctx, "exc")
        k_ = self.S(rest, ctx, ind + "  ")
        return (f"(match {app} with\n{ind}| ⟨st, tr, Rbacx.PyR.Out.raised exc⟩ =>\n{ind}  {r}\n"
                f"{ind}| ⟨st, tr, Rbacx.PyR.Out.returned _⟩ =>\n{ind}  {k_})")

    def try_(self, st: ast.Try, rest: list[ast.stmt], ctx: Ctx, ind: str) -> str:
        if st.orelse or st.finalbody or not st.handlers:
            raise Unsupported("try with else/finally, or without handlers")
        self.n_handlers += 1
        name = f"onExc{self.n_handlers}"
        h = {"name": name, "points": []}
        body = self.S(list(st.body) + [_Pop()] + rest, Ctx(ctx.env, ctx.counts, ctx.handlers + [h], ctx.poisoned), ind)
        poisoned = set(ctx.poisoned)
        for p in h["points"]:
            for kind in set(p) | set(ctx.counts):
                if p.get(kind, 0) != ctx.counts.get(kind, 0):
                    poisoned.add(kind)
        hctx = Ctx(ctx.env, ctx.counts, ctx.handlers, frozenset(poisoned))
        clauses = []
        catch_all = False
        for hd in st.handlers:
            if catch_all:
                raise Unsupported("an except clause after `except Exception`")
            if hd.type is None:
                raise Unsupported("bare `except:` (it would also catch BaseExceptions)")
            if isinstance(hd.type, ast.Tuple):
                raise Unsupported("except clause with a tuple of classes")
            cls = ast.unparse(hd.type).split(".")[-1]
            if cls not in self.except_classes:
                self.except_classes.append(cls)
            c2 = hctx
            pre = ""
            if hd.name is not None:
                if ident(hd.name) in RESERVED:
                    raise Unsupported(f"exception variable {hd.name}")
                c2 = hctx.bind(hd.name, "exc")
                pre = f"let {ident(hd.name)} := exc\n{ind}    "
            btxt = pre + self.S(list(hd.body) + rest, c2, ind + "    ")
            if cls == "Exception":
                catch_all = True
                clauses.append((None, btxt))
            elif cls == "BaseException":
                raise Unsupported("except BaseException")
            else:
                clauses.append((cls, btxt))
        outer = self.raise_(ctx, "exc")          # no clause matches: the exception goes on outward from the try statement
        txt = ""
        for cls, btxt in clauses:
            if cls is None:
                txt += f"\n{ind}    {btxt}"
                break
            txt += f"\n{ind}  if exc == {lean_str(cls)} then\n{ind}    {btxt}\n{ind}  else"
        else:
            txt += f"\n{ind}    {outer}"
        self.note("an `except` clause sees the exception by the NAME of its class as the outcome parameter reports it (`exc == \"A\"` for "
                  "`except pkg.A`; `except Exception` takes every class: BaseExceptions are outside the reading)")
        sname = self.state_name()
        return (f"let {name} : {sname} T → List (Rbacx.PyR.Call P) → String → {self.RES()} := fun st tr exc =>{txt}\n{ind}{body}")

    # ------------------------------------------------------------------ a method
    def method(self, name: str) -> str:
        return self.unit(name, self.names[name], self.fns[name], self.units[name], None)

    def range_(self, lean_name: str) -> str:
        m, start, last = self.ranges[lean_name]
        return self.unit("range:" + lean_name, lean_name, self.fns[m], self.units["range:" + lean_name], (m, start, last))

    def unit(self, name: str, lean_name: str, fn, stmts: list[ast.stmt], rng: tuple | None) -> str:
        a = fn.args
        if a.vararg or a.kwarg or a.posonlyargs or not a.args or a.args[0].arg != "self" or fn.decorator_list:
            raise Unsupported(f"signature of {name}")
        for n in [x for st in stmts for x in ast.walk(st)]:
            if isinstance(n, (ast.For, ast.While, ast.AsyncFor, ast.AsyncWith, ast.Lambda, ast.FunctionDef, ast.AsyncFunctionDef, ast.ClassDef,
                              ast.Global, ast.Nonlocal, ast.NamedExpr, ast.Delete, ast.AugAssign, ast.Raise, ast.Yield, ast.YieldFrom, ast.Assert,
                              ast.ListComp, ast.SetComp, ast.DictComp, ast.GeneratorExp, ast.Import, ast.ImportFrom, ast.Match)) and n is not fn:
                raise Unsupported(f"{name}: {type(n).__name__}")
        params = []
        defaults = {}
        allp = [(x, False) for x in a.args[1:]] + [(x, True) for x in a.kwonlyargs]
        dflt = dict(zip([x.arg for x in reversed(a.args)], reversed(a.defaults)))
        dflt.update({x.arg: d for x, d in zip(a.kwonlyargs, a.kw_defaults) if d is not None})
        self.param_names = [x.arg for x, _ in allp]
        if rng is not None:
            # a range takes no parameters of the method: it may not mention them
            used = {n.id for st in stmts for n in ast.walk(st) if isinstance(n, ast.Name)}
            if used & set(self.param_names):
                raise Unsupported(f"{name}: the range mentions the method's parameters {sorted(used & set(self.param_names))}")
            allp = []
        for x, kwonly in allp:
            ty = ann_type(x.annotation)
            if ty is None:
                raise Unsupported(f"{name}: parameter {x.arg} has no annotation with a reading")
            params.append((x.arg, ty, kwonly))
            if x.arg in dflt:
                if not isinstance(dflt[x.arg], ast.Constant):
                    raise Unsupported(f"default of parameter {x.arg}")
                defaults[x.arg] = dflt[x.arg].value
        stored = {n.id for n in ast.walk(fn) if isinstance(n, ast.Name) and isinstance(n.ctx, ast.Store)}
        stored |= {h.name for h in ast.walk(fn) if isinstance(h, ast.ExceptHandler) and h.name}
        if rng is not None:
            stored = {n.id for st in stmts for n in ast.walk(st) if isinstance(n, ast.Name) and isinstance(n.ctx, ast.Store)}
            stored |= {h.name for st in stmts for h in ast.walk(st) if isinstance(h, ast.ExceptHandler) and h.name}
        self.locals = {p for p, _, _ in params} | stored
        self.local_ann = {}
        for n in ast.walk(fn):
            if isinstance(n, ast.AnnAssign) and isinstance(n.target, ast.Name):
                t = ann_type(n.annotation)
                if t is not None and self.local_ann.setdefault(n.target.id, t) != t:
                    raise Unsupported(f"{name}: the local {n.target.id} is annotated twice, differently")
        self.max_counts = {}
        kinds = list(self.cfg.readings.values()) + list(self.cfg.probes.values()) + [x.param for x in self.cfg.externals.values()]
        self.cur_config = set(self.unit_reads.get(name, set()))
        self.n_handlers = 0
        taken = RESERVED | {ident(c) for c in self.config} | set(self.names.values())
        for v in sorted(self.locals):
            iv = ident(v)
            if iv in taken or iv.startswith("onExc") or any(iv.startswith(k) and iv[len(k):].isdigit() for k in kinds):
                raise Unsupported(f"{name}: the local {v} clashes with a name the translation uses")
        if len({ident(v) for v in self.locals}) != len(self.locals):
            raise Unsupported(f"{name}: two locals get the same Lean name")
        env = {p: ty for p, ty, _ in params}
        dead = self._log_only(fn, stmts)
        body_stmts = self._prune(list(stmts), dead, env)
        body = self.S(body_stmts, Ctx(env, {}, []), "  ")
        counts = [(k, self.max_counts.get(k, 0)) for k in kinds]
        config = [c for c in self.config if c in self.cur_config]
        if lean_name in self.signatures:
            extra = [c for c in config if c not in self.signatures[lean_name]]
            if extra or any(c not in self.config for c in self.signatures[lean_name]):
                raise Unsupported(f"{name}: reads the configuration fields {extra} that its declared signature {self.signatures[lean_name]} lacks "
                                  f"(or the signature names a field that __init__ does not set as float(<parameter>) / bool(<parameter>))")
            config = list(self.signatures[lean_name])
        self.done[name] = {"params": params, "counts": counts, "defaults": defaults, "config": config}
        ext_ret = {x.param: x.returns for x in self.cfg.externals.values()}
        probes = set(self.cfg.probes.values())
        sig = ["{T P : Type}", "(N : Rbacx.PyR.Num T)"] + [f"({ident(c)} : {LEAN_TYPE[self.config_type[c]]})" for c in config]
        for k, n in counts:
            for i in range(1, n + 1):
                sig.append(f"({k}{i} : Bool)" if k in probes else f"({k}{i} : T)" if k not in ext_ret else f"({k}{i} : Except String {LEAN_TYPE[ext_ret[k]]})")
        sig += [f"(st : {self.state_name()} T)", "(tr : List (Rbacx.PyR.Call P))"] + [f"({ident(p)} : {LEAN_TYPE[ty]})" for p, ty, _ in params]
        what_unit = f"method `{name}`" if rng is None else f"the statements of `{rng[0]}` from `{rng[1]}…` to `{rng[2]}…`"
        notes = [f"{what_unit} of `{self.cls.name}`: `st` = the fields {', '.join('`' + f + '`' for f in self.state)} before the call, `tr` = the "
                 f"collaborator calls made so far; result = fields after, calls after, how the call ended"]
        rd = {v: k for k, v in list(self.cfg.readings.items()) + list(self.cfg.probes.items())}
        xs = {x.param: c for c, x in self.cfg.externals.items()}
        for k, n in counts:
            if n:
                what = f"value of the i-th `{rd[k]}`" if k in rd else f"OUTCOME of the i-th call `{xs[k]}(…)` (`.ok v` returned, `.error cls` raised)"
                notes.append(f"`{k}i` = {what} of this call, in execution order")
        if dead:
            notes.append("log-only locals left out: " + ", ".join(sorted(dead)))
        if defaults:
            notes.append("defaults (callers pass every argument): " + ", ".join(f"`{p}={v!r}`" for p, v in defaults.items()))
        notes += self.notes
        self.notes = []
        doc = ("/-- " + "; ".join(notes)).replace("-/", "- /") + " -/\n"
        return f"{doc}def {lean_name} {' '.join(sig)} :\n    {self.RES()} :=\n  {body}\n"

    def structure(self) -> str:
        rows = "\n".join(f"  {ident(f)} : {LEAN_TYPE[t]}" for f, t in self.state.items())
        return (f"/-- the mutable fields of `{self.cls.name}` the translated methods assign, typed by `__init__`'s annotations -/\n"
                f"structure {self.state_name()} (T : Type) where\n{rows}\n")


def translate_class(source: str, class_name: str, methods: dict[str, str], cfg: StateCfg, prefix: str, ranges: dict[str, tuple] | None = None,
                    signatures: dict[str, list[str]] | None = None) -> dict:
    """{"lean": structure + definitions, "state": [[field, reading]…], "config": […], "methods": {name: {"lean_name", "params", "counts",
    "defaults", "config"}}, "ranges": {lean name: {"of": [method, start, last], "config", "counts"}}, "except_classes": [names in except
    clauses, in order of appearance]}; `ranges`: lean name → (method, start, last) — statement ranges translated like methods without
    parameters (see the class doc)"""
    tree = ast.parse(source)
    cls = next((n for n in tree.body if isinstance(n, ast.ClassDef) and n.name == class_name), None)
    if cls is None:
        raise Unsupported(f"class {class_name} not found")
    tr = StateTranslator(tree, cls, cfg, methods, prefix, ranges, signatures)
    defs = [tr.method(m) for m in methods] + [tr.range_(r) for r in (ranges or {})]
    return {"lean": tr.structure() + "\n" + "\n".join(defs),
            "state": [[f, t] for f, t in tr.state.items()], "config": [[c, tr.config_type[c]] for c in tr.config],
            "methods": {m: {"lean_name": methods[m], "params": [[p, t] for p, t, _ in tr.done[m]["params"]], "config": tr.done[m]["config"],
                            "counts": [[k, n] for k, n in tr.done[m]["counts"]], "defaults": tr.done[m]["defaults"]} for m in methods},
            "ranges": {r: {"of": list(ranges[r]), "config": tr.done["range:" + r]["config"],
                           "counts": [[k, n] for k, n in tr.done["range:" + r]["counts"]]} for r in (ranges or {})},
            "except_classes": tr.except_classes}


if __name__ == "__main__":
    import sys
    src = open(sys.argv[1], encoding="utf-8").read()
    cfg = StateCfg({"self.source.etag": Ext("etag", "val"), "self.source.load": Ext("load", "opaque"), "self.guard.set_policy": Ext("set_policy", "unit")},
                   {"time.time()": "now", "random.uniform(-1.0, 1.0)": "u"}, "_lock", total_calls=("self._src_name",),
                   probes={"etag_attr is not None and (not inspect.iscoroutinefunction(etag_attr))": "sync_etag"},
                   total_exprs=("getattr(self.source, 'etag', None)",))
    out = translate_class(src, "HotReloader", {"_register_error": "reloader_register_error", "check_and_reload_async": "reloader_check"}, cfg, "reloader_",
                          ranges={"reloader_init": ("__init__", "try:", "self._last_error")})
    print(out["lean"])
    print({k: v for k, v in out.items() if k != "lean"})
