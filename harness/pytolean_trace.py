"""Whole `async def` METHODS of a class whose point is what they DO → Lean functions to an ACTION TRACE (on top of harness/pytolean.py and
harness/pytolean_async.py, neither of which is changed).

Made for `RbacxMiddleware.__call__` / `_send_json` (adapters/asgi.py; property C20).  A translated method is a Lean definition of type
`Rbacx.PyT.Trace` (lean/Rbacx/Model/PyTrace.lean): the list of EFFECTS the call performs on the caller's objects, in program order, and how
the call ended (`returned` / `raised cls`).  Everything is syntax-directed; anything outside the stated shapes raises `Unsupported`.

Parameters of a method (besides `self`), classified by how the method uses them:
* CHANNEL — a parameter that is awaited as a callable, `await P(msg)`: named, not a value.  In the ENTRY method its name is a literal
  (`"send"`); a callee takes it as a `String` parameter and the caller hands its own channel on.
* JSON-TEXT — a parameter whose ONLY use is `json.dumps(P)` (one positional argument, no options): the Lean parameter `P_json` is the JSON
  text.  The caller must pass a LITERAL display (`{"detail": "Forbidden"}`); the translator evaluates `json.dumps` of it with CPython AT
  TRANSLATION TIME and emits the string constant — a non-literal argument is rejected.  `json.dumps(<literal>)` in place likewise.
* OPAQUE — a parameter only handed on by name to a collaborator (`receive`): no Lean parameter.
* VALUE — everything else (`scope`, `status`, `extra_headers`): a `PyVal`.  A keyword-only parameter's constant default is used where the
  call site leaves it out.
Further inputs: `o` (the `str()` oracle, when `str(…)` occurs), the EXTERNAL calls (order of first call), the `self.<attr>` reads (order
of first read; `self_<attr>`).

Statements:
* `P["k"] = E` on a VALUE parameter `P`: effect `setItem "P" "k" E`; the local view of `P` is rebound (`Py.setItem`) as well.
* `await CH(E)`, `CH` a channel: effect `send CH E`.  `await C(P1, …)` for a designated COLLABORATOR `C` (`self.app`), the arguments bare
  parameter names: effect `call "C" ["P1", …]`.  Both are taken to return (their exceptions would propagate unchanged, nothing after them
  runs: not represented).
* EXTERNAL call that can raise — `X = await C(args…)`, `X = C(args…)` or `X1, …, Xn = C(args…)` with `C` designated (`self.build_env`,
  `self.guard.evaluate_async`): `C` is a parameter `PyVal → … → Except String PyVal`, the OUTCOME of the call (`.ok v` = returned,
  `.error cls` = raised class `cls`); `match` on it: `.error cls` ends the method with `raised cls`, effects so far kept.  A tuple target
  unpacks as CPython does (`Rbacx.PyT.unpack n`: TypeError for a non-iterable, ValueError for another number of items).  A name bound to
  the result of an external declared to return a frozen dataclass is a record (`x.f`, `getattr(x, "f", d)` as in pytolean_async).
* `await self.M(args…, kw=…)` for another translated method `M`: the callee's trace spliced in (`Rbacx.PyT.seq`).
* `return` (no value) / running off the end: `Rbacx.PyT.done`.
* `x = E`, `x: T = E`, a bare annotation, `xs.append(E)` / `xs.extend(E)` on a local bound to a fresh list display and not used as a bare
  value since (value semantics = CPython's reference semantics while nobody else holds the list): `let`s.
* `if`: when its branches consist of such pure statements only, the variables it rebinds that are visible afterwards are bound to a
  conditional VALUE (`let xs := if c then (…; xs) else xs`; a variable first bound inside the `if` may not be read after it); otherwise
  (awaits, externals, `return` inside) the statements after the `if` are continued in both branches.
Expressions (besides pytolean's and pytolean_async's): bytes literals (`Rbacx.PyT.bytesOf <text>`: must be valid UTF-8), `str(…).encode("utf-8")`
/ `json.dumps(…).encode("utf-8")` / `str(len(…)).encode("ascii")` (`Rbacx.PyT.encode`: the bytes are represented by the text they decode
to), `len(x)` (`Rbacx.PyT.len`: the UTF-8 byte count of a bytes value), non-empty list/tuple displays."""
from __future__ import annotations

import ast
import json

import pytolean
import pytolean_async as pa
from pytolean import Unsupported, ident, lean_str


class TraceCfg:
    def __init__(self, externals: dict[str, str], collaborators: dict[str, str], ext_returns: dict[str, str] | None = None,
                 dataclasses: dict[str, list[str]] | None = None):
        self.externals = dict(externals)            # callee text → Lean parameter name (calls that can raise: outcome parameters)
        self.collaborators = dict(collaborators)    # callee text → label of the `call` effect (awaited, taken to return)
        self.ext_returns = dict(ext_returns or {})  # callee text → name of the frozen dataclass its result is an instance of
        self.dataclasses = dict(dataclasses or {})  # dataclass name → declared fields


def _callee_text(call: ast.Call) -> str:
    return ast.unparse(call.func)


def _strip_await(e: ast.expr) -> tuple[ast.expr, bool]:
    return (e.value, True) if isinstance(e, ast.Await) else (e, False)


def _is_json_dumps(e: ast.AST) -> bool:
    return (isinstance(e, ast.Call) and isinstance(e.func, ast.Attribute) and e.func.attr == "dumps" and isinstance(e.func.value, ast.Name)
            and e.func.value.id == "json")


def _literal_json(e: ast.expr) -> str:
    """`json.dumps(<literal display>)`, computed by CPython now"""
    try:
        v = ast.literal_eval(e)
    except Exception:  # noqa: BLE001
        raise Unsupported(f"json.dumps of something that is not a literal: {ast.unparse(e)[:80]} (only a literal display is evaluated, "
                          f"at translation time)") from None
    try:
        return json.dumps(v)
    except Exception as ex:  # noqa: BLE001
        raise Unsupported(f"json.dumps({ast.unparse(e)[:60]}) raises {type(ex).__name__}") from None


class MethodInfo:
    """what a method's signature and body say about its parameters and inputs"""

    def __init__(self, fn, cfg: TraceCfg, methods: dict[str, "MethodInfo"], names: dict[str, str], tree: ast.Module):
        if not isinstance(fn, ast.AsyncFunctionDef):
            raise Unsupported(f"{fn.name}: only `async def` methods are translated to traces")
        a = fn.args
        if a.vararg or a.kwarg or a.posonlyargs or a.defaults or not a.args or a.args[0].arg != "self":
            raise Unsupported(f"signature of {fn.name}")
        self.fn = fn
        self.name = fn.name
        self.lean_name = names[fn.name]
        self.positional = [x.arg for x in a.args[1:]]
        self.kwonly = [x.arg for x in a.kwonlyargs]
        self.defaults: dict[str, ast.expr] = {}
        for x, d in zip(a.kwonlyargs, a.kw_defaults):
            if d is not None:
                if not isinstance(d, ast.Constant):
                    raise Unsupported(f"default of keyword-only parameter {x.arg}")
                self.defaults[x.arg] = d
        self.params = self.positional + self.kwonly
        for n in ast.walk(fn):
            if isinstance(n, pa._FORBIDDEN + (ast.Try, ast.With)) and n is not fn:
                raise Unsupported(f"{fn.name}: {type(n).__name__} statement/expression")
            if isinstance(n, ast.Attribute) and isinstance(n.ctx, (ast.Store, ast.Del)):
                raise Unsupported(f"{fn.name}: attribute assignment {ast.unparse(n)}")
            if isinstance(n, ast.Name) and isinstance(n.ctx, ast.Store) and n.id in self.params + ["self"]:
                raise Unsupported(f"{fn.name}: parameter {n.id} is rebound")
        self.locals = set(self.params) | {n.id for n in ast.walk(fn) if isinstance(n, ast.Name) and isinstance(n.ctx, ast.Store)}
        # ---- classify the parameters by their uses
        uses: dict[str, set[str]] = {p: set() for p in self.params}
        self.ext_order: list[str] = []
        self.attr_order: list[str] = []
        self.uses_str = False
        self.calls: list[str] = []            # translated methods this one calls

        def note_ext(x: str) -> None:
            if x not in self.ext_order:
                self.ext_order.append(x)

        def note_attr(x: str) -> None:
            if x not in self.attr_order:
                self.attr_order.append(x)

        def walk(n: ast.AST) -> None:
            if isinstance(n, ast.Await) and isinstance(n.value, ast.Call):
                c = n.value
                if isinstance(c.func, ast.Name) and c.func.id in uses:
                    uses[c.func.id].add("channel")
                    for x in c.args:
                        walk(x)
                    if c.keywords or len(c.args) != 1:
                        raise Unsupported(f"{fn.name}: a channel is awaited with one positional argument: {ast.unparse(c)[:60]}")
                    return
                if _callee_text(c) in cfg.collaborators:
                    for x in c.args:
                        if not (isinstance(x, ast.Name) and x.id in uses):
                            raise Unsupported(f"{fn.name}: arguments of the collaborator call must be bare parameter names: {ast.unparse(c)[:60]}")
                        uses[x.id].add("byname")
                    if c.keywords:
                        raise Unsupported(f"{fn.name}: keyword arguments in {ast.unparse(c)[:60]}")
                    return
                if pa._is_self_attr(c.func) and c.func.attr in names:
                    callee = methods.get(c.func.attr)
                    if callee is None:
                        raise Unsupported(f"{fn.name}: calls {c.func.attr} which is not translated before it (recursion / order)")
                    if c.func.attr not in self.calls:
                        self.calls.append(c.func.attr)
                    for p, x in callee.bind(c).items():
                        kind = callee.kind[p]
                        if kind in ("channel", "opaque"):
                            if not (isinstance(x, ast.Name) and x.id in uses):
                                raise Unsupported(f"{fn.name}: the {kind} parameter {p} of {callee.name} must be given a bare parameter name")
                            uses[x.id].add("channel" if kind == "channel" else "byname")
                        elif kind == "json":
                            if isinstance(x, ast.Name) and x.id in uses:
                                uses[x.id].add("json")
                            else:
                                _literal_json(x)
                        else:
                            walk(x)
                    for x in callee.ext_order:
                        note_ext(x)
                    for x in callee.attr_order:
                        note_attr(x)
                    self.uses_str = self.uses_str or callee.uses_str
                    return
            if isinstance(n, ast.Call) and _callee_text(n) in cfg.externals:
                note_ext(_callee_text(n))
                if n.keywords or not n.args or any(isinstance(x, ast.Starred) for x in n.args):
                    raise Unsupported(f"{fn.name}: external call {ast.unparse(n)[:60]} (positional arguments only, at least one)")
                for x in n.args:
                    walk(x)
                return
            if _is_json_dumps(n):
                if len(n.args) != 1 or n.keywords:
                    raise Unsupported(f"{fn.name}: json.dumps with options: {ast.unparse(n)[:60]}")
                if isinstance(n.args[0], ast.Name) and n.args[0].id in uses:
                    uses[n.args[0].id].add("json")
                else:
                    _literal_json(n.args[0])
                return
            if pa._is_self_attr(n):
                note_attr(n.attr)
                return
            if isinstance(n, ast.Name):
                if n.id == "self":
                    raise Unsupported(f"{fn.name}: self used as a value")
                if n.id in uses and isinstance(n.ctx, ast.Load):
                    uses[n.id].add("value")
                return
            if isinstance(n, ast.Call) and isinstance(n.func, ast.Name) and n.func.id == "str" and "str" not in self.locals:
                self.uses_str = True
            if isinstance(n, ast.JoinedStr):
                self.uses_str = True
            if isinstance(n, ast.Subscript) and isinstance(n.ctx, ast.Store) and isinstance(n.value, ast.Name) and n.value.id in uses:
                uses[n.value.id].add("value")
                walk(n.slice)
                return
            if isinstance(n, ast.arguments):
                return                      # annotations and defaults of the signature are not uses
            if isinstance(n, ast.AnnAssign):
                walk(n.target)
                if n.value is not None:
                    walk(n.value)
                return                      # the annotation is not evaluated for a local
            for c in ast.iter_child_nodes(n):
                walk(c)
        for st in fn.body:
            walk(st)
        self.kind: dict[str, str] = {}
        for p in self.params:
            u = uses[p] - {"byname"}
            if not u:
                self.kind[p] = "opaque"
            elif u == {"channel"}:
                self.kind[p] = "channel"
            elif u == {"json"}:
                self.kind[p] = "json"
            elif "channel" in u or "json" in u:
                raise Unsupported(f"{fn.name}: parameter {p} is used both as {sorted(u)}")
            else:
                self.kind[p] = "value"
        if "json" in tree_locals_clash(tree, self.locals):
            raise Unsupported(f"{fn.name}: `json` is not the module imported at the top of the file")

    def bind(self, call: ast.Call) -> dict[str, ast.expr]:
        """parameter → argument expression of a call `self.M(…)` (defaults filled in)"""
        if any(isinstance(x, ast.Starred) for x in call.args) or any(k.arg is None for k in call.keywords) or len(call.args) > len(self.positional):
            raise Unsupported(f"call {ast.unparse(call)[:80]}")
        got: dict[str, ast.expr] = dict(zip(self.positional, call.args))
        for k in call.keywords:
            if k.arg in got or k.arg not in self.params:
                raise Unsupported(f"call {ast.unparse(call)[:80]}: argument {k.arg}")
            got[k.arg] = k.value
        for p in self.params:
            if p not in got:
                if p not in self.defaults:
                    raise Unsupported(f"call {ast.unparse(call)[:80]}: no argument for {p}")
                got[p] = self.defaults[p]
        return got


def tree_locals_clash(tree: ast.Module, local: set[str]) -> set[str]:
    """{"json"} when `json` does not denote the standard module: not imported by a top-level `import json`, or shadowed by a local"""
    imported = any(isinstance(n, ast.Import) and any(a.name == "json" and a.asname is None for a in n.names) for n in tree.body)
    rebound = any(isinstance(n, ast.Name) and n.id == "json" and isinstance(n.ctx, ast.Store) for n in ast.walk(tree))
    return set() if imported and not rebound and "json" not in local else {"json"}


def param_lean(info: MethodInfo, p: str) -> str:
    return ident(p) + "_json" if info.kind[p] == "json" else ident(p)


class TraceTranslator(pa.AsyncTranslator):
    def __init__(self, tree: ast.Module, info: MethodInfo, cfg: TraceCfg, methods: dict[str, MethodInfo], entry: bool):
        acfg = pa.Cfg(cfg.externals, records={}, dataclasses={})
        super().__init__(tree, acfg, info.locals, oracle=True)
        self.info = info
        self.tcfg = cfg
        self.methods = methods
        self.entry = entry
        self.cur_oracle = info.uses_str
        self.fn_stores: dict[str, int] = {}
        for n in ast.walk(info.fn):
            if isinstance(n, ast.Name) and isinstance(n.ctx, ast.Store):
                self.fn_stores[n.id] = self.fn_stores.get(n.id, 0) + 1

    def note(self, text: str) -> None:
        if text not in self.notes:
            self.notes.append(text)

    # ------------------------------------------------------------------ expressions
    def chan(self, p: str) -> str:
        return lean_str(p) if self.entry else ident(p)

    def E(self, e: ast.expr) -> str:
        if isinstance(e, ast.Name) and e.id in self.info.kind and self.info.kind[e.id] != "value":
            raise Unsupported(f"{self.info.kind[e.id]} parameter {e.id} used as a value")
        if isinstance(e, ast.Constant) and isinstance(e.value, bytes):
            try:
                text = e.value.decode("utf-8")
            except UnicodeDecodeError:
                raise Unsupported(f"bytes literal {e.value!r} is not UTF-8") from None
            self.note("a bytes value is represented by the text it decodes to (UTF-8): `Rbacx.PyT.bytesOf`")
            return f"(Rbacx.PyT.bytesOf {lean_str(text)})"
        if _is_json_dumps(e):
            arg = e.args[0]
            if isinstance(arg, ast.Name) and self.info.kind.get(arg.id) == "json":
                return param_lean(self.info, arg.id)
            text = _literal_json(arg)
            self.note(f"`json.dumps({ast.unparse(arg)})` is the constant {text!r}: evaluated by CPython at translation time")
            return f"(PyVal.str {lean_str(text)})"
        if isinstance(e, ast.Call) and isinstance(e.func, ast.Attribute) and e.func.attr == "encode":
            recv = e.func.value
            codec = e.args[0].value if len(e.args) == 1 and isinstance(e.args[0], ast.Constant) and not e.keywords else None
            is_str_call = isinstance(recv, ast.Call) and isinstance(recv.func, ast.Name) and recv.func.id == "str" and "str" not in self.locals
            if codec == "utf-8" and (is_str_call or _is_json_dumps(recv)):
                pass
            elif codec == "ascii" and is_str_call and len(recv.args) == 1 and isinstance(recv.args[0], ast.Call) \
                    and isinstance(recv.args[0].func, ast.Name) and recv.args[0].func.id == "len":
                pass
            else:
                raise Unsupported(f"{ast.unparse(e)[:80]}: only str(…).encode('utf-8'), json.dumps(…).encode('utf-8') and str(len(…)).encode('ascii')")
            self.note("`s.encode(…)` of a str is the bytes value represented by the same text (`Rbacx.PyT.encode`; a str with a lone "
                      "surrogate, on which CPython raises UnicodeEncodeError, is not representable)")
            return f"(Rbacx.PyT.encode {self.E(recv)})"
        if isinstance(e, ast.Call) and isinstance(e.func, ast.Name) and e.func.id == "len" and "len" not in self.locals and len(e.args) == 1 \
                and not e.keywords:
            return f"(Rbacx.PyT.len {self.E(e.args[0])})"
        if isinstance(e, ast.Call) and (_callee_text(e) in self.tcfg.externals or _callee_text(e) in self.tcfg.collaborators
                                        or (pa._is_self_attr(e.func) and e.func.attr in self.methods)):
            raise Unsupported(f"call outside the accepted statement shapes: {ast.unparse(e)[:60]}")
        return super().E(e)

    # ------------------------------------------------------------------ statements
    @staticmethod
    def _mutation(st: ast.stmt) -> tuple[str, str, ast.expr] | None:
        """(list variable, "append"/"extend", argument) for `xs.append(E)` / `xs.extend(E)` as a statement"""
        if isinstance(st, ast.Expr) and isinstance(st.value, ast.Call) and isinstance(st.value.func, ast.Attribute) \
                and st.value.func.attr in ("append", "extend") and isinstance(st.value.func.value, ast.Name) and len(st.value.args) == 1 \
                and not st.value.keywords:
            return st.value.func.value.id, st.value.func.attr, st.value.args[0]
        return None

    def _effectful_expr(self, e: ast.AST) -> bool:
        for n in ast.walk(e):
            if isinstance(n, ast.Await):
                return True
            if isinstance(n, ast.Call) and (_callee_text(n) in self.tcfg.externals or _callee_text(n) in self.tcfg.collaborators
                                            or (pa._is_self_attr(n.func) and n.func.attr in self.methods)):
                return True
        return False

    def is_pure(self, stmts: list[ast.stmt]) -> bool:
        for st in stmts:
            if isinstance(st, ast.Pass) or pa.is_silent(st, self.cfg, self.locals):
                continue
            if isinstance(st, ast.AnnAssign) and st.value is None and isinstance(st.target, ast.Name):
                continue
            if isinstance(st, (ast.Assign, ast.AnnAssign)):
                tgt = st.targets[0] if isinstance(st, ast.Assign) else st.target
                if (isinstance(st, ast.Assign) and len(st.targets) != 1) or not isinstance(tgt, ast.Name) or self._effectful_expr(st.value):
                    return False
                continue
            if self._mutation(st) is not None and not self._effectful_expr(st):
                continue
            if isinstance(st, ast.If) and not self._effectful_expr(st.test) and self.is_pure(st.body) and self.is_pure(st.orelse):
                continue
            return False
        return True

    @staticmethod
    def _names(node: ast.AST) -> set[str]:
        return {n.id for n in ast.walk(node) if isinstance(n, ast.Name)}

    def _escapes(self, e: ast.AST, fresh: frozenset) -> frozenset:
        return fresh - self._names(e)

    def pure_step(self, st: ast.stmt, rest: list[ast.stmt], ind: str, fresh: frozenset, defined: frozenset, k) -> str:
        """one pure statement followed by `k(fresh, defined)` (the continuation renders what follows)"""
        if isinstance(st, ast.Pass) or (isinstance(st, ast.Expr) and isinstance(st.value, ast.Constant) and isinstance(st.value.value, str)):
            return k(fresh, defined)
        if pa.is_silent(st, self.cfg, self.locals):
            self.note(f"`{st.value.func.value.id}.<method>(…)` statements (logging) have no effect on any value and are left out")
            return k(fresh, defined)
        if isinstance(st, ast.AnnAssign) and st.value is None and isinstance(st.target, ast.Name):
            return k(fresh, defined)
        if isinstance(st, (ast.Assign, ast.AnnAssign)):
            tgt = st.targets[0] if isinstance(st, ast.Assign) else st.target
            x = tgt.id
            fresh = self._escapes(st.value, fresh) - {x}
            if isinstance(st.value, ast.List):
                fresh = fresh | {x}
            return f"let {ident(x)} := {self.E(st.value)}\n{ind}{k(fresh, defined | {x})}"
        mut = self._mutation(st)
        if mut is not None:
            xs, how, arg = mut
            if xs not in fresh:
                raise Unsupported(f"{ast.unparse(st)[:60]}: {xs} is not a local bound to a fresh list display that has not been used as a "
                                  f"bare value since (in-place mutation is read as rebinding only then)")
            fresh = self._escapes(arg, fresh)
            self.note("`xs.append(e)` / `xs.extend(ys)` on a local bound to a fresh list and not used as a bare value since: `xs` rebound "
                      "(`Rbacx.PyT.append` / `extend`)")
            return f"let {ident(xs)} := (Rbacx.PyT.{how} {ident(xs)} {self.E(arg)})\n{ind}{k(fresh, defined | {xs})}"
        if isinstance(st, ast.If):
            stores = self._stores([st])
            carried = [v for v in stores if v in defined]
            new = [v for v in stores if v not in defined]
            later: set[str] = set()
            for r_ in rest:
                later |= {n.id for n in ast.walk(r_) if isinstance(n, ast.Name) and isinstance(n.ctx, ast.Load)}
            # `xs.append` is a Load of xs: a variable mutated in the `if` counts as stored
            for n in ast.walk(st):
                m = self._mutation(n) if isinstance(n, ast.stmt) else None
                if m is not None and m[0] not in carried and m[0] in defined:
                    carried.append(m[0])
            bad = [v for v in new if v in later]
            if bad:
                raise Unsupported(f"{bad} first bound inside `if {ast.unparse(st.test)[:40]}` and read after it")
            test = self.E(st.test)
            fresh_test = self._escapes(st.test, fresh)
            if not carried:
                # nothing the `if` does is visible afterwards; its branches are still translated (they must be in the subset)
                self.pure_block(st.body, ind + "    ", fresh_test, defined, "PyVal.none")
                self.pure_block(st.orelse, ind + "    ", fresh_test, defined, "PyVal.none")
                return k(fresh_test, defined)
            result = ident(carried[0]) if len(carried) == 1 else "(" + ", ".join(ident(v) for v in carried) + ")"
            a = self.pure_block(st.body, ind + "    ", fresh_test, defined, result)
            b = self.pure_block(st.orelse, ind + "    ", fresh_test, defined, result)
            # a list stays fresh after the `if` when no branch let it escape
            escaped = set()
            for n in ast.walk(st):
                if isinstance(n, ast.stmt) and not isinstance(n, ast.If):
                    m = self._mutation(n)
                    escaped |= self._names(m[2]) if m is not None else (self._names(n.value) if isinstance(n, (ast.Assign, ast.AnnAssign)) and n.value is not None else set())
            fresh2 = frozenset(v for v in fresh_test if v not in escaped and (v not in stores or v in carried))
            cond = f"(if ({test}).truthy then\n{ind}    {a}\n{ind}  else\n{ind}    {b})"
            if len(carried) == 1:
                return f"let {ident(carried[0])} := {cond}\n{ind}{k(fresh2, defined)}"
            self.njoin += 1
            tup = f"vars{self.njoin}"
            if tup in self.locals:
                raise Unsupported(f"the source uses the name {tup}")
            projs = []
            for i, v in enumerate(carried):
                path = ".2" * i + (".1" if i < len(carried) - 1 else "")
                projs.append(f"let {ident(v)} := {tup}{path}\n{ind}")
            return f"let {tup} := {cond}\n{ind}" + "".join(projs) + k(fresh2, defined)
        raise Unsupported(f"statement {ast.unparse(st)[:60]}")

    def pure_block(self, stmts: list[ast.stmt], ind: str, fresh: frozenset, defined: frozenset, result: str) -> str:
        if not stmts:
            return result
        return self.pure_step(stmts[0], stmts[1:], ind, fresh, defined,
                              lambda f, d: self.pure_block(stmts[1:], ind, f, d, result))

    def ext_call(self, e: ast.expr) -> tuple[str, ast.Call] | None:
        c, _ = _strip_await(e)
        if isinstance(c, ast.Call) and _callee_text(c) in self.tcfg.externals:
            return _callee_text(c), c
        return None

    def T(self, stmts: list[ast.stmt], ind: str, fresh: frozenset, defined: frozenset) -> str:
        if not stmts:
            return "Rbacx.PyT.done"
        st, rest = stmts[0], stmts[1:]

        def go(f: frozenset, d: frozenset) -> str:
            return self.T(rest, ind, f, d)
        if isinstance(st, ast.Return):
            if st.value is not None and not (isinstance(st.value, ast.Constant) and st.value.value is None):
                raise Unsupported(f"{self.info.name}: `return` with a value (a trace method returns None)")
            return "Rbacx.PyT.done"
        # P["k"] = E on a value parameter
        if isinstance(st, ast.Assign) and len(st.targets) == 1 and isinstance(st.targets[0], ast.Subscript):
            t = st.targets[0]
            if not (isinstance(t.value, ast.Name) and self.info.kind.get(t.value.id) == "value" and isinstance(t.slice, ast.Constant)
                    and isinstance(t.slice.value, str)) or self._effectful_expr(st.value):
                raise Unsupported(f"item assignment {ast.unparse(st)[:60]} (only `P[\"k\"] = E` on a parameter)")
            p, key, v = t.value.id, t.slice.value, self.E(st.value)
            self.note(f"`{p}[{key!r}] = …` on the parameter `{p}` is an EFFECT on the caller's dict (`setItem`); the method's own view of "
                      f"`{p}` is rebound too")
            return (f"Rbacx.PyT.eff (Rbacx.PyT.Eff.setItem {lean_str(p)} {lean_str(key)} {v}) (\n{ind}"
                    f"let {ident(p)} := (Rbacx.Py.setItem {ident(p)} {lean_str(key)} {v})\n{ind}{go(self._escapes(st.value, fresh), defined)})")
        # awaited statements
        if isinstance(st, ast.Expr) and isinstance(st.value, ast.Await) and isinstance(st.value.value, ast.Call):
            c = st.value.value
            if isinstance(c.func, ast.Name) and self.info.kind.get(c.func.id) == "channel":
                self.note("`await <channel>(msg)` is the effect `send`; the channel is taken to return (an exception of it would propagate "
                          "unchanged, with nothing after it executed: not represented)")
                return (f"Rbacx.PyT.eff (Rbacx.PyT.Eff.send {self.chan(c.func.id)} {self.E(c.args[0])}) (\n{ind}"
                        f"{go(self._escapes(c.args[0], fresh), defined)})")
            if _callee_text(c) in self.tcfg.collaborators:
                label = self.tcfg.collaborators[_callee_text(c)]
                self.note(f"`await {_callee_text(c)}(…)` is the effect `call {label!r}` with the caller's objects passed on by name; the "
                          f"collaborator is taken to return (its exceptions would propagate unchanged: not represented)")
                args = ", ".join(lean_str(x.id) for x in c.args)
                return f"Rbacx.PyT.eff (Rbacx.PyT.Eff.call {lean_str(label)} [{args}]) (\n{ind}{go(fresh, defined)})"
            if pa._is_self_attr(c.func) and c.func.attr in self.methods:
                callee = self.methods[c.func.attr]
                bound = callee.bind(c)
                args = (["o"] if callee.uses_str else []) + [self.tcfg.externals[x] for x in callee.ext_order] \
                    + [pa.var_name("self." + x) for x in callee.attr_order]
                f2 = fresh
                for p in callee.params:
                    kind, x = callee.kind[p], bound[p]
                    if kind == "opaque":
                        continue
                    if kind == "channel":
                        args.append(self.chan(x.id))
                    elif kind == "json":
                        if isinstance(x, ast.Name):
                            args.append(param_lean(self.info, x.id))
                        else:
                            text = _literal_json(x)
                            self.note(f"`{callee.name}(… {ast.unparse(x)} …)`: the parameter `{p}` is only ever `json.dumps`ed; the literal is "
                                      f"handed over as its JSON text {text!r}, computed by CPython at translation time")
                            args.append(f"(PyVal.str {lean_str(text)})")
                    else:
                        args.append(self.E(x))
                        f2 = self._escapes(x, f2)
                self.note(f"`await self.{callee.name}(…)`: the callee's trace spliced in (`Rbacx.PyT.seq`)")
                return f"Rbacx.PyT.seq ({' '.join([callee.lean_name] + args)}) (\n{ind}{go(f2, defined)})"
            raise Unsupported(f"awaited call {ast.unparse(c)[:60]}")
        # X = <external call> / X1, …, Xn = <external call>
        if isinstance(st, ast.Assign) and len(st.targets) == 1 and self.ext_call(st.value):
            callee, call = self.ext_call(st.value)
            app = self.ext_apply(callee, call)
            tgt = st.targets[0]
            f2 = fresh
            for x in call.args:
                f2 = self._escapes(x, f2)
            self.note(f"`{callee}(…)` is NOT translated: a parameter giving the OUTCOME of the call on its arguments, `.ok v` = returned "
                      f"`v`, `.error cls` = raised an exception of class `cls`, which leaves the method there")
            if isinstance(tgt, ast.Name):
                if callee in self.tcfg.ext_returns:
                    if self.fn_stores.get(tgt.id) != 1:
                        raise Unsupported(f"{tgt.id} is bound to a record but assigned {self.fn_stores.get(tgt.id)} times")
                    self.records[tgt.id] = self.tcfg.dataclasses[self.tcfg.ext_returns[callee]]
                    self.note(f"`{tgt.id}` is an instance of the frozen dataclass {self.tcfg.ext_returns[callee]}: the record of its fields")
                body = self.T(rest, ind + "    ", f2 - {tgt.id}, defined | {tgt.id})
                return (f"(match {app} with\n{ind}  | Except.ok {ident(tgt.id)} =>\n{ind}    {body}\n"
                        f"{ind}  | Except.error cls => Rbacx.PyT.raised cls)")
            if isinstance(tgt, ast.Tuple) and tgt.elts and all(isinstance(x, ast.Name) for x in tgt.elts) \
                    and len({x.id for x in tgt.elts}) == len(tgt.elts):
                names = [x.id for x in tgt.elts]
                self.note(f"`{', '.join(names)} = {callee}(…)`: the unpacking belongs to the raising point (`Rbacx.PyT.unpack {len(names)}`: "
                          f"TypeError for a non-iterable result, ValueError for another number of items; `.ok` has exactly {len(names)} items, "
                          f"the second arm is unreachable)")
                body = self.T(rest, ind + "    ", f2 - set(names), defined | set(names))
                return (f"(match Rbacx.PyT.unpack {len(names)} {app} with\n{ind}  | Except.ok [{', '.join(ident(v) for v in names)}] =>\n"
                        f"{ind}    {body}\n{ind}  | Except.ok _ => Rbacx.PyT.raised \"ValueError\"\n"
                        f"{ind}  | Except.error cls => Rbacx.PyT.raised cls)")
            raise Unsupported(f"target of the external call {ast.unparse(st)[:60]}")
        if isinstance(st, ast.If) and not self.is_pure([st]):
            if self._effectful_expr(st.test):
                raise Unsupported(f"effectful test: if {ast.unparse(st.test)[:60]}")
            f2 = self._escapes(st.test, fresh)
            a = self.T(list(st.body) + rest, ind + "  ", f2, defined)
            b = self.T(list(st.orelse) + rest, ind + "  ", f2, defined)
            return f"if ({self.E(st.test)}).truthy then\n{ind}  {a}\n{ind}else\n{ind}  {b}"
        if self.is_pure([st]):
            return self.pure_step(st, rest, ind, fresh, defined, go)
        raise Unsupported(f"statement {ast.unparse(st)[:60]}")


def translate_class(source: str, cls: str, entry: str, methods: dict[str, str], cfg: TraceCfg) -> dict:
    """`methods`: python method name → Lean name, CALLEES FIRST; `entry`: the method whose channels are named by its own parameters.
    Result: {"lean": text, "methods": {python name: {"lean_name", "oracle", "externals": [[callee, param, arity]…], "attrs": […],
    "params": [[name, kind]…]}}}"""
    tree = ast.parse(source)
    infos: dict[str, MethodInfo] = {}
    out: dict = {"lean": "", "methods": {}}
    for m, lean_name in methods.items():
        fn = pa.method(tree, f"{cls}.{m}")
        info = MethodInfo(fn, cfg, infos, methods, tree)
        tr = TraceTranslator(tree, info, cfg, infos, entry=(m == entry))
        body = fn.body
        while body and isinstance(body[0], ast.Expr) and isinstance(body[0].value, ast.Constant) and isinstance(body[0].value.value, str):
            body = body[1:]
        defined = frozenset(p for p in info.params if info.kind[p] == "value")
        text = tr.T(list(body), "  ", frozenset(), defined)
        exts = [[x, cfg.externals[x], tr.ext_arity.get(x)] for x in info.ext_order]
        for x in exts:
            if x[2] is None:                         # called by a callee only: take the callee's arity
                x[2] = next(e[2] for c in info.calls for e in out["methods"][c]["externals"] if e[0] == x[0])
        if m == entry and any(k == "json" for k in info.kind.values()):
            raise Unsupported(f"{m}: an entry method cannot have a JSON-text parameter")
        sig = (["(o : Oracle)"] if info.uses_str else []) \
            + [f"({p} : {' → '.join(['PyVal'] * n)} → Except String PyVal)" for _, p, n in exts] \
            + [f"({pa.var_name('self.' + a)} : PyVal)" for a in info.attr_order]
        for p in info.params:
            k = info.kind[p]
            if k == "opaque" or (k == "channel" and m == entry):
                continue
            sig.append(f"({param_lean(info, p)} : {'String' if k == 'channel' else 'PyVal'})")
        names = [s.split(" : ")[0][1:] for s in sig] + [ident(v) for v in info.locals if v not in info.params]
        if len(set(names)) != len(names) or ident(lean_name) in names or "cls" in names:
            raise Unsupported(f"{m}: variable names clash after renaming: {sorted(names)}")
        notes = []
        if info.uses_str:
            notes.append("`o`: the oracle that supplies CPython's `str()` of floats, containers and datetimes")
        for p in info.params:
            k = info.kind[p]
            if k == "channel":
                notes.append(f"`{p}`: a CHANNEL (awaited as a callable), " + (f"named {p!r}" if m == entry else "named by the caller"))
            elif k == "opaque":
                notes.append(f"`{p}`: only handed on by name, no parameter here")
            elif k == "json":
                notes.append(f"`{p}`: only ever `json.dumps`ed — the parameter `{param_lean(info, p)}` is that JSON text")
            if p in info.defaults:
                notes.append(f"keyword-only `{p}` (default `{info.defaults[p].value!r}`) is an ordinary parameter: call sites that omit it pass the default")
        notes += tr.notes
        doc = (f"/-- `{cls}.{m}` as its ACTION TRACE (effects in program order + how the call ended); inputs: "
               + ", ".join(s[1:-1] for s in sig) + "".join("; " + n for n in notes)).replace("-/", "- /") + " -/\n"
        out["lean"] += f"{doc}def {ident(lean_name)} {' '.join(sig)} : Rbacx.PyT.Trace :=\n  {text}\n\n"
        out["methods"][m] = {"lean_name": lean_name, "oracle": info.uses_str, "externals": exts, "attrs": list(info.attr_order),
                             "params": [[p, info.kind[p]] for p in info.params]}
        infos[m] = info
    return out
