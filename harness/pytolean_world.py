"""Functions and methods whose point is what they do to the OUTSIDE WORLD through calls that can fail → WORLD-PASSING Lean functions
(on top of harness/pytolean.py, whose expression translator is reused unchanged; the ideas of pytolean_methods.py — the mutable
attributes of `self` are passed in and returned —, pytolean_trace.py — calls that stay outside the translation are parameters giving
the call's OUTCOME `Except String PyVal`, effects happen in program order — and pytolean_except.py — `try/except` by class — combined).

Made for store/file_store.py (property C16): `atomic_write`, `FilePolicySource._stat_sig / _ensure_content_sha / etag / load`.
Meanings: lean/Rbacx/Model/PyWorld.lean.  Everything is syntax-directed; anything outside the stated shapes raises `Unsupported`.

A translated function `f` is

    def f {W : Type} (ext… : Rbacx.PyW.Ext W) (pure… : PyVal → PyVal) (self_<attr>… : PyVal) (param… : PyVal) (s : <Class>_state | Unit) (w : W)
        : Rbacx.PyW.Res W <Class>_state | Unit

* `W`, the WORLD, is abstract.  An EXTERNAL call `C(a, …, k=v, …)` (`C` designated in `WorldCfg.externals` by its source text:
  `os.stat`, `tempfile.mkstemp`, `self._hash_file`, …) is `ext [a, …] [("k", v), …] w` = (the world after the call, the call's
  outcome); `.error cls` leaves the statement with an exception of class `cls` in flight.  Arguments are evaluated first (they are pure
  expressions).  An external may be called as a statement, as the whole right-hand side of an assignment (name or tuple-of-names
  target; the unpacking is `Rbacx.PyT.unpack`: TypeError / ValueError), or as the item of a `with`.
* `<Class>_state`: a generated structure with one `PyVal` field per attribute that some translated method of the class ASSIGNS
  (`self.x = E`, `E` pure), fields in alphabetical order; it is returned also when an exception leaves the method (the assignments made so far are kept).
  Attributes that are only read are parameters `self_<attr>`.
* `self.m(…)` for another translated method of the class (listed BEFORE its callers), `g(…)` for a translated module function: the
  callee is applied to the current world and state, its result matched on.
* PURE externals (`WorldCfg.pure`: `os.path.dirname`): parameters `PyVal → PyVal`, usable inside expressions; taken to be total and
  without effect.
* `try: A except C1 [as e]: H1 … ` / `try: A finally: F` / both; `raise` (bare, inside a handler); `with <external call> [as f]: A`.
  Rendered in double-barrelled continuation style, as TEXT: every way out of `A` (falling off its end, `return`, an exception at each
  external call inside it) is followed by what CPython runs next —
    - except: `if Rbacx.PyW.catches [C…] cls then <H; then what follows the try statement> else <propagate>`; classes accepted: names
      of leaf builtin exception classes, `Exception`, `BaseException` (`OSError`-like intermediate classes are rejected: matching is by name);
      `e` may only be mentioned in logging statements;
    - finally: `F` is rendered once per way out of `A`: then what follows the try statement / the `return` / the re-raise; an exception
      raised by `F` replaces the one in flight; `return`/`break` inside `F` are rejected;
    - with: the item must be a designated external that returns a FILE OBJECT (`WorldCfg.file_openers`); `f.__enter__()` returns `f`
      and cannot raise; `__exit__` is the external `WorldCfg.close` applied to `[f]`, on every way out, never suppressing; when
      `close` raises, that exception replaces the one in flight.  `f.<m>(a…)` for `m` in `WorldCfg.file_methods` is the external
      `file_methods[m] [f, a…]`.
  The statements after an `if` / `try` / `with` are duplicated into every path that reaches them (continuation style).
* `import` / `from … import …` statements inside a function: no effect (the module is taken to be importable); logging statements
  (`logger.<m>(…)`, arguments without calls): no effect; both are named in the generated doc comment.
* records: a name bound ONCE to the result of an external listed in `WorldCfg.records` (`st = os.stat(…)`) — `x.f` for a declared
  field is `Rbacx.Py.attr x "f"`; `getattr(x, "f", D)` for a declared field is the field too (`D` is evaluated by CPython before the
  call but its value is discarded: `D` must be built from attribute reads of records, number constants, `*`, `int(…)` only and is taken
  not to raise).
* expressions: pytolean's, plus `self.<attr>`, `x[<int constant>]` (`Rbacx.PyW.item`), f-strings whose fields have no conversion / spec
  (`Rbacx.Py.strOf`: CPython's `str` of str / None / bool / int — what the source formats; other kinds give the marker `"<repr>"`)."""
from __future__ import annotations

import ast

import pytolean
from pytolean import Unsupported, ident, lean_str

LEAF_CLASSES = {"FileNotFoundError", "PermissionError", "IsADirectoryError", "NotADirectoryError", "FileExistsError", "TimeoutError",
                "InterruptedError", "KeyError", "IndexError", "KeyboardInterrupt", "SystemExit", "ZeroDivisionError", "UnicodeDecodeError",
                "UnicodeEncodeError", "ModuleNotFoundError", "RecursionError", "NotImplementedError"}
CATCH_ALL = {"Exception", "BaseException"}


class WorldCfg:
    def __init__(self, externals: dict[str, str], pure: dict[str, str] | None = None, file_openers: tuple = (), close: str = "file_close",
                 file_methods: dict[str, str] | None = None, records: dict[str, list[str]] | None = None, silent: tuple = ("logger",)):
        self.externals = dict(externals)          # callee text → Lean parameter (Rbacx.PyW.Ext W)
        self.pure = dict(pure or {})              # callee text → Lean parameter (PyVal → PyVal)
        self.file_openers = tuple(file_openers)   # externals whose result is a file object (accepted as the item of a `with`)
        self.close = close                        # Lean parameter of the external `f.__exit__` stands for
        self.file_methods = dict(file_methods or {})   # method name on a with-handle → Lean parameter
        self.records = dict(records or {})        # external callee text → declared fields of the record it returns
        self.silent = tuple(silent)


class Ctx:
    """what follows a statement list: falling off its end, `return v`, an exception of class (Lean variable / literal) `c`"""

    def __init__(self, knext, kret, kraise, exc: str | None = None, in_finally: bool = False):
        self.knext, self.kret, self.kraise, self.exc, self.in_finally = knext, kret, kraise, exc, in_finally


class FnInfo:
    def __init__(self, designator: str, lean_name: str, fn: ast.FunctionDef, cls: str | None):
        self.designator, self.lean_name, self.fn, self.cls = designator, lean_name, fn, cls
        a = fn.args
        if a.vararg or a.kwarg or a.posonlyargs or isinstance(fn, ast.AsyncFunctionDef) or fn.decorator_list:
            raise Unsupported(f"signature of {designator}")
        pos = [x.arg for x in a.args]
        if cls is not None:
            if not pos or pos[0] != "self":
                raise Unsupported(f"{designator}: first parameter is not self")
            pos = pos[1:]
        self.params = pos + [x.arg for x in a.kwonlyargs]
        self.defaults: dict[str, ast.expr] = {}
        for x, d in list(zip(a.args[len(a.args) - len(a.defaults):], a.defaults)) + list(zip(a.kwonlyargs, a.kw_defaults)):
            if d is not None:
                if not isinstance(d, ast.Constant):
                    raise Unsupported(f"{designator}: default of {x.arg}")
                self.defaults[x.arg] = d
        self.ext_order: list[str] = []     # Lean parameter names of the externals used (own + callees'), first use first
        self.pure_order: list[str] = []
        self.attr_order: list[str] = []    # attributes read that are not state fields
        self.notes: list[str] = []


def _callee_text(call: ast.Call) -> str:
    return ast.unparse(call.func)


def _is_self_attr(n: ast.AST) -> bool:
    return isinstance(n, ast.Attribute) and isinstance(n.value, ast.Name) and n.value.id == "self"


def field_name(attr: str) -> str:
    return ident(attr)


def self_var(attr: str) -> str:
    return "self_" + ident(attr)


class WorldTranslator(pytolean.Translator):
    def __init__(self, tree: ast.Module, cfg: WorldCfg, info: FnInfo, infos: dict[str, FnInfo], fields: list[str]):
        super().__init__(set(), pytolean._module_consts(tree))
        self.cfg, self.info, self.infos, self.fields = cfg, info, infos, fields
        fn = info.fn
        self.locals = set(info.params) | {n.id for n in ast.walk(fn) if isinstance(n, ast.Name) and isinstance(n.ctx, ast.Store)}
        for n in ast.walk(fn):
            if isinstance(n, (ast.With,)):
                for it in n.items:
                    if it.optional_vars is not None and isinstance(it.optional_vars, ast.Name):
                        self.locals.add(it.optional_vars.id)
            if isinstance(n, (ast.Lambda, ast.Yield, ast.YieldFrom, ast.Await, ast.Global, ast.Nonlocal, ast.While, ast.For, ast.AsyncFor,
                              ast.AsyncWith, ast.Delete, ast.FunctionDef, ast.ClassDef, ast.NamedExpr, ast.AugAssign, ast.Match)) and n is not fn:
                raise Unsupported(f"{info.designator}: {type(n).__name__}")
            if isinstance(n, ast.Name) and isinstance(n.ctx, ast.Store) and n.id in info.params + ["self"]:
                raise Unsupported(f"{info.designator}: parameter {n.id} is rebound")
        self.stores: dict[str, int] = {}
        for n in ast.walk(fn):
            if isinstance(n, ast.Name) and isinstance(n.ctx, ast.Store):
                self.stores[n.id] = self.stores.get(n.id, 0) + 1
        self.handles: set[str] = set()
        self.records: dict[str, list[str]] = {}
        self.ncls = 0
        self.ntmp = 0
        reserved = {"w", "s", "W"}
        for v in self.locals:
            if ident(v) in reserved or ident(v).startswith("cls") or ident(v).startswith("tmpv") or ident(v).startswith("self_"):
                raise Unsupported(f"{info.designator}: the local name {v} clashes with a name the translation uses")

    # ------------------------------------------------------------------ bookkeeping
    def note(self, text: str) -> None:
        if text not in self.info.notes:
            self.info.notes.append(text)

    def use_ext(self, param: str) -> str:
        if param not in self.info.ext_order:
            self.info.ext_order.append(param)
        return param

    def fresh_cls(self) -> str:
        self.ncls += 1
        return f"cls{self.ncls}"

    def state_term(self) -> str:
        if self.info.cls is None:
            return "()"
        return "⟨" + ", ".join(self_var(f) for f in self.fields) + "⟩" if self.fields else "()"

    # ------------------------------------------------------------------ expressions
    def E(self, e: ast.expr) -> str:
        if _is_self_attr(e) and isinstance(e.ctx, ast.Load):
            if self.info.cls is None:
                raise Unsupported("self outside a method")
            if e.attr not in self.fields and e.attr not in self.info.attr_order:
                self.info.attr_order.append(e.attr)
            return self_var(e.attr)
        if isinstance(e, ast.Name) and e.id == "self":
            raise Unsupported("self used as a value")
        if isinstance(e, ast.Name) and e.id in self.handles:
            raise Unsupported(f"the file object {e.id} used as a value")
        if isinstance(e, ast.Attribute) and isinstance(e.value, ast.Name) and e.value.id in self.records and isinstance(e.ctx, ast.Load):
            if e.attr not in self.records[e.value.id]:
                raise Unsupported(f"{ast.unparse(e)}: not a declared field of the record")
            return f"(Rbacx.Py.attr {ident(e.value.id)} {lean_str(e.attr)})"
        if isinstance(e, ast.Call) and isinstance(e.func, ast.Name) and e.func.id == "getattr" and "getattr" not in self.locals \
                and len(e.args) == 3 and not e.keywords and isinstance(e.args[0], ast.Name) and e.args[0].id in self.records \
                and isinstance(e.args[1], ast.Constant) and isinstance(e.args[1].value, str):
            x, f, d = e.args[0].id, e.args[1].value, e.args[2]
            if f not in self.records[x]:
                raise Unsupported(f"{ast.unparse(e)[:60]}: {f} is not a declared field of the record (the default would be used)")
            self._discardable(d)
            self.note(f"`getattr({x}, {f!r}, {ast.unparse(d)})`: `{f}` is a declared field of the record, so the result is the field; the "
                      f"default is evaluated by CPython before the call and discarded — it is arithmetic on the record's own fields and is "
                      f"taken not to raise")
            return f"(Rbacx.Py.attr {ident(x)} {lean_str(f)})"
        if isinstance(e, ast.Subscript) and isinstance(e.ctx, ast.Load) and isinstance(e.slice, ast.Constant) and isinstance(e.slice.value, int) \
                and not isinstance(e.slice.value, bool) and e.slice.value >= 0:
            self.note("`x[<constant>]` on a tuple the source built or unpacked: `Rbacx.PyW.item` (IndexError / TypeError not represented)")
            return f"(Rbacx.PyW.item {self.E(e.value)} {e.slice.value})"
        if isinstance(e, ast.JoinedStr):
            parts = []
            for p in e.values:
                if isinstance(p, ast.Constant) and isinstance(p.value, str):
                    parts.append(f"(PyVal.str {lean_str(p.value)})")
                elif isinstance(p, ast.FormattedValue) and p.conversion == -1 and p.format_spec is None:
                    parts.append(f"(Rbacx.Py.strOf {self.E(p.value)})")
                else:
                    raise Unsupported(f"f-string part {ast.unparse(e)}")
            self.note("an f-string field `{x}` is `str(x)` (`Rbacx.Py.strOf`: exact for str / None / bool / int)")
            return "(Rbacx.Py.fstr [" + ", ".join(parts) + "])"
        if isinstance(e, ast.Call) and _callee_text(e) in self.cfg.pure:
            if e.keywords or len(e.args) != 1:
                raise Unsupported(f"pure external {ast.unparse(e)[:60]}: one positional argument")
            p = self.cfg.pure[_callee_text(e)]
            if p not in self.info.pure_order:
                self.info.pure_order.append(p)
            self.note(f"`{_callee_text(e)}(x)` is NOT translated: a parameter `{p} : PyVal → PyVal`, taken to be total and without effect")
            return f"({p} {self.E(e.args[0])})"
        if isinstance(e, ast.Call) and self.effect_call(e) is not None:
            raise Unsupported(f"call with an effect inside an expression: {ast.unparse(e)[:60]} (only as a statement, as the whole right-hand "
                              f"side of an assignment, or as the item of a `with`)")
        return super().E(e)

    def _discardable(self, d: ast.expr) -> None:
        """a default argument whose value is discarded: only arithmetic on record fields"""
        for n in ast.walk(d):
            ok = isinstance(n, (ast.BinOp, ast.Mult, ast.Constant, ast.Load)) \
                or (isinstance(n, ast.Attribute) and isinstance(n.value, ast.Name) and n.value.id in self.records) \
                or (isinstance(n, ast.Name) and (n.id in self.records or n.id in ("int", "float"))) \
                or (isinstance(n, ast.Call) and isinstance(n.func, ast.Name) and n.func.id in ("int", "float") and not n.keywords)
            if not ok:
                raise Unsupported(f"default argument {ast.unparse(d)[:60]} is more than arithmetic on the record's fields")

    # ------------------------------------------------------------------ calls with effects
    def effect_call(self, e: ast.expr):
        """("ext", param, call) | ("method", FnInfo, call) | ("file", param, call) | None"""
        if not isinstance(e, ast.Call):
            return None
        t = _callee_text(e)
        if t in self.cfg.externals:
            return ("ext", self.cfg.externals[t], e)
        if isinstance(e.func, ast.Attribute) and isinstance(e.func.value, ast.Name) and e.func.value.id in self.handles \
                and e.func.attr in self.cfg.file_methods:
            return ("file", self.cfg.file_methods[e.func.attr], e)
        if _is_self_attr(e.func) and self.info.cls is not None and f"{self.info.cls}.{e.func.attr}" in self.infos:
            return ("method", self.infos[f"{self.info.cls}.{e.func.attr}"], e)
        if isinstance(e.func, ast.Name) and e.func.id in self.infos and e.func.id not in self.locals:
            return ("method", self.infos[e.func.id], e)
        return None

    def _args(self, call: ast.Call) -> tuple[str, str]:
        if any(isinstance(a, ast.Starred) for a in call.args) or any(k.arg is None for k in call.keywords):
            raise Unsupported(f"call {ast.unparse(call)[:60]}: * / **")
        pos = "[" + ", ".join(self.E(a) for a in call.args) + "]"
        kw = "[" + ", ".join(f"({lean_str(k.arg)}, {self.E(k.value)})" for k in call.keywords) + "]"
        return pos, kw

    def call(self, kind, pat: str, ctx: Ctx, k, ind: str) -> str:
        """the call, then `k(ind)` with the result bound to the pattern `pat`; an exception goes to `ctx.kraise`"""
        what, target, call = kind
        c = self.fresh_cls()
        i2 = ind + "    "
        if what in ("ext", "file"):
            pos, kw = self._args(call)
            if what == "file":
                pos = "[" + ", ".join([ident(call.func.value.id)] + [self.E(a) for a in call.args]) + "]"
                self.note(f"`{call.func.value.id}.{call.func.attr}(…)` on the file object of the `with`: the external `{target}` applied to "
                          f"the object and the arguments")
            else:
                self.note(f"`{_callee_text(call)}(…)` is NOT translated: the parameter `{target}` gives the world after the call and its "
                          f"OUTCOME (`.ok v` / `.error cls`)")
            self.use_ext(target)
            return (f"(match {target} {pos} {kw} w with\n{ind}  | (w, Except.ok {pat}) =>\n{i2}{k(i2)}\n"
                    f"{ind}  | (w, Except.error {c}) =>\n{i2}{ctx.kraise(c, i2)})")
        callee: FnInfo = target
        bound = self.bind_params(callee, call)
        for p in callee.ext_order:
            self.use_ext(p)
        for p in callee.pure_order:
            if p not in self.info.pure_order:
                self.info.pure_order.append(p)
        for a in callee.attr_order:
            if a not in self.info.attr_order:
                self.info.attr_order.append(a)
        args = callee.ext_order + callee.pure_order + [self_var(a) for a in callee.attr_order] + [self.E(bound[p]) for p in callee.params]
        st_in = self.state_term() if callee.cls is not None else "()"
        st_pat = self.state_term() if callee.cls is not None else "_"
        self.note(f"`{_callee_text(call)}(…)`: the translated `{callee.lean_name}` applied to the current world and state")
        return (f"(match {' '.join([ident(callee.lean_name)] + args)} {st_in} w with\n{ind}  | ⟨w, {st_pat}, Except.ok {pat}⟩ =>\n{i2}{k(i2)}\n"
                f"{ind}  | ⟨w, {st_pat}, Except.error {c}⟩ =>\n{i2}{ctx.kraise(c, i2)})")

    @staticmethod
    def bind_params(callee: FnInfo, call: ast.Call) -> dict[str, ast.expr]:
        if any(isinstance(x, ast.Starred) for x in call.args) or any(k.arg is None for k in call.keywords) or len(call.args) > len(callee.params):
            raise Unsupported(f"call {ast.unparse(call)[:80]}")
        got: dict[str, ast.expr] = dict(zip(callee.params, call.args))
        for k in call.keywords:
            if k.arg in got or k.arg not in callee.params:
                raise Unsupported(f"call {ast.unparse(call)[:80]}: argument {k.arg}")
            got[k.arg] = k.value
        for p in callee.params:
            if p not in got:
                if p not in callee.defaults:
                    raise Unsupported(f"call {ast.unparse(call)[:80]}: no argument for {p}")
                got[p] = callee.defaults[p]
        return got

    # ------------------------------------------------------------------ statements
    def is_silent(self, st: ast.stmt) -> bool:
        if isinstance(st, ast.Expr) and isinstance(st.value, ast.Call) and isinstance(st.value.func, ast.Attribute) \
                and isinstance(st.value.func.value, ast.Name) and st.value.func.value.id in self.cfg.silent \
                and st.value.func.value.id not in self.locals:
            inner = [n for a in list(st.value.args) + [k.value for k in st.value.keywords] for n in ast.walk(a) if isinstance(n, ast.Call)]
            if inner:
                raise Unsupported(f"logging statement with a call in its arguments: {ast.unparse(st)[:60]}")
            return True
        return False

    def unpack(self, names: list[str], value: str, ctx: Ctx, k, ind: str) -> str:
        c = self.fresh_cls()
        i2 = ind + "    "
        self.note(f"`{', '.join(names)} = …`: `Rbacx.PyT.unpack {len(names)}` (TypeError for a non-iterable, ValueError for another number of "
                  f"items; `.ok` has exactly {len(names)} items, the second arm is unreachable)")
        return (f"(match Rbacx.PyT.unpack {len(names)} (Except.ok {value}) with\n{ind}  | Except.ok [{', '.join(ident(v) for v in names)}] =>\n"
                f"{i2}{k(i2)}\n{ind}  | Except.ok _ =>\n{i2}{ctx.kraise(lean_str('ValueError'), i2)}\n"
                f"{ind}  | Except.error {c} =>\n{i2}{ctx.kraise(c, i2)})")

    def handler_classes(self, h: ast.ExceptHandler) -> list[str]:
        if h.type is None:
            return ["BaseException"]
        ts = h.type.elts if isinstance(h.type, ast.Tuple) else [h.type]
        out = []
        for t in ts:
            if not isinstance(t, ast.Name) or t.id in self.locals or (t.id not in LEAF_CLASSES and t.id not in CATCH_ALL):
                raise Unsupported(f"handler class {ast.unparse(t)} (accepted: leaf builtin exception classes, Exception, BaseException)")
            out.append(t.id)
        return out

    def T(self, stmts: list[ast.stmt], ctx: Ctx, ind: str) -> str:
        if not stmts:
            return ctx.knext(ind)
        st, rest = stmts[0], stmts[1:]

        def cont(i: str) -> str:
            return self.T(rest, ctx, i)
        if isinstance(st, ast.Pass) or (isinstance(st, ast.Expr) and isinstance(st.value, ast.Constant) and isinstance(st.value.value, str)):
            return cont(ind)
        if isinstance(st, (ast.Import, ast.ImportFrom)):
            names = [a.asname or a.name for a in st.names]
            if any(n in self.locals for n in names):
                raise Unsupported(f"import rebinding a local: {ast.unparse(st)[:60]}")
            self.note(f"`{ast.unparse(st)}` has no effect here (the module is taken to be importable)")
            return cont(ind)
        if self.is_silent(st):
            self.note(f"`{st.value.func.value.id}.<method>(…)` statements (logging) have no effect on any value and are left out")
            return cont(ind)
        if isinstance(st, ast.AnnAssign) and st.value is None and isinstance(st.target, ast.Name):
            return cont(ind)
        if isinstance(st, ast.Return):
            if ctx.in_finally:
                raise Unsupported("return inside a finally block")
            if st.value is not None and self.effect_call(st.value) is not None:
                t = self.tmpvar()
                return self.call(self.effect_call(st.value), t, ctx, lambda i: ctx.kret(t, i), ind)
            return ctx.kret("PyVal.none" if st.value is None else self.E(st.value), ind)
        if isinstance(st, ast.Raise):
            if st.exc is not None or st.cause is not None or ctx.exc is None:
                raise Unsupported(f"{ast.unparse(st)[:60]} (only a bare `raise` inside a handler)")
            return ctx.kraise(ctx.exc, ind)
        if isinstance(st, (ast.Assign, ast.AnnAssign)):
            if isinstance(st, ast.Assign) and len(st.targets) != 1:
                raise Unsupported("chained assignment")
            tgt = st.targets[0] if isinstance(st, ast.Assign) else st.target
            eff = self.effect_call(st.value)
            if _is_self_attr(tgt):
                if eff is not None:
                    raise Unsupported(f"{ast.unparse(st)[:60]}: an attribute is assigned a pure expression only")
                if tgt.attr not in self.fields:
                    raise Unsupported(f"assignment to self.{tgt.attr}, which is not a state field")
                return f"let {self_var(tgt.attr)} := {self.E(st.value)}\n{ind}{cont(ind)}"
            if isinstance(tgt, ast.Name):
                if eff is not None:
                    if eff[0] == "ext" and _callee_text(eff[2]) in self.cfg.records:
                        if self.stores.get(tgt.id) != 1:
                            raise Unsupported(f"{tgt.id} is bound to a record but assigned {self.stores.get(tgt.id)} times")
                        self.records[tgt.id] = self.cfg.records[_callee_text(eff[2])]
                        self.note(f"`{tgt.id}` (the result of `{_callee_text(eff[2])}`) is a record with the fields {self.records[tgt.id]}")
                    return self.call(eff, ident(tgt.id), ctx, cont, ind)
                return f"let {ident(tgt.id)} := {self.E(st.value)}\n{ind}{cont(ind)}"
            if isinstance(tgt, ast.Tuple) and tgt.elts and all(isinstance(x, ast.Name) for x in tgt.elts) \
                    and len({x.id for x in tgt.elts}) == len(tgt.elts):
                names = [x.id for x in tgt.elts]
                if eff is not None:
                    t = self.tmpvar()
                    return self.call(eff, t, ctx, lambda i: self.unpack(names, t, ctx, cont, i), ind)
                return self.unpack(names, self.E(st.value), ctx, cont, ind)
            raise Unsupported(f"assignment target {ast.unparse(tgt)[:60]}")
        if isinstance(st, ast.Expr):
            eff = self.effect_call(st.value)
            if eff is None:
                raise Unsupported(f"expression statement {ast.unparse(st)[:60]}")
            return self.call(eff, "_", ctx, cont, ind)
        if isinstance(st, ast.If):
            inner = Ctx(cont, ctx.kret, ctx.kraise, ctx.exc, ctx.in_finally)
            i2 = ind + "  "
            return (f"(if ({self.E(st.test)}).truthy then\n{i2}{self.T(list(st.body), inner, i2)}\n{ind}else\n"
                    f"{i2}{self.T(list(st.orelse), inner, i2)})")
        if isinstance(st, ast.Try):
            if st.orelse:
                raise Unsupported("try … else")
            return self.try_stmt(st, ctx, cont, ind)
        if isinstance(st, ast.With):
            return self.with_stmt(st, ctx, cont, ind)
        raise Unsupported(f"statement {ast.unparse(st)[:60]}")

    def tmpvar(self) -> str:
        self.ntmp += 1
        return f"tmpv{self.ntmp}"

    def try_stmt(self, st: ast.Try, ctx: Ctx, cont, ind: str) -> str:
        outer = ctx
        if st.finalbody:
            fin = list(st.finalbody)
            for n in ast.walk(ast.Module(body=fin, type_ignores=[])):
                if isinstance(n, (ast.Return, ast.Break, ast.Continue)):
                    raise Unsupported("return / break / continue inside a finally block")
            self.note("`finally`: the block is rendered on every way out of the `try` body (normal, `return`, exception at each call); an "
                      "exception raised by the block replaces the one in flight")

            def fin_then(after):
                # the finally block, then `after`; an exception of the block itself propagates to the enclosing context
                return lambda i: self.T(fin, Ctx(after, outer.kret, outer.kraise, outer.exc, True), i)
            ctx = Ctx(fin_then(cont),
                      lambda v, i: fin_then(lambda j: outer.kret(v, j))(i),
                      lambda c, i: fin_then(lambda j: outer.kraise(c, j))(i),
                      outer.exc, outer.in_finally)
            after_body = ctx.knext
        else:
            after_body = cont
        if not st.handlers:
            return self.T(list(st.body), Ctx(after_body, ctx.kret, ctx.kraise, ctx.exc, ctx.in_finally), ind)
        handlers = [(self.handler_classes(h), h) for h in st.handlers]
        after_ctx = ctx

        def kraise(c: str, i: str) -> str:
            text = after_ctx.kraise(c, i + "  ")
            for classes, h in reversed(handlers):
                hctx = Ctx(after_body, after_ctx.kret, after_ctx.kraise, c, after_ctx.in_finally)
                body = self.T(list(h.body), hctx, i + "  ")
                cl = "[" + ", ".join(lean_str(x) for x in classes) + "]"
                text = f"(if Rbacx.PyW.catches {cl} {c} then\n{i}  {body}\n{i}else\n{i}  {text})"
            return text
        self.note("`except C`: `Rbacx.PyW.catches` — by class name; `Exception` catches all but KeyboardInterrupt / SystemExit / GeneratorExit")
        return self.T(list(st.body), Ctx(after_body, ctx.kret, kraise, ctx.exc, ctx.in_finally), ind)

    def with_stmt(self, st: ast.With, ctx: Ctx, cont, ind: str) -> str:
        if len(st.items) != 1:
            raise Unsupported("with: several items")
        item = st.items[0]
        eff = self.effect_call(item.context_expr)
        if eff is None or eff[0] != "ext" or _callee_text(eff[2]) not in self.cfg.file_openers:
            raise Unsupported(f"with {ast.unparse(item.context_expr)[:60]}: only a designated external that returns a file object")
        if item.optional_vars is None:
            f = self.tmpvar()
        elif isinstance(item.optional_vars, ast.Name):
            f = ident(item.optional_vars.id)
            if self.stores.get(item.optional_vars.id, 0) != 1:
                raise Unsupported(f"the file object {item.optional_vars.id} is rebound")
            self.handles.add(item.optional_vars.id)
        else:
            raise Unsupported("with … as <pattern>")
        close = self.use_ext(self.cfg.close)
        self.note(f"`with {_callee_text(eff[2])}(…) as f`: `f` is a file object — `__enter__` returns it and does not raise; `__exit__` is the "
                  f"external `{close} [f]`, run on every way out of the block, never suppressing; an exception of it replaces the one in flight")
        outer = ctx

        def exit_then(after):
            def go(i: str) -> str:
                c = self.fresh_cls()
                i2 = i + "    "
                return (f"(match {close} [{f}] [] w with\n{i}  | (w, Except.ok _) =>\n{i2}{after(i2)}\n"
                        f"{i}  | (w, Except.error {c}) =>\n{i2}{outer.kraise(c, i2)})")
            return go
        inner = Ctx(exit_then(cont),
                    lambda v, i: exit_then(lambda j: outer.kret(v, j))(i),
                    lambda c, i: exit_then(lambda j: outer.kraise(c, j))(i),
                    outer.exc, outer.in_finally)
        return self.call(eff, f, outer, lambda i: self.T(list(st.body), inner, i), ind)


def _find(tree: ast.Module, designator: str):
    if "." in designator:
        cls, name = designator.split(".", 1)
        hits = [n for n in tree.body if isinstance(n, ast.ClassDef) and n.name == cls]
        if len(hits) != 1:
            raise Unsupported(f"class {cls} not found")
        fns = [n for n in hits[0].body if isinstance(n, (ast.FunctionDef, ast.AsyncFunctionDef)) and n.name == name]
        if len(fns) != 1:
            raise Unsupported(f"method {designator} not found")
        return fns[0], cls
    fns = [n for n in tree.body if isinstance(n, (ast.FunctionDef, ast.AsyncFunctionDef)) and n.name == designator]
    if len(fns) != 1:
        raise Unsupported(f"function {designator} not found")
    return fns[0], None


def translate(source: str, targets: dict[str, str], cfg: WorldCfg) -> dict:
    """`targets`: designator (`f` / `Class.method`) → Lean name, CALLEES FIRST.
    Result: {"lean": text, "state": {class: [attribute…]}, "functions": {designator: {"lean_name", "externals": [param…], "pure": [param…],
    "attrs": [attribute…], "params": [name…], "defaults": {name: constant}, "class": name | None}}}"""
    tree = ast.parse(source)
    found = {d: _find(tree, d) for d in targets}
    # the state fields of a class: the attributes its translated methods assign, in order of first assignment
    state: dict[str, list[str]] = {}
    for d, (fn, cls) in found.items():
        if cls is None:
            continue
        fs = state.setdefault(cls, [])
        for n in ast.walk(fn):
            if _is_self_attr(n) and isinstance(n.ctx, ast.Store) and n.attr not in fs:
                fs.append(n.attr)
            if isinstance(n, ast.Attribute) and isinstance(n.ctx, (ast.Store, ast.Del)) and not _is_self_attr(n):
                raise Unsupported(f"{d}: attribute assignment {ast.unparse(n)}")
    for fs in state.values():
        fs.sort()     # a canonical order: swapping two assignments must not permute the structure
    out: dict = {"lean": "", "state": state, "functions": {}}
    for cls, fs in state.items():
        names = [field_name(f) for f in fs]
        if len(set(names)) != len(names):
            raise Unsupported(f"{cls}: field names clash after renaming: {names}")
        if fs:
            out["lean"] += (f"/-- the attributes of `{cls}` that the translated methods assign: {', '.join('`self.' + f + '`' for f in fs)} -/\n"
                            f"structure {cls}_state where\n" + "".join(f"  {n} : PyVal\n" for n in names) + "\n")
    infos: dict[str, FnInfo] = {}
    for d, lean_name in targets.items():
        fn, cls = found[d]
        info = FnInfo(d, lean_name, fn, cls)
        fields = state.get(cls, []) if cls is not None else []
        tr = WorldTranslator(tree, cfg, info, infos, fields)
        st_ty = f"{cls}_state" if cls is not None and fields else "Unit"

        def top_ret(v: str, i: str, tr=tr) -> str:
            return f"⟨w, {tr.state_term()}, Except.ok {v}⟩"

        def top_raise(c: str, i: str, tr=tr) -> str:
            return f"⟨w, {tr.state_term()}, Except.error {c}⟩"
        ctx = Ctx(lambda i: top_ret("PyVal.none", i), top_ret, top_raise)
        body = tr.T(list(fn.body), ctx, "  ")
        prelude = "".join(f"let {self_var(f)} := s.{field_name(f)}\n  " for f in fields)
        # the externals in the configuration's order (not in order of first use: reordering statements must not permute the signature)
        canon = list(cfg.externals.values()) + list(cfg.file_methods.values()) + [cfg.close]
        info.ext_order.sort(key=canon.index)
        info.pure_order.sort(key=list(cfg.pure.values()).index)
        info.attr_order.sort()
        sig = ["{W : Type}"]
        if info.ext_order:
            sig.append(f"({' '.join(info.ext_order)} : Rbacx.PyW.Ext W)")
        if info.pure_order:
            sig.append(f"({' '.join(info.pure_order)} : PyVal → PyVal)")
        sig += [f"({self_var(a)} : PyVal)" for a in info.attr_order]
        sig += [f"({ident(p)} : PyVal)" for p in info.params]
        sig += [f"(s : {st_ty})", "(w : W)"]
        names = info.ext_order + info.pure_order + [self_var(a) for a in info.attr_order] + [ident(p) for p in info.params] \
            + [ident(v) for v in tr.locals if v not in info.params]
        if len(set(names)) != len(names) or ident(lean_name) in names:
            raise Unsupported(f"{d}: variable names clash after renaming: {sorted(names)}")
        notes = list(info.notes)
        for p, c in info.defaults.items():
            notes.append(f"`{p}` (default `{c.value!r}`) is an ordinary parameter: call sites that omit it pass the default")
        doc = (f"/-- `{d}` WORLD-PASSING (harness/pytolean_world.py): externals "
               + (", ".join(info.ext_order) or "none") + "; inputs: " + ", ".join(s_[1:-1] for s_ in sig[1:])
               + "".join("; " + n for n in notes)).replace("-/", "- /") + " -/\n"
        out["lean"] += f"{doc}def {ident(lean_name)} {' '.join(sig)} : Rbacx.PyW.Res W {st_ty} :=\n  {prelude}{body}\n\n"
        out["functions"][d] = {"lean_name": lean_name, "externals": list(info.ext_order), "pure": list(info.pure_order),
                               "attrs": list(info.attr_order), "params": list(info.params),
                               "defaults": {p: c.value for p, c in info.defaults.items()}, "class": cls,
                               "state": list(fields)}
        infos[d] = info
        if cls is None:
            infos[fn.name] = info
    return out
