"""Run the real rbacx (from /repo/src, the current working tree) in-process and render its
observable results in the same shape the Lean driver prints."""
from __future__ import annotations

import asyncio
import copy
import logging
import os
import sys
from typing import Any

REPO = os.environ.get("RBACX_REPO", "/repo")
sys.path.insert(0, os.path.join(REPO, "src"))
logging.disable(logging.CRITICAL)

from rbacx.core.engine import Guard  # noqa: E402
from rbacx.core.model import Action, Context, Resource, Subject  # noqa: E402

from proto import enc  # noqa: E402


def exc_class(e: BaseException) -> str:
    return type(e).__name__


class RecSink:
    def __init__(self, events: list, mode: str = "sync"):
        self.events = events
        self.mode = mode


class RecMetrics(RecSink):
    def inc(self, name, labels=None):
        self.events.append({"ev": "inc", "decision": (labels or {}).get("decision")})
        if self.mode == "raise":
            raise RuntimeError("metrics down")

    def observe(self, name, value, labels=None):
        self.events.append({"ev": "observe", "decision": (labels or {}).get("decision")})
        if self.mode == "raise":
            raise RuntimeError("metrics down")


class AsyncRecMetrics(RecSink):
    async def inc(self, name, labels=None):
        self.events.append({"ev": "inc", "decision": (labels or {}).get("decision")})

    async def observe(self, name, value, labels=None):
        self.events.append({"ev": "observe", "decision": (labels or {}).get("decision")})


def _audit_event(payload: dict) -> dict:
    return {"ev": "audit", "env": enc(payload.get("env")), "decision": payload.get("decision"),
            "allowed": payload.get("allowed"), "rule_id": enc(payload.get("rule_id")),
            "policy_id": enc(payload.get("policy_id")), "reason": enc(payload.get("reason")),
            "obligations": enc(payload.get("obligations"))}


class RecLogger(RecSink):
    def log(self, payload):
        self.events.append(_audit_event(payload))
        if self.mode == "raise":
            raise RuntimeError("log down")


class AsyncRecLogger(RecSink):
    async def log(self, payload):
        self.events.append(_audit_event(payload))


class _Awaitable:
    """an awaitable that is NOT a coroutine object (what a Future, a Task or a client library's lazy call looks like)"""

    def __init__(self, value=None, exc: BaseException | None = None):
        self._value, self._exc = value, exc

    def __await__(self):
        yield from asyncio.sleep(0).__await__()
        if self._exc is not None:
            raise self._exc
        return self._value


class TableRel:
    """Recording relationship checker answering from a table keyed by (subject, relation, resource)."""

    RAISES = {"RuntimeError": RuntimeError, "TimeoutError": TimeoutError, "asyncio.TimeoutError": asyncio.TimeoutError,
              "OSError": OSError, "KeyError": KeyError}

    def __init__(self, table: list, default: Any, calls: list, mode: str = "sync", raise_with: str | None = None):
        self.table = {(s, r, o): a for s, r, o, a in table}
        self.default = default
        self.calls = calls
        self.mode = mode
        self.exc = self.RAISES.get(raise_with or "RuntimeError", RuntimeError)

    def _answer(self, subject, relation, resource, context):
        self.calls.append([subject, relation, resource, enc(context)])
        a = self.table.get((subject, relation, resource), self.default)
        if a is None:
            # a backend that fails: whatever it raises (also a timeout of its own), the lookup is false — and stays looked up
            raise self.exc("rel backend down")
        return a

    def check(self, subject, relation, resource, *, context=None):
        if self.mode == "async":
            async def _c():
                return self._answer(subject, relation, resource, context)
            return _c()
        if self.mode == "awaitable":
            try:
                return _Awaitable(self._answer(subject, relation, resource, context))
            except RuntimeError as e:
                return _Awaitable(exc=e)
        return self._answer(subject, relation, resource, context)


class AsyncDefTableRel(TableRel):
    """the same checker written the usual way: `async def check` (inspect.iscoroutinefunction is true of it, unlike of a plain method
    that returns a coroutine object)"""

    async def check(self, subject, relation, resource, *, context=None):  # type: ignore[override]
        return self._answer(subject, relation, resource, context)


class FixedChecker:
    def __init__(self, spec, mode="sync"):
        self.spec = spec
        self.mode = mode

    def check(self, raw, context):
        if self.spec == "raise":
            raise RuntimeError("checker down")
        _, ok, ch = self.spec
        if self.mode == "async":
            async def _c():
                return ok, ch
            return _c()
        if self.mode == "awaitable":
            return _Awaitable((ok, ch))
        return ok, ch


class FixedResolver:
    def __init__(self, spec, mode="sync"):
        self.spec = spec
        self.mode = mode

    def expand(self, roles):
        if self.spec == "raise":
            raise RuntimeError("resolver down")
        val = copy.deepcopy(self.spec["ok"])
        if self.mode == "async":
            async def _c():
                return val
            return _c()
        if self.mode == "awaitable":
            return _Awaitable(val)
        return val


class AsyncDefChecker(FixedChecker):
    async def check(self, raw, context):  # type: ignore[override]
        if self.spec == "raise":
            raise RuntimeError("checker down")
        _, ok, ch = self.spec
        return ok, ch


class AsyncDefResolver(FixedResolver):
    async def expand(self, roles):  # type: ignore[override]
        if self.spec == "raise":
            raise RuntimeError("resolver down")
        return copy.deepcopy(self.spec["ok"])


_ASYNC_TOGGLE = [0]


def make_request(req: dict):
    subject = Subject(id=req["sid"], roles=req["roles"], attrs=req["sattrs"])
    action = Action(name=req["action"])
    resource = Resource(type=req["rtype"], id=req["rid"], attrs=req["rattrs"])
    context = Context(attrs=req["ctx"]) if "ctx" in req else None
    return subject, action, resource, context


def make_guard(policy: dict, cfg: dict, events: list, rel_calls: list | None = None, flavour: str = "sync", cache=None):
    kw: dict[str, Any] = {}
    amode = "async" if flavour.endswith("collab-async") else "awaitable" if flavour.endswith("collab-awaitable") else "sync"
    # asynchronous collaborators come in two spellings, alternating: a plain method that returns a coroutine object, and `async def`
    asyncdef = False
    if amode == "async":
        _ASYNC_TOGGLE[0] += 1
        asyncdef = _ASYNC_TOGGLE[0] % 2 == 1
    ck = cfg.get("checker")
    if ck not in (None, "builtin"):
        kw["obligation_checker"] = (AsyncDefChecker if asyncdef else FixedChecker)(ck, amode)
    rs = cfg.get("resolver")
    if rs is not None:
        # an object with `.expand` (e.g. the real StaticRoleResolver, props/c18.py) is used as is
        kw["role_resolver"] = rs if hasattr(rs, "expand") else (AsyncDefResolver if asyncdef else FixedResolver)(rs, amode)
    rel = cfg.get("rel")
    if rel is not None:
        kw["relationship_checker"] = (AsyncDefTableRel if asyncdef else TableRel)(
            rel["table"], rel.get("default"), rel_calls if rel_calls is not None else [], amode, rel.get("raise_with"))
    if cfg.get("metrics"):
        kw["metrics"] = (AsyncRecMetrics if amode != "sync" else RecMetrics)(events, cfg.get("sink_mode", "sync"))
    if cfg.get("logger"):
        kw["logger_sink"] = (AsyncRecLogger if amode != "sync" else RecLogger)(events, cfg.get("sink_mode", "sync"))
    if cache is not None:
        kw["cache"] = cache
    return Guard(policy, strict_types=bool(cfg.get("strict")), **kw)


def render_decision(d, events: list) -> dict:
    return {"allowed": d.allowed, "effect": d.effect, "obligations": enc(d.obligations), "challenge": enc(d.challenge),
            "rule_id": enc(d.rule_id), "policy_id": enc(d.policy_id), "reason": enc(d.reason), "events": events}


def call_guard(g: Guard, req: dict, flavour: str = "sync"):
    s, a, r, c = make_request(req)
    if flavour.startswith("sync-in-loop"):
        async def _outer():
            return g.evaluate_sync(s, a, r, c)
        return asyncio.run(_outer())
    if flavour.startswith("async"):
        return asyncio.run(g.evaluate_async(s, a, r, c))
    return g.evaluate_sync(s, a, r, c)


def run_guard(policy: dict, req: dict, cfg: dict, flavour: str = "sync", cache=None) -> dict:
    """One cold evaluation on a fresh Guard; result in driver shape."""
    events: list = []
    try:
        g = make_guard(policy, cfg, events, flavour=flavour, cache=cache)
        d = call_guard(g, req, flavour)
    except Exception as e:  # noqa: BLE001
        return {"raised": exc_class(e)}
    return {"ok": render_decision(d, events)}


def render_raw(raw: dict) -> dict:
    return {"decision": raw.get("decision"), "reason": raw.get("reason"), "rule_id": enc(raw.get("rule_id")),
            "last_rule_id": enc(raw.get("last_rule_id")), "policy_id": enc(raw.get("policy_id")),
            "obligations": enc(raw.get("obligations"))}


def guard_cmd(policy: dict, req: dict, cfg: dict, consts: dict, oracle: dict) -> dict:
    from proto import enc as _enc
    jr = {k: _enc(v) for k, v in req.items()}
    jc = dict(cfg)
    if isinstance(jc.get("checker"), (list, tuple)):
        jc["checker"] = ["custom", _enc(jc["checker"][1]), _enc(jc["checker"][2])]
    if isinstance(jc.get("resolver"), dict):
        jc["resolver"] = {"ok": _enc(jc["resolver"]["ok"])}
    return {"cmd": "guard", "policy": _enc(policy), "req": jr, "cfg": jc, "consts": consts, "oracle": oracle}
