"""Which Lean theorems carry which property (audited with #print axioms on every run)."""

THEOREMS: dict[str, list[str]] = {
    "C01": [
        "Rbacx.C01.c01_allowed_iff_permit", "Rbacx.C01.c01_allowed_iff_permit_guard", "Rbacx.C01.c01_permit_has_witness",
        "Rbacx.C01.c01_none_applicable_denies", "Rbacx.C01.c01_empty_policy",
    ],
    "C02": [
        "Rbacx.C02.c02_deny_overrides",
        "Rbacx.C02.c02_permit_overrides",
        "Rbacx.C02.c02_first_applicable",
        "Rbacx.C02.c02_none_applicable",
    ],
    "C04": [
        "Rbacx.C04.c04_order_numbers_only", "Rbacx.C04.c04_time_operands", "Rbacx.C04.c04_strict_time",
        "Rbacx.C04.c04_between_inclusive", "Rbacx.C04.c04_string_ops", "Rbacx.C04.c04_collection_ops",
        "Rbacx.C04.c04_membership_ops", "Rbacx.C04.c04_eq_kind_strict", "Rbacx.C04.c04_and_short_circuit",
        "Rbacx.C04.c04_or_short_circuit", "Rbacx.C04.c04_not", "Rbacx.C04.c04_not_mismatch",
        "Rbacx.C04.c04_resolve_missing_step", "Rbacx.C04.c04_resolve_null_absorbs", "Rbacx.C04.c04_mismatch_is_local",
        "Rbacx.C04.c04_mismatch_not_applicable",
    ],
    "C05": [
        "Rbacx.C05.c05_actions", "Rbacx.C05.c05_match_iff", "Rbacx.C05.c05_empty_target", "Rbacx.C05.c05_type_iff",
        "Rbacx.C05.c05_strict_type_no_coercion", "Rbacx.C05.c05_id_iff", "Rbacx.C05.c05_strict_id_no_coercion",
        "Rbacx.C05.c05_attr_iff", "Rbacx.C05.c05_attrs_iff", "Rbacx.C05.c05_missing_attr_fails", "Rbacx.C05.c05_engine_flag",
        "Rbacx.C05.c05_path_reference", "Rbacx.C05.c05_path_compiled",
    ],
    "C06": [
        "Rbacx.C06.c06_total", "Rbacx.C06.c06_operands_never_raise", "Rbacx.C06.c06_mismatch_skips_rule",
    ],
    "C07": [
        "Rbacx.C07.c07_ok_iff_all_met", "Rbacx.C07.c07_first_unmet_challenge", "Rbacx.C07.c07_positive_has_no_challenge",
        "Rbacx.C07.c07_guard_gate", "Rbacx.C07.c07_guard_pass", "Rbacx.C07.c07_custom_negative_honoured",
        "Rbacx.C07.c07_deny_stays_deny", "Rbacx.C07.c07_other_effect_ignored", "Rbacx.C07.c07_truthy_rows",
        "Rbacx.C07.c07_level_row", "Rbacx.C07.c07_level_illtyped", "Rbacx.C07.c07_reauth_row", "Rbacx.C07.c07_not_a_number",
        "Rbacx.C07.c07_http_row", "Rbacx.C07.c07_consent_keyed_row", "Rbacx.C07.c07_unknown_type_ignored",
    ],
    "C20": [
        "Rbacx.C20.c20_downstream_iff_allowed", "Rbacx.C20.c20_single_403", "Rbacx.C20.c20_body_is_generic",
        "Rbacx.C20.c20_headers_only_when_enabled", "Rbacx.C20.c20_errors_block_downstream", "Rbacx.C20.c20_passthrough",
        "Rbacx.C20.c20_guard_injected", "Rbacx.C20.c20_obligation_failed_is_403",
    ],
}

PROPERTY_IMPORTS = ["Rbacx.Properties.C02"]


def audit_source() -> str:
    lines = ["import Rbacx", "/-! GENERATED from harness/registry.py: axioms of every property theorem. -/"]
    for prop in sorted(THEOREMS):
        for t in THEOREMS[prop]:
            lines.append(f"#print axioms {t}")
    return "\n".join(lines) + "\n"
