"""Which Lean theorems carry which property (audited with #print axioms on every run)."""

THEOREMS: dict[str, list[str]] = {
    "C02": [
        "Rbacx.C02.c02_deny_overrides",
        "Rbacx.C02.c02_permit_overrides",
        "Rbacx.C02.c02_first_applicable",
        "Rbacx.C02.c02_none_applicable",
    ],
    "C12": [
        "Rbacx.C12.c12_sound",
        "Rbacx.C12.c12_never_true_unless_derivable",
        "Rbacx.C12.c12_complete",
        "Rbacx.C12.c12_exact",
        "Rbacx.C12.c12_never_clock_no_deadline",
        "Rbacx.C12.c12_limits_fail_closed",
        "Rbacx.C12.c12_limits_only_lose",
        "Rbacx.C12.c12_bad_caveats_inert",
        "Rbacx.C12.c12_caveat_needed",
        "Rbacx.C12.c12_caveat_on_context",
        "Rbacx.C12.c12_split_ref",
        "Rbacx.C12.c12_terminates",
        "Rbacx.C12.c12_batch_eq_map",
        "Rbacx.C12.c12_batch_each",
        "Rbacx.C12.c12_spec_decides",
        "Rbacx.C12.c12_model_meets_spec",
    ],
}

PROPERTY_IMPORTS = ["Rbacx.Properties.C02", "Rbacx.Properties.C12"]


def audit_source() -> str:
    lines = ["import Rbacx", "/-! GENERATED from harness/registry.py: axioms of every property theorem. -/"]
    for prop in sorted(THEOREMS):
        for t in THEOREMS[prop]:
            lines.append(f"#print axioms {t}")
    return "\n".join(lines) + "\n"
