"""Which Lean theorems carry which property (audited with #print axioms on every run)."""

THEOREMS: dict[str, list[str]] = {
    "C02": [
        "Rbacx.C02.c02_deny_overrides",
        "Rbacx.C02.c02_permit_overrides",
        "Rbacx.C02.c02_first_applicable",
        "Rbacx.C02.c02_none_applicable",
    ],
    "C19": [
        "Rbacx.C19.c19_redaction_total",
        "Rbacx.C19.c19_redaction_total_logger",
        "Rbacx.C19.c19_placeholder_at_path",
        "Rbacx.C19.c19_placeholder_noop_exact",
        "Rbacx.C19.c19_placeholder_stable",
        "Rbacx.C19.c19_placeholder_last_write",
        "Rbacx.C19.c19_no_leak",
        "Rbacx.C19.c19_no_leak_secret",
        "Rbacx.C19.c19_never_reintroduced",
        "Rbacx.C19.c19_no_leak_specs_at_state",
        "Rbacx.C19.c19_no_leak_specs",
        "Rbacx.C19.c19_placeholder_specs",
        "Rbacx.C19.c19_spec_redaction_sound",
        "Rbacx.C19.c19_spec_logger_sound",
        "Rbacx.C19.c19_caller_untouched",
        "Rbacx.C19.c19_priority",
        "Rbacx.C19.c19_priority_only",
        "Rbacx.C19.c19_sampling",
        "Rbacx.C19.c19_smart_defaults",
        "Rbacx.C19.c19_size_bound",
        "Rbacx.C19.c19_size_unbounded",
    ],
}

PROPERTY_IMPORTS = ["Rbacx.Properties.C02", "Rbacx.Properties.C19"]


def audit_source() -> str:
    lines = ["import Rbacx", "/-! GENERATED from harness/registry.py: axioms of every property theorem. -/"]
    for prop in sorted(THEOREMS):
        for t in THEOREMS[prop]:
            lines.append(f"#print axioms {t}")
    return "\n".join(lines) + "\n"
