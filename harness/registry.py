"""Which Lean theorems carry which property (audited with #print axioms on every run)."""

THEOREMS: dict[str, list[str]] = {
    "C02": [
        "Rbacx.C02.c02_deny_overrides",
        "Rbacx.C02.c02_permit_overrides",
        "Rbacx.C02.c02_first_applicable",
        "Rbacx.C02.c02_none_applicable",
    ],
    "C15": [
        "Rbacx.C15.c15_inv",
        "Rbacx.C15.c15_refines_map",
        "Rbacx.C15.c15_sound_cache",
        "Rbacx.C15.c15_get_latest",
        "Rbacx.C15.c15_no_deadline",
        "Rbacx.C15.c15_evict_only_lru",
        "Rbacx.C15.c15_victims_are_popped",
        "Rbacx.C15.c15_lru_exact_no_ttl",
        "Rbacx.C15.c15_trace_ok",
        "Rbacx.C15.c15_atomic_ops",
        "Rbacx.C15.c15_atomic_step_is_model_step",
    ],
}

PROPERTY_IMPORTS = ["Rbacx.Properties.C02", "Rbacx.Properties.C15"]


def audit_source() -> str:
    lines = ["import Rbacx", "/-! GENERATED from harness/registry.py: axioms of every property theorem. -/"]
    for prop in sorted(THEOREMS):
        for t in THEOREMS[prop]:
            lines.append(f"#print axioms {t}")
    return "\n".join(lines) + "\n"
