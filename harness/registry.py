"""Which Lean theorems carry which property (audited with #print axioms on every run).

One file per property under harness/claims/Cxx.json: {"property_id", "theorems": [...], "claim": {...}} —
kept per property so that independent work on different properties never touches a shared file."""
from __future__ import annotations

import glob
import json
import os

_DIR = os.path.join(os.path.dirname(os.path.abspath(__file__)), "claims")


def load_claims() -> dict[str, dict]:
    out = {}
    for p in sorted(glob.glob(os.path.join(_DIR, "C*.json"))):
        d = json.load(open(p, encoding="utf-8"))
        out[d["property_id"]] = d
    return out


THEOREMS: dict[str, list[str]] = {pid: d.get("theorems", []) for pid, d in load_claims().items()}


def audit_source() -> str:
    lines = ["import Rbacx", "/-! GENERATED from harness/claims/*.json: axioms of every property theorem. -/"]
    for prop in sorted(THEOREMS):
        for t in THEOREMS[prop]:
            lines.append(f"#print axioms {t}")
    return "\n".join(lines) + "\n"
