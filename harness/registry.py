"""Which Lean theorems carry which property (audited with #print axioms on every run)."""

THEOREMS: dict[str, list[str]] = {
    "C02": [
        "Rbacx.C02.c02_deny_overrides",
        "Rbacx.C02.c02_permit_overrides",
        "Rbacx.C02.c02_first_applicable",
        "Rbacx.C02.c02_none_applicable",
    ],
}

PROPERTY_IMPORTS = ["Rbacx.Properties.C02"]


def audit_source() -> str:
    lines = ["import Rbacx", "/-! GENERATED from harness/registry.py: axioms of every property theorem. -/"]
    for prop in sorted(THEOREMS):
        for t in THEOREMS[prop]:
            lines.append(f"#print axioms {t}")
    return "\n".join(lines) + "\n"
