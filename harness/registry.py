"""Which Lean theorems carry which property (audited with #print axioms on every run)."""

THEOREMS: dict[str, list[str]] = {
    "C02": [
        "Rbacx.C02.c02_deny_overrides",
        "Rbacx.C02.c02_permit_overrides",
        "Rbacx.C02.c02_first_applicable",
        "Rbacx.C02.c02_none_applicable",
    ],
    "C18": [
        "Rbacx.C18.c18_closure",
        "Rbacx.C18.c18_sorted_nodup",
        "Rbacx.C18.c18_empty",
        "Rbacx.C18.c18_terminates",
        "Rbacx.C18.c18_cycle",
        "Rbacx.C18.c18_model_meets_spec",
        "Rbacx.C18.c18_spec_verdict_sound",
        "Rbacx.C18.c18_engine_uses_expansion",
        "Rbacx.C18.c18_engine_fallback",
        "Rbacx.C18.c18_engine_transparent",
        "Rbacx.C18.c18_engine_static",
    ],
}

PROPERTY_IMPORTS = ["Rbacx.Properties.C02", "Rbacx.Properties.C18"]


def audit_source() -> str:
    lines = ["import Rbacx", "/-! GENERATED from harness/registry.py: axioms of every property theorem. -/"]
    for prop in sorted(THEOREMS):
        for t in THEOREMS[prop]:
            lines.append(f"#print axioms {t}")
    return "\n".join(lines) + "\n"
