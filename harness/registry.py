"""Which Lean theorems carry which property (audited with #print axioms on every run)."""

THEOREMS: dict[str, list[str]] = {
    "C02": [
        "Rbacx.C02.c02_deny_overrides",
        "Rbacx.C02.c02_permit_overrides",
        "Rbacx.C02.c02_first_applicable",
        "Rbacx.C02.c02_none_applicable",
    ],
    "C16": [
        "Rbacx.C16.c16_all_or_nothing",
        "Rbacx.C16.c16_failure_leaves_no_temp",
        "Rbacx.C16.c16_success_writes_new",
        "Rbacx.C16.c16_other_files_untouched",
        "Rbacx.C16.c16_outcome",
        "Rbacx.C16.c16_model_meets_atomic_spec",
        "Rbacx.C16.c16_load_is_disk",
        "Rbacx.C16.c16_etag_stable",
        "Rbacx.C16.c16_etag_truthful",
        "Rbacx.C16.c16_cache_invariant",
        "Rbacx.C16.c16_etag_changes",
        "Rbacx.C16.c16_etag_changes_history",
        "Rbacx.C16.c16_etag_same_content",
        "Rbacx.C16.c16_mtime_mode",
        "Rbacx.C16.c16_touch_changes_tag",
        "Rbacx.C16.c16_model_meets_etag_spec",
    ],
}

PROPERTY_IMPORTS = ["Rbacx.Properties.C02", "Rbacx.Properties.C16"]


def audit_source() -> str:
    lines = ["import Rbacx", "/-! GENERATED from harness/registry.py: axioms of every property theorem. -/"]
    for prop in sorted(THEOREMS):
        for t in THEOREMS[prop]:
            lines.append(f"#print axioms {t}")
    return "\n".join(lines) + "\n"
