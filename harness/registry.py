"""Which Lean theorems carry which property (audited with #print axioms on every run)."""

THEOREMS: dict[str, list[str]] = {
    "C02": [
        "Rbacx.C02.c02_deny_overrides",
        "Rbacx.C02.c02_permit_overrides",
        "Rbacx.C02.c02_first_applicable",
        "Rbacx.C02.c02_none_applicable",
    ],
    "C10": [
        "Rbacx.C10.c10_never_raises",
        "Rbacx.C10.c10_false_is_inert",
        "Rbacx.C10.c10_installed_by_true_check",
        "Rbacx.C10.c10_policy_is_loaded",
        "Rbacx.C10.c10_sequential_latest",
        "Rbacx.C10.c10_backoff_bounded_step",
        "Rbacx.C10.c10_spec_backoff",
        "Rbacx.C10.c10_backoff_bounded",
        "Rbacx.C10.c10_forced_still_loads",
        "Rbacx.C10.c10_unforced_suppressed",
        "Rbacx.C10.c10_conc_policy_is_loaded",
        "Rbacx.C10.c10_conc_never_raises",
        "Rbacx.C10.c10_conc_false_is_inert",
        "Rbacx.Reloader.blocks_eq_check",
        "Rbacx.C10.c10_converges",
        "Rbacx.C10.c10_converges_midcheck",
        "Rbacx.C10.c10_converges_http_partial",
        "Rbacx.C10.c10_http_cached_tag_counterexample",
        "Rbacx.C10.c10_http_remote_tag_converges",
        "Rbacx.Reloader.fileHonest",
        "Rbacx.Reloader.s3Honest",
        "Rbacx.Reloader.customHonest",
        "Rbacx.Reloader.httpPlainHonest",
        "Rbacx.Reloader.httpRemoteHonest",
        "Rbacx.Reloader.file_stable",
        "Rbacx.Reloader.s3_stable",
        "Rbacx.Reloader.http_plain_stable",
        "Rbacx.Reloader.file_write_ok",
        "Rbacx.Reloader.file_touch_ok",
        "Rbacx.Reloader.s3_write_ok",
        "Rbacx.Reloader.s3_other_ok",
    ],
}

PROPERTY_IMPORTS = ["Rbacx.Properties.C02", "Rbacx.Properties.C10"]


def audit_source() -> str:
    lines = ["import Rbacx", "/-! GENERATED from harness/registry.py: axioms of every property theorem. -/"]
    for prop in sorted(THEOREMS):
        for t in THEOREMS[prop]:
            lines.append(f"#print axioms {t}")
    return "\n".join(lines) + "\n"
