"""C10: the TRANSLATED source of `HotReloader.check_and_reload_async` / `_register_error` against the REAL methods (used by
harness/props/c10.py: `translated_vs_python`).  The translation (harness/pytolean_state.py, plugin extractors/src_translation_reloader.py)
is evaluated over exact rationals by `lake env lean --run Rbacx/Run/SrcEvalReloader.lean`; the real methods run on a real HotReloader whose
source / guard are scripted to behave as the outcome parameters say, with `rbacx.policy.loader.time` / `.random` replaced by readings."""
from __future__ import annotations

import itertools
import json
import random
import subprocess
from fractions import Fraction

import lib
import proto
import real  # noqa: F401  (sets sys.path to the repo under test)
from rbacx.policy import loader as rloader
from rbacx.policy.loader import HotReloader

OBLIGATION = ("C10_translated: Generated.Src.reloader_check / Src.reloader_register_error / Src.reloader_init (the current source text of "
              "HotReloader.check_and_reload_async / _register_error / the state-creating statements of __init__: fields as a record passed in "
              "and out, etag()/load()/set_policy outcomes, the clock reading and the PRNG draw as parameters) = the model's check / registerError "
              "/ init — result, new state, which of etag()/load()/set_policy were called in which order — for every state, configuration, clock "
              "reading, jitter draw and collaborator outcome; histories of translated checks = the model's run; the C10 clauses re-derived for "
              "the translated source")
DIFFERENTIAL = ("translated reloader methods evaluate like the real HotReloader.check_and_reload_async / _register_error / __init__ (translator "
                "+ Model/PyReloader.lean vs CPython)")


def exc_class(name: str):
    import builtins
    if name == "FileMissing":
        return _FileMissing
    c = getattr(builtins, name, None) or getattr(json, name, None)
    if not (isinstance(c, type) and issubclass(c, Exception)):
        raise lib.CheckError(f"translated_vs_python: no exception class {name}")
    return c


class _FileMissing(FileNotFoundError):
    """a subclass of a class named in an except clause"""


def exc_instance(name: str) -> Exception:
    c = exc_class(name)
    return c("scripted", "doc", 0) if c is json.JSONDecodeError else c("scripted")


class Scripted:
    """source and guard in one: every designated call logs itself and answers as its outcome says"""
    def __init__(self, outcomes: dict, log: list):
        self.o, self.log = outcomes, log

    def _answer(self, what: str, args: list):
        self.log.append([what, args])
        o = self.o[what]
        if o[0] == "raised":
            raise exc_instance(o[1])
        return o[1]

    def etag(self):
        return self._answer("self.source.etag", [])

    def load(self):
        return self._answer("self.source.load", [])

    def set_policy(self, policy):
        return self._answer("self.guard.set_policy", [policy])


class AsyncScripted(Scripted):
    async def etag(self):
        return self._answer("self.source.etag", [])

    async def load(self):
        return self._answer("self.source.load", [])


class NoEtag(Scripted):
    """a source without a usable `etag` attribute: reading it raises AttributeError, so getattr(source, "etag", None) is None"""
    etag = property()


class NoneEtag(Scripted):
    etag = None


SOURCES = {"sync": Scripted, "async": AsyncScripted, "missing": NoEtag, "none": NoneEtag}


class Reading:
    def __init__(self, value: float):
        self.value, self.reads = value, 0

    def time(self) -> float:
        self.reads += 1
        return self.value

    def uniform(self, a: float, b: float) -> float:
        assert (a, b) == (-1.0, 1.0)
        self.reads += 1
        return self.value


def q(x) -> list:
    f = Fraction(x)
    return [f.numerator, f.denominator]


def drive(coro):
    try:
        coro.send(None)
    except StopIteration as stop:
        return stop.value
    coro.close()
    raise lib.CheckError("check_and_reload_async suspended although no collaborator does")


RAISING = ["JSONDecodeError", "FileNotFoundError", "RuntimeError", "ValueError", "OSError", "KeyError", "FileMissing"]
ETAGS = [("ok", "t1"), ("ok", "t2"), ("ok", ""), ("ok", None), ("ok", 7), ("ok", ["t1"]), ("ok", True), ("ok", 1.5)] + [("raised", c) for c in RAISING]
LOADS = [("ok", {"marker": "p1", "rules": []}), ("ok", None)] + [("raised", c) for c in RAISING[:4] + RAISING[6:]]
SETS = [("ok", None), ("raised", "RuntimeError"), ("raised", "JSONDecodeError")]
CFGS = [(0.5, 2.0, 0.5), (0.125, 0.25, 0.5), (1.0, 0.5, 0.25), (0.25, 4.0, 0.0), (2.0, 30.0, 0.125)]
DRAWS = [1.0, -1.0, 0.5, 0.0, -0.5, 0.28125]
BACKOFFS = [0.0, 0.0625, 0.125, 0.25, 0.5, 1.0, 3.0, 16.0, 40.0]
NOW = 1000.0


def cases(seed: int) -> list[dict]:
    """every combination of force × clock before / at / after the window's end × etag() outcome × load() outcome (× set_policy outcome when
    load() returns), the numeric and prior-field dimensions drawn per case; `_register_error`: configurations × draws × back-offs × class.
    Every number is a dyadic rational: CPython's float arithmetic on them is exact (except where the literal 0.2 enters)."""
    r = random.Random(seed * 7919 + 10)
    out = []
    for force, rel, eo, lo in itertools.product([False, True], [-0.5, 0.0, 0.015625], ETAGS, LOADS):
        for so in (SETS if lo[0] == "ok" else SETS[:1]):
            cfg = r.choice(CFGS)
            st = {"last_etag": r.choice([None, "t1", "t1", "t0"]), "suppress_until": NOW + rel, "backoff": r.choice([cfg[0], cfg[1]] + BACKOFFS),
                  "last_reload_at": r.choice([None, 990.5]), "last_error": r.choice([None, "RuntimeError"])}
            out.append({"m": "check", "cfg": cfg, "now": NOW, "u": r.choice(DRAWS), "st": st, "force": force, "etag": eo, "load": lo,
                        "set_policy": so, "async": r.random() < 0.5})
    for cfg, u, b, cls in itertools.product(CFGS, DRAWS, BACKOFFS, ["JSONDecodeError", "RuntimeError"]):
        st = {"last_etag": r.choice([None, "t1"]), "suppress_until": r.choice([0.0, 999.0, 1003.5]), "backoff": b, "last_reload_at": r.choice([None, 990.5]),
              "last_error": r.choice([None, "ValueError"])}
        out.append({"m": "register_error", "cfg": cfg, "now": NOW + r.choice([0.0, 0.125, 7.5]), "u": u, "st": st, "err": cls,
                    "level": r.choice(["warning", "error"]), "msg": r.choice(["RBACX: x", "RBACX: policy not found: %s"])})
    # the state-creating statements of __init__: initial_load × kind of the source's etag attribute × outcome of the sync call
    for il, kind, eo, cfg in itertools.product([False, True], list(SOURCES), ETAGS, CFGS[:2]):
        st = {"last_etag": "junk", "suppress_until": 5.0, "backoff": 3.5, "last_reload_at": 1.0, "last_error": "RuntimeError"}
        out.append({"m": "init", "cfg": cfg, "now": NOW, "u": 0.0, "st": st, "initial_load": il, "source": kind, "etag": eo})
    return out


def translated_vs_python(run: lib.Run, tr: dict, sink: list) -> tuple[bool, str]:
    """Compared per case: the five fields afterwards, the collaborator calls in order (with the policy object handed to set_policy), the
    returned value or the raised class, and that the real method read the clock / the PRNG no more often than the translation has
    parameters for.  Validates the translator and Model/PyReloader.lean — what the obligation C10_translated trusts."""
    named = [c for c in tr["except_classes"] if c != "Exception"]
    n_read = {k: n for k, n in tr["methods"]["check_and_reload_async"]["counts"]}

    def seen_as(e: BaseException) -> str:
        """the name under which the method's except clauses see an exception"""
        for c in named:
            if isinstance(e, exc_class(c)):
                return c
        return type(e).__name__
    cs = cases(run.seed)
    lines = []
    for c in cs:
        j = {"m": c["m"], "cfg": [q(x) for x in c["cfg"]], "now": q(c["now"]), "u": q(c["u"]),
             "st": {"last_etag": proto.enc(c["st"]["last_etag"]), "suppress_until": q(c["st"]["suppress_until"]), "backoff": q(c["st"]["backoff"]),
                    "last_reload_at": None if c["st"]["last_reload_at"] is None else q(c["st"]["last_reload_at"]), "last_error": c["st"]["last_error"]}}
        if c["m"] == "init":
            import inspect
            attr = getattr(SOURCES[c["source"]]({}, []), "etag", None)
            # the probe's value is an input of the translation: what the source's expression evaluates to for this source
            j.update({"initial_load": c["initial_load"], "sync_etag": attr is not None and not inspect.iscoroutinefunction(attr),
                      "etag": {"ok": proto.enc(c["etag"][1])} if c["etag"][0] == "ok" else {"raised": seen_as(exc_instance(c["etag"][1]))}})
        elif c["m"] == "check":
            j["force"] = c["force"]
            for k in ("etag", "load", "set_policy"):
                j[k] = {"ok": proto.enc(c[k][1])} if c[k][0] == "ok" else {"raised": seen_as(exc_instance(c[k][1]))}
        else:
            j.update({"err": seen_as(exc_instance(c["err"])), "level": c["level"], "msg": c["msg"]})
        lines.append(json.dumps(j))
    p = subprocess.run(["lake", "env", "lean", "--run", "Rbacx/Run/SrcEvalReloader.lean"], cwd=lib.LEAN, input="\n".join(lines) + "\n",
                       capture_output=True, text=True, timeout=1800)
    outs = [ln for ln in p.stdout.split("\n") if ln]
    if p.returncode != 0 or len(outs) != len(lines):
        return False, "SrcEvalReloader: " + (p.stderr or p.stdout)[-800:]

    def observe(c: dict) -> dict:
        log: list = []
        outcomes = {"self.source.etag": c.get("etag"), "self.source.load": c.get("load"), "self.guard.set_policy": c.get("set_policy")}
        if c["m"] == "init":
            src = SOURCES[c["source"]](outcomes, log)
            try:
                rl = HotReloader(Scripted(outcomes, log), src, initial_load=c["initial_load"], backoff_min=c["cfg"][0], backoff_max=c["cfg"][1],
                                 jitter_ratio=c["cfg"][2])
                out = ["ret", None]
            except Exception as e:  # noqa: BLE001
                return {"st": {}, "calls": log, "out": ["raised", seen_as(e)], "reads": {"now": 0, "u": 0}}
            return {"st": {"last_etag": rl._last_etag, "suppress_until": rl._suppress_until, "backoff": rl._backoff, "last_reload_at": rl._last_reload_at,
                           "last_error": None if rl._last_error is None else seen_as(rl._last_error)},
                    "calls": log, "out": out, "reads": {"now": 0, "u": 0}}
        collab = (AsyncScripted if c.get("async") else Scripted)(outcomes, log)
        rl = HotReloader(collab, collab, initial_load=True, backoff_min=c["cfg"][0], backoff_max=c["cfg"][1], jitter_ratio=c["cfg"][2])
        del log[:]          # whatever the constructor did to the source is not part of the call under test
        rl._last_etag, rl._suppress_until, rl._backoff = c["st"]["last_etag"], c["st"]["suppress_until"], c["st"]["backoff"]
        rl._last_reload_at = c["st"]["last_reload_at"]
        rl._last_error = None if c["st"]["last_error"] is None else exc_instance(c["st"]["last_error"])
        clock, prng = Reading(c["now"]), Reading(c["u"])
        saved = rloader.time, rloader.random
        rloader.time, rloader.random = clock, prng
        try:
            try:
                if c["m"] == "check":
                    out = ["ret", drive(rl.check_and_reload_async(force=c["force"]))]
                else:
                    out = ["ret", rl._register_error(c["now"], exc_instance(c["err"]), level=c["level"], msg=c["msg"])]
            except Exception as e:  # noqa: BLE001
                out = ["raised", seen_as(e)]
        finally:
            rloader.time, rloader.random = saved
        return {"st": {"last_etag": rl._last_etag, "suppress_until": rl._suppress_until, "backoff": rl._backoff, "last_reload_at": rl._last_reload_at,
                       "last_error": None if rl._last_error is None else seen_as(rl._last_error)},
                "calls": log, "out": out, "reads": {"now": clock.reads, "u": prng.reads}}

    def same_num(a, b) -> bool:
        if a is None or b is None:
            return a is None and b is None
        return isinstance(a, float) and abs(Fraction(a) - Fraction(b[0], b[1])) <= Fraction(1, 2 ** 30)

    def exactly(a, b) -> bool:
        return (a is None and b is None) or (a is not None and b is not None and Fraction(a) == Fraction(b[0], b[1]))
    nums = ("suppress_until", "backoff", "last_reload_at")
    bad = exact = 0
    for c, ln in zip(cs, outs):
        got = json.loads(ln)
        want = observe(c)
        run.count("translated-reloader")
        ok = "error" not in got
        if ok:
            gs, ws = got["st"], want["st"]
            le = proto.dec(gs["last_etag"])
            ok = bool(ws) and (le == ws["last_etag"] and type(le) is type(ws["last_etag"]) and gs["last_error"] == ws["last_error"]
                  and all(same_num(ws[k], gs[k]) for k in nums)
                  and [[n, [proto.dec(a) for a in args]] for n, args in got["calls"]] == want["calls"]
                  and [got["out"][0], proto.dec(got["out"][1]) if got["out"][0] == "ret" else got["out"][1]] == want["out"]
                  and (c["m"] != "check" or all(want["reads"][k] <= n_read.get(k, 0) for k in want["reads"])))
        if ok:
            exact += all(exactly(ws[k], gs[k]) for k in nums)
            if c["m"] == "init":
                run.count(f"translated-reloader: __init__ initial_load={c['initial_load']} etag attribute {c['source']}: {len(want['calls'])} call(s)")
            if c["m"] == "check":
                run.count("translated-reloader: " + ("forced " if c["force"] else "") + "+".join(n.split(".")[-1] for n, _ in want["calls"])
                          + " -> " + str(want["out"][1]))
        else:
            bad += 1
            if bad == 1:
                sink.append({"part": "translated source vs python", "call": c,
                                          "impl": {"python": json.loads(json.dumps(want, default=repr))}, "model": got,
                                          "what": "the translated HotReloader method (Generated.Src.reloader_*) and the real method differ in fields, "
                                                  "collaborator calls or result"})
    run.evaluations += len(cs)
    return bad == 0, (f"{bad} of {len(cs)} evaluations differ" if bad else
                      f"agree on {len(cs)} evaluations ({exact} with every number exactly equal, the others within 2^-30: the literal 0.2 is not a dyadic rational)")
