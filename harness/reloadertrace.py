"""Tracing of the blocking skeleton of the real HotReloader: lock acquire/release (re-entrant), helper-thread submit +
result (spawn + wait), polling-thread start / join — per logical thread (0 = caller, 1 = helper, 2 = poller)."""
from __future__ import annotations

import asyncio
import threading
import types

REAL_THREADING = threading


class Tracer:
    def __init__(self):
        self.ops: dict[int, list] = {0: [], 1: [], 2: []}
        self.role: dict[int, int] = {}           # thread ident -> logical id
        self.mu = REAL_THREADING.Lock()

    def me(self) -> int:
        return self.role.get(REAL_THREADING.get_ident(), 0)

    def log(self, op) -> None:
        with self.mu:
            self.ops[self.me()].append(op)


def install(loader_mod, tracer: Tracer, max_poller_ops: int = 40):
    """patch the loader module's `threading` and `ThreadPoolExecutor` names; returns an undo function"""
    saved = (loader_mod.threading, loader_mod.ThreadPoolExecutor)

    class RLockProxy:
        REAL = staticmethod(REAL_THREADING.RLock)

        def __init__(self):
            self._l = self.REAL()

        def __enter__(self):
            tracer.log("acq")
            self._l.acquire()
            return self

        def __exit__(self, *a):
            tracer.log("rel")
            self._l.release()
            return False

        def acquire(self, *a, **k):
            tracer.log("acq")
            return self._l.acquire(*a, **k)

        def release(self):
            tracer.log("rel")
            self._l.release()

    class ThreadProxy(REAL_THREADING.Thread):
        def start(self):
            tracer.log(["spawn", 2])
            return super().start()

        def run(self):
            tracer.role[REAL_THREADING.get_ident()] = 2
            return super().run()

        def join(self, timeout=None):
            tracer.log(["wait", 2])
            return super().join(timeout)

    class FutureProxy:
        def __init__(self, fut):
            self._f = fut

        def result(self, timeout=None):
            tracer.log(["wait", 1])
            return self._f.result(timeout)

    class ExecutorProxy:
        def __init__(self, *a, **k):
            self._ex = saved[1](*a, **k)

        def __enter__(self):
            self._ex.__enter__()
            return self

        def __exit__(self, *a):
            return self._ex.__exit__(*a)

        def submit(self, fn, *a, **k):
            tracer.log(["spawn", 1])

            def wrapped():
                tracer.role[REAL_THREADING.get_ident()] = 1
                return fn(*a, **k)
            return FutureProxy(self._ex.submit(wrapped))

    class LockProxy(RLockProxy):
        """a reloader whose lock is a plain `threading.Lock` is traced just the same (the tracer's own mutex is REAL_THREADING.Lock)"""
        REAL = staticmethod(REAL_THREADING.Lock)

    th = types.SimpleNamespace(RLock=RLockProxy, Lock=LockProxy, Event=REAL_THREADING.Event, Thread=ThreadProxy,
                               get_ident=REAL_THREADING.get_ident, current_thread=REAL_THREADING.current_thread)
    loader_mod.threading = th
    loader_mod.ThreadPoolExecutor = ExecutorProxy

    def undo():
        loader_mod.threading, loader_mod.ThreadPoolExecutor = saved
    return undo


CURRENT: dict = {"tracer": None}


def _ext() -> None:
    tr = CURRENT["tracer"]
    if tr is not None:
        tr.log("ext")


class Src:
    """the policy source of the traced scenarios: every call into it is an `ext` operation of the calling thread"""

    def __init__(self):
        self.n = 0

    def etag(self):
        _ext()
        return None

    def load(self):
        _ext()
        self.n += 1
        return {"rules": []}


SCENARIOS = ["check_plain", "check_in_loop", "start_stop_plain", "start_initial_in_loop_stop_none", "start_initial_plain_stop_none"]


def scenarios(repo_guard_cls, loader_mod, only: str | None = None) -> dict:
    """run the entry points in every calling context once; returns {scenario: {"roots": [...], "progs": {tid: ops}}}"""
    out = {}

    def trace(name, fn):
        if only is not None and name != only:
            return
        tr = Tracer()
        tr.role[REAL_THREADING.get_ident()] = 0
        undo = install(loader_mod, tr)
        CURRENT["tracer"] = tr
        try:
            fn(loader_mod)
        finally:
            CURRENT["tracer"] = None
            undo()
        progs = {t: ops[:60] for t, ops in tr.ops.items()}
        out[name] = {"roots": [0], "progs": progs}

    def mk(mod, **kw):
        return mod.HotReloader(repo_guard_cls({"rules": []}), Src(), poll_interval=0.05, **kw)

    def in_loop(f):
        async def main():
            return f()
        return asyncio.run(main())

    trace("check_plain", lambda m: mk(m).check_and_reload(force=True))
    trace("check_in_loop", lambda m: in_loop(lambda: mk(m).check_and_reload(force=True)))

    def start_stop(m, loop: bool, initial: bool, timeout):
        def go():
            r = mk(m, initial_load=initial)
            r.start()
            REAL_THREADING.Event().wait(0.12)
            r.stop(timeout=timeout)
        return in_loop(go) if loop else go()
    trace("start_stop_plain", lambda m: start_stop(m, False, False, 1.0))
    trace("start_initial_in_loop_stop_none", lambda m: start_stop(m, True, True, None))
    trace("start_initial_plain_stop_none", lambda m: start_stop(m, False, True, None))
    return out


if __name__ == "__main__":
    # child process: trace ONE scenario (the parent applies a timeout — a scenario may deadlock on a broken tree)
    import importlib
    import json
    import os
    import sys
    repo = os.environ.get("RBACX_REPO", "/repo")
    sys.path.insert(0, os.path.join(repo, "src"))
    import logging
    logging.disable(logging.CRITICAL)
    loader = importlib.import_module("rbacx.policy.loader")
    from rbacx.core.engine import Guard
    print(json.dumps(scenarios(Guard, loader, only=sys.argv[1])))
