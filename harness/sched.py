"""Deterministic scheduler for real threads: every shared access of the traced Guard parks its thread; a schedule
(list of logical thread ids) decides who performs its next access.  One schedule element = one access step, exactly as
in the Lean model (`Rbacx.Conc.step`; a thread blocked on the lock consumes its step as a no-op)."""
from __future__ import annotations

import contextvars
import threading
import time

import lib

# logical thread id of the controlled thread on whose behalf code runs: a ContextVar, so that work the engine hands to a helper
# thread (asyncio.to_thread copies the context) is attributed to — and scheduled as part of — the logical thread that asked for it
TID: contextvars.ContextVar = contextvars.ContextVar("verif_sched_tid", default=None)

TIMEOUT = 10.0


class Controlled:
    def __init__(self):
        self.cv = threading.Condition()
        self.state: dict[int, str] = {}       # logical id -> "running" | "parked" | "done"
        self.label: dict[int, str] = {}
        self.go: dict[int, bool] = {}
        self.ident: dict[int, int] = {}       # thread ident -> logical id
        self.errors: list = []

    # ---- called from worker threads
    def hook(self, label: str) -> None:
        tid = TID.get()
        if tid is None:
            return                               # not on behalf of a controlled thread
        with self.cv:
            self.state[tid] = "parked"
            self.label[tid] = label
            self.cv.notify_all()
            if not self.cv.wait_for(lambda: self.go.get(tid), timeout=TIMEOUT):
                raise lib.CheckError(f"scheduler: thread {tid} was never released at {label}")
            self.go[tid] = False
            self.state[tid] = "running"

    def spawn(self, tid: int, fn) -> threading.Thread:
        def body():
            self.ident[threading.get_ident()] = tid
            TID.set(tid)
            try:
                fn()
            except BaseException as e:  # noqa: BLE001
                self.errors.append((tid, repr(e)))
            finally:
                with self.cv:
                    self.state[tid] = "done"
                    self.cv.notify_all()
        self.state[tid] = "running"
        th = threading.Thread(target=body, daemon=True)
        th.start()
        return th

    # ---- called from the controller
    def settle(self, tid: int) -> str:
        with self.cv:
            if not self.cv.wait_for(lambda: self.state.get(tid) in ("parked", "done"), timeout=TIMEOUT):
                raise lib.CheckError(f"scheduler: thread {tid} neither parked nor finished (hang?)")
            return self.state[tid]

    def step(self, tid: int) -> str:
        """let thread `tid` perform the access it is parked at; returns its state afterwards"""
        if self.settle(tid) == "done":
            return "done"
        with self.cv:
            self.go[tid] = True
            self.state[tid] = "running"
            self.cv.notify_all()
        return self.settle(tid)

    def finish_all(self, tids) -> None:
        """run every thread to completion (round-robin) — used to drain after the schedule"""
        deadline = time.time() + TIMEOUT
        pending = set(tids)
        while pending:
            if time.time() > deadline:
                raise lib.CheckError("scheduler: drain did not finish")
            for tid in list(pending):
                if self.step(tid) == "done":
                    pending.discard(tid)
