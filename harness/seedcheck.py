"""Re-run registered checks against a stored seeded regression.

usage: seedcheck.py <seed-id> <check id> [<check id> …] [--tier quick|thorough]
Applies /verif/seeded/<seed-id>/patch.diff to /repo, runs the checks, undoes the patch (git checkout -- .) and
merges the results into seeded/<seed-id>/meta.json (`checks`, `detected_by`)."""
from __future__ import annotations

import json
import os
import subprocess
import sys
import time

VERIF = os.path.dirname(os.path.dirname(os.path.abspath(__file__)))


def sh(cmd, cwd=None, timeout=3600):
    p = subprocess.run(cmd, cwd=cwd, capture_output=True, text=True, timeout=timeout)
    return p.returncode, p.stdout + p.stderr


def main() -> int:
    args = [a for a in sys.argv[1:] if not a.startswith("--")]
    tier = "thorough" if "--tier=thorough" in sys.argv or "--thorough" in sys.argv else "quick"
    sid, checks = args[0], args[1:]
    d = os.path.join(VERIF, "seeded", sid)
    meta_p = os.path.join(d, "meta.json")
    meta = json.load(open(meta_p))
    rc, out = sh(["git", "-C", "/repo", "status", "--porcelain", "--untracked-files=no"])
    if out.strip():
        print("refusing: /repo has uncommitted changes", out)
        return 2
    rc, out = sh(["git", "-C", "/repo", "apply", os.path.join(d, "patch.diff")])
    if rc != 0:
        print("patch does not apply:", out[-300:])
        return 2
    results = dict(meta.get("checks") or {})
    try:
        for cid in checks:
            t0 = time.time()
            rc_c, out_c = sh(["./check", cid, "--tier", tier], cwd=VERIF)
            lines = [ln for ln in out_c.splitlines() if ln.startswith(("VIOLATION", "KNOWN-FINDING", "["))]
            results[cid] = {"exit": rc_c, "lines": lines[-4:], "wall_s": round(time.time() - t0, 1), "tier": tier}
            print(sid, cid, rc_c, lines[-2:])
    finally:
        sh(["git", "-C", "/repo", "checkout", "--", "."])
    meta["checks"] = results
    meta["detected_by"] = sorted(c for c, r in results.items() if isinstance(r, dict) and r.get("exit") == 1)
    json.dump(meta, open(meta_p, "w"), indent=1)
    return 0


if __name__ == "__main__":
    sys.exit(main())
