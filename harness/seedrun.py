"""Confirm a seeded regression and run the registered check(s) against it.

usage: seedrun.py <worktree> <property> <k> [extra check ids …]
  <worktree>/out/<k>/{patch.diff,demo.py,meta.json} produced by an independent sub-agent.
Steps: (1) in the scratch worktree: suite passes with the patch, demo fails with it and passes without;
(2) copy to /verif/seeded/<property>-<k>/; (3) apply to /repo, run ./check <property> (+ extras) quick, undo."""
from __future__ import annotations

import json
import os
import shutil
import subprocess
import sys
import time

VERIF = os.path.dirname(os.path.dirname(os.path.abspath(__file__)))


def sh(cmd, cwd=None, env=None, timeout=1800):
    p = subprocess.run(cmd, cwd=cwd, env=env, capture_output=True, text=True, timeout=timeout, shell=isinstance(cmd, str))
    return p.returncode, (p.stdout + p.stderr)


def main():
    wt, pid, k = sys.argv[1], sys.argv[2], sys.argv[3]
    extras = sys.argv[4:]
    src = os.path.join(wt, "out", k)
    env = dict(os.environ, PYTHONPATH=os.path.join(wt, "src"), PYTHONDONTWRITEBYTECODE="1")
    rec = {"property": pid, "seed": f"{pid}-{k}"}
    meta = json.load(open(os.path.join(src, "meta.json")))
    rec.update({"summary": meta.get("summary"), "needs": meta.get("needs"), "why_tests_pass": meta.get("why_tests_pass")})
    sh(["git", "-C", wt, "checkout", "--", "."])
    rc, out = sh(["git", "-C", wt, "apply", os.path.join(src, "patch.diff")])
    if rc != 0:
        rec["confirmed"] = False
        rec["why"] = "patch does not apply: " + out[-300:]
        print(json.dumps(rec, indent=1))
        return 1
    rc_s, out_s = sh(["/venv/bin/python", "-m", "pytest", "-q", "-p", "no:cacheprovider", "-x"], cwd=wt, env=env)
    rc_d1, out_d1 = sh(["/venv/bin/python", os.path.join(src, "demo.py")], cwd=src, env=env, timeout=300)
    sh(["git", "-C", wt, "checkout", "--", "."])
    rc_d0, out_d0 = sh(["/venv/bin/python", os.path.join(src, "demo.py")], cwd=src, env=env, timeout=300)
    rec["suite_with_patch"] = out_s.strip().splitlines()[-1] if out_s.strip() else ""
    rec["demo_with_patch_exit"] = rc_d1
    rec["demo_without_patch_exit"] = rc_d0
    rec["confirmed"] = rc_s == 0 and rc_d1 != 0 and rc_d0 == 0
    dst = os.path.join(VERIF, "seeded", f"{pid}-{k}")
    if rec["confirmed"]:
        os.makedirs(dst, exist_ok=True)
        for f in ("patch.diff", "demo.py"):
            shutil.copy(os.path.join(src, f), os.path.join(dst, f))
        # run the checks against it
        rc, out = sh(["git", "-C", "/repo", "apply", os.path.join(dst, "patch.diff")])
        results = {}
        try:
            if rc != 0:
                results["apply_error"] = out[-300:]
            else:
                for cid in [pid] + extras:
                    t0 = time.time()
                    rc_c, out_c = sh(["./check", cid, "--tier", "quick"], cwd=VERIF, timeout=3000)
                    lines = [ln for ln in out_c.splitlines() if ln.startswith(("VIOLATION", "KNOWN-FINDING", "["))]
                    results[cid] = {"exit": rc_c, "lines": lines[-4:], "wall_s": round(time.time() - t0, 1)}
        finally:
            sh(["git", "-C", "/repo", "checkout", "--", "."])
        rec["checks"] = results
        rec["detected_by"] = [c for c, r in results.items() if isinstance(r, dict) and r.get("exit") == 1]
        rec["ran"] = (f"PYTHONPATH=<wt>/src pytest -q -x (with patch); demo.py with and without patch; git -C /repo apply patch.diff; "
                      f"./check {' / '.join([pid] + extras)} --tier quick; git -C /repo checkout -- .")
        json.dump(rec, open(os.path.join(dst, "meta.json"), "w"), indent=1)
    print(json.dumps(rec, indent=1))
    return 0


if __name__ == "__main__":
    sys.exit(main())
