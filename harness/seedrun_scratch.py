"""Like seedrun.py, but the checks run against the SCRATCH worktree (RBACX_REPO=<worktree> with the patch applied there, a private copy of
the Lake project in VERIF_LEAN_DIR) instead of /repo — several seeds can then be processed at the same time (one property each).
A development aid for finding out quickly what a check misses; the recorded `ran` line says so.

usage: seedrun_scratch.py <worktree> <property> <k> [extra check ids …]"""
from __future__ import annotations

import json
import os
import shutil
import subprocess
import sys
import time

VERIF = os.path.dirname(os.path.dirname(os.path.abspath(__file__)))


def sh(cmd, cwd=None, env=None, timeout=3000):
    p = subprocess.run(cmd, cwd=cwd, env=env, capture_output=True, text=True, timeout=timeout)
    return p.returncode, (p.stdout + p.stderr)


def main():
    wt, pid, k = sys.argv[1], sys.argv[2], sys.argv[3]
    extras = sys.argv[4:]
    src = os.path.join(wt, "out", k)
    env = dict(os.environ, PYTHONPATH=os.path.join(wt, "src"), PYTHONDONTWRITEBYTECODE="1")
    rec = {"property": pid, "seed": f"{pid}-{k}"}
    meta = json.load(open(os.path.join(src, "meta.json")))
    rec.update({"summary": meta.get("summary"), "needs": meta.get("needs"), "why_tests_pass": meta.get("why_tests_pass")})
    sh(["git", "-C", wt, "checkout", "--", "."])
    rc_d0, _ = sh(["/venv/bin/python", os.path.join(src, "demo.py")], cwd=src, env=env, timeout=300)
    rc, out = sh(["git", "-C", wt, "apply", os.path.join(src, "patch.diff")])
    if rc != 0:
        print(json.dumps({**rec, "confirmed": False, "why": out[-300:]}))
        return 1
    rc_s, out_s = sh(["/venv/bin/python", "-m", "pytest", "-q", "-p", "no:cacheprovider", "-x"], cwd=wt, env=env)
    rc_d1, _ = sh(["/venv/bin/python", os.path.join(src, "demo.py")], cwd=src, env=env, timeout=300)
    rec["suite_with_patch"] = out_s.strip().splitlines()[-1] if out_s.strip() else ""
    rec["demo_with_patch_exit"], rec["demo_without_patch_exit"] = rc_d1, rc_d0
    rec["confirmed"] = rc_s == 0 and rc_d1 != 0 and rc_d0 == 0
    dst = os.path.join(VERIF, "seeded", f"{pid}-{k}")
    results = {}
    if rec["confirmed"]:
        os.makedirs(dst, exist_ok=True)
        for f in ("patch.diff", "demo.py"):
            shutil.copy(os.path.join(src, f), os.path.join(dst, f))
        lean = f"/tmp/lean_{pid}"
        if not os.path.isdir(lean):
            shutil.copytree(os.path.join(VERIF, "lean"), lean, symlinks=True)
        cenv = dict(os.environ, RBACX_REPO=wt, VERIF_LEAN_DIR=lean)
        for cid in [pid] + extras:
            t0 = time.time()
            rc_c, out_c = sh(["./check", cid, "--tier", "quick"], cwd=VERIF, env=cenv)
            lines = [ln for ln in out_c.splitlines() if ln.startswith(("VIOLATION", "KNOWN-FINDING", "["))]
            results[cid] = {"exit": rc_c, "lines": lines[-4:], "wall_s": round(time.time() - t0, 1)}
        shutil.rmtree(lean, ignore_errors=True)
        rec["checks"] = results
        rec["detected_by"] = [c for c, r in results.items() if r.get("exit") == 1]
        rec["ran"] = ("PYTHONPATH=<wt>/src pytest -q -x (with patch); demo.py with and without patch; patch applied in the scratch worktree, "
                      f"RBACX_REPO=<wt> VERIF_LEAN_DIR=<private copy> ./check {' / '.join([pid] + extras)} --tier quick")
        json.dump(rec, open(os.path.join(dst, "meta.json"), "w"), indent=1)
    sh(["git", "-C", wt, "checkout", "--", "."])
    print(json.dumps(rec, indent=1))
    return 0


if __name__ == "__main__":
    sys.exit(main())
