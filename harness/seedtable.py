"""Print the markdown table of seeded regressions (seeded/*/meta.json) for DESIGN.md §13."""
import glob
import json
import os

VERIF = os.path.dirname(os.path.dirname(os.path.abspath(__file__)))
rows = []
for p in sorted(glob.glob(os.path.join(VERIF, "seeded", "*", "meta.json"))):
    m = json.load(open(p))
    checks = m.get("checks") or {}
    ran = ", ".join(f"{c}:{'FAIL' if (r.get('exit') == 1) else 'ok' if r.get('exit') == 0 else 'infra'}" for c, r in checks.items() if isinstance(r, dict))
    s = (m.get("summary") or "").replace("|", "/").replace("\n", " ")
    rows.append(f"| {m['seed']} | {s[:230]}{'…' if len(s) > 230 else ''} | {ran} | {', '.join(m.get('detected_by') or []) or '—'} |")
print("| seed | change | checks run (quick) | reported by |\n|---|---|---|---|")
print("\n".join(rows))
