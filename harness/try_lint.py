"""development aid: the linter comparison of props/c17.py on its own (model via the driver, translation via SrcEvalLint)"""
import collections
import json
import os
import subprocess
import sys
import time
import types
sys.path.insert(0, os.path.dirname(os.path.abspath(__file__)))
import lib  # noqa: E402
import proto  # noqa: E402
import real  # noqa: E402,F401
from props import c17  # noqa: E402
from rbacx.dsl import lint as rlint  # noqa: E402
import copy  # noqa: E402

run = types.SimpleNamespace(seed=int(os.environ.get("VERIF_SEED", "0")), tier="quick", boost=1)
cases = c17.lint_cases(run)
t0 = time.time()
reals = []
for fn, doc in cases:
    try:
        reals.append(("ok", [i for i in getattr(rlint, fn)(copy.deepcopy(doc)) if i.get("code") in c17.LINT_ALGO_CODES]))
    except Exception as e:  # noqa: BLE001
        reals.append(("raised", type(e).__name__))
cmds = [{"fn": fn, "args": [proto.enc(doc), None], "oracle": proto.build_oracle(*c17._lint_oracle_roots(doc))} for fn, doc in cases]
t1 = time.time()
mouts = proto.run_driver([{"cmd": "lint-model", **c} for c in cmds])
t2 = time.time()
p = subprocess.run(["lake", "env", "lean", "--run", "Rbacx/Run/SrcEvalLint.lean"], cwd=lib.LEAN, input="\n".join(json.dumps(c) for c in cmds) + "\n",
                   capture_output=True, text=True)
t3 = time.time()
outs = [ln for ln in p.stdout.split("\n") if ln]
print("cases", len(cases), "real %.1fs model %.1fs translation %.1fs" % (t1 - t0, t2 - t1, t3 - t2), "rc", p.returncode, p.stderr[-500:])
hist = collections.Counter()
shown = 0
for (fn, doc), (st, want), m, ln in zip(cases, reals, mouts, outs):
    if st != "ok":
        hist["raised:" + want] += 1
        continue
    hist[fn + ":" + ("+".join(sorted({i["code"] for i in want})) or "none")] += 1
    w = proto.enc(want)
    v = json.loads(ln).get("value")
    if m != w or v != w:
        hist["BAD model" if m != w else "BAD translation"] += 1
        if shown < 3:
            shown += 1
            print("DIFF", fn, json.dumps(doc)[:600], "\n  python", want, "\n  model ", proto.dec(m) if isinstance(m, list) else m, "\n  transl", json.loads(ln))
print(dict(hist))
