import os
import sys
sys.path.insert(0, os.path.dirname(os.path.abspath(__file__)))
import pytolean
src = open(os.path.join(os.environ.get("RBACX_REPO", "/repo"), "src/rbacx/dsl/lint.py")).read()
for names in (["_resource_covers"], ["_actions"], ["_first_applicable_unreachable"]):
    try:
        for k, v in pytolean.translate(src, names, joins=True, oracle=True).items():
            print(v)
    except Exception as e:  # noqa: BLE001
        print(names, "FAILED:", type(e).__name__, e)
