import Driver.Codec
import Rbacx.Model.CanonJson
/- Driver.CmdC08Key — `canon-json`: the model of `Guard._normalize_env_for_cache` (Model/CanonJson.lean);
   answers the canonical text, or null outside the model's domain (floats, datetimes). -/
open Lean Codec Rbacx

def handleC08Key (cmd : String) (j : Json) : Option (Except String Json) :=
  match cmd with
  | "canon-json" => some do
    let v ← fieldVal j "value"
    pure (Json.mkObj [("text", match canonJson v with | some cs => .str (String.ofList cs) | none => .null),
                      ("float_free", .bool (floatFree v)), ("no_dup_keys", .bool (noDupKeys v))])
  | _ => none
