import Driver.Codec
import Rbacx.Model.Conc
/- Driver.CmdC09 — `sched-run`: the interleaving model under a schedule of access steps. -/
open Lean Codec Rbacx.Conc

def natOf (j : Json) : Nat := match j with | .num n => n.mantissa.toNat | _ => 0

def decCall (j : Json) : Option Call :=
  match j with
  | .arr #[.str "eval", k] => some (.eval (natOf k))
  | .arr #[.str "set", p] => some (.setPolicy (natOf p))
  | _ => none

/-- one *access* step of the harness: a thread between calls first picks up its next call (model idle step) -/
def accessStep (w : World) (s : State) (t : Nat) : State :=
  let s1 := if (s.threads t).pc == .idle then step w s t else s
  if (s1.threads t).pc == .idle then s1 else step w s1 t

def handleC09 (cmd : String) (j : Json) : Option (Except String Json) :=
  match cmd with
  | "sched-run" =>
    let progs := (fieldArr j "progs").map fun p => match p with | .arr a => a.toList.filterMap decCall | _ => []
    let sched := (fieldArr j "sched").map natOf
    -- policy ids are their own tags; the decision of policy p on request k is encoded as p * 1000 + k
    let w : World := { tagOf := id, decide := fun p k => p * 1000 + k }
    let s0 := init w (natOf (field j "p0")) (fun i => progs.getD i [])
    let s := sched.foldl (accessStep w) s0
    let n := progs.length
    let rets := (List.range n).map fun t => Json.arr ((s.threads t).returned.map fun r =>
      Json.mkObj [("key", .num r.key), ("policy", .num ((r.dec / 1000 : Nat))), ("start_clean", .bool r.startClean),
                  ("no_update_inside", .bool (decide (r.lastUpdAtReturn ≤ r.startClock))), ("pol_at_return", .num r.polAtReturn)]).toArray
    let cache := s.cache.map fun e => Json.arr #[.num e.1.1, .num e.1.2, .num ((e.2 / 1000 : Nat))]
    let pcs := (List.range n).map fun t => Json.str (reprStr (s.threads t).pc)
    some (pure (Json.mkObj [("returned", .arr rets.toArray), ("cache", .arr cache.toArray), ("pol", .num s.pol), ("etag", .num s.etag),
                            ("fn", .num s.fn), ("gen", .num s.gen), ("pcs", .arr pcs.toArray)]))
  | _ => none
