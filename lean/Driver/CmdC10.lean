import Driver.Codec
import Rbacx.Spec.Reload
/-
  Driver.CmdC10 — command `reload-ops`: run a history (source changes, clock advances, plain /
  forced / overlapping checks) on the model of HotReloader + source, for both positions of the
  HTTP switch `tagIsRemote`, and evaluate the C10 spec predicates on the implementation's trace.
-/
open Lean Codec Rbacx.Reloader

namespace CmdC10

def fInt (j : Json) (k : String) : Except String Int :=
  match (field j k).getInt? with
  | .ok n => pure n
  | .error _ => throw s!"field {k}: integer expected, got {(field j k).compress}"

def fNat (j : Json) (k : String) : Except String Nat := do
  let n ← fInt j k
  if n < 0 then throw s!"field {k}: natural expected" else pure n.toNat

def optStr (j : Json) : Option String :=
  match j with
  | .str s => some s
  | _ => none

def decExc (s : String) : Exc :=
  if s = "JSONDecodeError" then .jsonDecode
  else if s = "FileNotFoundError" then .fileNotFound
  else .other s

def decBlob (j : Json) : Except String Blob := do
  let cks ← (fieldArr j "cks").mapM fun e =>
    match e with
    | .arr #[.str a, .str v] => pure (a, v)
    | _ => throw "bad cks entry"
  pure { serial := ← fNat j "serial", doc := fieldStr j "doc", valid := fieldBool j "valid", sha := fieldStr j "sha",
         size := ← fNat j "size", etag := optStr (field j "etag"), vid := optStr (field j "vid"), cks }

def decSrcOp (j : Json) : Except String SrcOp := do
  match fieldStr j "k" with
  | "write" => pure (.write (← decBlob j) (← fNat j "mtime"))
  | "delete" => pure .delete
  | "touch" => pure (.touch (← fNat j "mtime"))
  | "fault_etag" => pure (.faultEtag (decExc (fieldStr j "cls")))
  | "fault_load" => pure (.faultLoad (decExc (fieldStr j "cls")))
  | "head_fails" => pure (.headFails (fieldBool j "v"))
  | "attrs_fail" => pure (.attrsFail (fieldBool j "v"))
  | k => throw s!"unknown source op {k}"

def decSrcOps (j : Json) (k : String) : Except String (List SrcOp) := (fieldArr j k).mapM decSrcOp

inductive SchedItem where
  | thread (i : Nat)
  | src (ops : List SrcOp)

structure CheckSpec where
  force : Bool
  uN : Int
  uD : Int

inductive HOp where
  | src (ops : List SrcOp)
  | advance (dt : Nat)
  | check (c : CheckSpec) (mid : List SrcOp) (settle : Bool)
  | conc (checks : List CheckSpec) (sched : List SchedItem)

def decU (j : Json) : Except String (Int × Int) :=
  match field j "u" with
  | .arr #[a, b] =>
    match a.getInt?, b.getInt? with
    | .ok n, .ok d => if d > 0 then pure (n, d) else throw "u: positive denominator expected"
    | _, _ => throw "u: [num, den] expected"
  | _ => throw "u: [num, den] expected"

def decCheckSpec (j : Json) : Except String CheckSpec := do
  let (n, d) ← decU j
  pure { force := fieldBool j "force", uN := n, uD := d }

def decHOp (j : Json) : Except String HOp := do
  match fieldStr j "op" with
  | "src" => pure (.src (← decSrcOps j "ops"))
  | "advance" => pure (.advance (← fNat j "dt"))
  | "check" => pure (.check (← decCheckSpec j) (← decSrcOps j "mid") (fieldBool j "settle"))
  | "conc" => do
    let checks ← (fieldArr j "checks").mapM decCheckSpec
    let sched ← (fieldArr j "sched").mapM fun e =>
      match (e.getObjVal? "t").toOption with
      | some t => (match t.getNat? with | .ok i => pure (SchedItem.thread i) | .error _ => throw "sched: bad thread index")
      | none => do pure (SchedItem.src (← decSrcOps e "src"))
    pure (.conc checks sched)
  | k => throw s!"unknown history op {k}"

structure Setup where
  cfg : Cfg
  rN : Int
  rD : Int
  world0 : World
  asyncEtag : Bool
  initialLoad : Bool
  now0 : Int
  policy0 : Doc
  isHttp : Bool

def decKind (j : Json) (remote : Bool) : Except String (World × Bool) := do
  match fieldStr j "type" with
  | "custom" =>
    let tm : TagMode := match fieldStr j "tag_mode" with | "none" => .none | "nonstr" => .nonStr | _ => .str
    pure (.custom { cur := none, tagMode := tm, etagFault := none, loadFault := none, hi := 0 }, fieldBool j "async")
  | "file" => pure (.file { disk := none, cache := none, mtimeInTag := fieldBool j "mtime_in_tag", hi := 0 }, false)
  | "http" =>
    pure (.http { server := none, serverEtags := fieldBool j "server_etags", failNext := none, cachedTag := none,
                  cachedDoc := none, tagIsRemote := remote, hi := 0 }, false)
  | "s3" =>
    let det : Detector := match fieldStr j "detector" with | "version_id" => .versionId | "checksum" => .checksum | _ => .etag
    pure (.s3 { obj := none, det, prefer := optStr (field j "prefer"), headFails := false, attrsFail := false,
                getFault := none, hi := 0 }, false)
  | k => throw s!"unknown source kind {k}"

def decSetup (j : Json) (remote : Bool) : Except String Setup := do
  let c := field j "cfg"
  let (rN, rD) ←
    match field c "ratio" with
    | .arr #[a, b] =>
      (match a.getInt?, b.getInt? with
       | .ok n, .ok d => if d > 0 ∧ n ≥ 0 then pure (n, d) else throw "ratio: n ≥ 0, d > 0 expected"
       | _, _ => throw "ratio: [num, den] expected")
    | _ => throw "ratio: [num, den] expected"
  let (w, asyncEtag) ← decKind (field j "kind") remote
  let initOps ← decSrcOps j "init_src"
  pure { cfg := { backoffMin := ← fInt c "backoff_min", backoffMax := ← fInt c "backoff_max" }, rN, rD,
         world0 := w.applyAll initOps, asyncEtag, initialLoad := fieldBool j "initial_load",
         now0 := ← fInt j "now0", policy0 := fieldStr j "policy0" "init",
         isHttp := fieldStr (field j "kind") "type" == "http" }

/-- `backoff * jitter_ratio * u` in exact arithmetic (the harness only sends values for which the
    division is exact; `checkExact` rejects anything else) -/
def jitOf (su : Setup) (c : CheckSpec) : Time → Time := fun b => (b * su.rN * c.uN) / (su.rD * c.uD)

def checkExact (su : Setup) (c : CheckSpec) (b : Time) : Except String Unit :=
  let b1 := nextBackoff su.cfg b
  let b2 := nextBackoff su.cfg b1
  if (b1 * su.rN * c.uN) % (su.rD * c.uD) == 0 && (b2 * su.rN * c.uN) % (su.rD * c.uD) == 0 then pure ()
  else throw "inexact jitter: choose parameters that are exact in microseconds"

/-! ### running a history on the model -/

structure MRec where
  results : List Out
  rs : RState
  now : Int
  world : World

structure CSt where
  rs : RState
  world : World
  ts : List Thread

def runItem (cfg : Cfg) (c : CSt) : SchedItem → CSt
  | .src ops => { c with world := c.world.applyAll ops }
  | .thread i =>
    match c.ts[i]? with
    | none => c
    | some t =>
      match t.pc with
      | .start =>
        let r := stepThread cfg t .none c.rs
        { c with rs := r.2, ts := c.ts.set i r.1 }
      | .etag _ =>
        let e := worldEtag c.world
        let r := stepThread cfg t (.etag e.1) c.rs
        -- an exception goes straight on to `_register_error`
        let r := match r.1.pc with
          | .fail _ => stepThread cfg r.1 .none r.2
          | _ => r
        { rs := r.2, world := e.2, ts := c.ts.set i r.1 }
      | .load _ =>
        let l := worldLoad c.world
        let r := stepThread cfg t (.load l.1) c.rs
        let r := stepThread cfg r.1 .none r.2      -- publish / register error follow at once
        { rs := r.2, world := l.2, ts := c.ts.set i r.1 }
      | _ => c

def threadOut (t : Thread) : Out :=
  match t.pc with
  | .done o => o
  | _ => .raised (.other "model: check did not finish under the given schedule")

def runOp (su : Setup) (w : WState World) : HOp → Except String (WState World × List Out)
  | .src ops => pure ({ w with src := w.src.applyAll ops }, [])
  | .advance dt => pure ({ w with now := w.now + dt }, [])
  | .check c mid _ => do
    checkExact su c w.rs.backoff
    let r := wcheck worldSource su.cfg c.force (jitOf su c) (fun x => x.applyAll mid) w
    pure (r.1, [r.2])
  | .conc checks sched => do
    for c in checks do checkExact su c w.rs.backoff
    let ts : List Thread := checks.map fun c =>
      { force := c.force, now := w.now, jit := jitOf su c, pc := .start, touched := false }
    let c := sched.foldl (runItem su.cfg) { rs := w.rs, world := w.src, ts }
    pure ({ w with rs := c.rs, src := c.world }, c.ts.map threadOut)

/-- `adopt`: the implementation's `suppressed_until` after construction and after each op.  When given,
    the model takes the window the implementation chose (the spec bounds it: `specBackoff`) instead of
    computing its own – the model as a monitor that leaves the back-off schedule open – and records
    whether model and implementation agree on *which* ops registered an error. -/
def runOps (su : Setup) (ops : List HOp) (adopt : Option (Array Int) := none) : Except String (List MRec × Bool) := do
  let mut w := winit worldSource su.cfg su.initialLoad su.asyncEtag su.now0 su.policy0 su.world0
  let mut acc : Array MRec := #[{ results := [], rs := w.rs, now := w.now, world := w.src }]
  let mut sameFailures := true
  let mut i := 0
  for op in ops do
    let before := w.rs.suppressUntil
    let (w', outs) ←
      match adopt with
      | none => runOp su w op
      | some _ =>
        -- exactness of the jitter is irrelevant when the window is adopted
        (match op with
         | .check c mid _ =>
           let r := wcheck worldSource su.cfg c.force (fun _ => 0) (fun x => x.applyAll mid) w
           pure (r.1, [r.2])
         | .conc checks sched =>
           let ts : List Thread := checks.map fun c =>
             { force := c.force, now := w.now, jit := fun _ => 0, pc := .start, touched := false }
           let c := sched.foldl (runItem su.cfg) { rs := w.rs, world := w.src, ts }
           pure ({ w with rs := c.rs, src := c.world }, c.ts.map threadOut)
         | _ => runOp su w op)
    w := w'
    match adopt with
    | some a =>
      let implBefore := a[i]?.getD before
      let implAfter := a[i+1]?.getD w.rs.suppressUntil
      -- the implementation may move the window only in a check that failed (a single check: the model
      -- then has `_last_error` set; overlapping checks: a later publish may have cleared it again)
      let isSingle := match op with | .check _ _ _ => true | _ => false
      let isConc := match op with | .conc _ _ => true | _ => false
      if implAfter != implBefore && !isConc && !(isSingle && w.rs.lastErrorSet) then sameFailures := false
      w := { w with rs := { w.rs with suppressUntil := implAfter } }
    | none => pure ()
    acc := acc.push { results := outs, rs := w.rs, now := w.now, world := w.src }
    i := i + 1
  pure (acc.toList, sameFailures)

def encOut : Out → Json
  | .returned b => .bool b
  | .raised (.other n) => .str ("raised:" ++ n)
  | .raised .jsonDecode => .str "raised:JSONDecodeError"
  | .raised .fileNotFound => .str "raised:FileNotFoundError"

def encRec (r : MRec) : Json :=
  Json.mkObj [("results", .arr (r.results.map encOut).toArray), ("policy", .str r.rs.enginePolicy),
    ("last_etag", encOptStr r.rs.lastEtag), ("suppressed_until", .num (JsonNumber.fromInt r.rs.suppressUntil)),
    ("error_set", .bool r.rs.lastErrorSet), ("etag_calls", .num (JsonNumber.fromNat r.rs.etagCalls)),
    ("loads", .num (JsonNumber.fromNat r.rs.loads)), ("cache_epoch", .num (JsonNumber.fromNat r.rs.cacheEpoch))]

/-! ### the spec predicates on the implementation's trace -/

structure IRec where
  results : List Out
  snap : Snap
  loaded : List Doc

def decOut (j : Json) : Except String Out :=
  match j with
  | .bool b => pure (.returned b)
  | .str s => pure (.raised (.other s))
  | _ => throw "bad result"

def decIRec (j : Json) : Except String IRec := do
  let results ← (fieldArr j "results").mapM decOut
  let loaded := (fieldArr j "loaded").filterMap optStr
  pure { results, loaded,
         snap := { policy := fieldStr j "policy", cacheEpoch := ← fNat j "cache_epoch",
                   suppressUntil := ← fInt j "suppressed_until", loads := ← fNat j "loads" } }

def isWrite : SrcOp → Bool
  | .write _ _ => true
  | _ => false

def opWrites : HOp → Bool
  | .src ops => ops.any isWrite
  | .check _ mid _ => mid.any isWrite
  | .conc _ sched => sched.any fun it => match it with | .src ops => ops.any isWrite | _ => false
  | .advance _ => false

/-- file source: a write that keeps (size, mtime) while changing the bytes — the case the property's
    own proviso excludes ("content changes come with a size or mtime change") -/
def sameSigWrite (w : World) : SrcOp → Bool
  | .write b m =>
    (match w with
     | .file fw => (match fw.disk with
                    | some f => f.blob.size == b.size && f.mtime == m && f.blob.sha != b.sha
                    | none => false)
     | _ => false)
  | _ => false

def provisoBrokenBy (w : World) : HOp → Bool
  | .src ops => (ops.foldl (fun (acc : Bool × World) op => (acc.1 || sameSigWrite acc.2 op, acc.2.apply op)) (false, w)).1
  | .check _ mid _ => (mid.foldl (fun (acc : Bool × World) op => (acc.1 || sameSigWrite acc.2 op, acc.2.apply op)) (false, w)).1
  | _ => false

structure SpecOut where
  inert : Array Nat := #[]
  installed : Array Nat := #[]
  noRaise : Array Nat := #[]
  backoff : Array Nat := #[]
  forced : Array Nat := #[]
  latest : Array Nat := #[]

def natArr (a : Array Nat) : Json := .arr (a.map fun n => Json.num (JsonNumber.fromNat n))

/-- per-op predicates; `model` is the model's trace (used only for clock values) -/
def evalSteps (su : Setup) (ops : List HOp) (model : List MRec) (impl : List IRec) : SpecOut := Id.run do
  let mut out : SpecOut := {}
  let mut expected : Doc := su.policy0
  let mut i := 0
  for op in ops do
    match impl[i]?, impl[i+1]?, model[i]? with
    | some a, some b, some m =>
      let now := m.now
      match op with
      | .check c _ _ =>
        let o := b.results.head?.getD (.raised (.other "no result"))
        if !specNoRaise o then out := { out with noRaise := out.noRaise.push i }
        if !specInert a.snap b.snap o then out := { out with inert := out.inert.push i }
        if !specInstalled a.snap b.snap o b.loaded then out := { out with installed := out.installed.push i }
        if !specBackoff su.cfg su.rN su.rD now a.snap b.snap then out := { out with backoff := out.backoff.push i }
        if !specForced c.force a.snap b.snap then out := { out with forced := out.forced.push i }
        expected := b.loaded.getLast?.getD expected
        if b.snap.policy != expected then out := { out with latest := out.latest.push i }
      | .conc _ _ =>
        let nTrue := (b.results.filter (· == .returned true)).length
        if !b.results.all specNoRaise then out := { out with noRaise := out.noRaise.push i }
        if nTrue == 0 && !(b.snap.policy == a.snap.policy && b.snap.cacheEpoch == a.snap.cacheEpoch) then
          out := { out with inert := out.inert.push i }
        if !(b.snap.cacheEpoch == a.snap.cacheEpoch + nTrue && (nTrue == 0 || b.loaded.contains b.snap.policy)) then
          out := { out with installed := out.installed.push i }
        if !specBackoff su.cfg su.rN su.rD now a.snap b.snap then out := { out with backoff := out.backoff.push i }
        -- overlapping checks: "most recent" is not claimed; continue from whatever was installed
        expected := b.snap.policy
      | _ =>
        if !(b.snap.policy == a.snap.policy && b.snap.cacheEpoch == a.snap.cacheEpoch
              && b.snap.suppressUntil == a.snap.suppressUntil && b.snap.loads == a.snap.loads) then
          out := { out with inert := out.inert.push i }
    | _, _, _ => pure ()
    i := i + 1
  return out

/-- convergence on the settle suffix (the trailing checks flagged `settle`): once the source is
    stable and loadable and the back-off window is over, the second unforced check at the latest
    leaves the engine enforcing the source's current document; if the source has a version tag the
    third returns False without loading.  `initial_load` off: only if the source was written after
    construction. -/
def evalConverge (su : Setup) (ops : List HOp) (model : List MRec) (impl : List IRec) : Json := Id.run do
  let n := ops.length
  let idxs := (List.range n).filter fun i =>
    match ops[i]? with | some (.check _ _ true) => true | _ => false
  let na := fun (why : String) => Json.mkObj [("applicable", .bool false), ("why", .str why)]
  match idxs with
  | i1 :: i2 :: rest =>
    -- premises
    let tailOk := (List.range n).all fun i =>
      i < i1 || (match ops[i]? with
                 | some (.check c mid true) => !c.force && mid.isEmpty
                 | some (.advance _) => true
                 | _ => false)
    if !tailOk then return na "suffix is not made of unforced checks and clock advances"
    let some m1 := model[i1]? | return na "short trace"
    let some mEnd := model[n]? | return na "short trace"
    let some a1 := impl[i1]? | return na "short trace"
    let some b2 := impl[i2+1]? | return na "short trace"
    let some d := m1.world.currentDoc | return na "source not loadable"
    if !m1.world.noPendingFault then return na "fault pending"
    if a1.snap.suppressUntil > m1.now then return na "inside the back-off window"
    let changed := (List.range i1).any fun i => match ops[i]? with | some op => opWrites op | none => false
    if !su.initialLoad && !changed then return na "initial_load off and the source never changed after construction"
    let broken := (List.range i1).any fun i =>
      match ops[i]?, model[i]? with
      | some op, some m => provisoBrokenBy m.world op
      | _, _ => false
    if broken then return na "file content changed with (size, mtime) unchanged: excluded by the property's proviso"
    let enforce := b2.snap.policy == d
    let tagged := mEnd.world.honestTag.isSome
    let quiet : Bool :=
      match rest with
      | i3 :: _ =>
        (match impl[i3]?, impl[i3+1]? with
         | some a3, some b3 => !tagged || (b3.results == [.returned false] && b3.snap.loads == a3.snap.loads)
         | _, _ => true)
      | [] => true
    return Json.mkObj [("applicable", .bool true), ("enforces", .bool enforce), ("quiet", .bool quiet),
      ("ok", .bool (enforce && quiet)), ("current", .str d), ("tagged", .bool tagged), ("at", natArr #[i1, i2])]
  | _ => return na "no settle suffix"

def encSpec (s : SpecOut) (conv : Json) : Json :=
  Json.mkObj [("inert", natArr s.inert), ("installed", natArr s.installed), ("no_raise", natArr s.noRaise),
    ("backoff", natArr s.backoff), ("forced", natArr s.forced), ("latest", natArr s.latest), ("converge", conv)]

def reloadOps (j : Json) : Except String Json := do
  let ops ← (fieldArr j "history").mapM decHOp
  let su ← decSetup j false
  let adopt : Option (Array Int) :=
    match (j.getObjVal? "adopt").toOption with
    | some (.arr a) => some (a.map fun x => match x.getInt? with | .ok n => n | .error _ => 0)
    | _ => none
  let (cached, sameC) ← runOps su ops adopt
  let remoteR : Option (List MRec × Bool) ←
    if su.isHttp then do
      let su' ← decSetup j true
      pure (some (← runOps su' ops adopt))
    else pure none
  let remote := remoteR.map (·.1)
  let spec : Json ←
    match (j.getObjVal? "impl").toOption with
    | some (.arr a) => do
      let impl ← a.toList.mapM decIRec
      pure (encSpec (evalSteps su ops cached impl) (evalConverge su ops cached impl))
    | _ => pure .null
  -- the spec predicates evaluated on the model's own traces (both variants)
  let selfSpec := fun (tr : List MRec) =>
    let impl : List IRec := tr.map fun r => { results := r.results, snap := r.rs.snap, loaded := [] }
    evalConverge su ops tr impl
  pure (Json.mkObj [("model", .arr (cached.map encRec).toArray),
    ("model_remote", match remote with | some r => .arr (r.map encRec).toArray | none => .null),
    ("same_failures", .bool sameC),
    ("same_failures_remote", match remoteR with | some r => .bool r.2 | none => .null),
    ("converge_model", selfSpec cached),
    ("converge_model_remote", match remote with | some r => selfSpec r | none => .null),
    ("spec", spec)])

end CmdC10

def handleC10 (cmd : String) (j : Json) : Option (Except String Json) :=
  if cmd == "reload-ops" then some (CmdC10.reloadOps j) else none
