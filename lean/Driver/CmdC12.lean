import Driver.Codec
import Rbacx.Spec.Rebac
/-
  Driver.CmdC12 — command `rebac`: the model of `LocalRelationshipChecker.check` / `batch_check`
  next to the independent derivability spec, and the spec predicate evaluated on observed answers.

  in : {"cmd":"rebac",
        "tuples":   [[subject, relation, resource, caveat|null], …],
        "rules":    [[objType, [[relation, EXPR], …]], …]
                    EXPR = "this" | "other" | ["c", rel] | ["t", tupleset, computed] | ["u", [EXPR, …]]
        "registry": [[name, PRED], …]      PRED = {"k":"const","v":bool} | {"k":"raise"}
                                                | {"k":"truthy","key":K}   -- bool(ctx[K])        (raises on None / missing)
                                                | {"k":"get","key":K}      -- bool((ctx or {}).get(K))
        "context":  null | VALUE (dict, protocol encoding),
        "max_depth": "int", "max_nodes": "int",
        "deadline": "never" | "always" | {"hits":[k, …]} | {"from":k} | {"step":"ns","deadline_ms":"ms"}
                    | {"clock":["ns", …],"deadline_ms":"ms"}      (clock: read 0 = start; single checks only)
        "queries":  [[s, r, o], …],   "observed": [bool, …]?            -- individual check calls
        "batch":    [[s, r, o], …]?,  "observed_batch": [bool, …]? }    -- one batch_check call
  out: {"answers":[{"model":b,"outcome":"found|exhausted|nodeLimit|deadline","limit_hit":b,"derivable":b,
                    "spec_ok":b|null}, …],
        "batch":{"model":[b…],"map":[b…],"limit_hit":[b…],"derivable":[b…],"spec_ok":b|null} | null}
-/
open Lean Codec Rbacx Rbacx.Rebac

namespace CmdC12

def jInt (j : Json) : Option Int :=
  match j with
  | .str s => s.toInt?
  | .num n => if n.exponent == 0 then some n.mantissa else none
  | _ => none

def jNat (j : Json) : Option Nat :=
  match jInt j with
  | some (.ofNat n) => some n
  | _ => none

partial def decExpr (j : Json) : Except String Expr :=
  match j with
  | .str "this" => pure .this
  | .str "other" => pure .other
  | .arr #[.str "c", .str r] => pure (.computed r)
  | .arr #[.str "t", .str ts, .str cu] => pure (.ttu ts cu)
  | .arr #[.str "u", .arr es] => do
    let xs ← es.toList.mapM decExpr
    pure (.union xs)
  | _ => throw s!"bad expr {j.compress}"

def decTuples (js : List Json) : Except String (List RelTuple) :=
  js.mapM fun j =>
    match j with
    | .arr #[.str s, .str r, .str o, .null] => pure ⟨s, r, o, none⟩
    | .arr #[.str s, .str r, .str o, .str c] => pure ⟨s, r, o, some c⟩
    | _ => throw s!"bad tuple {j.compress}"

def decRules (js : List Json) : Except String Rules :=
  js.mapM fun j =>
    match j with
    | .arr #[.str ty, .arr rels] => do
      let m ← rels.toList.mapM fun e =>
        match e with
        | .arr #[.str rel, x] => do let ex ← decExpr x; pure (rel, ex)
        | _ => throw s!"bad rule entry {e.compress}"
      pure (ty, m)
    | _ => throw s!"bad rules entry {j.compress}"

/-- caveat predicates of the harness, as functions of the call's context (`none` = the predicate raised) -/
def decPred (j : Json) : Except String (Option PyVal → Option Bool) :=
  match fieldStr j "k" with
  | "const" => pure fun _ => some (fieldBool j "v")
  | "raise" => pure fun _ => none
  | "truthy" =>
    let key := fieldStr j "key"
    pure fun ctx =>
      match ctx with
      | some (.dict kvs) => (PyVal.lookup key kvs).map PyVal.truthy
      | _ => none
  | "get" =>
    let key := fieldStr j "key"
    pure fun ctx =>
      match ctx with
      | some (.dict kvs) => some (((PyVal.lookup key kvs).getD .none).truthy)
      | _ => some false
  | k => throw s!"bad caveat predicate kind {k}"

def decPreds (js : List Json) : Except String (String → Option (Option PyVal → Option Bool)) := do
  let tbl ← js.mapM fun j =>
    match j with
    | .arr #[.str name, p] => do let f ← decPred p; pure (name, f)
    | _ => throw s!"bad registry entry {j.compress}"
  pure fun name => (tbl.find? (fun e => e.1 == name)).map (·.2)

def decDeadline (j : Json) : Except String (Nat → Bool) :=
  match j with
  | .str "never" => pure fun _ => false
  | .str "always" => pure fun _ => true
  | _ =>
    match (j.getObjVal? "hits").toOption, (j.getObjVal? "from").toOption, (j.getObjVal? "step").toOption,
          (j.getObjVal? "clock").toOption with
    | some (.arr hs), _, _, _ =>
      let ks := hs.toList.filterMap jNat
      pure fun k => ks.contains k
    | _, some f, _, _ =>
      match jNat f with
      | some n => pure fun k => decide (n ≤ k)
      | none => throw "bad deadline.from"
    | _, _, some st, _ =>
      match jInt st, jInt (field j "deadline_ms") with
      | some s, some ms => pure (linearClockHit s ms)
      | _, _ => throw "bad deadline.step/deadline_ms"
    | _, _, _, some (.arr cs) =>
      match jInt (field j "deadline_ms") with
      | some ms =>
        let xs := cs.toList.filterMap jInt
        let last := xs.getLast?.getD 0
        pure (deadlineOfClock (fun i => xs.getD i last) ms)
      | none => throw "bad deadline.deadline_ms"
    | _, _, _, _ => throw s!"bad deadline {j.compress}"

def decTriples (js : List Json) : Except String (List Triple) :=
  js.mapM fun j =>
    match j with
    | .arr #[.str s, .str r, .str o] => pure (s, r, o)
    | _ => throw s!"bad triple {j.compress}"

def decBools (j : Json) : Option (List Bool) :=
  match j with
  | .arr xs => xs.toList.mapM fun x => match x with | .bool b => some b | _ => none
  | _ => none

def outcomeStr : Rebac.Outcome → String
  | .found => "found"
  | .exhausted => "exhausted"
  | .nodeLimit => "nodeLimit"
  | .deadline => "deadline"

def limitHit : Rebac.Outcome → Bool
  | .nodeLimit => true
  | .deadline => true
  | _ => false

def optBool : Option Bool → Json
  | some b => .bool b
  | none => .null

def handle (j : Json) : Except String Json := do
  let tuples ← decTuples (fieldArr j "tuples")
  let rules ← decRules (fieldArr j "rules")
  let preds ← decPreds (fieldArr j "registry")
  let ctx : Option PyVal ←
    match field j "context" with
    | .null => pure none
    | c => do let v ← decVal c; pure (some v)
  let some maxDepth := jInt (field j "max_depth") | throw "bad max_depth"
  let some maxNodes := jInt (field j "max_nodes") | throw "bad max_nodes"
  let dl ← decDeadline (field j "deadline")
  let cfg : Config := { tuples, rules, reg := Registry.ofPreds preds ctx, maxDepth, maxNodes }
  let queries ← decTriples (fieldArr j "queries")
  let observed := decBools (field j "observed")
  let answers := queries.zipIdx.map fun (q, i) =>
    let o := checkOutcome cfg dl q
    let obs : Option Bool := observed.bind (·[i]?)
    Json.mkObj [("model", .bool o.toBool), ("outcome", .str (outcomeStr o)), ("limit_hit", .bool (limitHit o)),
      ("derivable", .bool (specDerivable cfg q)),
      ("spec_ok", optBool (obs.map (specOk cfg q (limitHit o))))]
  let batch : Json ←
    match field j "batch" with
    | .arr bs => do
      let ts ← decTriples bs.toList
      let model := batchCheck cfg (fun _ => dl) ts
      let outs := ts.map (checkOutcome cfg dl)
      let obsB := decBools (field j "observed_batch")
      let specB : Option Bool := obsB.map fun ob =>
        ob.length == ts.length &&
          ((ts.zip (outs.zip ob)).all fun (q, o, b) => specOk cfg q (limitHit o) b)
      pure (Json.mkObj [("model", .arr (model.map Json.bool).toArray),
        ("map", .arr (outs.map (fun o => Json.bool o.toBool)).toArray),
        ("limit_hit", .arr (outs.map (fun o => Json.bool (limitHit o))).toArray),
        ("derivable", .arr (ts.map (fun q => Json.bool (specDerivable cfg q))).toArray),
        ("spec_ok", optBool specB)])
    | _ => pure .null
  pure (Json.mkObj [("answers", .arr answers.toArray), ("batch", batch)])

end CmdC12

def handleC12 (cmd : String) (j : Json) : Option (Except String Json) :=
  if cmd == "rebac" then some (CmdC12.handle j) else none
