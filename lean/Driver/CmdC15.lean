import Lean.Data.Json
import Rbacx.Spec.Cache
/-
  Driver.CmdC15 — `cache-ops` / `cache-tree` (C15, also usable by C08).

  cache-ops  {"maxsize":2,"prefix":128|null,
              "ops":[["get",k,now],["set",k,v,ttl|null,now1,now2],["del",k],["clear"]],
              "observed":[[out,[key,…]],…]?}            (values are integers)
    → {"model":[[out,[key,…]],…],               the model's result and key order after every call
       "model_spec":true,                       the observation spec on the model's own trace (c15_trace_ok)
       "observed_spec":null|{"ok":b,"first_bad":i|null,"clauses":[…],"bad":[[i,[clause,…]],…]}}   … on the implementation's observations
    out: "done" | "KeyError" | ["got",null] | ["got",v]

  cache-tree {"maxsize":…,"prefix":…,"depth":n,"canon":b,
              "alphabet":[["get",j],["set",j,ttl|null,delta],["del",j],["clear"],["tick",delta]]}
    → {"nodes":["<out>;<k,k,…>",…],"spec_failures":n}
    every op sequence of length ≤ depth over the alphabet, depth-first in alphabet order; one
    string per non-root node = what the last call of that sequence showed.  Keys are "k<j>"; the
    value stored by the op at depth i (1-based) is i; `set` reads now1 = clock, then the clock
    advances by delta, now2 = the new clock; `tick` only advances the clock ("t").
    With canon = true a key index may be used only if all smaller ones were used before
    (the cache treats keys symmetrically).
-/
open Lean Rbacx.Cache

namespace CmdC15

def jInt? (j : Json) : Option Int :=
  match j with
  | .num n => if n.exponent == 0 then some n.mantissa else none
  | .str s => s.toInt?
  | _ => none

def jInt (j : Json) : Except String Int :=
  match jInt? j with
  | some i => pure i
  | none => throw s!"bad integer {j.compress}"

def jOptInt (j : Json) : Except String (Option Int) :=
  match j with
  | .null => pure none
  | _ => do let i ← jInt j; pure (some i)

def jStr (j : Json) : Except String String :=
  match j with
  | .str s => pure s
  | _ => throw s!"bad string {j.compress}"

def fld (j : Json) (k : String) : Json := (j.getObjVal? k).toOption.getD .null

def decCfg (j : Json) : Except String Cfg := do
  let m ← jInt (fld j "maxsize")
  let p ← jOptInt (fld j "prefix")
  pure { maxsize := m, purgePrefix := p.map Int.toNat }

def decOp (j : Json) : Except String (Op Int) :=
  match j with
  | .arr #[.str "get", k, now] => do pure (.get (← jStr k) (← jInt now))
  | .arr #[.str "set", k, v, ttl, n1, n2] => do pure (.set (← jStr k) (← jInt v) (← jOptInt ttl) (← jInt n1) (← jInt n2))
  | .arr #[.str "del", k] => do pure (.delete (← jStr k))
  | .arr #[.str "clear"] => pure .clear
  | _ => throw s!"bad op {j.compress}"

def encOut : Out Int → Json
  | .done => .str "done"
  | .keyError => .str "KeyError"
  | .got none => .arr #[.str "got", .null]
  | .got (some v) => .arr #[.str "got", .num (JsonNumber.fromInt v)]

def decOut (j : Json) : Except String (Out Int) :=
  match j with
  | .str "done" => pure .done
  | .str "KeyError" => pure .keyError
  | .arr #[.str "got", .null] => pure (.got none)
  | .arr #[.str "got", v] => do pure (.got (some (← jInt v)))
  | _ => throw s!"bad out {j.compress}"

def encObs (o : Obs Int) : Json := .arr #[encOut o.out, .arr (o.keys.map Json.str).toArray]

def cacheOps (j : Json) : Except String Json := do
  let c ← decCfg j
  let ops ← match fld j "ops" with
    | .arr a => a.toList.mapM decOp
    | _ => throw "ops missing"
  let tr := trace c ops
  let observed : Json ←
    match fld j "observed" with
    | .arr a => do
      if a.size != ops.length then throw "observed: wrong length"
      let obs ← (a.toList.zip ops).mapM fun (oj, op) =>
        match oj with
        | .arr #[out, .arr ks] => do
          let o ← decOut out
          let keys ← ks.toList.mapM jStr
          pure (⟨op, o, keys⟩ : Obs Int)
        | _ => throw s!"bad observation {oj.compress}"
      let bad := allBad c.maxsize SpecSt.init 0 obs
      let encBad := fun (p : Nat × List String) => Json.arr #[.num (JsonNumber.fromNat p.1), .arr (p.2.map Json.str).toArray]
      match bad with
      | [] => pure (Json.mkObj [("ok", .bool true), ("first_bad", .null), ("clauses", .arr #[]), ("bad", .arr #[])])
      | (i, cl) :: _ =>
        pure (Json.mkObj [("ok", .bool false), ("first_bad", .num (JsonNumber.fromNat i)),
                          ("clauses", .arr (cl.map Json.str).toArray), ("bad", .arr ((bad.take 40).map encBad).toArray)])
    | _ => pure .null
  pure (Json.mkObj [("model", .arr (tr.map encObs).toArray), ("model_spec", .bool (traceOk c.maxsize tr)),
                    ("observed_spec", observed)])

/-! ### exhaustive tree -/

inductive Tmpl where
  | get (j : Nat)
  | set (j : Nat) (ttl : Option Int) (delta : Int)
  | del (j : Nat)
  | clear
  | tick (delta : Int)

def decTmpl (j : Json) : Except String Tmpl :=
  match j with
  | .arr #[.str "get", k] => do pure (.get (← jInt k).toNat)
  | .arr #[.str "set", k, ttl, d] => do pure (.set (← jInt k).toNat (← jOptInt ttl) (← jInt d))
  | .arr #[.str "del", k] => do pure (.del (← jInt k).toNat)
  | .arr #[.str "clear"] => pure .clear
  | .arr #[.str "tick", d] => do pure (.tick (← jInt d))
  | _ => throw s!"bad template {j.compress}"

def Tmpl.key? : Tmpl → Option Nat
  | .get j => some j
  | .set j _ _ => some j
  | .del j => some j
  | _ => none

def showOut : Out Int → String
  | .done => "-"
  | .keyError => "E"
  | .got none => "N"
  | .got (some v) => "v" ++ toString v

def showObs (o : Obs Int) : String := showOut o.out ++ ";" ++ ",".intercalate o.keys

structure Acc where
  nodes : Array String := #[]
  bad : Nat := 0

structure Node where
  d : List (Entry Int)
  clock : Int
  used : Nat
  spec : SpecSt Int
  pos : Nat            -- depth of the next op (1-based) = the value it stores

def kname (j : Nat) : String := "k" ++ toString j

def enumTree (c : Cfg) (alpha : List Tmpl) (canon : Bool) : Nat → Node → Acc → Acc
  | 0, _, acc => acc
  | fuel + 1, n, acc =>
    alpha.foldl (fun acc t =>
      let allowed := match t.key? with
        | some j => !canon || j ≤ n.used
        | none => true
      if !allowed then acc else
      let used' := match t.key? with
        | some j => max n.used (j + 1)
        | none => n.used
      match t with
      | .tick δ =>
        enumTree c alpha canon fuel { n with clock := n.clock + δ, used := used', pos := n.pos + 1 }
          { acc with nodes := acc.nodes.push "t" }
      | _ =>
        let (op, clock') : Op Int × Int := match t with
          | .get j => (.get (kname j) n.clock, n.clock)
          | .set j ttl δ => (.set (kname j) (Int.ofNat n.pos) ttl n.clock (n.clock + δ), n.clock + δ)
          | .del j => (.delete (kname j), n.clock)
          | _ => (.clear, n.clock)
        let r := step c n.d op
        let o : Obs Int := ⟨op, r.2, keys r.1⟩
        let ok := obsOk c.maxsize n.spec o
        enumTree c alpha canon fuel
          { d := r.1, clock := clock', used := used', spec := n.spec.next o, pos := n.pos + 1 }
          { nodes := acc.nodes.push (showObs o), bad := if ok then acc.bad else acc.bad + 1 }) acc

def cacheTree (j : Json) : Except String Json := do
  let c ← decCfg j
  let depth ← jInt (fld j "depth")
  let canon := match fld j "canon" with | .bool b => b | _ => false
  let alpha ← match fld j "alphabet" with
    | .arr a => a.toList.mapM decTmpl
    | _ => throw "alphabet missing"
  let acc := enumTree c alpha canon depth.toNat { d := [], clock := 0, used := 0, spec := SpecSt.init, pos := 1 } {}
  pure (Json.mkObj [("nodes", .arr (acc.nodes.map Json.str)), ("spec_failures", .num (JsonNumber.fromNat acc.bad))])

end CmdC15

def handleC15 (cmd : String) (j : Json) : Option (Except String Json) :=
  match cmd with
  | "cache-ops" => some (CmdC15.cacheOps j)
  | "cache-tree" => some (CmdC15.cacheTree j)
  | _ => none
