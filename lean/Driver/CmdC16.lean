import Driver.Codec
import Rbacx.Model.FileSource
import Rbacx.Spec.FileSpec
/-
  Driver.CmdC16 — `atomic-write` (run the traced program of `atomic_write` on the tiny file system under
  a fault; evaluate `Spec.atomicOk` on what the implementation left behind) and `file-history`
  (`FilePolicySource.etag/load` over a history; evaluate `Spec.etagsOk` on the implementation's tags).
  Contents travel as arrays of byte values; tags are symbolic (`sha` = identity on contents, reported as
  the index of the content in the case's content table).
-/
open Lean Codec Rbacx.FileSrc

namespace CmdC16

def natOf (j : Json) : Option Nat := (j.getNat?).toOption

def decContent (j : Json) : Option Content :=
  match j with
  | .arr a => a.toList.mapM natOf
  | _ => none

def decLoc (j : Json) : Loc :=
  match j with
  | .str "temp" => .temp
  | .str "target" => .target
  | _ => .other

def decRegion (j : Json) : Region :=
  match j with
  | .str "body" => .body
  | .str "withBody" => .withBody
  | .str "withExit" => .withExit
  | .str "fin" => .fin
  | _ => .outside

/-- one traced step, as harness/extract.py writes it to generated.json (same mapping as `lean_aw_step`) -/
def decStep (j : Json) : AWStep :=
  let loc := decLoc (field j "loc")
  let op : AWOp :=
    match fieldStr j "op" with
    | "mkstemp" => .mkstemp (fieldBool j "same_dir")
    | "fdopen" => .fdopen loc
    | "openTrunc" => .openTrunc loc
    | "write" => .write loc ((natOf (field j "chunk")).getD 0)
    | "close" => .close loc
    | "replace" => .replace (decLoc (field j "src")) (decLoc (field j "dst"))
    | "unlink" => .unlink loc (fieldBool j "swallow")
    | "other" => .other loc
    | _ => .other .other
  ⟨op, decRegion (field j "region")⟩

def decFault (j : Json) : Fault :=
  let n := (natOf (field j "n")).getD 0
  let k := (natOf (field j "k")).getD 0
  match fieldStr j "kind" with
  | "crash" => .crashAfter n k
  | "raise" => .raiseAt n k
  | _ => .none

def encContent (c : Content) : Json := .arr (c.map fun n => Json.num (JsonNumber.fromNat n)).toArray

def encOptContent : Option Content → Json
  | some c => encContent c
  | none => .null

def outcomeStr : AWOutcome → String
  | .ok => "ok" | .raised => "raised" | .crashed => "crashed"

def decOutcome (s : String) : AWOutcome :=
  match s with
  | "ok" => .ok
  | "raised" => .raised
  | _ => .crashed

def atomicWrite (j : Json) : Except String Json := do
  let prog := (fieldArr j "program").map decStep
  let old := decContent (field j "old")
  let data ← match (fieldArr j "data").mapM decContent with
    | some d => pure d
    | none => throw "bad data"
  let e : AWEnv := { target := "target", tmp := "tmp", elsewhere := "elsewhere", data, now := 1 }
  let fs0 : FS := (match old with | some c => [("target", ⟨c, 0⟩)] | none => []) ++ [("bystander", ⟨[98], 0⟩)]
  let r := runSteps e ⟨fs0, none⟩ prog (decFault (field j "fault"))
  let tgt := (fsGet r.1.fs "target").map (·.content)
  let new := newContent data (writeIdxs prog)
  let impl := field j "impl"
  let specImpl : Json :=
    match impl with
    | .null => .null
    | _ => .bool (Spec.atomicOk old new (decOutcome (fieldStr impl "outcome")) (decContent (field impl "target"))
              ((natOf (field impl "temps_left")).getD 0))
  pure (Json.mkObj [("outcome", .str (outcomeStr r.2)), ("target", encOptContent tgt),
    ("temp_left", .bool (fsGet r.1.fs "tmp").isSome),
    ("listing", .arr ((fsPaths r.1.fs).map Json.str).toArray),
    ("bystander_ok", .bool (decide (fsGet r.1.fs "bystander" = some ⟨[98], 0⟩))),
    ("new", encContent new),
    ("well_shaped", .bool (WellShaped prog && WritesAllOnce prog)),
    ("spec_model", .bool (Spec.atomicOk old new r.2 tgt (if (fsGet r.1.fs "tmp").isSome then 1 else 0))),
    ("spec_impl", specImpl)])

def decOp (contents : Array Content) (j : Json) : Except String FOp :=
  match j with
  | .arr #[.str "write", ci, m] =>
    match natOf ci, natOf m with
    | some i, some mt => pure (.write (contents.getD i []) mt)
    | _, _ => throw "bad write op"
  | .arr #[.str "touch", m] =>
    match natOf m with
    | some mt => pure (.touch mt)
    | none => throw "bad touch op"
  | .arr #[.str "delete"] => pure .delete
  | .arr #[.str "etag"] => pure .etag
  | .arr #[.str "load"] => pure .load
  | _ => throw s!"bad op {j.compress}"

def idxOf (contents : Array Content) (c : Content) : Json :=
  match contents.toList.findIdx? (fun x => decide (x = c)) with
  | some i => Json.num (JsonNumber.fromNat i)
  | none => .null

def fileHistory (j : Json) : Except String Json := do
  let contents ← match (fieldArr j "contents").mapM decContent with
    | some cs => pure cs.toArray
    | none => throw "bad contents"
  let ops ← (fieldArr j "ops").mapM (decOp contents)
  let mt := fieldBool j "include_mtime"
  let path := fieldStr j "path"
  let disk0 : Option File :=
    match field j "disk0" with
    | .arr #[ci, m] =>
      match natOf ci, natOf m with
      | some i, some t => some ⟨contents.getD i [], t⟩
      | _, _ => none
    | _ => none
  let cfg : SrcCfg Content (Rbacx.FileSrc.Format × Content) :=
    { sha := id, parse := fun fmt c => (fmt, c), includeMtime := mt, path }
  let tr := trace cfg ⟨disk0, SrcState.empty⟩ ops
  let encObs (e : Option File × Obs Content (Rbacx.FileSrc.Format × Content)) : Json :=
    match e.2 with
    | .unit => .null
    | .etag none => Json.mkObj [("etag", .null)]
    | .etag (some (h, m)) =>
      Json.mkObj [("etag", Json.mkObj [("sha_of", idxOf contents h),
        ("mtime", match m with | some t => Json.num (JsonNumber.fromNat t) | none => .null)])]
    | .load none => Json.mkObj [("load", .str "missing")]
    | .load (some (fmt, c)) =>
      Json.mkObj [("load", Json.mkObj [("format", .str (match fmt with | .json => "json" | .yaml => "yaml")),
        ("content", idxOf contents c)])]
  -- the spec on the implementation's tags: one entry per `etag` op, null or a number (tags renamed injectively)
  let implTags : List (Option Nat) := (fieldArr j "impl_tags").map natOf
  let etagDisksL : List (Option File) := tr.filterMap fun e => match e.2 with | .etag _ => some e.1 | _ => none
  let implObs := etagDisksL.zip implTags
  let modelObs : List (Option File × Option (ETag Content)) :=
    tr.filterMap fun e => match e.2 with | .etag t => some (e.1, t) | _ => none
  let bad : Json :=
    match Spec.firstBad mt implObs with
    | some (a, b) => .arr #[Json.num (JsonNumber.fromNat a), Json.num (JsonNumber.fromNat b)]
    | none => .null
  pure (Json.mkObj [("obs", .arr (tr.map encObs).toArray),
    ("format", .str (match formatOfPath path with | .json => "json" | .yaml => "yaml")),
    ("etag_observations", Json.num (JsonNumber.fromNat etagDisksL.length)),
    ("within_claim", Json.num (JsonNumber.fromNat (Spec.provisoPrefix none implObs).length)),
    ("spec_impl", if implTags.length == etagDisksL.length then .bool (Spec.etagsOk mt implObs) else .null),
    ("spec_impl_first_bad", bad),
    ("spec_model", .bool (Spec.etagsOk mt modelObs))])

end CmdC16

def handleC16 (cmd : String) (j : Json) : Option (Except String Json) :=
  match cmd with
  | "atomic-write" => some (CmdC16.atomicWrite j)
  | "file-history" => some (CmdC16.fileHistory j)
  | _ => none
