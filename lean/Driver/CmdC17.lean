import Driver.Codec
import Rbacx.Model.Tools
/- Driver.CmdC17 — `detect-format`, `cli-status`. -/
open Lean Codec Rbacx

def optStr (j : Json) (k : String) : Option String :=
  match field j k with
  | .str s => if s == "" then none else some s
  | _ => none

def handleC17 (cmd : String) (j : Json) : Option (Except String Json) :=
  match cmd with
  | "detect-format" =>
    let f := detectFormat (optStr j "fmt") (optStr j "content_type") (optStr j "filename")
    some (pure (.str (match f with | .json => "json" | .yaml => "yaml")))
  | "cli-status" =>
    let c : CliCmd := match fieldStr j "command" with | "validate" => .validate | "check" => .check | _ => .lint
    let verdicts := (fieldArr j "verdicts").map fun v => match v with | .bool b => b | _ => false
    let n := match field j "lint_issues" with | .num k => k.mantissa.toNat | _ => 0
    some (pure (.num (cliStatus c (fieldBool j "strict") (fieldBool j "validator") verdicts n)))
  | _ => none
