import Driver.Codec
import Rbacx.Model.Tools
import Rbacx.Model.Lint
/- Driver.CmdC17 — `detect-format`, `cli-status`, `cli-model` (the model's `parseYaml` / `parsePolicyText` / `parsePolicyBytes` / `cliLoad` /
   `cliRun` on tables of external outcomes: the same lines `Run/SrcEvalCli.lean` takes for the translation). -/
open Lean Codec Rbacx

namespace CliCodec
open Rbacx.PyX

def decResX (j : Json) : Except String Res :=
  match j.getObjVal? "ok" with
  | .ok v => do let x ← decVal v; pure (.ok x)
  | .error _ => do
    let e := field j "err"
    let code ← decVal (field e "code")
    pure (.error { cls := fieldStr e "cls", msg := fieldStr e "msg", code := code })

def encResX : Res → Json
  | .ok v => Json.mkObj [("ok", encVal v)]
  | .error e => Json.mkObj [("err", Json.mkObj [("cls", .str e.cls), ("msg", .str e.msg), ("code", encVal e.code)])]

/-- the table of one external (`[[[arguments…], result], …]`) as a total function of the argument list -/
def decExtX (j : Json) : Except String (List PyVal → Res) := do
  let entries : List Json := match j with | .arr a => a.toList | _ => []
  let rows : List (List PyVal × Res) ← entries.mapM fun (e : Json) =>
    match e with
    | .arr #[.arr args, r] => do let xs ← args.toList.mapM decVal; let y ← decResX r; pure (xs, y)
    | _ => throw "bad ext entry"
  pure fun args => match rows.find? (fun e => e.1 == args) with | some e => e.2 | none => .error { cls := "ExtMiss" }

def extNames : List String :=
  ["open_read", "stdin_read", "bytes_decode", "json_loads", "import_yaml", "yaml_safe_load", "_parse_require_attrs",
   "validate_policy", "analyze_policy", "analyze_policyset", "build_parser", "parse_args", "call_func"]

/-- all the tables of a line as one function of (external name, arguments) -/
def decTables (ext : Json) : Except String (String → List PyVal → Res) := do
  let tables ← extNames.mapM (fun n => do let t ← decExtX (field ext n); pure (n, t))
  pure fun n as => match tables.find? (fun t => t.1 == n) with | some t => t.2 as | none => .error { cls := "ExtMiss" }

def worldOf (x : String → List PyVal → Res) : CliWorld :=
  { openRead := fun p => x "open_read" [p], stdinRead := x "stdin_read" [],
    parsers := { jsonLoads := fun t => x "json_loads" [t], importYaml := x "import_yaml" [], yamlSafeLoad := fun t => x "yaml_safe_load" [t] },
    parseRequireAttrs := fun s => x "_parse_require_attrs" [s], validate := fun d => x "validate_policy" [d],
    lintPolicy := fun d r => x "analyze_policy" [d, r], lintSet := fun d r => x "analyze_policyset" [d, r] }

/-- a hint / path: `None` or a str (anything else is outside the model's domain) -/
def valToOpt : PyVal → Except String (Option String)
  | .none => pure none
  | .str s => pure (some s)
  | _ => throw "hint outside the model's domain (str | None)"

def evalModel (x : String → List PyVal → Res) (fn : String) (args : List PyVal) : Except String Res := do
  let w := worldOf x
  match fn, args with
  | "_parse_yaml", [t] => pure (parseYaml w.parsers t)
  | "parse_policy_text", [t, f, c, m] =>
    pure (parsePolicyText w.parsers t (← valToOpt m) (← valToOpt c) (← valToOpt f))
  | "parse_policy_bytes", [d, f, c, m, e] =>
    pure (parsePolicyBytes w.parsers (fun a b => x "bytes_decode" [a, b]) d e (← valToOpt m) (← valToOpt c) (← valToOpt f))
  | "_load_policy_from_arg", [p] => pure (cliLoad w (← valToOpt p))
  | "cmd_lint", [a] =>
    pure (encExit (cliRun .lint w (cliFlag a "strict") (cliFlag a "policyset") (← valToOpt (getattrD a "policy" .none)) (getattrD a "require_attrs" .none)))
  | "cmd_validate", [a] =>
    pure (encExit (cliRun .validate w (cliFlag a "strict") (cliFlag a "policyset") (← valToOpt (getattrD a "policy" .none)) (getattrD a "require_attrs" .none)))
  | "cmd_check", [a] =>
    pure (encExit (cliRun .check w (cliFlag a "strict") (cliFlag a "policyset") (← valToOpt (getattrD a "policy" .none)) (getattrD a "require_attrs" .none)))
  | "main", [argv] => pure (cliMain (x "build_parser" []) (fun a => x "parse_args" [a]) (fun a => x "call_func" [a]) argv)
  | _, _ => throw s!"no model function for {fn}/{args.length}"

end CliCodec

def optStr (j : Json) (k : String) : Option String :=
  match field j k with
  | .str s => if s == "" then none else some s
  | _ => none

def handleC17 (cmd : String) (j : Json) : Option (Except String Json) :=
  match cmd with
  | "detect-format" =>
    let f := detectFormat (optStr j "fmt") (optStr j "content_type") (optStr j "filename")
    some (pure (.str (match f with | .json => "json" | .yaml => "yaml")))
  | "cli-status" =>
    let c : CliCmd := match fieldStr j "command" with | "validate" => .validate | "check" => .check | _ => .lint
    let verdicts := (fieldArr j "verdicts").map fun v => match v with | .bool b => b | _ => false
    let n := match field j "lint_issues" with | .num k => k.mantissa.toNat | _ => 0
    some (pure (.num (cliStatus c (fieldBool j "strict") (fieldBool j "validator") verdicts n)))
  | "cli-model" =>
    some (do
      let args ← match field j "args" with | .arr xs => xs.toList.mapM decVal | _ => throw "args"
      let x ← CliCodec.decTables (field j "ext")
      match CliCodec.evalModel x (fieldStr j "fn") args with
      | .ok r => pure (CliCodec.encResX r)
      | .error e => pure (Json.mkObj [("error", .str e)]))
  | "lint-model" =>
    -- the model's algorithm-dependent linter analysis (Model/Lint.lean), helpers = their hand-written models, first pass = nothing
    some (do
      let args ← match field j "args" with | .arr xs => xs.toList.mapM decVal | _ => throw "args"
      let o ← decOracle (field j "oracle")
      let E : Lint.Env := { o := o, dflt := "deny-overrides", acts := Lint.actions,
                            cov := fun a b => .bool (Lint.resourceCovers o a b), unr := fun a b => .bool (Lint.firstApplicableUnreachable o a b),
                            firstPass := fun _ _ => [] }
      match fieldStr j "fn", args with
      | "analyze_policy", [p, r] => pure (encVal (.list (Lint.analyzePolicy E p r)))
      | "analyze_policyset", [p, r] => pure (encVal (.list (Lint.analyzePolicyset E p r)))
      | _, _ => throw "lint-model: unknown function or arity")
  | _ => none
