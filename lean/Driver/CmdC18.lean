import Driver.Codec
import Rbacx.Spec.Roles
/-
  Driver.CmdC18 — command `roles`:

    {"cmd":"roles","graph":[[key,[parent,…]],…],"roles":[…]|null,"impl":[…]?}
      → {"model":[…],          `Roles.expandOpt` (the worklist model)
         "naive":[…],          `Spec.Roles.naiveClosure`, sorted by core `List.mergeSort`
         "model_ok":bool,      `Spec.Roles.isClosureOf` on the model's output (theorem: always true)
         "impl_ok":bool|null}  `Spec.Roles.isClosureOf` on the implementation's output, if given
-/
open Lean Codec Rbacx

namespace CmdC18

def decStrs (j : Json) : Except String (List String) :=
  match j with
  | .arr a => a.toList.mapM fun e => match e with | .str s => pure s | _ => throw "roles: non-string role (outside the model's domain)"
  | _ => throw "roles: expected an array of strings"

def decGraph (j : Json) : Except String Roles.Graph :=
  match j with
  | .arr a => a.toList.mapM fun e =>
      match e with
      | .arr #[.str k, ps] => do let p ← decStrs ps; pure (k, p)
      | _ => throw "roles: bad graph entry"
  | _ => throw "roles: expected graph as [[key,[parents]],…]"

def encStrs (xs : List String) : Json := .arr (xs.map Json.str).toArray

def handleRoles (j : Json) : Except String Json := do
  let g ← decGraph (field j "graph")
  let roles : Option (List String) ←
    match field j "roles" with
    | .null => pure none
    | r => do let rs ← decStrs r; pure (some rs)
  let rs := roles.getD []
  let model := Roles.expandOpt g roles
  let naive := (Spec.Roles.naiveClosure g rs).mergeSort (fun a b => decide (a ≤ b))
  let implOk : Json ←
    match field j "impl" with
    | .null => pure Json.null
    | i => do let out ← decStrs i; pure (Json.bool (Spec.Roles.isClosureOf g rs out))
  pure (Json.mkObj [("model", encStrs model), ("naive", encStrs naive),
    ("model_ok", .bool (Spec.Roles.isClosureOf g rs model)), ("impl_ok", implOk)])

end CmdC18

def handleC18 (cmd : String) (j : Json) : Option (Except String Json) :=
  match cmd with
  | "roles" => some (CmdC18.handleRoles j)
  | _ => none
