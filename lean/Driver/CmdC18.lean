import Driver.Codec
import Rbacx.Spec.Roles
/-
  Driver.CmdC18 — command `roles`:

    {"cmd":"roles","graph":[[key,[parent,…]],…],"roles":[…]|null,"impl":[…]?}
      → {"model":[…],          `Roles.expandOpt` (the worklist model)
         "naive":[…],          `Spec.Roles.naiveClosure`, sorted by core `List.mergeSort`
         "model_ok":bool,      `Spec.Roles.isClosureOf` on the model's output (theorem: always true)
         "impl_ok":bool|null}  `Spec.Roles.isClosureOf` on the implementation's output, if given

  and `roles-batch` ({"graph":…, "items":[[roles|null, impl], …]} → {"n":…, "bad":[…]}), the same
  four results for many role lists against one graph, reporting only the items where something is off.
-/
open Lean Codec Rbacx

namespace CmdC18

def decStrs (j : Json) : Except String (List String) :=
  match j with
  | .arr a => a.toList.mapM fun e => match e with | .str s => pure s | _ => throw "roles: non-string role (outside the model's domain)"
  | _ => throw "roles: expected an array of strings"

def decGraph (j : Json) : Except String Roles.Graph :=
  match j with
  | .arr a => a.toList.mapM fun e =>
      match e with
      | .arr #[.str k, ps] => do let p ← decStrs ps; pure (k, p)
      | _ => throw "roles: bad graph entry"
  | _ => throw "roles: expected graph as [[key,[parents]],…]"

def encStrs (xs : List String) : Json := .arr (xs.map Json.str).toArray

def handleRoles (j : Json) : Except String Json := do
  let g ← decGraph (field j "graph")
  let roles : Option (List String) ←
    match field j "roles" with
    | .null => pure none
    | r => do let rs ← decStrs r; pure (some rs)
  let rs := roles.getD []
  let model := Roles.expandOpt g roles
  -- `isClosureOf g rs out` is by definition `isClosureOfWith (naiveClosure g rs) g rs out`
  let nc := Spec.Roles.naiveClosure g rs
  let naive := nc.mergeSort (fun a b => decide (a ≤ b))
  let implOk : Json ←
    match field j "impl" with
    | .null => pure Json.null
    | i => do let out ← decStrs i; pure (Json.bool (Spec.Roles.isClosureOfWith nc g rs out))
  pure (Json.mkObj [("model", encStrs model), ("naive", encStrs naive),
    ("model_ok", .bool (Spec.Roles.isClosureOfWith nc g rs model)), ("impl_ok", implOk)])

/-- many role lists against one graph; answers only the items on which something is off
    (model ≠ implementation, verdict false on either, naive closure ≠ implementation) -/
def handleBatch (j : Json) : Except String Json := do
  let g ← decGraph (field j "graph")
  let items := fieldArr j "items"
  let mut bad : Array Json := #[]
  let mut i : Nat := 0
  for it in items do
    match it with
    | .arr #[r, im] =>
      let roles : Option (List String) ←
        match r with
        | .null => pure none
        | r => do let rs ← decStrs r; pure (some rs)
      let out ← decStrs im
      let rs := roles.getD []
      let model := Roles.expandOpt g roles
      let nc := Spec.Roles.naiveClosure g rs
      let naive := nc.mergeSort (fun a b => decide (a ≤ b))
      let implOk := Spec.Roles.isClosureOfWith nc g rs out
      let modelOk := Spec.Roles.isClosureOfWith nc g rs model
      if model != out || naive != out || !implOk || !modelOk then
        bad := bad.push (Json.mkObj [("i", .num i), ("model", encStrs model), ("naive", encStrs naive),
          ("impl_ok", .bool implOk), ("model_ok", .bool modelOk)])
    | _ => throw "roles-batch: bad item"
    i := i + 1
  pure (Json.mkObj [("n", .num i), ("bad", .arr bad)])

end CmdC18

def handleC18 (cmd : String) (j : Json) : Option (Except String Json) :=
  match cmd with
  | "roles" => some (CmdC18.handleRoles j)
  | "roles-batch" => some (CmdC18.handleBatch j)
  | _ => none
