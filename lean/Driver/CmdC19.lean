import Driver.Codec
import Rbacx.Spec.Redact
/-
  Driver.CmdC19 — commands of the C19 check:
    pyint    {"s"}                                      → Python `int(s)` as modelled
    fnum     {"f": <bits>}                              → the order-embedding of a float (x·2^1074)
    setpath  {"obj","path","value"}                     → `_set_by_path` + lands / read-back
    redact   {"env","specs","in_place","secrets","impl"}→ `apply_obligations` + spec predicates on `impl`
    logger   {"cfg","payload","draw","sizes","secrets","impl"} → `DecisionLogger.log` + spec predicates on `impl`
-/
open Lean Codec Rbacx Rbacx.Redact

namespace CmdC19

def fnumOfFloat (f : Float) : FNum :=
  match PyVal.floatDyadic f with
  | none =>
    if f.isNaN then .nan
    else if f.toBits.toNat / 2 ^ 63 == 1 then .fin (-(2 ^ 2100 : Int)) else .fin (2 ^ 2100 : Int)
  | some (neg, m, e) =>
    let k : Int := (m : Int) * (2 ^ (e + 1074).toNat : Int)
    .fin (if neg then -k else k)

def decFloatBits (j : Json) : Except String Float :=
  match j with
  | .str b =>
    match b.toNat? with
    | some k => pure (Float.ofBits (UInt64.ofNat k))
    | none => throw s!"bad float bits {b}"
  | _ => throw "float bits expected"

def encFNum : FNum → Json
  | .nan => .str "nan"
  | .fin k => .str (toString k)

def decSpecs (j : Json) : Except String (List PyVal) := do
  match ← decVal j with
  | .none => pure []            -- `obligations or []`
  | .list xs => pure xs
  | _ => throw "specs: list or null expected"

def decStrs (j : Json) (k : String) : List String :=
  (fieldArr j k).filterMap fun e => match e with | .str s => some s | _ => none

def decCfg (j : Json) : Except String LogCfg := do
  let rate ← decFloatBits (field j "sample_rate")
  let redactions : Option (List PyVal) ←
    match field j "redactions" with
    | .null => pure none
    | r => do let xs ← decSpecs (field r "v"); pure (some xs)
  let defaults ← decSpecs (field j "defaults")
  let strategy : Option (List (String × FNum)) ←
    match field j "strategy" with
    | .null => pure none
    | .arr a => do
      let es ← a.toList.mapM fun e =>
        match e with
        | .arr #[.str c, b] => do let f ← decFloatBits b; pure (c, fnumOfFloat f)
        | _ => throw "bad strategy entry"
      pure (some es)
    | _ => throw "bad strategy"
  let maxEnv ← fieldVal j "max_env_bytes"
  pure { sampleRate := fnumOfFloat rate, redactions, useDefault := fieldBool j "use_default", defaults,
         inPlace := fieldBool j "in_place", smart := fieldBool j "smart", strategy, maxEnvBytes := maxEnv }

def decSizes (j : Json) : Except String (List (PyVal × Option Nat)) :=
  (fieldArr j "sizes").mapM fun e =>
    match e with
    | .arr #[v, .null] => do let w ← decVal v; pure (w, none)
    | .arr #[v, .str n] =>
      match n.toNat? with
      | some k => do let w ← decVal v; pure (w, some k)
      | none => throw "bad size"
    | _ => throw "bad sizes entry"

def encOptNat : Option Nat → Json
  | some n => .str (toString n)
  | none => .null

def handle (cmd : String) (j : Json) : Option (Except String Json) :=
  match cmd with
  | "pyint" => some do
    pure (match parsePyInt (fieldStr j "s").toList with
          | some n => Json.mkObj [("ok", .str (toString n))]
          | none => Json.mkObj [("invalid", .bool true)])
  | "fnum" => some do
    let f ← decFloatBits (field j "f")
    pure (encFNum (fnumOfFloat f))
  | "setpath" => some do
    let obj ← fieldVal j "obj"
    let value ← fieldVal j "value"
    let path := fieldStr j "path"
    let out := setByPath obj path value
    let lands := landsPath obj path
    let implSpec ← (match field j "impl" with
      | .null => pure Json.null
      | i => do let o ← fieldVal i "v"; pure (Json.bool (if lands then readsAs o path value else true)))
    pure (Json.mkObj [("out", encVal out), ("lands", .bool lands),
      ("stable", .bool (stablePath path)), ("spec_model", .bool (if lands then readsAs out path value else true)),
      ("spec_impl", implSpec)])
  | "redact" => some do
    let env ← fieldVal j "env"
    let specs ← decSpecs (field j "specs")
    let inPlace := fieldBool j "in_place"
    let secrets := decStrs j "secrets"
    let r := applySpecs env specs
    let ws := allWrites specs
    let specOn (out : PyVal) : Json :=
      match ws with
      | none => .null
      | some ws => Json.mkObj [("no_leak", .bool (specNoLeak env ws secrets out)),
                               ("placeholder", .bool (specPlaceholder env ws out))]
    let implSpec ← (match field j "impl" with
      | .null => pure Json.null
      | i => do let o ← fieldVal i "v"; pure (specOn o))
    let covered : List Json := match ws with
      | none => []
      | some ws => (secrets.filter fun s => coveredAt s env ws || coveredStable s env ws).map Json.str
    pure (Json.mkObj [("out", encVal r.1), ("raised", .bool r.2),
      ("caller_after", encVal (if r.2 then (if inPlace then r.1 else env) else (applyObligationsIO env specs inPlace).2)),
      ("wf", .bool (specsWF specs)),
      ("claims", match ws with | some ws => .num (placeholderClaims env ws) | none => .num 0),
      ("covered", .arr covered.toArray),
      ("spec_model", specOn r.1), ("spec_impl", implSpec)])
  | "logger" => some do
    let cfg ← decCfg (field j "cfg")
    let payload ← fieldVal j "payload"
    let drawF ← decFloatBits (field j "draw")
    let draw := fnumOfFloat drawF
    let sizes ← decSizes j
    let secrets := decStrs j "secrets"
    let js : PyVal → Option Nat := fun v =>
      match sizes.find? (fun e => e.1 == v) with
      | some e => e.2
      | none => none
    let known (v : PyVal) : Bool := (sizes.find? (fun e => e.1 == v)).isSome
    let dropped := shouldDrop cfg payload draw
    let red := redactStep cfg payload
    let env := envObj payload
    let specs := effectiveSpecs cfg
    let ws := allWrites specs
    -- the model needs the size of *its* redacted env: ask for it if the table does not have it
    let needSize := !dropped && !red.2 && (effBound cfg).isSome && !known red.1
    let model : Json :=
      if needSize then .null
      else match log cfg js payload draw with
        | none => Json.mkObj [("dropped", .bool true)]
        | some o => Json.mkObj [("env", encVal o.env), ("truncated", .bool o.truncated)]
    let specOn (emitted : Bool) (out : PyVal) : Except String Json := do
      let sampling := specSampling cfg payload draw emitted
      if !emitted then pure (Json.mkObj [("sampling", .bool sampling)])
      else
        let marker := (effBound cfg).isSome && (isMarker out).isSome
        if (effBound cfg).isSome && !red.2 && !marker && !known out then throw "jsonSize table misses the observed env"
        let size := if red.2 then true else specSize cfg js (js red.1) out
        let redactionSpecs : List (String × Json) :=
          match ws with
          | some ws =>
            if marker then []
            else [("no_leak", .bool (specNoLeak env ws secrets out)),
                  ("placeholder", .bool (specPlaceholder env ws out)),
                  ("priority", .bool (specPriority cfg payload out))]
          | none => []
        pure (Json.mkObj ([("sampling", .bool sampling), ("size", .bool size)] ++ redactionSpecs))
    let implSpec ← (match field j "impl" with
      | .null => pure Json.null
      | i =>
        if needSize then pure Json.null
        else if fieldBool i "dropped" then specOn false .none
        else do let o ← fieldVal i "env"; specOn true o)
    let modelSpec ← (if needSize then pure Json.null else
      match log cfg js payload draw with
      | none => specOn false .none
      | some o => specOn true o.env)
    pure (Json.mkObj [("need_size", .bool needSize), ("redacted", encVal red.1), ("raised", .bool red.2),
      ("dropped", .bool dropped), ("model", model), ("wf", .bool (specsWF specs)),
      ("eff_rate", encFNum (effRate cfg payload)), ("category", .str (category payload)),
      ("bound", match effBound cfg with | some b => .str (toString b) | none => .null),
      ("claims", match ws with | some ws => .num (placeholderClaims env ws) | none => .num 0),
      ("covered", .arr ((match ws with
        | some ws => (secrets.filter fun s => coveredAt s env ws || coveredStable s env ws).map Json.str
        | none => []).toArray)),
      ("spec_model", modelSpec), ("spec_impl", implSpec)])
  | _ => none

end CmdC19

def handleC19 (cmd : String) (j : Json) : Option (Except String Json) := CmdC19.handle cmd j
