import Driver.Codec
import Rbacx.Model.Asgi
/- Driver.CmdC20 — `asgi`: the middleware model composed with the engine model. -/
open Lean Codec Rbacx

def encAction : AsgiAction → Json
  | .injectGuard => Json.mkObj [("a", .str "inject")]
  | .sendStart st hs => Json.mkObj [("a", .str "start"), ("status", .num st),
      ("headers", .arr (hs.map fun (k, v) => Json.arr #[.str k, .str v]).toArray)]
  | .sendBody b => Json.mkObj [("a", .str "body"), ("body", .str b)]
  | .callDownstream => Json.mkObj [("a", .str "downstream")]
  | .propagate cls => Json.mkObj [("a", .str "raise"), ("cls", .str cls)]
