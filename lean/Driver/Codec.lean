import Lean.Data.Json
import Rbacx.Model.Engine
/-
  Driver.Codec — the line protocol's value encoding (DESIGN §2.3).

  None → null, bool → true/false, str → "…", int → ["i","<decimal>"], float → ["f","<u64 bits>"],
  list → ["l",[…]], dict → ["o",[[k,v],…]] (insertion order kept), datetime → ["dt",aware,"<µs>"].
-/
open Lean

namespace Codec

partial def decVal (j : Json) : Except String PyVal :=
  match j with
  | .null => pure .none
  | .bool b => pure (.bool b)
  | .str s => pure (.str s)
  | .arr a =>
    match a.toList with
    | [.str "i", .str n] =>
      match n.toInt? with
      | some k => pure (.int k)
      | none => throw s!"bad int {n}"
    | [.str "f", .str b] =>
      match b.toNat? with
      | some k => pure (.float (Float.ofBits (UInt64.ofNat k)))
      | none => throw s!"bad float bits {b}"
    | [.str "l", .arr xs] => do
      let ys ← xs.toList.mapM decVal
      pure (.list ys)
    | [.str "o", .arr kvs] => do
      let ys ← kvs.toList.mapM fun kv =>
        match kv with
        | .arr #[.str k, v] => do let w ← decVal v; pure (k, w)
        | _ => throw "bad dict entry"
      pure (.dict ys)
    | [.str "dt", .bool aware, .str m] =>
      match m.toInt? with
      | some k => pure (.dt aware k)
      | none => throw s!"bad dt {m}"
    | _ => throw s!"bad tagged value {j.compress}"
  | _ => throw s!"bad value {j.compress}"

partial def encVal : PyVal → Json
  | .none => .null
  | .bool b => .bool b
  | .str s => .str s
  | .int n => .arr #[.str "i", .str (toString n)]
  | .float f => .arr #[.str "f", .str (toString f.toBits.toNat)]
  | .list xs => .arr #[.str "l", .arr (xs.map encVal).toArray]
  | .dict kvs => .arr #[.str "o", .arr (kvs.map fun (k, v) => Json.arr #[.str k, encVal v]).toArray]
  | .dt a m => .arr #[.str "dt", .bool a, .str (toString m)]

def field (j : Json) (k : String) : Json := (j.getObjVal? k).toOption.getD .null

def fieldVal (j : Json) (k : String) : Except String PyVal := decVal (field j k)

def fieldStr (j : Json) (k : String) (dflt : String := "") : String :=
  match field j k with
  | .str s => s
  | _ => dflt

def fieldBool (j : Json) (k : String) : Bool :=
  match field j k with
  | .bool b => b
  | _ => false

def fieldArr (j : Json) (k : String) : List Json :=
  match field j k with
  | .arr a => a.toList
  | _ => []

def optInt (j : Json) : Option Int :=
  match j with
  | .str s => s.toInt?
  | _ => none

/-- oracle tables → total functions (a miss renders as an impossible value so that it shows up
    as a disagreement rather than being silently absorbed) -/
def decOracle (j : Json) : Except String Oracle := do
  let strT ← (fieldArr j "str").mapM fun e =>
    match e with
    | .arr #[v, .str s] => do let w ← decVal v; pure (w, s)
    | _ => throw "bad oracle.str entry"
  let isoT ← (fieldArr j "iso").mapM fun e =>
    match e with
    | .arr #[.str s, m] => pure (s, optInt m)
    | _ => throw "bad oracle.iso entry"
  let epT ← (fieldArr j "epoch").mapM fun e =>
    match e with
    | .arr #[v, m] => do let w ← decVal v; pure (w, optInt m)
    | _ => throw "bad oracle.epoch entry"
  let fosT ← (fieldArr j "fos").mapM fun e =>
    match e with
    | .arr #[.str s, .str b] =>
      (match b.toNat? with
       | some k => pure (s, some (Float.ofBits (UInt64.ofNat k)))
       | none => throw "bad oracle.fos bits")
    | .arr #[.str s, .null] => pure (s, (none : Option Float))
    | _ => throw "bad oracle.fos entry"
  pure {
    strOf := fun v => match strT.find? (fun e => e.1 == v) with | some e => e.2 | none => "\u0000<oracle-miss:str>"
    isoInstant := fun s => match isoT.find? (fun e => e.1 == s) with | some e => e.2 | none => none
    epochInstant := fun v => match epT.find? (fun e => e.1 == v) with | some e => e.2 | none => none
    floatOfStr := fun s => match fosT.find? (fun e => e.1 == s) with | some e => e.2 | none => none
  }

def decConsts (j : Json) : Rbacx.Consts :=
  { interpDefault := fieldStr j "interp" "deny-overrides"
    setDefault := fieldStr j "set" "deny-overrides"
    compilerDefault := fieldStr j "compiler" "deny-overrides"
    lintDefault := fieldStr j "lint" "deny-overrides" }

def encOptStr : Option String → Json
  | some s => .str s
  | none => .null

end Codec
