import Driver.Codec
import Driver.CmdC10
/-
  Driver.Extra — per-property command handlers living in their own files (`Driver/CmdCxx.lean`).
  Each returns `none` for commands that are not its own.
-/
open Lean

def extraHandlers : List (String → Json → Option (Except String Json)) := [handleC10]
