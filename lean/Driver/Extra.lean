import Driver.Codec
import Driver.CmdC18
import Driver.CmdC17
import Driver.CmdC12
import Driver.CmdC15
import Driver.CmdC16
import Driver.CmdC09
import Driver.CmdC19
import Driver.CmdC10
import Driver.CmdC08Key
/-
  Driver.Extra — per-property command handlers living in their own files (`Driver/CmdCxx.lean`).
  Each returns `none` for commands that are not its own.
-/
open Lean

def extraHandlers : List (String → Json → Option (Except String Json)) :=
  [handleC18, handleC17, handleC12, handleC15, handleC16, handleC09, handleC19, handleC10, handleC08Key]
