import Driver.Codec
import Driver.Extra
import Driver.CmdC20
import Rbacx.Spec.Combining
import Rbacx.Spec.Operators
import Rbacx.Spec.DenyByDefault
import Rbacx.Spec.Engine
import Rbacx.Proofs.Total
import Rbacx.Proofs.TruthfulSpec
import Rbacx.Proofs.Compiled
import Rbacx.Model.RelMemo
/-
  Driver.Main — one JSON command per input line, one JSON answer per output line.
-/
open Lean Codec Rbacx

def encErr : CondErr → Json
  | .typeMismatch => Json.mkObj [("raised", .str "ConditionTypeError")]
  | .raised cls => Json.mkObj [("raised", .str cls)]

def encRaw (r : Raw) : Json :=
  Json.mkObj [("decision", .str r.decision), ("reason", .str r.reason), ("rule_id", encVal r.ruleId),
    ("last_rule_id", encVal r.lastRuleId), ("policy_id", encVal r.policyId),
    ("obligations", encVal (.list r.obligations))]

def encRawRes : Except CondErr Raw → Json
  | .ok r => Json.mkObj [("ok", encRaw r)]
  | .error e => encErr e

def encEvent : Event → Json
  | .metricInc d => Json.mkObj [("ev", .str "inc"), ("decision", .str d)]
  | .metricObserve d => Json.mkObj [("ev", .str "observe"), ("decision", .str d)]
  | .audit env d a rid pid reason obls =>
    Json.mkObj [("ev", .str "audit"), ("env", encVal env), ("decision", .str d), ("allowed", .bool a),
      ("rule_id", encVal rid), ("policy_id", encVal pid), ("reason", .str reason),
      ("obligations", encVal (.list obls))]

def encDecision (d : Decision) (evs : List Event) : Json :=
  Json.mkObj [("allowed", .bool d.allowed), ("effect", .str d.effect), ("obligations", encVal (.list d.obligations)),
    ("challenge", encVal d.challenge), ("rule_id", encVal d.ruleId), ("policy_id", encVal d.policyId),
    ("reason", .str d.reason), ("events", .arr (evs.map encEvent).toArray)]

/-- relationship checker table: `[[subject, relation, resource, true|false|null], …]`, default answer -/
def decRel (j : Json) : Option RelChecker :=
  match j with
  | .null => none
  | _ =>
    let rows := (fieldArr j "table").filterMap fun e =>
      match e with
      | .arr #[.str s, .str r, .str o, a] =>
        some ((s, r, o), match a with | .bool b => some b | _ => none)
      | _ => none
    let dflt : Option Bool := match field j "default" with | .bool b => some b | _ => none
    some fun k =>
      match rows.find? (fun e => e.1 == (k.subject, k.relation, k.resource)) with
      | some e => e.2
      | none => dflt

def decCfg (j : Json) (consts : Consts) : Except String GuardCfg := do
  let checker : CheckerCfg ←
    match field j "checker" with
    | .str "raise" => pure (.custom none)
    | .arr #[.str "custom", ok, ch] => do
      let o ← decVal ok
      let c ← decVal ch
      pure (.custom (some (o, c)))
    | _ => pure .builtin
  let resolver : Option (List PyVal → Option PyVal) ←
    match field j "resolver" with
    | .null => pure none
    | .str "raise" => pure (some fun _ => none)
    | r => do
      let v ← fieldVal r "ok"
      pure (some fun _ => some v)
  pure { consts, strict := fieldBool j "strict", checker, resolver, relChecker := decRel (field j "rel"),
         hasMetrics := fieldBool j "metrics", hasLogger := fieldBool j "logger" }

def decReq (j : Json) : Except String Request := do
  let ctx : Option PyVal ←
    match (j.getObjVal? "ctx").toOption with
    | none => pure none
    | some c => do let v ← decVal c; pure (some v)
  pure { subjectId := ← fieldVal j "sid", roles := ← fieldVal j "roles", subjectAttrs := ← fieldVal j "sattrs",
         action := ← fieldVal j "action", resourceType := ← fieldVal j "rtype", resourceId := ← fieldVal j "rid",
         resourceAttrs := ← fieldVal j "rattrs", context := ctx }

def condResJson : CondRes → Json
  | .ok b => .bool b
  | .error .typeMismatch => .str "mismatch"
  | .error (.raised cls) => .str ("raised:" ++ cls)

def handle (j : Json) : Except String Json := do
  let cmd := fieldStr j "cmd"
  let o ← decOracle (field j "oracle")
  let consts := decConsts (field j "consts")
  match cmd with
  | "guard" => do
    let cfg ← decCfg (field j "cfg") consts
    let pol ← fieldVal j "policy"
    let req ← decReq (field j "req")
    let model : Json :=
      match guardEval o cfg pol req with
      | .ok (d, evs) => Json.mkObj [("ok", encDecision d evs)]
      | .error e => encErr e
    -- optional: the relationship-checker calls of this decision (memoised evaluation)
    let model : Json :=
      if fieldBool j "want_rel_calls" then
        let (_, st) := guardDecideM (condCtx o cfg req) cfg.consts pol
        let calls := st.trace.map fun k => Json.arr #[.str k.subject, .str k.relation, .str k.resource, encVal k.ctx]
        match model with
        | .obj _ => model.setObjVal! "rel_calls" (.arr calls.toArray)
        | m => m
      else model
    -- optional: spec predicates evaluated on the implementation's observed decision
    match field j "impl" with
    | .null => pure model
    | impl => do
      let obls ← fieldVal impl "obligations"
      let c01 : Json :=
        match Spec.c01 o cfg pol req (fieldBool impl "allowed") (fieldStr impl "effect") obls.asList with
        | some b => .bool b
        | none => .null
      let optB : Option Bool → Json := fun x => match x with | some b => .bool b | none => .null
      let rid ← fieldVal impl "rule_id"
      let pid ← fieldVal impl "policy_id"
      let reason := match field impl "reason" with | .str s => s | _ => "<null>"
      let c03 := Spec.c03 o cfg pol req (fieldStr impl "effect") reason
      let c11 := Spec.c11 o cfg pol req (fieldBool impl "allowed") (fieldStr impl "effect") rid pid reason obls.asList
      -- do the hypotheses of the C11 / C03 theorems hold of this case? (reported in the evidence: how much of the run the theorems speak about)
      let hypC11 := withinSchemaB o cfg pol req
      let hypC03 := !pol.hasKey "policies" && (pol.get "algorithm").truthy && actionOk ((condCtx o cfg req).env.get "action")
      pure (Json.mkObj [("model", model), ("spec_c01", c01), ("spec_c03", optB c03), ("spec_c11", optB c11),
                        ("hyp_c11", .bool hypC11), ("hyp_c03", .bool hypC03)])
  | "asgi" => do
    let cfg ← decCfg (field j "cfg") consts
    let pol ← fieldVal j "policy"
    let a := field j "asgi"
    let acfg : AsgiCfg := { mode := fieldStr a "mode" "enforce", hasBuilder := fieldBool a "builder", addHeaders := fieldBool a "add_headers" }
    let st ← fieldVal a "scope_type"
    let builder : Except String Request ←
      match field a "builder_raises" with
      | .str cls => pure (.error cls)
      | _ => do let r ← decReq (field j "req"); pure (.ok r)
    let engine : Request → Except String Decision := fun r =>
      match field a "engine_raises" with
      | .str cls => .error cls                      -- an engine fault injected by the harness (evaluate_async raises)
      | _ =>
        match guardEval o cfg pol r with
        | .ok (d, _) => .ok d
        | .error .typeMismatch => .error "ConditionTypeError"
        | .error (.raised cls) => .error cls
    pure (.arr ((asgiCall o acfg st builder engine).map encAction).toArray)
  | "wellformed" => do
    let pol ← fieldVal j "policy"
    pure (.bool (docWF pol))
  | "eval-policy" => do
    let pol ← fieldVal j "policy"
    let env ← fieldVal j "env"
    let cx : CondCtx := { o, env, checker := decRel (field j "rel") }
    pure (encRawRes (evaluate cx consts.interpDefault pol))
  | "eval-set" => do
    let pol ← fieldVal j "policy"
    let env ← fieldVal j "env"
    let cx : CondCtx := { o, env, checker := decRel (field j "rel") }
    pure (encRawRes (decideTree cx consts.interpDefault consts.setDefault (treeOf pol)))
  | "eval-compiled" => do
    let pol ← fieldVal j "policy"
    let env ← fieldVal j "env"
    let cx : CondCtx := { o, env, checker := decRel (field j "rel") }
    pure (encRawRes (compiledDecide cx consts pol))
  | "c02" => do
    -- reference evaluator / set evaluator next to the independent combining spec
    let pol ← fieldVal j "policy"
    let env ← fieldVal j "env"
    let cx : CondCtx := { o, env, checker := decRel (field j "rel") }
    let t := treeOf pol
    let model := decideTree cx consts.interpDefault consts.setDefault t
    let spec : Json :=
      match Spec.tree cx consts.interpDefault consts.setDefault t with
      | some r => Json.mkObj [("decision", .str r.decision), ("applicable", .bool r.applicable),
                              ("policy_id", encVal r.policyId)]
      | none => .null
    pure (Json.mkObj [("model", encRawRes model), ("spec", spec)])
  | "c04" => do
    -- condition evaluator next to the documented typing table (for single binary conditions)
    let c ← fieldVal j "cond"
    let env ← fieldVal j "env"
    let cx : CondCtx := { o, env, checker := decRel (field j "rel") }
    let typed : Json :=
      match condOf c with
      | .bin op (.list [a, b]) =>
        .bool (Spec.accepts cx.strict op (Spec.kindOf (resolve o a env)) (Spec.kindOf (resolve o b env)))
      | _ => .null
    pure (Json.mkObj [("model", condResJson (evalCond cx (condOf c))), ("typed", typed)])
  | "cond" => do
    let c ← fieldVal j "cond"
    let env ← fieldVal j "env"
    let cx : CondCtx := { o, env, checker := decRel (field j "rel") }
    pure (condResJson (evalCond cx (condOf c)))
  | "match" => do
    let rdef ← fieldVal j "rdef"
    let res ← fieldVal j "res"
    pure (.bool (matchResource o (fieldBool j "strict") rdef res))
  | "match-actions" => do
    let rule ← fieldVal j "rule"
    let action ← fieldVal j "action"
    pure (.bool (matchActions rule action))
  | "oblig" => do
    let obls ← fieldVal j "obligations"
    let ctx ← fieldVal j "ctx"
    let (ok, ch) := checkObligations o (fieldStr j "decision") obls.asList ctx
    pure (Json.mkObj [("ok", .bool ok), ("challenge", encOptStr ch)])
  | _ =>
    match extraHandlers.findSome? (fun h => h cmd j) with
    | some r => r
    | none => throw s!"unknown cmd {cmd}"

partial def loop (hin hout : IO.FS.Stream) : IO Unit := do
  let line ← hin.getLine
  if line.isEmpty then return ()
  let out :=
    match Json.parse line with
    | .error e => Json.mkObj [("driver_error", .str ("parse: " ++ e))]
    | .ok j =>
      match handle j with
      | .ok r => r
      | .error e => Json.mkObj [("driver_error", .str e)]
  hout.putStrLn out.compress
  loop hin hout

def main : IO Unit := do
  let hin ← IO.getStdin
  let hout ← IO.getStdout
  loop hin hout
  hout.flush
