import Rbacx.Model.Engine
import Rbacx.Proofs.PolicyLoop
import Rbacx.Proofs.EvaluateSpec
import Rbacx.Spec.Combining
import Rbacx.Spec.Operators
import Rbacx.Properties.C02
import Rbacx.Properties.C04
import Rbacx.Properties.C05
