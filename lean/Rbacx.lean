import Rbacx.Model.Engine
import Rbacx.Proofs.PolicyLoop
import Rbacx.Proofs.EvaluateSpec
import Rbacx.Properties.C02
import Rbacx.Proofs.Redact
import Rbacx.Proofs.RedactLog
import Rbacx.Properties.C19
