import Rbacx.Model.Engine
import Rbacx.Proofs.PolicyLoop
import Rbacx.Proofs.EvaluateSpec
import Rbacx.Properties.C02
import Rbacx.Model.Roles
import Rbacx.Proofs.Roles
import Rbacx.Spec.Roles
import Rbacx.Properties.C18
