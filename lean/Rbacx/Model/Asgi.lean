import Rbacx.Model.Engine
/-
  Rbacx.Model.Asgi — `RbacxMiddleware.__call__` of adapters/asgi.py as a function to the list of
  observable actions it performs.
-/
namespace Rbacx
open PyVal

inductive AsgiAction where
  | injectGuard
  | sendStart (status : Nat) (headers : List (String × String))
  | sendBody (body : String)
  | callDownstream
  | propagate (cls : String)
deriving Repr, DecidableEq, Inhabited

structure AsgiCfg where
  mode : String := "enforce"
  hasBuilder : Bool := true
  addHeaders : Bool := false
deriving Inhabited

/-- `json.dumps({"detail": "Forbidden"})` -/
def forbiddenBody : String := "{\"detail\": \"Forbidden\"}"

def diagHeaders (o : Oracle) (d : Decision) : List (String × String) :=
  (if d.reason != "" then [("x-rbacx-reason", d.reason)] else []) ++
  (if d.ruleId.truthy then [("x-rbacx-rule", o.pyStr d.ruleId)] else []) ++
  (if d.policyId.truthy then [("x-rbacx-policy", o.pyStr d.policyId)] else [])

def baseHeaders : List (String × String) :=
  [("content-type", "application/json; charset=utf-8"), ("content-length", toString forbiddenBody.utf8ByteSize)]

/-- `builder`: what `build_env(scope)` does — `.error cls` = it raises; `engine`: what
    `guard.evaluate_async` answers for the built request — `.error cls` = it raises -/
def asgiCall (o : Oracle) (cfg : AsgiCfg) (scopeType : PyVal) (builder : Except String Request)
    (engine : Request → Except String Decision) : List AsgiAction :=
  .injectGuard ::
  (if pyEq scopeType (.str "http") && cfg.mode == "enforce" && cfg.hasBuilder then
    match builder with
    | .error cls => [.propagate cls]
    | .ok req =>
      match engine req with
      | .error cls => [.propagate cls]
      | .ok d =>
        if !d.allowed then
          [.sendStart 403 (baseHeaders ++ (if cfg.addHeaders then diagHeaders o d else [])), .sendBody forbiddenBody]
        else [.callDownstream]
  else [.callDownstream])

end Rbacx
