/-
  Rbacx.Model.Cache — `rbacx.core.cache.DefaultInMemoryCache` as `State → Op → State × Out`
  with an injected clock.

  * state  = the `OrderedDict` `_data` as a list of entries in dict order, i.e. recency order,
    **least recently used first** (what `popitem(last=False)` pops).  `_maxsize = int(maxsize)`
    is fixed by `__init__` and may be ≤ 0; it lives in `Cfg` together with the purge prefix
    (`[:128]` in the source; `none` = the whole dict is scanned).
  * time   = `Int`.  The harness injects an *integer* clock for `time.monotonic`, so
    `now + float(ttl)` is exact; the theorems do not assume the clock is monotone unless they
    say so.
  * values = any type `V` (the cache stores references, never inspects them).
  * ops carry the clock values the call reads: `get k now` (read under the lock, only consulted
    when the entry has a deadline), `set k v ttl now₁ now₂` (`now₁` is read BEFORE the lock and
    only if `ttl` is not None and `> 0`; `now₂` is read by `_purge_expired_unlocked` inside it).

  Quirks kept: a deadline is reached AT `expires_at` (`<=`); `ttl` None/0/negative never expires;
  `get` on an expired entry removes it and touches nothing else; the purge only looks at a prefix;
  eviction happens before the purge (so a live entry can be evicted while an expired one still
  occupies a slot); with `maxsize < 0` every `set` empties the dict and then raises `KeyError`
  (`popitem` on an empty `OrderedDict`), with `maxsize = 0` it stores nothing.
-/
namespace Rbacx.Cache

abbrev Time := Int

structure Entry (V : Type) where
  key : String
  val : V
  /-- `_Entry.expires_at` (None = no deadline) -/
  exp : Option Time
deriving Repr, DecidableEq

structure Cfg where
  /-- `self._maxsize = int(maxsize)` -/
  maxsize : Int
  /-- how many leading entries `_purge_expired_unlocked` inspects (`none` = all of them) -/
  purgePrefix : Option Nat := some 128
deriving Repr, DecidableEq

inductive Op (V : Type) where
  | get (k : String) (now : Time)
  | set (k : String) (v : V) (ttl : Option Int) (now1 now2 : Time)
  | delete (k : String)
  | clear
deriving Repr, DecidableEq

inductive Out (V : Type) where
  /-- return value of `get` -/
  | got (r : Option V)
  /-- `set` / `delete` / `clear` returned None -/
  | done
  /-- `set` raised `KeyError` (only with `maxsize < 0`) -/
  | keyError
deriving Repr, DecidableEq

/-- `entry.expires_at is not None and entry.expires_at <= now` -/
def expired (e : Option Time) (now : Time) : Bool :=
  match e with
  | some t => decide (t ≤ now)
  | none => false

/-- `expires_at` as computed by `set` before it takes the lock -/
def expiry (ttl : Option Int) (now1 : Time) : Option Time :=
  match ttl with
  | some t => if 0 < t then some (now1 + t) else none
  | none => none

def keys {V : Type} (d : List (Entry V)) : List String := d.map (·.key)

/-- `self._data.get(key)` -/
def lookup {V : Type} (k : String) (d : List (Entry V)) : Option (Entry V) := d.find? (fun e => e.key == k)

/-- `self._data.pop(key, None)` -/
def remove {V : Type} (k : String) (d : List (Entry V)) : List (Entry V) := d.filter (fun e => e.key != k)

/-- `while len(self._data) > self._maxsize: self._data.popitem(last=False)` (for `maxsize < 0`
    the loop empties the dict and the next `popitem` raises; see `step`) -/
def evictLoop {α : Type} (m : Int) : List α → List α
  | [] => []
  | x :: xs => if m < ((x :: xs).length : Int) then evictLoop m xs else x :: xs

/-- `_purge_expired_unlocked` with the clock value it reads -/
def purge {V : Type} (pfx : Option Nat) (now : Time) (d : List (Entry V)) : List (Entry V) :=
  match pfx with
  | some n => (d.take n).filter (fun e => !expired e.exp now) ++ d.drop n
  | none => d.filter (fun e => !expired e.exp now)

/-- the dict right after `self._data[key] = _Entry(…); self._data.move_to_end(key)` -/
def inserted {V : Type} (d : List (Entry V)) (k : String) (v : V) (ttl : Option Int) (now1 : Time) : List (Entry V) :=
  remove k d ++ [⟨k, v, expiry ttl now1⟩]

def step {V : Type} (c : Cfg) (d : List (Entry V)) : Op V → List (Entry V) × Out V
  | .get k now =>
    match lookup k d with
    | none => (d, .got none)
    | some e =>
      if expired e.exp now then (remove k d, .got none)
      else (remove k d ++ [e], .got (some e.val))
  | .set k v ttl now1 now2 =>
    let d2 := evictLoop c.maxsize (inserted d k v ttl now1)
    if c.maxsize < 0 then ([], .keyError)
    else (purge c.purgePrefix now2 d2, .done)
  | .delete k => (remove k d, .done)
  | .clear => ([], .done)

/-- entries popped by the capacity loop of this call (nothing for ops other than `set`) -/
def capVictims {V : Type} (c : Cfg) (d : List (Entry V)) : Op V → List (Entry V)
  | .set k v ttl now1 _ =>
    let d1 := inserted d k v ttl now1
    d1.take (d1.length - c.maxsize.toNat)
  | _ => []

/-- what an observer with access to `_data` sees of one call -/
structure Obs (V : Type) where
  op : Op V
  out : Out V
  /-- `list(cache._data.keys())` after the call -/
  keys : List String
deriving Repr, DecidableEq

/-- run a history, return the final dict -/
def runFrom {V : Type} (c : Cfg) (d : List (Entry V)) : List (Op V) → List (Entry V)
  | [] => d
  | op :: ops => runFrom c (step c d op).1 ops

/-- run a history, return what was observed of every call -/
def traceFrom {V : Type} (c : Cfg) (d : List (Entry V)) : List (Op V) → List (Obs V)
  | [] => []
  | op :: ops =>
    let r := step c d op
    ⟨op, r.2, keys r.1⟩ :: traceFrom c r.1 ops

/-- a fresh cache -/
def run {V : Type} (c : Cfg) (ops : List (Op V)) : List (Entry V) := runFrom c [] ops
def trace {V : Type} (c : Cfg) (ops : List (Op V)) : List (Obs V) := traceFrom c [] ops

end Rbacx.Cache
