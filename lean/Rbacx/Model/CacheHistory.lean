/-
  Rbacx.Model.CacheHistory — engines sharing one decision cache, over histories of evaluations, policy
  replacements, manual clears and passage of time (`Guard._evaluate_core_async` cache path,
  `set_policy`, `clear_cache`).  Everything that is not about caching is abstract: policies `P`,
  environments `E` (the env includes the strict flag and the expanded roles), raw decisions `R`, final
  decisions `D`, `decide : P → E → R`, `finish : R → E → D`, the cache key `cacheKey : P → E → String`
  (policy etag ++ ":" ++ canonical JSON of the env), and the cache itself (`CacheLike`).
-/
namespace Rbacx.CacheHist

/-- any cache implementation: built-in LRU+TTL, a dict, a copying cache, … (time is passed in) -/
structure CacheLike (V : Type) where
  St : Type
  init : St
  get : St → String → Int → Option V × St
  set : St → String → V → Int → St
  clear : St → St

inductive COp (V : Type) where
  | get (k : String) (now : Int)
  | set (k : String) (v : V) (now : Int)
  | clear

def cstep {V : Type} (c : CacheLike V) (s : c.St) : COp V → c.St
  | .get k now => (c.get s k now).2
  | .set k v now => c.set s k v now
  | .clear => c.clear s

def crun {V : Type} (c : CacheLike V) (ops : List (COp V)) : c.St := ops.foldl (cstep c) c.init

/-- what actually matters for transparency: a hit was stored under that key at some point -/
def Honest {V : Type} (c : CacheLike V) : Prop :=
  ∀ (ops : List (COp V)) (k : String) (now : Int) (v : V),
    (c.get (crun c ops) k now).1 = some v → ∃ now', COp.set k v now' ∈ ops

/-- engine-level operations; `e` selects one of the engines sharing the cache -/
inductive HOp (P E : Type) where
  | eval (e : Nat) (env : E) (now : Int)
  | setPolicy (e : Nat) (p : P)
  | clearCache (e : Nat)

structure World (P E R D : Type) where
  decide : P → E → R
  finish : R → E → D
  cacheKey : P → E → String
  /-- what the cache ends up holding for a stored raw decision: the raw decision itself (copying cache) or the
      object the engine later mutates (`raw["reason"] = "obligation_failed"`, reference-storing cache) -/
  post : R → E → R

structure St (P R : Type) (c : CacheLike R) where
  pols : Nat → P
  cache : c.St
  /-- ghost: the cache operations performed so far -/
  cops : List (COp R)

/-- one operation on engines WITH the shared cache: returns the decision of an evaluation -/
def stepCached {P E R D : Type} (w : World P E R D) (c : CacheLike R) (s : St P R c) : HOp P E → St P R c × Option D
  | .eval e env now =>
    let p := s.pols e
    let key := w.cacheKey p env
    match c.get s.cache key now with
    | (some raw, cs) => ({ s with cache := cs, cops := s.cops ++ [.get key now] }, some (w.finish raw env))
    | (none, cs) =>
      let raw := w.decide p env
      let stored := w.post raw env
      ({ s with cache := c.set cs key stored now, cops := s.cops ++ [.get key now, .set key stored now] },
       some (w.finish raw env))
  | .setPolicy e p =>
    ({ pols := fun i => if i = e then p else s.pols i, cache := c.clear s.cache, cops := s.cops ++ [.clear] }, none)
  | .clearCache _ => ({ s with cache := c.clear s.cache, cops := s.cops ++ [.clear] }, none)

/-- the same operation on engines WITHOUT a cache -/
def stepPlain {P E R D : Type} (w : World P E R D) (pols : Nat → P) : HOp P E → (Nat → P) × Option D
  | .eval e env _ => (pols, some (w.finish (w.decide (pols e) env) env))
  | .setPolicy e p => (fun i => if i = e then p else pols i, none)
  | .clearCache _ => (pols, none)

def runCached {P E R D : Type} (w : World P E R D) (c : CacheLike R) : St P R c → List (HOp P E) → List (Option D)
  | _, [] => []
  | s, op :: ops => (stepCached w c s op).2 :: runCached w c (stepCached w c s op).1 ops

def runPlain {P E R D : Type} (w : World P E R D) : (Nat → P) → List (HOp P E) → List (Option D)
  | _, [] => []
  | pols, op :: ops => (stepPlain w pols op).2 :: runPlain w (stepPlain w pols op).1 ops

end Rbacx.CacheHist
