/-
  Rbacx.Model.CacheLock — threads calling the methods of one object whose shared field is guarded by
  one lock (`DefaultInMemoryCache._data` under `self._lock`).

  What is extracted from the source (`Generated.cacheMethods`): for every public method the list of
  its accesses to `self._data` in program order (helpers inlined at their call sites), each with
  the flag "lies syntactically inside THE `with self._lock:` block of the method" (the extractor
  sets the flag to false for an access in a second `with` block or in a `with` block inside a loop,
  so a run of consecutive flagged accesses is one critical section).

  The semantics below is a plain interleaving semantics at the granularity of single accesses:
  a scheduler picks a thread, the thread performs its next access.  A flagged access needs the
  lock (free, or already held by the same thread: `RLock`); the thread keeps the lock exactly while
  its next access of the same call is flagged too.  Unflagged accesses run whenever scheduled,
  whoever holds the lock – that is what a data race is.  What an access *does* is an arbitrary
  function of the shared state and the thread's local state: the theorem `c15_atomic_ops`
  quantifies over all of them, so it does not depend on how a method body decomposes.

  Trusted, not modelled: that `threading.RLock` is a correct mutex and that a `with` block releases it.
-/
namespace Rbacx.Cache.Lock

/-- extraction format: `(method, [(access, underLock)])` -/
abbrev MethodDesc := String × List (String × Bool)

/-- every access of every method happens while the method holds the one lock -/
def AllUnderLock (ms : List MethodDesc) : Bool := ms.all fun m => m.2.all (·.2)

/-- one access to the shared state by a running call; `L` is the calling thread's local state
    (arguments, clock values read, results collected) -/
structure Micro (S L : Type) where
  underLock : Bool
  f : S → L → S × L

/-- one method call: its accesses in program order (at least one) -/
structure Call (S L : Type) where
  method : String
  first : Micro S L
  rest : List (Micro S L)

def Call.body {S L : Type} (c : Call S L) : List (Micro S L) := c.first :: c.rest

structure Thread (S L : Type) where
  /-- remaining accesses of the call in progress (`[]` = between calls) -/
  cur : List (Micro S L)
  /-- calls not started yet -/
  todo : List (Call S L)
  loc : L

structure Conf (S L : Type) where
  sh : S
  /-- who holds the lock -/
  lock : Option Nat
  th : Nat → Thread S L

def upd {α : Type} (f : Nat → α) (i : Nat) (x : α) : Nat → α := fun j => if j = i then x else f j

/-- the next access of a thread and the thread after taking it -/
def Thread.next {S L : Type} (t : Thread S L) : Option (Micro S L × Thread S L) :=
  match t.cur, t.todo with
  | μ :: r, _ => some (μ, { t with cur := r })
  | [], c :: cs => some (c.first, { t with cur := c.rest, todo := cs })
  | [], [] => none

def headLocked {S L : Type} : List (Micro S L) → Bool
  | ν :: _ => ν.underLock
  | [] => false

/-- thread `i` is scheduled: it performs its next access if it may -/
def stepThread {S L : Type} (cf : Conf S L) (i : Nat) : Conf S L :=
  match (cf.th i).next with
  | none => cf
  | some (μ, t') =>
    if μ.underLock && !(cf.lock == none || cf.lock == some i) then cf   -- blocked on the lock
    else
      let r := μ.f cf.sh t'.loc
      { sh := r.1,
        th := upd cf.th i { t' with loc := r.2 },
        lock := if μ.underLock then (if headLocked t'.cur then some i else none) else cf.lock }

/-- an arbitrary schedule -/
def exec {S L : Type} (cf : Conf S L) (sched : List Nat) : Conf S L := sched.foldl stepThread cf

/-- a whole call body run without interruption -/
def runMicros {S L : Type} (sh : S) (loc : L) : List (Micro S L) → S × L
  | [] => (sh, loc)
  | μ :: r => runMicros (μ.f sh loc).1 (μ.f sh loc).2 r

/-- thread `i` performs its next call as ONE step -/
def stepAtomic {S L : Type} (cf : Conf S L) (i : Nat) : Conf S L :=
  match (cf.th i).todo with
  | [] => cf
  | c :: cs =>
    let r := runMicros cf.sh (cf.th i).loc c.body
    { sh := r.1, lock := none, th := upd cf.th i { cur := [], todo := cs, loc := r.2 } }

/-- a sequential history: whole calls, one after the other -/
def execAtomic {S L : Type} (cf : Conf S L) (order : List Nat) : Conf S L := order.foldl stepAtomic cf

/-- let the lock holder (if any) finish its call -/
def complete {S L : Type} (cf : Conf S L) : Conf S L :=
  match cf.lock with
  | none => cf
  | some i =>
    let r := runMicros cf.sh (cf.th i).loc (cf.th i).cur
    { sh := r.1, lock := none, th := upd cf.th i { (cf.th i) with cur := [], loc := r.2 } }

/-- nobody is inside a call -/
def Quiet {S L : Type} (cf : Conf S L) : Prop := cf.lock = none ∧ ∀ i, (cf.th i).cur = []

/-- the calls the threads will make are calls of the described methods, access flags as extracted -/
def Conforms {S L : Type} (desc : List MethodDesc) (cf : Conf S L) : Prop :=
  ∀ i, ∀ c ∈ (cf.th i).todo, ∃ accs, (c.method, accs) ∈ desc ∧ c.body.map (·.underLock) = accs.map (·.2)

end Rbacx.Cache.Lock
