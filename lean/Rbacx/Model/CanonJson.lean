import Rbacx.Model.Value
/-
  Rbacx.Model.CanonJson — the canonical serialiser behind the decision-cache key.

  `Guard._normalize_env_for_cache(env)` is
      json.dumps(env, sort_keys=True, separators=(",", ":"), default=str, ensure_ascii=False)
  and the cache key is `f"{etag}:{that}"` (`Guard._cache_key`, core/engine.py).

  This file transcribes CPython's encoder on the JSON-valued, float-free, datetime-free part of
  `PyVal` (json/encoder.py: `py_encode_basestring`, `_make_iterencode` with `_sort_keys`; the C
  accelerator computes the same text):

    None → null,  True/False → true/false,  int → `int.__repr__` (decimal, leading `-`),
    str  → `"` … `"` with  `"`→`\"`, `\`→`\\`, `\n \r \t \b \f` short escapes, every other char
           below 0x20 → `\u00XX` (lower-case hex), everything else verbatim (ensure_ascii=False;
           U+007F, non-ASCII and astral characters are NOT escaped),
    list → `[a,b]`,  dict → `{"k":v,…}` with `sorted(d.items())` = keys in code-point order
           (keys are unique in a Python dict, so values are never compared).

  The model is written as  canon = enc ∘ norm :  `norm` sorts the entries of every dict (at every
  depth) by key, `enc` prints a value in the order given.  Sorting a dict's items and then encoding
  its values recursively — what CPython does — is the same thing, level by level.

  Out of scope (oracle behaviour in CPython): floats (`float.__repr__`, `NaN`/`Infinity`) and
  datetimes (`default=str`).  `floatFree` carves them out; `canonJson` answers `none` there.
  Also outside: ints of more than 4300 digits (CPython ≥ 3.11 raises ValueError in `int.__repr__`,
  and the engine then falls back to `repr(env)`), lone surrogates (not a Lean `Char`), non-`str`
  dict keys (not a `PyVal`).

  Everything works over `List Char`, by structural recursion, so it reduces in the kernel.
-/
namespace Rbacx

/-! ### strings (`py_encode_basestring`) -/

/-- `ESCAPE_DCT` for `ensure_ascii=False`: what one character becomes inside the quotes -/
def escChar (c : Char) : List Char :=
  if c = '"' then ['\\', '"']
  else if c = '\\' then ['\\', '\\']
  else if c = '\n' then ['\\', 'n']
  else if c = '\r' then ['\\', 'r']
  else if c = '\t' then ['\\', 't']
  else if c = '\x08' then ['\\', 'b']
  else if c = '\x0c' then ['\\', 'f']
  else if c.toNat < 0x20 then
    ['\\', 'u', '0', '0', Nat.digitChar (c.toNat / 16), Nat.digitChar (c.toNat % 16)]
  else [c]

def escStr : List Char → List Char
  | [] => []
  | c :: cs => escChar c ++ escStr cs

/-- `'"' + ESCAPE.sub(replace, s) + '"'` -/
def quoteStr (cs : List Char) : List Char := '"' :: (escStr cs ++ ['"'])

/-! ### ints (`int.__repr__`) -/

def encInt : Int → List Char
  | .ofNat n => Nat.toDigits 10 n
  | .negSucc n => '-' :: Nat.toDigits 10 (n + 1)

/-! ### the encoder proper: prints the entries of a dict in the order given -/

mutual
def enc : PyVal → List Char
  | .none => ['n', 'u', 'l', 'l']
  | .bool true => ['t', 'r', 'u', 'e']
  | .bool false => ['f', 'a', 'l', 's', 'e']
  | .int n => encInt n
  | .str s => quoteStr s.toList
  | .list xs => '[' :: encL0 xs
  | .dict kvs => '{' :: encD0 kvs
  -- outside the domain (`floatFree`): CPython prints `float.__repr__` / `str(datetime)` here
  | .float _ => []
  | .dt _ _ => []
/-- the elements of a list after `[` -/
def encL0 : List PyVal → List Char
  | [] => [']']
  | x :: xs => enc x ++ encL xs
/-- the elements of a list after the first one -/
def encL : List PyVal → List Char
  | [] => [']']
  | x :: xs => ',' :: (enc x ++ encL xs)
/-- the entries of a dict after `{` -/
def encD0 : List (String × PyVal) → List Char
  | [] => ['}']
  | (k, v) :: kvs => quoteStr k.toList ++ ':' :: (enc v ++ encD kvs)
/-- the entries of a dict after the first one -/
def encD : List (String × PyVal) → List Char
  | [] => ['}']
  | (k, v) :: kvs => ',' :: (quoteStr k.toList ++ ':' :: (enc v ++ encD kvs))
end

/-! ### `sort_keys=True`: code-point order on the keys, insertion sort -/

/-- Python's `<` on `str`: lexicographic by code point, a proper prefix is smaller -/
def ltChars : List Char → List Char → Bool
  | _, [] => false
  | [], _ :: _ => true
  | a :: as, b :: bs => decide (a.toNat < b.toNat) || (a.toNat == b.toNat && ltChars as bs)

/-- insert before the first entry whose key is not smaller (stable) -/
def insKV (e : String × PyVal) : List (String × PyVal) → List (String × PyVal)
  | [] => [e]
  | f :: r => if ltChars f.1.toList e.1.toList then f :: insKV e r else e :: f :: r

def sortKV : List (String × PyVal) → List (String × PyVal)
  | [] => []
  | e :: r => insKV e (sortKV r)

/-! ### normal form: every dict, at every depth, sorted by key -/

mutual
def norm : PyVal → PyVal
  | .list xs => .list (normL xs)
  | .dict kvs => .dict (sortKV (normD kvs))
  | v => v
def normL : List PyVal → List PyVal
  | [] => []
  | x :: xs => norm x :: normL xs
def normD : List (String × PyVal) → List (String × PyVal)
  | [] => []
  | (k, v) :: kvs => (k, norm v) :: normD kvs
end

/-! ### the domain -/

mutual
/-- no `float`, no `datetime` anywhere in the value -/
def floatFree : PyVal → Bool
  | .float _ => false
  | .dt _ _ => false
  | .list xs => floatFreeL xs
  | .dict kvs => floatFreeD kvs
  | _ => true
def floatFreeL : List PyVal → Bool
  | [] => true
  | x :: xs => floatFree x && floatFreeL xs
def floatFreeD : List (String × PyVal) → Bool
  | [] => true
  | (_, v) :: kvs => floatFree v && floatFreeD kvs
end

mutual
/-- no dict, at any depth, lists a key twice (a Python dict cannot) -/
def noDupKeys : PyVal → Bool
  | .list xs => noDupKeysL xs
  | .dict kvs => noDupKeysD kvs
  | _ => true
def noDupKeysL : List PyVal → Bool
  | [] => true
  | x :: xs => noDupKeys x && noDupKeysL xs
def noDupKeysD : List (String × PyVal) → Bool
  | [] => true
  | (k, v) :: kvs => (PyVal.lookup k kvs).isNone && noDupKeys v && noDupKeysD kvs
end

/-! ### the serialiser -/

/-- `json.dumps(v, sort_keys=True, separators=(",", ":"), ensure_ascii=False)` as code points (total; meaningful on
    `floatFree` values) -/
def canonChars (v : PyVal) : List Char := enc (norm v)

/-- the same with the domain made explicit: `none` outside the float-free, datetime-free values -/
def canonJson (v : PyVal) : Option (List Char) := if floatFree v then some (canonChars v) else none

/-- `Guard._cache_key`: `f"{etag}:{canonical env}"` -/
def cacheKeyOf (etag : String) (env : PyVal) : Option String :=
  (canonJson env).map fun cs => etag ++ ":" ++ String.ofList cs

/-! ### equality up to the order of dict entries, at every depth

  This is Python's `==` on JSON-shaped values without the numeric-tower identification (`1 == True == 1.0` is NOT
  made here): lists element-wise, dicts as key→value maps.  On duplicate-free dicts "same length and every entry of
  the left is an entry of the right" is "same set of items". -/

mutual
def permEq : PyVal → PyVal → Bool
  | .none, .none => true
  | .bool a, .bool b => a == b
  | .int a, .int b => a == b
  | .float a, .float b => a.toBits == b.toBits
  | .str a, .str b => a == b
  | .list xs, .list ys => permEqL xs ys
  | .dict xs, .dict ys => xs.length == ys.length && permEqD xs ys
  | .dt a1 m1, .dt a2 m2 => a1 == a2 && m1 == m2
  | _, _ => false
def permEqL : List PyVal → List PyVal → Bool
  | [], [] => true
  | x :: xs, y :: ys => permEq x y && permEqL xs ys
  | _, _ => false
/-- every entry of the left dict has an equivalent entry under the same key on the right -/
def permEqD : List (String × PyVal) → List (String × PyVal) → Bool
  | [], _ => true
  | (k, v) :: rest, ys =>
    (match PyVal.lookup k ys with
     | some w => permEq v w
     | Option.none => false) && permEqD rest ys
end

/-- `a ≃ b`: equal up to the order of dict entries at every depth -/
def PermEq (a b : PyVal) : Prop := permEq a b = true

@[inherit_doc] scoped infix:50 " ≃ " => PermEq

instance (a b : PyVal) : Decidable (a ≃ b) := inferInstanceAs (Decidable (permEq a b = true))

end Rbacx
