import Rbacx.Model.PolicySet
/-
  Rbacx.Model.Compiler — `compile` of core/compiler.py: action index, specificity buckets,
  then the reference evaluator on the selected bucket.
-/
namespace Rbacx
open PyVal

/-- the constants the model takes from the source on every run (extracted into Generated.lean) -/
structure Consts where
  interpDefault : String
  setDefault : String
  compilerDefault : String
  lintDefault : String
deriving Repr, DecidableEq, Inhabited

/-- `_actions(rule)` -/
def compActions (rule : PyVal) : List String := (actionStrings (rule.get "actions")).getD []

/-- `_resource_types(rule)`: `none` = wildcard -/
def resourceTypes (rule : PyVal) : List (Option String) :=
  let r := por (rule.get "resource") (.dict [])
  match r.get "type" with
  | .none => [Option.none]
  | .str t => if t == "*" then [Option.none] else [some t]
  | .list xs =>
    let out := xs.filterMap fun x =>
      match x with
      | .str s => some (if s == "*" then Option.none else some s)
      | _ => Option.none
    if out.isEmpty then [Option.none] else out
  | _ => [Option.none]

def hasId (rule : PyVal) : Bool := !((por (rule.get "resource") (.dict [])).get "id").isNone

def hasAttrs (rule : PyVal) : Bool :=
  match attrsOf (por (rule.get "resource") (.dict [])) with
  | .dict kvs => !kvs.isEmpty
  | _ => false

/-- `_categorize(rule, res_type)` -/
def categorize (rule : PyVal) (resType : Option String) : Option Nat :=
  let rtypes := resourceTypes rule
  if !(rtypes.contains resType || rtypes.contains Option.none) then Option.none
  else if rtypes.contains resType && hasId rule then some 0
  else if rtypes.contains resType && hasAttrs rule then some 1
  else if rtypes.contains resType then some 2
  else some 3

/-- is the rule an action candidate for the (stringified) request action -/
def isCandidate (rule : PyVal) (action : String) : Bool :=
  let acts := compActions rule
  acts.contains "*" || acts.contains action

/-- the rules of bucket `i` among the candidates, in document order -/
def bucket (cands : List PyVal) (resType : Option String) (i : Nat) : List PyVal :=
  cands.filter fun r => categorize r resType == some i

/-- the first bucket (0..3) that holds a rule matching the request's resource target -/
def selectBucket (o : Oracle) (strict : Bool) (cands : List PyVal) (resType : Option String) (res : PyVal) :
    List PyVal :=
  let eligible (i : Nat) : Bool :=
    (bucket cands resType i).any fun r => matchResource o strict (por (r.get "resource") (.dict [])) res
  match [0, 1, 2, 3].find? eligible with
  | some i => bucket cands resType i
  | Option.none => []

/-- the function returned by `compile(policy)` applied to `env` -/
def compiledDecide (cx : CondCtx) (c : Consts) (policy : PyVal) : Except CondErr Raw :=
  if policy.hasKey "policies" then decideTree cx c.interpDefault c.setDefault (treeOf policy)
  else
    match lowerField (policy.get "algorithm") c.compilerDefault with
    | .error e => .error e
    | .ok algo =>
      let actionVal := cx.env.get "action"
      let action := if actionVal.isNone then "" else cx.o.pyStr actionVal
      let res := por (cx.env.get "resource") (.dict [])
      let rt := res.get "type"
      let resType : Option String := if rt.isNone then Option.none else some (cx.o.pyStr rt)
      let cands := (rulesOf policy).filter (isCandidate · action)
      let selected := selectBucket cx.o (isStrict cx.env) cands resType res
      match rulesLoop cx algo {} selected with
      | .error e => .error e
      | .ok s => .ok (finalise algo s)

end Rbacx
