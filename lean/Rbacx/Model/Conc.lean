/-
  Rbacx.Model.Conc — small-step interleaving semantics of `Guard` evaluations and `set_policy`
  calls on one engine with a decision cache (core/engine.py after the F7 repair).

  Shared state: `pol` (the policy object), `etag` (`policy_etag`), `fn` (the policy the compiled function
  was built from), `gen` (`_policy_gen`), the lock `_policy_lock`, the cache.  A thread executes a list
  of calls sequentially; a call is an evaluation of some request key or a `set_policy(p)`.  One step of a
  thread performs the next *shared access* of its current call (local computation is folded into it):

    evaluation:  acquire · gen₀ := gen · release · tag := etag · cache.get(tag,key) [hit ⇒ return]
                 · f := fn · (d := decide f key) · acquire · if gen = gen₀ then cache.set((tag,key), d) · release ⇒ return d
    set_policy:  acquire · gen += 1 · pol := p · etag := tagOf p · fn := p · cache.clear() · release

  The order of these accesses is what harness/extractors/guard_trace.py records from the real Guard on
  every run (`Generated.guardPrograms`); `Run/C09_shape.lean` checks it is this one.
  Policies are `Nat` ids, `tagOf` their etag, `decide p k` the raw decision of policy `p` on request `k`.
-/
namespace Rbacx.Conc

abbrev Pol := Nat
abbrev Key := Nat
abbrev Dec := Nat

structure World where
  tagOf : Pol → Nat
  decide : Pol → Key → Dec

inductive Call where
  | eval (k : Key)
  | setPolicy (p : Pol)
deriving Repr, DecidableEq

/-- program counter of the call in progress -/
inductive Pc where
  | idle                                        -- between calls
  -- evaluation
  | eAcq1 (k : Key)
  | eGen (k : Key)
  | eRel1 (k : Key) (g0 : Nat)
  | eTag (k : Key) (g0 : Nat)
  | eGet (k : Key) (g0 tag : Nat)
  | eFn (k : Key) (g0 tag : Nat)
  | eAcq2 (k : Key) (g0 tag : Nat) (f : Pol)
  | eSet (k : Key) (g0 tag : Nat) (f : Pol)
  | eRel2 (k : Key) (d : Dec)
  -- set_policy
  | uAcq (p : Pol)
  | uGen (p : Pol)
  | uPol (p : Pol)
  | uTag (p : Pol)
  | uFn (p : Pol)
  | uClear (p : Pol)
  | uRel (p : Pol)
deriving Repr, DecidableEq

/-- a returned decision with ghost data: the ghost clock at which the call started and whether any `set_policy`
    call was inside its critical section at that moment -/
structure Ret where
  key : Key
  dec : Dec
  startClock : Nat
  startClean : Bool
  /-- ghost: the value of `pol` and of `lastUpd` when the call returned -/
  polAtReturn : Pol
  lastUpdAtReturn : Nat
deriving Repr

structure Thread where
  pc : Pc := .idle
  todo : List Call := []
  /-- decisions returned so far (most recent last) -/
  returned : List Ret := []
  /-- ghost: clock value and cleanliness when the call in progress started -/
  startClock : Nat := 0
  startClean : Bool := true
deriving Repr

structure State where
  pol : Pol
  etag : Nat
  fn : Pol
  gen : Nat := 0
  lock : Option Nat := none
  cache : List ((Nat × Key) × Dec) := []
  threads : Nat → Thread
  /-- ghost: every value `pol` ever had, oldest first -/
  hist : List Pol
  /-- ghost: a `set_policy` call is between its generation bump and its release (shared fields may be torn) -/
  dirty : Bool := false
  /-- ghost: number of steps taken so far, and the clock of the most recent step of any `set_policy` call -/
  clock : Nat := 0
  lastUpd : Nat := 0

def cacheGet (c : List ((Nat × Key) × Dec)) (tag : Nat) (k : Key) : Option Dec :=
  (c.find? (fun e => e.1 == (tag, k))).map (·.2)

def setThread (s : State) (t : Nat) (th : Thread) : State :=
  { s with threads := fun i => if i = t then th else s.threads i }

def isUpd : Pc → Bool
  | .uAcq _ | .uGen _ | .uPol _ | .uTag _ | .uFn _ | .uClear _ | .uRel _ => true
  | _ => false

/-- the behavioural part of one step of thread `t` (a blocked or finished thread does nothing) -/
def stepCore (w : World) (s : State) (t : Nat) : State :=
  let th := s.threads t
  match th.pc with
  | .idle =>
    match th.todo with
    | [] => s
    | .eval k :: rest =>
      setThread s t { th with pc := .eAcq1 k, todo := rest, startClock := s.clock, startClean := !s.dirty }
    | .setPolicy p :: rest => setThread s t { th with pc := .uAcq p, todo := rest }
  | .eAcq1 k => if s.lock.isNone then setThread { s with lock := some t } t { th with pc := .eGen k } else s
  | .eGen k => setThread s t { th with pc := .eRel1 k s.gen }
  | .eRel1 k g0 => setThread { s with lock := none } t { th with pc := .eTag k g0 }
  | .eTag k g0 => setThread s t { th with pc := .eGet k g0 s.etag }
  | .eGet k g0 tag =>
    match cacheGet s.cache tag k with
    | some d => setThread s t { th with pc := .idle, returned := th.returned ++ [⟨k, d, th.startClock, th.startClean, s.pol, s.lastUpd⟩] }
    | none => setThread s t { th with pc := .eFn k g0 tag }
  | .eFn k g0 tag => setThread s t { th with pc := .eAcq2 k g0 tag s.fn }
  | .eAcq2 k g0 tag f => if s.lock.isNone then setThread { s with lock := some t } t { th with pc := .eSet k g0 tag f } else s
  | .eSet k g0 tag f =>
    let d := w.decide f k
    let s' := if s.gen = g0 then { s with cache := ((tag, k), d) :: s.cache } else s
    setThread s' t { th with pc := .eRel2 k d }
  | .eRel2 k d =>
    setThread { s with lock := none } t
      { th with pc := .idle, returned := th.returned ++ [⟨k, d, th.startClock, th.startClean, s.pol, s.lastUpd⟩] }
  | .uAcq p => if s.lock.isNone then setThread { s with lock := some t } t { th with pc := .uGen p } else s
  | .uGen p => setThread { s with gen := s.gen + 1, dirty := true } t { th with pc := .uPol p }
  | .uPol p => setThread { s with pol := p, hist := s.hist ++ [p] } t { th with pc := .uTag p }
  | .uTag p => setThread { s with etag := w.tagOf p } t { th with pc := .uFn p }
  | .uFn p => setThread { s with fn := p } t { th with pc := .uClear p }
  | .uClear p => setThread { s with cache := [] } t { th with pc := .uRel p }
  | .uRel _ => setThread { s with lock := none, dirty := false } t { th with pc := .idle }

/-- one step of thread `t`, with the ghost clock -/
def step (w : World) (s : State) (t : Nat) : State :=
  let wasUpd := isUpd (s.threads t).pc
  let s' := stepCore w s t
  { s' with clock := s.clock + 1, lastUpd := if wasUpd || isUpd (s'.threads t).pc then s.clock + 1 else s.lastUpd }

def run (w : World) (s : State) (sched : List Nat) : State := sched.foldl (step w) s

/-- initial state: policy `p0` installed consistently, empty cache, every thread with its list of calls -/
def init (w : World) (p0 : Pol) (progs : Nat → List Call) : State :=
  { pol := p0, etag := w.tagOf p0, fn := p0, threads := fun i => { todo := progs i }, hist := [p0] }

end Rbacx.Conc

namespace Rbacx.Conc

/-- the access order the model runs, in the vocabulary of the tracer (harness/extractors/guard_trace.py);
    the updater's reads of the policy object it has just written are not shared steps -/
def expectedEvalMiss : List String :=
  ["acq", "rd _policy_gen", "rel", "rd policy_etag", "cache.get", "rd _compiled", "acq", "rd _policy_gen", "cache.set", "rel"]
def expectedEvalHit : List String := ["acq", "rd _policy_gen", "rel", "rd policy_etag", "cache.get"]
def expectedSetPolicy : List String :=
  ["acq", "rd _policy_gen", "wr _policy_gen", "wr policy", "wr policy_etag", "wr _compiled", "cache.clear", "rel"]

def ShapeOk (miss hit upd : List String) : Bool :=
  miss == expectedEvalMiss && hit == expectedEvalHit && upd.filter (· != "rd policy") == expectedSetPolicy

end Rbacx.Conc
