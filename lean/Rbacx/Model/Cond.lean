import Rbacx.Model.Target
/-
  Rbacx.Model.Cond — `resolve` and `eval_condition` of core/policy.py.

  `parseCond` mirrors the `if "<op>" in cond` chain (same order, so multi-key dicts dispatch as in
  the code) and produces a small AST; `evalCond` is structural recursion over that AST and
  returns `Except CondErr Bool`: `typeMismatch` is `ConditionTypeError`, `raised cls` any other
  exception (which `evaluate` does not catch).
-/
namespace Rbacx
open PyVal

inductive CondErr where
  | typeMismatch
  | raised (cls : String)
deriving Repr, DecidableEq, Inhabited

abbrev CondRes := Except CondErr Bool

inductive BinOp where
  | eq | ne | gt | lt | ge | le | contains | isIn | hasAll | hasAny
  | startsWith | endsWith | before | after | between
deriving Repr, DecidableEq, Inhabited

def BinOp.key : BinOp → String
  | .eq => "==" | .ne => "!=" | .gt => ">" | .lt => "<" | .ge => ">=" | .le => "<="
  | .contains => "contains" | .isIn => "in" | .hasAll => "hasAll" | .hasAny => "hasAny"
  | .startsWith => "startsWith" | .endsWith => "endsWith"
  | .before => "before" | .after => "after" | .between => "between"

/-- the order in which `eval_condition` tests for operator keys (after `rel`) -/
def binOpsInOrder : List BinOp :=
  [.eq, .ne, .gt, .lt, .ge, .le, .contains, .isIn, .hasAll, .hasAny,
   .startsWith, .endsWith, .before, .after, .between]

inductive Cond where
  /-- a non-dict condition: `bool(cond)` -/
  | lit (v : PyVal)
  | rel (expr : PyVal)
  | bin (op : BinOp) (operands : PyVal)
  /-- `none`: the operand of `and`/`or` is not iterable -/
  | all (subs : Option (List Cond))
  | any (subs : Option (List Cond))
  | not (c : Cond)
  /-- a dict with none of the known keys: `False` -/
  | unknown
deriving Inhabited

/-- iterate the operand of `and` / `or`, translating list items with `f` -/
def parseSubsWith (f : PyVal → Cond) : PyVal → Option (List Cond)
  | .list xs => some (xs.map f)
  | .str s => some (s.toList.map fun ch => .lit (.str (String.ofList [ch])))
  | .dict kvs => some (kvs.map fun kv => .lit (.str kv.1))
  | _ => Option.none

/-- fuel-bounded translation of a condition document (fuel = its size suffices) -/
def parseCond : Nat → PyVal → Cond
  | 0, _ => .unknown
  | fuel + 1, c =>
    match c with
    | .dict _ =>
      if c.hasKey "rel" then .rel (c.get "rel")
      else match binOpsInOrder.find? (fun op => c.hasKey op.key) with
        | some op => .bin op (c.get op.key)
        | Option.none =>
          if c.hasKey "and" then .all (parseSubsWith (parseCond fuel) (c.get "and"))
          else if c.hasKey "or" then .any (parseSubsWith (parseCond fuel) (c.get "or"))
          else if c.hasKey "not" then .not (parseCond fuel (c.get "not"))
          else .unknown
    | v => .lit v

def condOf (c : PyVal) : Cond := parseCond (c.size + 1) c

/-! ### resolve -/

/-- one step of the dotted-path walk: `.get` on dicts; anything else yields `None`
    (the code falls back to `getattr`, excluded from the model's domain – DESIGN §2.1 ii) -/
def stepPath (cur : PyVal) (seg : String) : PyVal := cur.get seg

/-- `resolve(token, env)` -/
def resolve (o : Oracle) (token env : PyVal) : PyVal :=
  if token.isDict && token.hasKey "attr" then
    (splitStr '.' (o.pyStr (token.get "attr"))).foldl stepPath env
  else token

/-! ### operand helpers -/

/-- `a, b = x` -/
def unpack2 : PyVal → Except CondErr (PyVal × PyVal)
  | .list [a, b] => .ok (a, b)
  | .list _ => .error (.raised "ValueError")
  | .str s =>
    (match s.toList with
     | [a, b] => .ok (.str (String.ofList [a]), .str (String.ofList [b]))
     | _ => .error (.raised "ValueError"))
  | .dict [(a, _), (b, _)] => .ok (.str a, .str b)
  | .dict _ => .error (.raised "ValueError")
  | _ => .error (.raised "TypeError")

/-- `float(x)` for an int: `none` = OverflowError -/
def intToFloat? (n : Int) : Option Float :=
  let f := Float.ofInt n
  if f.isInf then Option.none else some f

/-- `_ensure_numeric_strict` followed by the float conversions -/
def numericPair (a b : PyVal) : Except CondErr (Float × Float) :=
  let conv : PyVal → Option Float
    | .int n => intToFloat? n
    | .float f => some f
    | _ => Option.none
  if a.isBool || b.isBool then .error .typeMismatch
  else if a.isNumber && b.isNumber then
    match conv a, conv b with
    | some x, some y => .ok (x, y)
    | _, _ => .error .typeMismatch
  else .error .typeMismatch

/-- `_parse_dt(x, strict)` as a UTC instant in µs -/
def parseDt (o : Oracle) (strict : Bool) (x : PyVal) : Except CondErr Int :=
  if strict then
    match x with
    | .dt true m => .ok m
    | _ => .error .typeMismatch
  else
    match x with
    | .dt _ m => .ok m
    | .int _ | .float _ =>
      (match o.epochInstant x with
       | some m => .ok m
       | Option.none => .error .typeMismatch)
    | .str s =>
      (match o.isoInstant s with
       | some m => .ok m
       | Option.none => .error .typeMismatch)
    | _ => .error .typeMismatch

/-! ### rel -/

/-- key of one relationship lookup: canonical subject, relation, canonical resource, merged ctx -/
structure RelKey where
  subject : String
  relation : String
  resource : String
  ctx : PyVal
deriving Inhabited

/-- the configured relationship checker seen as a function of the lookup; `none` = raises / times out -/
abbrev RelChecker := RelKey → Option Bool

/-- `_canon_subject` -/
def canonSubject (o : Oracle) (env override : PyVal) : String :=
  let dflt :=
    let sid := (env.get "subject").get "id"
    if sid.isNone then "user:" else "user:" ++ o.pyStr sid
  if override.isNone then dflt
  else match resolve o override env with
    | .str v => if v.toList.contains ':' then v else "user:" ++ v
    | _ => dflt

/-- `_canon_resource` -/
def canonResource (o : Oracle) (env override : PyVal) : String :=
  let r := env.get "resource"
  let rtype := o.pyStr (por (r.get "type") (.str "object"))
  let dflt :=
    let rid := r.get "id"
    if rid.isNone then rtype ++ ":" else rtype ++ ":" ++ o.pyStr rid
  if override.isNone then dflt
  else match resolve o override env with
    | .str v => if v.toList.contains ':' then v else rtype ++ ":" ++ v
    | _ => dflt

/-- `dict(x or {})` -/
def dictOf (x : PyVal) : Except CondErr (List (String × PyVal)) :=
  if !x.truthy then .ok []
  else match x with
    | .dict kvs => .ok kvs
    | _ => .error (.raised "TypeError")

/-- `d.update(e)`: existing keys keep their position, new keys are appended -/
def dictUpdate (d e : List (String × PyVal)) : List (String × PyVal) :=
  e.foldl (fun acc kv =>
    if (lookup kv.1 acc).isSome then acc.map (fun kv' => if kv'.1 = kv.1 then (kv'.1, kv.2) else kv')
    else acc ++ [kv]) d

/-- what a `rel` node asks: `.ok none` = the node is `False` without consulting the checker -/
def relQuery (o : Oracle) (expr env : PyVal) : Except CondErr (Option RelKey) :=
  let build (relation subject resource : String) (localCtx : PyVal) : Except CondErr (Option RelKey) :=
    if relation == "" then .ok Option.none
    else do
      let base ← dictOf ((por (env.get "context") (.dict [])).get "_rebac")
      let merged ← if localCtx.truthy then (do let l ← dictOf localCtx; pure (dictUpdate base l)) else pure base
      pure (some { subject, relation, resource, ctx := .dict merged })
  match expr with
  | .str s => build s (canonSubject o env .none) (canonResource o env .none) .none
  | .dict _ =>
    build (o.pyStr (por (expr.get "relation") (.str "")))
      (canonSubject o env (expr.get "subject")) (canonResource o env (expr.get "resource")) (expr.get "ctx")
  | _ => .ok Option.none

/-! ### the evaluator (pure: no memo; the memoised version is in `RelMemo.lean`) -/

structure CondCtx where
  o : Oracle
  env : PyVal
  checker : Option RelChecker

def CondCtx.strict (c : CondCtx) : Bool := isStrict c.env

def evalBin (cx : CondCtx) (op : BinOp) (operands : PyVal) : CondRes := do
  let (a, b) ← unpack2 operands
  let x := resolve cx.o a cx.env
  let y := resolve cx.o b cx.env
  match op with
  | .eq => pure (pyEq x y)
  | .ne => pure (!pyEq x y)
  | .gt => do let (m, n) ← numericPair x y; pure (m > n)
  | .lt => do let (m, n) ← numericPair x y; pure (m < n)
  | .ge => do let (m, n) ← numericPair x y; pure (m >= n)
  | .le => do let (m, n) ← numericPair x y; pure (m <= n)
  | .contains =>
    (match x, y with
     | .list xs, _ => pure (pyIn y xs)
     | .str s, .str t => pure (strContains s t)
     | _, _ => throw .typeMismatch)
  | .isIn =>
    (match x, y with
     | .list xs, .list ys => pure (ys.any fun v => pyIn v xs)
     | _, .list ys => pure (pyIn x ys)
     | .list xs, _ => pure (pyIn y xs)
     | .str s, .str t => pure (strContains t s)
     | _, _ => throw .typeMismatch)
  | .hasAll =>
    (match x, y with
     | .list col, .list needed => pure (needed.all fun v => pyIn v col)
     | _, _ => throw .typeMismatch)
  | .hasAny =>
    (match x, y with
     | .list col, .list opts => pure (opts.any fun v => pyIn v col)
     | _, _ => throw .typeMismatch)
  | .startsWith =>
    (match x, y with
     | .str s, .str t => pure (strStartsWith s t)
     | _, _ => throw .typeMismatch)
  | .endsWith =>
    (match x, y with
     | .str s, .str t => pure (strEndsWith s t)
     | _, _ => throw .typeMismatch)
  | .before => do
    let d1 ← parseDt cx.o cx.strict x
    let d2 ← parseDt cx.o cx.strict y
    pure (d1 < d2)
  | .after => do
    let d1 ← parseDt cx.o cx.strict x
    let d2 ← parseDt cx.o cx.strict y
    pure (d1 > d2)
  | .between => do
    let d ← parseDt cx.o cx.strict x
    match y with
    | .list [lo, hi] =>
      let s ← parseDt cx.o cx.strict (resolve cx.o lo cx.env)
      let e ← parseDt cx.o cx.strict (resolve cx.o hi cx.env)
      pure (s <= d && d <= e)
    | _ => throw .typeMismatch

/-- a `rel` node without memo: fail-closed on no checker / raising checker -/
def evalRel (cx : CondCtx) (expr : PyVal) : CondRes := do
  match ← relQuery cx.o expr cx.env with
  | Option.none => pure false
  | some key =>
    match cx.checker with
    | Option.none => pure false
    | some chk => pure ((chk key).getD false)

mutual
def evalCond (cx : CondCtx) : Cond → CondRes
  | .lit v => .ok v.truthy
  | .rel expr => evalRel cx expr
  | .bin op operands => evalBin cx op operands
  | .all Option.none => .error .typeMismatch
  | .all (some subs) => evalAll cx subs
  | .any Option.none => .error .typeMismatch
  | .any (some subs) => evalAny cx subs
  | .not c => (evalCond cx c).map (!·)
  | .unknown => .ok false
/-- `all(eval_condition(c) for c in subs)`: left to right, stops at the first `False` or error -/
def evalAll (cx : CondCtx) : List Cond → CondRes
  | [] => .ok true
  | c :: cs =>
    match evalCond cx c with
    | .ok true => evalAll cx cs
    | r => r
/-- `any(…)`: left to right, stops at the first `True` or error -/
def evalAny (cx : CondCtx) : List Cond → CondRes
  | [] => .ok false
  | c :: cs =>
    match evalCond cx c with
    | .ok false => evalAny cx cs
    | r => r
end

end Rbacx
