import Rbacx.Model.Obligations
/-
  Rbacx.Model.Engine — `Guard._evaluate_core_async` of core/engine.py (without the decision
  cache, which `Cache.lean`/C08 layer on top): roles → env → decision → obligation gate →
  Decision → metrics/audit events.
-/
namespace Rbacx
open PyVal

/-- the obligation checker injected into the engine -/
inductive CheckerCfg where
  | builtin
  /-- a custom checker's answer for this call: `none` = it raised -/
  | custom (answer : Option (PyVal × PyVal))
deriving Inhabited

structure GuardCfg where
  consts : Consts
  strict : Bool := false
  checker : CheckerCfg := .builtin
  /-- role resolver: `none` = not configured; the function returns `none` when `expand` raises -/
  resolver : Option (List PyVal → Option PyVal) := Option.none
  relChecker : Option RelChecker := Option.none
  hasMetrics : Bool := false
  hasLogger : Bool := false

structure Request where
  subjectId : PyVal
  roles : PyVal
  subjectAttrs : PyVal
  action : PyVal
  resourceType : PyVal
  resourceId : PyVal
  resourceAttrs : PyVal
  /-- `none`: no Context object passed -/
  context : Option PyVal
deriving Inhabited

structure Decision where
  allowed : Bool
  effect : String
  obligations : List PyVal
  challenge : PyVal
  ruleId : PyVal
  policyId : PyVal
  reason : String
deriving Inhabited

inductive Event where
  | metricInc (decision : String)
  | metricObserve (decision : String)
  | audit (env : PyVal) (decision : String) (allowed : Bool) (ruleId policyId : PyVal) (reason : String)
      (obligations : List PyVal)
deriving Inhabited

/-- `dict(x or {})` for attribute mappings of the request (domain: dict or falsy) -/
def dictOr (x : PyVal) : PyVal :=
  match x with
  | .dict kvs => .dict kvs
  | _ => .dict []

/-- the roles that reach the env -/
def effectiveRoles (cfg : GuardCfg) (req : Request) : PyVal :=
  let own : List PyVal := match req.roles with | .list rs => rs | _ => []
  match cfg.resolver with
  | Option.none => .list own
  | some f => (f own).getD (.list own)

def buildEnv (cfg : GuardCfg) (req : Request) : PyVal :=
  let base : List (String × PyVal) :=
    [("subject", .dict [("id", req.subjectId), ("roles", effectiveRoles cfg req), ("attrs", dictOr req.subjectAttrs)]),
     ("action", req.action),
     ("resource", .dict [("type", req.resourceType), ("id", req.resourceId), ("attrs", dictOr req.resourceAttrs)]),
     ("context", dictOr (req.context.getD .none))]
  .dict (if cfg.strict then base ++ [("__strict_types__", .bool true)] else base)

def condCtx (o : Oracle) (cfg : GuardCfg) (req : Request) : CondCtx :=
  { o, env := buildEnv cfg req, checker := cfg.relChecker }

/-- `_decide_async`: compiled function, falling back to the interpreter if it raised -/
def guardDecide (cx : CondCtx) (c : Consts) (policy : PyVal) : Except CondErr Raw :=
  match compiledDecide cx c policy with
  | .ok r => .ok r
  | .error _ =>
    if policy.hasKey "policies" then decideTree cx c.interpDefault c.setDefault (treeOf policy)
    else evaluate cx c.interpDefault policy

/-- everything after the raw decision is known: obligation gate, Decision, events -/
def finishDecision (o : Oracle) (cfg : GuardCfg) (req : Request) (env : PyVal) (raw : Raw) : Decision × List Event :=
  let isPermit := raw.decision == "permit"
  let ctxAttrs := dictOr (req.context.getD .none)
  -- verdict: `none` = checker not consulted or raised (the permit stands)
  let verdict : Option (Bool × PyVal) :=
    if !isPermit then Option.none
    else match cfg.checker with
      | .builtin =>
        let (ok, ch) := checkObligations o raw.decision raw.obligations ctxAttrs
        some (ok, match ch with | some c => .str c | Option.none => .none)
      | .custom Option.none => Option.none
      | .custom (some (ok, ch)) => some (ok.truthy, ch)
  let allowed := match verdict with | some (ok, _) => ok | Option.none => isPermit
  let challenge := match verdict with | some (_, ch) => ch | Option.none => .none
  let flipped := isPermit && !allowed
  let effect := if isPermit && !flipped then "permit" else "deny"
  let reason := if flipped then "obligation_failed" else raw.reason
  let d : Decision :=
    { allowed, effect, obligations := raw.obligations, challenge, ruleId := raw.rid,
      policyId := raw.policyId, reason }
  let evs : List Event :=
    (if cfg.hasMetrics then [.metricInc d.effect, .metricObserve d.effect] else []) ++
    (if cfg.hasLogger then [.audit env d.effect d.allowed d.ruleId d.policyId d.reason d.obligations] else [])
  (d, evs)

/-- `Guard.evaluate_sync/_async` (no cache): `.error` = the call raises -/
def guardEval (o : Oracle) (cfg : GuardCfg) (policy : PyVal) (req : Request) : Except CondErr (Decision × List Event) :=
  let cx := condCtx o cfg req
  match guardDecide cx cfg.consts policy with
  | .error e => .error e
  | .ok raw => .ok (finishDecision o cfg req cx.env raw)

end Rbacx
