import Rbacx.Model.Value
/-
  Rbacx.Model.FileSource — `rbacx.store.file_store`: `atomic_write` and `FilePolicySource`.

  Part 1: a tiny file system and `atomic_write` as a *program* (a list of syscall-level steps with the
  region of the `try/with/finally` statement each step sits in).  The program the driver runs is the
  one `harness/extract.py` traces from the real function on every run; the theorems are about every
  program of the shape `canonical …` (see `WellShaped`).
  Part 2: `FilePolicySource.etag` / `.load` over histories of writes / touches / deletes.

  Trusted, not modelled: the kernel's `rename(2)` is atomic (here: one step), `mkstemp` returns a fresh
  name (hypotheses `tmp ≠ target`, `fsGet fs tmp = none` of the theorems), durability (no fsync in the
  code; outside the property).
-/
namespace Rbacx.FileSrc

abbrev Path := String
/-- file content: bytes -/
abbrev Content := List Nat

structure File where
  content : Content
  mtime : Nat
deriving DecidableEq, Repr

def File.size (f : File) : Nat := f.content.length
/-- what `os.stat` shows `FilePolicySource`: `(st_size, st_mtime_ns)` -/
def File.sig (f : File) : Nat × Nat := (f.content.length, f.mtime)

/-- the file system: an association list, first entry wins -/
abbrev FS := List (Path × File)

def fsGet : FS → Path → Option File
  | [], _ => none
  | (q, f) :: rest, p => if q = p then some f else fsGet rest p

def fsDel (fs : FS) (p : Path) : FS := fs.filter (fun e => !(e.1 == p))
def fsSet (fs : FS) (p : Path) (f : File) : FS := (p, f) :: fsDel fs p
def fsPaths (fs : FS) : List Path := fs.map (·.1)

/-! ### atomic primitives -/

/-- `mkstemp`: an empty file under a fresh name -/
def createTemp (fs : FS) (tmp : Path) (now : Nat) : FS := fsSet fs tmp ⟨[], now⟩

/-- `write(2)` of one chunk at the end of the file -/
def appendChunk (fs : FS) (p : Path) (chunk : Content) (now : Nat) : FS :=
  match fsGet fs p with
  | some f => fsSet fs p ⟨f.content ++ chunk, now⟩
  | none => fsSet fs p ⟨chunk, now⟩

/-- `os.replace(src, dst)`: one atomic step; `none` = FileNotFoundError -/
def rename (fs : FS) (src dst : Path) : Option FS :=
  match fsGet fs src with
  | some f => some (fsSet (fsDel fs src) dst f)
  | none => none

/-- `os.unlink(p)`; `none` = FileNotFoundError -/
def unlink (fs : FS) (p : Path) : Option FS :=
  if (fsGet fs p).isSome then some (fsDel fs p) else none

/-! ### `atomic_write` as a program -/

/-- which path a call touched -/
inductive Loc where
  | temp | target | other
deriving DecidableEq, Repr

/-- where in `atomic_write` a call sits: before/after the `try` statement, in the `try` body, inside
    the `with` block, the `with` statement's exit (`f.__exit__` → `close`), the `finally` block -/
inductive Region where
  | outside | body | withBody | withExit | fin
deriving DecidableEq, Repr

inductive AWOp where
  /-- `tempfile.mkstemp(dir=…)`; the flag says the temp file was created in the target's directory -/
  | mkstemp (sameDir : Bool)
  /-- `os.fdopen(fd, "w")` on an existing file: a text handle with an empty buffer -/
  | fdopen (loc : Loc)
  /-- `open(path, "w")`: create or truncate, then a handle (only mutants do this) -/
  | openTrunc (loc : Loc)
  /-- `f.write(chunk i of the data)` into the handle's buffer -/
  | write (loc : Loc) (chunk : Nat)
  /-- `f.close()`: flush the buffer to the file -/
  | close (loc : Loc)
  | replace (src dst : Loc)
  /-- `os.unlink`; `swallowMissing` = the call is wrapped in `except FileNotFoundError: pass` -/
  | unlink (loc : Loc) (swallowMissing : Bool)
  /-- some other call touching a path (shape violation; no effect in the model) -/
  | other (loc : Loc)
deriving DecidableEq, Repr

structure AWStep where
  op : AWOp
  region : Region
deriving DecidableEq, Repr

structure AWEnv where
  target : Path
  tmp : Path
  /-- an unrelated path (`Loc.other`) -/
  elsewhere : Path := ""
  /-- the data, as the chunks the `write` steps refer to -/
  data : List Content
  /-- the clock stamped on modified files -/
  now : Nat

def AWEnv.path (e : AWEnv) : Loc → Path
  | .temp => e.tmp
  | .target => e.target
  | .other => e.elsewhere

structure AWState where
  fs : FS
  /-- the open text handle: path and not yet flushed data -/
  handle : Option (Path × Content)

/-- one step without injected fault; `true` = it raised (state as left behind) -/
def execOp (e : AWEnv) (st : AWState) : AWOp → AWState × Bool
  | .mkstemp _ => (⟨createTemp st.fs e.tmp e.now, st.handle⟩, false)
  | .fdopen loc =>
    if (fsGet st.fs (e.path loc)).isSome then (⟨st.fs, some (e.path loc, [])⟩, false) else (st, true)
  | .openTrunc loc => (⟨fsSet st.fs (e.path loc) ⟨[], e.now⟩, some (e.path loc, [])⟩, false)
  | .write _ i =>
    match st.handle with
    | some (p, buf) => (⟨st.fs, some (p, buf ++ e.data.getD i [])⟩, false)
    | none => (st, true)
  | .close _ =>
    match st.handle with
    | some (p, buf) => (⟨appendChunk st.fs p buf e.now, none⟩, false)
    | none => (st, false)
  | .replace s d =>
    match rename st.fs (e.path s) (e.path d) with
    | some fs' => (⟨fs', st.handle⟩, false)
    | none => (st, true)
  | .unlink loc sw =>
    match unlink st.fs (e.path loc) with
    | some fs' => (⟨fs', st.handle⟩, false)
    | none => (st, !sw)
  | .other _ => (st, false)

/-- what a step has done when it fails / the process dies after `k` bytes of it: a `write` has put
    `k` bytes of its chunk into the buffer, a `close` has flushed `k` bytes of the buffer (the
    descriptor is closed either way); every other step is atomic and has done nothing -/
def partialOp (e : AWEnv) (st : AWState) (k : Nat) : AWOp → AWState
  | .write _ i =>
    match st.handle with
    | some (p, buf) => ⟨st.fs, some (p, buf ++ (e.data.getD i []).take k)⟩
    | none => st
  | .close _ =>
    match st.handle with
    | some (p, buf) => ⟨appendChunk st.fs p (buf.take k) e.now, none⟩
    | none => st
  | _ => st

inductive Fault where
  | none
  /-- the process dies when `n` steps are complete and `k` bytes of the next one are done: nothing
      else runs, not even `finally` -/
  | crashAfter (n k : Nat)
  /-- step `n` raises after `k` bytes instead of completing: control goes to the handlers -/
  | raiseAt (n k : Nat)
deriving DecidableEq, Repr

/-- the fault as seen from the next step on -/
def Fault.pred : Fault → Fault
  | .crashAfter (n + 1) k => .crashAfter n k
  | .raiseAt (n + 1) k => .raiseAt n k
  | f => f

def Fault.isCrash : Fault → Bool | .crashAfter _ _ => true | _ => false
def Fault.isRaise : Fault → Bool | .raiseAt _ _ => true | _ => false

inductive AWOutcome where
  | ok | raised | crashed
deriving DecidableEq, Repr

/-- the regions that still run when a step of region `r` raises: the `with` exit and the `finally`
    block for the `with` body, the `finally` block for the rest of the `try` body, nothing outside -/
def Region.handlers : Region → List Region
  | .withBody => [.withExit, .fin]
  | .body => [.fin]
  | .withExit => [.fin]
  | .outside => []
  | .fin => []

def cleanupSteps (r : Region) (rest : List AWStep) : List AWStep :=
  rest.filter (fun s => r.handlers.contains s.region)

/-- handler steps (no injected fault; one that raises ends the unwinding) -/
def runClean (e : AWEnv) : AWState → List AWStep → AWState
  | st, [] => st
  | st, s :: rest =>
    match execOp e st s.op with
    | (st', true) => st'
    | (st', false) => runClean e st' rest

def runSteps (e : AWEnv) : AWState → List AWStep → Fault → AWState × AWOutcome
  | st, [], _ => (st, .ok)
  | st, s :: _, .crashAfter 0 k => (partialOp e st k s.op, .crashed)
  | st, s :: rest, .raiseAt 0 k => (runClean e (partialOp e st k s.op) (cleanupSteps s.region rest), .raised)
  | st, s :: rest, f =>
    match execOp e st s.op with
    | (st', true) => (runClean e st' (cleanupSteps s.region rest), .raised)
    | (st', false) =>
      runSteps e st' rest f.pred

/-- the chunks a program writes, in order -/
def writeIdxs (prog : List AWStep) : List Nat :=
  prog.filterMap fun s => match s.op with | .write _ i => some i | _ => none

/-- the content a complete run of the program produces from the data -/
def newContent (data : List Content) (idxs : List Nat) : Content :=
  match idxs with
  | [] => []
  | i :: rest => data.getD i [] ++ newContent data rest

/-- The shape the theorems are about: the temp file is created (in the target's directory) before or
    at the start of the `try`, wrapped in a handle, written to – any number of `write`s, all to the
    temp handle inside the `with` block – closed by the `with` exit, then renamed over the target by
    the only step that touches the target, and `unlink(temp)` (missing file swallowed) sits in the
    `finally` block. -/
def canonical (r0 : Region) (idxs : List Nat) : List AWStep :=
  ⟨.mkstemp true, r0⟩ :: ⟨.fdopen .temp, .body⟩ ::
    (idxs.map (fun i => (⟨.write .temp i, .withBody⟩ : AWStep)) ++
      [⟨.close .temp, .withExit⟩, ⟨.replace .temp .target, .body⟩, ⟨.unlink .temp true, .fin⟩])

def WellShaped (prog : List AWStep) : Bool :=
  decide (prog = canonical .outside (writeIdxs prog)) || decide (prog = canonical .body (writeIdxs prog))

/-- the whole data is written, once -/
def WritesAllOnce (prog : List AWStep) : Bool := decide (writeIdxs prog = [0])

/-! ## Part 2: `FilePolicySource` -/

inductive Format where
  | json | yaml
deriving DecidableEq, Repr

/-- `_detect_format(filename=path)`: YAML for a (case-insensitive) `.yaml` / `.yml` suffix, JSON otherwise
    (`.json` and everything else).  ASCII lower-casing: the model's paths are ASCII. -/
def formatOfPath (path : String) : Format :=
  let fn := PyVal.asciiLower path
  if PyVal.strEndsWith fn ".yaml" || PyVal.strEndsWith fn ".yml" then .yaml else .json

structure SrcCfg (Tag Doc : Type) where
  /-- `hashlib.sha256(content).hexdigest()` – abstract; theorems that need it assume injectivity -/
  sha : Content → Tag
  /-- parser oracle: decode + `json.loads` / `yaml.safe_load` (+ mapping check), errors included in `Doc` -/
  parse : Format → Content → Doc
  includeMtime : Bool
  path : String

/-- `_cached_stat_sig`, `_cached_sha` -/
structure SrcState (Tag : Type) where
  cachedSig : Option (Nat × Nat)
  cachedSha : Option Tag

def SrcState.empty {Tag : Type} : SrcState Tag := ⟨none, none⟩

/-- an etag: the content hash, and the mtime when `include_mtime_in_etag` (`f"{sha}:{mtime_ns}"`) -/
abbrev ETag (Tag : Type) := Tag × Option Nat

variable {Tag Doc : Type}

/-- `_ensure_content_sha`: stat; missing ⇒ clear the cache; re-hash iff the signature differs from the
    cached one or no hash is cached -/
def ensureSha (cfg : SrcCfg Tag Doc) (disk : Option File) (st : SrcState Tag) :
    SrcState Tag × Option (Tag × (Nat × Nat)) :=
  match disk with
  | none => (⟨none, none⟩, none)
  | some f =>
    match st.cachedSig, st.cachedSha with
    | some s, some h =>
      if s = f.sig then (st, some (h, f.sig))
      else (⟨some f.sig, some (cfg.sha f.content)⟩, some (cfg.sha f.content, f.sig))
    | _, _ => (⟨some f.sig, some (cfg.sha f.content)⟩, some (cfg.sha f.content, f.sig))

def etag (cfg : SrcCfg Tag Doc) (disk : Option File) (st : SrcState Tag) : SrcState Tag × Option (ETag Tag) :=
  match ensureSha cfg disk st with
  | (st', none) => (st', none)
  | (st', some (h, sig)) => (st', some (h, if cfg.includeMtime then some sig.2 else none))

/-- `load()`: read and parse by extension; `none` = FileNotFoundError.  The source's cache is not involved. -/
def load (cfg : SrcCfg Tag Doc) (disk : Option File) : Option Doc :=
  disk.map fun f => cfg.parse (formatOfPath cfg.path) f.content

/-- what is done to / asked of the one policy file -/
inductive FOp where
  | write (c : Content) (mtime : Nat)
  /-- `os.utime`: new mtime, same content (nothing if the file is missing) -/
  | touch (mtime : Nat)
  | delete
  | etag
  | load
deriving DecidableEq, Repr

def FOp.isRead : FOp → Bool
  | .etag => true
  | .load => true
  | _ => false

inductive Obs (Tag Doc : Type) where
  | unit
  | etag (t : Option (ETag Tag))
  | load (d : Option Doc)

/-- the disk after one operation -/
def applyMod (disk : Option File) : FOp → Option File
  | .write c m => some ⟨c, m⟩
  | .touch m => disk.map fun f => ⟨f.content, m⟩
  | .delete => none
  | .etag => disk
  | .load => disk

structure World (Tag : Type) where
  disk : Option File
  src : SrcState Tag

def step (cfg : SrcCfg Tag Doc) (w : World Tag) : FOp → World Tag × Obs Tag Doc
  | .etag => (⟨w.disk, (etag cfg w.disk w.src).1⟩, .etag (etag cfg w.disk w.src).2)
  | .load => (w, .load (load cfg w.disk))
  | op => (⟨applyMod w.disk op, w.src⟩, .unit)

def runWorld (cfg : SrcCfg Tag Doc) : World Tag → List FOp → World Tag
  | w, [] => w
  | w, op :: ops => runWorld cfg (step cfg w op).1 ops

/-- per operation: the disk it saw / left, and what it returned -/
def trace (cfg : SrcCfg Tag Doc) : World Tag → List FOp → List (Option File × Obs Tag Doc)
  | _, [] => []
  | w, op :: ops => ((step cfg w op).1.disk, (step cfg w op).2) :: trace cfg (step cfg w op).1 ops

/-- the disk states that `etag()` calls of a history observe, in order -/
def etagDisks : Option File → List FOp → List (Option File)
  | _, [] => []
  | d, .etag :: ops => d :: etagDisks d ops
  | d, op :: ops => etagDisks (applyMod d op) ops

/-- The property's own proviso, for a sequence of observed disk states: between one tag observation
    and the next, content never changes while both size and mtime stay the same.  (`prev` = the file
    the previous observation saw; `none` = no observation yet / the file was missing.) -/
def Proviso : Option File → List (Option File) → Prop
  | _, [] => True
  | prev, cur :: rest =>
    (∀ f f', prev = some f → cur = some f' → f.content ≠ f'.content → f.size ≠ f'.size ∨ f.mtime ≠ f'.mtime)
      ∧ Proviso cur rest

/-- the tag that describes a disk state truthfully -/
def trueTag (cfg : SrcCfg Tag Doc) (d : Option File) : Option (ETag Tag) :=
  d.map fun f => (cfg.sha f.content, if cfg.includeMtime then some f.mtime else none)

end Rbacx.FileSrc

/-- the step type under the name `Generated.lean` uses -/
abbrev Rbacx.AWStep := Rbacx.FileSrc.AWStep
