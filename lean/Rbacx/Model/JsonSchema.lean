import Rbacx.Model.Value
/-
  Rbacx.Model.JsonSchema — the MEANING of the JSON-Schema (draft 2020-12) keywords the bundled policy schema uses, as the Python
  `jsonschema` library evaluates them on Python values (`jsonschema.validate(doc, schema)` / `validator_for(schema)(schema).is_valid(doc)`,
  no format checker).

  A SHALLOW embedding: one small total Bool-valued combinator per keyword.  A schema object is the conjunction of its keywords; a
  sub-schema is a function `PyVal → Bool`.  The translator harness/pytolean_schema.py renders the current text of
  /repo/src/rbacx/dsl/policy.schema.json into applications of these combinators (`Rbacx.Generated.Src.schema_def` / `schema_root`);
  both — the translator and these meanings — are compared with the real validator on every run (`translated_schema_vs_jsonschema` in
  harness/props/c06.py through Run/SrcEvalSchema.lean).

  The rule all of them follow (jsonschema's `_keywords.py`): a keyword constrains instances of ITS OWN type only and passes on every other
  value (`properties` / `required` / `additionalProperties` / `minProperties` / `maxProperties`: dicts; `items` / `prefixItems` /
  `minItems` / `maxItems`: lists; `minLength`: strings).  Dicts are association lists whose keys are distinct (a Python dict); `lookup`
  finds the entry.
-/
namespace Rbacx.JS
open PyVal

/-- `"type": t` — object=dict, array=list, string=str, boolean=bool, null=None, number=int|float but NOT bool, integer=int (not bool) or
    an integral float (draft ≥ 4).  A datetime is none of them (it is not JSON). -/
def typeIs (t : String) (v : PyVal) : Bool :=
  match v with
  | .none => t == "null"
  | .bool _ => t == "boolean"
  | .int _ => t == "number" || t == "integer"
  | .float f => t == "number" || (t == "integer" && (floatToInt? f).isSome)
  | .str _ => t == "string"
  | .list _ => t == "array"
  | .dict _ => t == "object"
  | .dt _ _ => false

/-- `"enum": [strings…]` (lists of strings only): the instance is a `str` equal to one of them -/
def enumStr (v : PyVal) (ss : List String) : Bool :=
  match v with
  | .str s => ss.contains s
  | _ => false

/-- `"minLength": n` — code points -/
def minLength (v : PyVal) (n : Nat) : Bool :=
  match v with
  | .str s => decide (n ≤ s.length)
  | _ => true

/-- `"properties": {k: schema…}` — every PRESENT listed key has a valid value -/
def props (v : PyVal) (ps : List (String × (PyVal → Bool))) : Bool :=
  match v with
  | .dict kvs => ps.all fun p => match lookup p.1 kvs with | some x => p.2 x | Option.none => true
  | _ => true

/-- `"required": [k…]` -/
def required (v : PyVal) (ks : List String) : Bool :=
  match v with
  | .dict kvs => ks.all fun k => (lookup k kvs).isSome
  | _ => true

/-- `"additionalProperties": false` next to `"properties"` with the keys `ks` (no `patternProperties`): no other key occurs -/
def noAdditional (v : PyVal) (ks : List String) : Bool :=
  match v with
  | .dict kvs => kvs.all fun kv => ks.contains kv.1
  | _ => true

def minProperties (v : PyVal) (n : Nat) : Bool :=
  match v with
  | .dict kvs => decide (n ≤ kvs.length)
  | _ => true

def maxProperties (v : PyVal) (n : Nat) : Bool :=
  match v with
  | .dict kvs => decide (kvs.length ≤ n)
  | _ => true

/-- `"items": schema` next to a `prefixItems` of length `skip` (0 without one): every element from position `skip` on is valid
    (`"items": false` is `fun _ => false`: there is no such element) -/
def items (v : PyVal) (skip : Nat) (f : PyVal → Bool) : Bool :=
  match v with
  | .list xs => (xs.drop skip).all f
  | _ => true

def allPrefix : List (PyVal → Bool) → List PyVal → Bool
  | f :: fs, x :: xs => f x && allPrefix fs xs
  | _, _ => true

/-- `"prefixItems": [schemas…]` — position-wise, as far as both go -/
def prefixItems (v : PyVal) (fs : List (PyVal → Bool)) : Bool :=
  match v with
  | .list xs => allPrefix fs xs
  | _ => true

def minItems (v : PyVal) (n : Nat) : Bool :=
  match v with
  | .list xs => decide (n ≤ xs.length)
  | _ => true

def maxItems (v : PyVal) (n : Nat) : Bool :=
  match v with
  | .list xs => decide (xs.length ≤ n)
  | _ => true

/-- `"oneOf"`: exactly one branch holds -/
def oneOf (bs : List Bool) : Bool := (bs.filter id).length == 1

def anyOf (bs : List Bool) : Bool := bs.any id

def allOf (bs : List Bool) : Bool := bs.all id

/-- `"format": name` is an ANNOTATION: a validator without a format checker (what `rbacx.dsl.validate.validate_policy` builds) does not
    assert it -/
def format (_name : String) (_v : PyVal) : Bool := true

end Rbacx.JS
