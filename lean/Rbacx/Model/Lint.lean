import Rbacx.Model.PyLib
/-!
  Rbacx.Model.Lint — the ALGORITHM-DEPENDENT part of the linter (`src/rbacx/dsl/lint.py`), as written (C17: "when it names no combining
  algorithm, deny-overrides applies … in the linter's overlap analysis").

  * `lintAlgorithm o dflt policy` — the algorithm `analyze_policy` analyses a policy under: `str(policy.get("algorithm") or dflt).lower()`.
  * `overlapIssues acts cov unr algo rules` — the two algorithm-dependent passes: `POTENTIALLY_UNREACHABLE` under "first-applicable"
    (for each later rule, the FIRST earlier rule that makes it unreachable), `OVERLAPPED_BY_DENY` under "deny-overrides" (for each
    earlier DENY rule, the FIRST later rule whose resource it covers and with which it shares an action — the source `break`s there, so
    one deny rule reports at most one overlapped rule).  Issues are the dicts the source builds.
  * `analyzePolicy` — first-pass issues (a parameter: the per-rule checks are not algorithm-dependent and stay outside the model)
    followed by `overlapIssues` under `lintAlgorithm`; nothing when `rules` is not a list.
  * `analyzePolicyset` — the children analysed INDEPENDENTLY (neither the set's algorithm nor a sibling is consulted), each issue
    copied and tagged with `policy_index`.
  * `actions`, `resourceCovers`, `firstApplicableUnreachable` — hand-written models of the helpers `_actions`, `_resource_covers`,
    `_first_applicable_unreachable`; the theorems are generic in them (they are parameters), the evaluators instantiate them.
-/

namespace Rbacx.Lint
open PyVal

/-! ### helpers of the source (hand-written models; parameters of everything below) -/

/-- first occurrences, in order -/
def dedup : List PyVal → List PyVal
  | [] => []
  | x :: xs => x :: (dedup xs).filter fun y => !pyEq x y

/-- `_actions(rule)`: the string members of `rule.get("actions")` (a list / the keys of a dict / the characters of a str), first
    occurrences in order; `()` when it is not iterable -/
def actions (rule : PyVal) : PyVal :=
  match rule.get "actions" with
  | .list xs => .list (dedup (xs.filter isStr))
  | .dict kvs => .list (dedup (kvs.map fun kv => .str kv.1))
  | .str s => .list (dedup (Py.iter (.str s)))
  | _ => .list []

/-- `attrs or attributes or {}` of a resource dict -/
def attrsOf (r : PyVal) : PyVal := por (r.get "attrs") (por (r.get "attributes") (.dict []))

/-- `_resource_covers` on the values it reads: the two types, the two ids, the two attribute dicts -/
def coversV (o : Oracle) (et lt eid lid eattrs lattrs : PyVal) : Bool :=
  if !(pyEq .none et || pyEq (.str "*") et) && o.pyStr et != o.pyStr lt then false
  else if !eid.isNone then (if lid.isNone then false else o.pyStr eid == o.pyStr lid)
  else
    match eattrs, lattrs with
    | .dict ekvs, .dict lkvs => ekvs.all fun kv => (lookup kv.1 lkvs).isSome && pyEq ((lookup kv.1 lkvs).getD .none) kv.2
    | _, _ => true

/-- `_resource_covers(earlier, later)` -/
def resourceCovers (o : Oracle) (earlier later : PyVal) : Bool :=
  let er := por (earlier.get "resource") (.dict [])
  let lr := por (later.get "resource") (.dict [])
  coversV o (er.get "type") (lr.get "type") (er.get "id") (lr.get "id") (attrsOf er) (attrsOf lr)

/-- `rule.get("effect") or "permit"` -/
def effectOf (rule : PyVal) : PyVal := por (rule.get "effect") (.str "permit")

/-- `set(a) & set(b)` is non-empty -/
def shares (a b : PyVal) : Bool := (Py.iter a).any fun x => (Py.iter b).any fun y => pyEq x y

/-- `_first_applicable_unreachable(earlier, later)` -/
def firstApplicableUnreachable (o : Oracle) (earlier later : PyVal) : Bool :=
  if !pyEq (effectOf earlier) (effectOf later) then false
  else if !((Py.iter (actions later)).all fun a => (Py.iter (actions earlier)).any fun b => pyEq b a) then false
  else resourceCovers o earlier later

/-- `_first_applicable_unreachable(earlier, later)` over arbitrary `_actions` / `_resource_covers` (what the source text computes) -/
def firstApplicableUnreachableG (acts : PyVal → PyVal) (cov : PyVal → PyVal → PyVal) (earlier later : PyVal) : PyVal :=
  if !pyEq (effectOf earlier) (effectOf later) then .bool false
  else if !((Py.iter (acts later)).all fun a => (Py.iter (acts earlier)).any fun b => pyEq b a) then .bool false
  else cov earlier later

/-! ### the algorithm a policy is analysed under -/

/-- `str(policy.get("algorithm") or dflt).lower()` -/
def lintAlgorithm (o : Oracle) (dflt : String) (policy : PyVal) : String :=
  asciiLower (o.pyStr (por (policy.get "algorithm") (.str dflt)))

/-! ### the two algorithm-dependent passes -/

/-- `a, a+1, …` (`n` of them) -/
def natsFrom (a : Nat) : Nat → List Nat
  | 0 => []
  | n + 1 => a :: natsFrom (a + 1) n

/-- the pairs (position, element) from position `a` -/
def enumNat (a : Nat) : List PyVal → List (Nat × PyVal)
  | [] => []
  | x :: xs => (a, x) :: enumNat (a + 1) xs

/-- the issue dict both passes build -/
def mkIssue (code : String) (later earlier : PyVal) (j i : Nat) : PyVal :=
  .dict [("code", .str code), ("later_id", later.get "id"), ("earlier_id", earlier.get "id"),
         ("later_index", .int j), ("earlier_index", .int i)]

/-- rule at a position (`None` outside: never consulted) -/
def ruleAt (rules : List PyVal) (i : Nat) : PyVal := rules.getD i .none

/-- first-applicable: the report about the later rule `j` — the first earlier rule that makes it unreachable, if any -/
def unreachableAt (unr : PyVal → PyVal → PyVal) (rules : List PyVal) (j : Nat) : List PyVal :=
  (((natsFrom 0 j).find? fun i => (unr (ruleAt rules i) (ruleAt rules j)).truthy).map fun i =>
    mkIssue "POTENTIALLY_UNREACHABLE" (ruleAt rules j) (ruleAt rules i) j i).toList

def unreachableIssues (unr : PyVal → PyVal → PyVal) (rules : List PyVal) : List PyVal :=
  (natsFrom 1 (rules.length - 1)).flatMap (unreachableAt unr rules)

/-- does the rule `earlier` cover the resource of the rule at `j` and share an action with it? -/
def overlaps (acts : PyVal → PyVal) (cov : PyVal → PyVal → PyVal) (rules : List PyVal) (earlier : PyVal) (j : Nat) : Bool :=
  (cov earlier (ruleAt rules j)).truthy && shares (acts earlier) (acts (ruleAt rules j))

/-- is the rule a DENY rule as the overlap pass tests it (`(rule.get("effect") or "permit") != "deny"` is false) -/
def isDeny (rule : PyVal) : Bool := pyEq (effectOf rule) (.str "deny")

/-- deny-overrides: the report of the earlier rule at `i` — the first later rule it overlaps, if it is a deny rule -/
def denyAt (acts : PyVal → PyVal) (cov : PyVal → PyVal → PyVal) (rules : List PyVal) (i : Nat) (earlier : PyVal) : List PyVal :=
  if isDeny earlier then
    (((natsFrom (i + 1) (rules.length - (i + 1))).find? fun j => overlaps acts cov rules earlier j).map fun j =>
      mkIssue "OVERLAPPED_BY_DENY" (ruleAt rules j) earlier j i).toList
  else []

def denyOverlapIssues (acts : PyVal → PyVal) (cov : PyVal → PyVal → PyVal) (rules : List PyVal) : List PyVal :=
  (enumNat 0 rules).flatMap fun ie => denyAt acts cov rules ie.1 ie.2

/-- the algorithm-dependent issues of a rule list under the algorithm `algo` -/
def overlapIssues (acts : PyVal → PyVal) (cov unr : PyVal → PyVal → PyVal) (algo : String) (rules : List PyVal) : List PyVal :=
  (if algo = "first-applicable" then unreachableIssues unr rules else []) ++
  (if algo = "deny-overrides" then denyOverlapIssues acts cov rules else [])

/-! ### analyze_policy / analyze_policyset -/

/-- the `require_attrs` configuration `analyze_policy` hands to its first pass -/
def lintReq (policy requireAttrs : PyVal) : PyVal :=
  let r :=
    if requireAttrs.isNone then
      let c := por (policy.get "lint") (.dict [])
      if c.isDict then c.get "require_attrs" else .none
    else requireAttrs
  if r.isNone then .dict [] else r

/-- the parameters the analysis is generic in -/
structure Env where
  o : Oracle
  /-- the default algorithm constant (the source's literal) -/
  dflt : String
  acts : PyVal → PyVal
  cov : PyVal → PyVal → PyVal
  unr : PyVal → PyVal → PyVal
  /-- the first pass: (require_attrs configuration, rules) ↦ its issues -/
  firstPass : PyVal → PyVal → List PyVal

/-- the rules `analyze_policy` looks at: `policy.get("rules") or []` -/
def rulesOf (policy : PyVal) : PyVal := por (policy.get "rules") (.list [])

/-- the algorithm-dependent issues of a policy -/
def algoIssues (E : Env) (policy : PyVal) : List PyVal :=
  match rulesOf policy with
  | .list rs => overlapIssues E.acts E.cov E.unr (lintAlgorithm E.o E.dflt policy) rs
  | _ => []

/-- `analyze_policy(policy, require_attrs=…)` -/
def analyzePolicy (E : Env) (policy requireAttrs : PyVal) : List PyVal :=
  match rulesOf policy with
  | .list rs => E.firstPass (lintReq policy requireAttrs) (.list rs) ++ overlapIssues E.acts E.cov E.unr (lintAlgorithm E.o E.dflt policy) rs
  | _ => []

/-- `it = dict(it); it["policy_index"] = k` -/
def tag (k : Nat) (it : PyVal) : PyVal := Py.setItem (Py.dictCopy it) "policy_index" (.int k)

/-- the children `analyze_policyset` iterates over -/
def childrenOf (policyset : PyVal) : List PyVal := Py.iter (por (policyset.get "policies") (.list []))

/-- `analyze_policyset(policyset, require_attrs=…)`: every child on its own -/
def analyzePolicyset (E : Env) (policyset requireAttrs : PyVal) : List PyVal :=
  (enumNat 0 (childrenOf policyset)).flatMap fun kc => (analyzePolicy E kc.2 requireAttrs).map fun it => tag kc.1 it

end Rbacx.Lint
