/-
  Rbacx.Model.Locks — threads, one re-entrant lock (`threading.RLock`), spawning a thread / submitting to a
  helper thread, and waiting for a thread to finish (`Future.result()`, `Thread.join()`): the blocking
  skeleton of `HotReloader.start/stop/check_and_reload` and of the polling thread (policy/loader.py).

  A thread's program is the list of its blocking-relevant operations; the programs the obligation
  `Run/C14_locks.lean` checks are traced from the real HotReloader on every run.
-/
namespace Rbacx.Locks

inductive LOp where
  | acq | rel
  /-- block until thread `u` has finished -/
  | wait (u : Nat)
  /-- start thread `u` (Thread.start / executor.submit) -/
  | spawn (u : Nat)
  | work
  /-- an external call of unbounded duration made by the thread itself (`source.etag()`, `source.load()`) -/
  | ext
deriving Repr, DecidableEq

structure TSt where
  prog : List LOp
  depth : Nat := 0
  started : Bool := false
deriving Repr

structure LSt where
  ths : Nat → TSt
  owner : Option Nat := none

def done (s : LSt) (t : Nat) : Bool := (s.ths t).prog.isEmpty

/-- can thread `t` perform its next operation now? -/
def canStep (s : LSt) (t : Nat) : Bool :=
  (s.ths t).started &&
  match (s.ths t).prog with
  | [] => false
  | .acq :: _ => s.owner.isNone || s.owner == some t
  | .wait u :: _ => done s u
  | _ :: _ => true

def setT (s : LSt) (t : Nat) (x : TSt) : LSt := { s with ths := fun i => if i = t then x else s.ths i }

def step (s : LSt) (t : Nat) : LSt :=
  if !canStep s t then s else
  let th := s.ths t
  match th.prog with
  | [] => s
  | .acq :: p => setT { s with owner := some t } t { th with prog := p, depth := th.depth + 1 }
  | .rel :: p =>
    setT { s with owner := if th.depth ≤ 1 then none else s.owner } t { th with prog := p, depth := th.depth - 1 }
  | .wait _ :: p => setT s t { th with prog := p }
  | .spawn u :: p =>
    let s1 := setT s t { th with prog := p }
    setT s1 u { s1.ths u with started := true }
  | .work :: p => setT s t { th with prog := p }
  | .ext :: p => setT s t { th with prog := p }

def run (s : LSt) (sched : List Nat) : LSt := sched.foldl step s

/-- initial state: thread `t` runs `progs t`; the threads in `roots` are running, the others wait to be spawned -/
def init (progs : Nat → List LOp) (roots : List Nat) : LSt :=
  { ths := fun t => { prog := progs t, started := roots.contains t } }

/-! ### static conditions on programs (decidable; checked on the extracted programs by `decide`) -/

/-- from lock depth `d`: never releases a lock it does not hold, never *waits for another thread while holding the
    lock*, never *makes an external call (policy source) while holding the lock*, and ends with the lock released -/
def SafeFrom : Nat → List LOp → Bool
  | d, [] => d == 0
  | d, .acq :: p => SafeFrom (d + 1) p
  | d, .rel :: p => d > 0 && SafeFrom (d - 1) p
  | d, .wait _ :: p => d == 0 && SafeFrom d p
  | d, .ext :: p => d == 0 && SafeFrom d p
  | d, _ :: p => SafeFrom d p

/-- every `wait u` is preceded by `spawn u` in the same program or `u` is already running -/
def SpawnSafe (st : Nat → Bool) : List LOp → Bool
  | [] => true
  | .spawn u :: p => SpawnSafe (fun i => if i = u then true else st i) p
  | .wait u :: p => st u && SpawnSafe st p
  | _ :: p => SpawnSafe st p

/-- a thread only waits for threads of higher rank (no cyclic waiting) -/
def Ranked (t : Nat) : List LOp → Bool
  | [] => true
  | .wait u :: p => decide (t < u) && Ranked t p
  | _ :: p => Ranked t p

/-- no thread blocks on another thread while holding the lock, waits are for spawned higher-ranked threads -/
def LockFreeWhileBlocking (n : Nat) (progs : Nat → List LOp) (roots : List Nat) : Bool :=
  (List.range n).all fun t => SafeFrom 0 (progs t) && SpawnSafe (fun u => roots.contains u) (progs t) && Ranked t (progs t)

end Rbacx.Locks
