import Rbacx.Model.Compiler
/-
  Rbacx.Model.Obligations — `BasicObligationChecker.check` of core/obligations.py.
-/
namespace Rbacx
open PyVal

def floatFinite (f : Float) : Bool := !(f.isNaN || f.isInf)

/-- `_finite_number(x)` -/
def finiteNumber (o : Oracle) : PyVal → Option Float
  | .bool b => some (if b then 1.0 else 0.0)
  | .int n => intToFloat? n
  | .float f => if floatFinite f then some f else Option.none
  | .str s =>
    (match o.floatOfStr s with
     | some f => if floatFinite f then some f else Option.none
     | Option.none => Option.none)
  | _ => Option.none

/-- `_finite_number(x) or 0.0`, as written: `or` tests the truth value, so a finite number that is zero (`0.0` or `-0.0`) is
    replaced by the literal `0.0` like `None` is (no comparison can tell `-0.0` from `0.0`; spelled out so that the translated
    source — Run/C07_translated.lean — is equal to this on the nose, `Float` being opaque to the kernel) -/
def numberOrZero (o : Oracle) (x : PyVal) : Float :=
  match finiteNumber o x with
  | some f => if f != 0.0 then f else 0.0
  | Option.none => 0.0

/-- `attrs.get(k, 0)` -/
def getOrZero (attrs : PyVal) (k : String) : PyVal := if attrs.hasKey k then attrs.get k else .int 0

def httpChallenge (o : Oracle) (attrs : PyVal) : String :=
  let scheme := asciiLower (o.pyStr (if attrs.hasKey "scheme" then attrs.get "scheme" else .str ""))
  if scheme == "basic" || scheme == "bearer" || scheme == "digest" then "http_" ++ scheme else "http_auth"

/-- the challenge of one obligation if it is unmet for the current effect, `none` if it is met,
    not targeted at this effect, malformed or of an unknown type -/
def obligationUnmet (o : Oracle) (effect : String) (ctx : PyVal) (ob : PyVal) : Option String :=
  if !(ob.isNone || ob.isDict) then Option.none
  else
    let on := por (ob.get "on") (.str "permit")
    if !(pyEq on (.str effect) && (effect == "permit" || effect == "deny")) then Option.none
    else
      let attrs := match por (ob.get "attrs") (.dict []) with
        | .dict kvs => PyVal.dict kvs
        | _ => .dict []
      match ob.get "type" with
      | .str "require_mfa" => if (ctx.get "mfa").truthy then Option.none else some "mfa"
      | .str "require_level" =>
        let minLevel := numberOrZero o (getOrZero attrs "min")
        (match finiteNumber o (ctx.get "auth_level") with
         | some cur => if cur < minLevel then some "step_up" else Option.none
         | Option.none => some "step_up")
      | .str "http_challenge" => some (httpChallenge o attrs)
      | .str "require_consent" =>
        let key := attrs.get "key"
        if key.isNone then (if (ctx.get "consent").truthy then Option.none else some "consent")
        else
          (match ctx.get "consent", key with
           | .dict kvs, .str k => if ((PyVal.dict kvs).get k).truthy then Option.none else some "consent"
           | _, _ => some "consent")
      | .str "require_terms_accept" => if (ctx.get "tos_accepted").truthy then Option.none else some "tos"
      | .str "require_captcha" => if (ctx.get "captcha_passed").truthy then Option.none else some "captcha"
      | .str "require_reauth" =>
        let maxAge := numberOrZero o (getOrZero attrs "max_age")
        (match finiteNumber o (ctx.get "reauth_age_seconds") with
         | some age => if age > maxAge then some "reauth" else Option.none
         | Option.none => some "reauth")
      | .str "require_age_verified" =>
        if (ctx.get "age_verified").truthy then Option.none else some "age_verification"
      | _ => Option.none

/-- `BasicObligationChecker().check(raw, context)` where `raw["decision"]` is a string -/
def checkObligations (o : Oracle) (decision : String) (obls : List PyVal) (ctx : PyVal) : Bool × Option String :=
  let effect := if decision == "permit" then "permit" else "deny"
  match obls.findSome? (obligationUnmet o effect ctx) with
  | some ch => (false, some ch)
  | Option.none => (effect == "permit", Option.none)

end Rbacx
