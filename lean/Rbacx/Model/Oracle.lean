import Rbacx.Model.Value
/-
  Rbacx.Model.Oracle — stdlib behaviour that is trusted, not modelled (DESIGN §2.2).

  Each field is CPython / third-party behaviour that is irrelevant to the logic the properties
  are about.  The correspondence harness computes the tables *without calling rbacx* and ships
  them with every case; every theorem is quantified over an arbitrary oracle.
-/

structure Oracle where
  /-- `str(x)` for floats, lists, dicts and datetimes (scalars are rendered by the model) -/
  strOf : PyVal → String
  /-- `datetime.fromisoformat(s.replace("Z","+00:00"))` as UTC µs (naive ⇒ UTC); `none` = ValueError -/
  isoInstant : String → Option Int
  /-- `datetime.fromtimestamp(float(x), tz=utc)` as µs; `none` = Overflow/Value/OSError -/
  epochInstant : PyVal → Option Int
  /-- `float(s)` for a string; `none` = ValueError -/
  floatOfStr : String → Option Float

namespace Oracle

/-- Python `str(x)` -/
def pyStr (o : Oracle) : PyVal → String
  | .none => "None"
  | .bool true => "True"
  | .bool false => "False"
  | .int n => toString n
  | .str s => s
  | v => o.strOf v

end Oracle
