import Rbacx.Model.Cond
/-
  Rbacx.Model.Policy — `evaluate` of core/policy.py: the rule loop as an explicit recursion over
  a loop state, with the early `break`s, followed by `finalise`.
-/
namespace Rbacx
open PyVal

/-- what one rule does for one request -/
inductive Outcome where
  | actionMismatch
  | resourceMismatch
  | condFalse
  | condTypeErr
  | applies (effect : String) (rid : PyVal) (obls : List PyVal)
deriving Inhabited

/-- the raw decision dict returned by `evaluate` / `decide` -/
structure Raw where
  decision : String
  reason : String
  ruleId : PyVal
  lastRuleId : PyVal
  policyId : PyVal := .none
  obligations : List PyVal
deriving Inhabited

/-- `(x or dflt).lower()` for a string-valued field -/
def lowerField (v : PyVal) (dflt : String) : Except CondErr String :=
  match por v (.str dflt) with
  | .str s => .ok (asciiLower s)
  | _ => .error (.raised "AttributeError")

def ruleObligations (rule : PyVal) : List PyVal :=
  match por (rule.get "obligations") (.list []) with
  | .list xs => xs
  | _ => []

/-- the `if cond is not None: try: … except ConditionTypeError` block: `some out` = the rule is skipped -/
def condOutcome (cx : CondCtx) (cond : PyVal) : Except CondErr (Option Outcome) :=
  if cond.isNone then .ok Option.none
  else match evalCond cx (condOf cond) with
    | .ok true => .ok Option.none
    | .ok false => .ok (some .condFalse)
    | .error .typeMismatch => .ok (some .condTypeErr)
    | .error (.raised cls) => .error (.raised cls)

/-- the body of the `for rule in rules` loop up to the point where the rule is known to apply -/
def ruleOutcome (cx : CondCtx) (rule : PyVal) : Except CondErr Outcome :=
  if !matchActions rule (por (cx.env.get "action") (.str "")) then .ok .actionMismatch
  else if !matchResource cx.o (isStrict cx.env) (por (rule.get "resource") (.dict []))
            (por (cx.env.get "resource") (.dict [])) then .ok .resourceMismatch
  else match condOutcome cx (rule.get "condition") with
    | .error e => .error e
    | .ok (some out) => .ok out
    | .ok Option.none =>
      match lowerField (rule.get "effect") "permit" with
      | .error e => .error e
      | .ok effect => .ok (.applies effect (por (rule.get "id") (.str "")) (ruleObligations rule))

structure LoopSt where
  decision : String := "deny"
  reason : String := "no_match"
  lastRuleId : PyVal := .none
  obligations : List PyVal := []
  anyPermit : Bool := false
  anyDeny : Bool := false
  permitRuleId : PyVal := .none
  denyRuleId : PyVal := .none
  permitObls : List PyVal := []
deriving Inhabited

/-- one iteration; the Boolean is `true` when the loop `break`s -/
def stepRule (algo : String) (s : LoopSt) : Outcome → LoopSt × Bool
  | .actionMismatch => ({ s with reason := "action_mismatch" }, false)
  | .resourceMismatch => ({ s with reason := "resource_mismatch" }, false)
  | .condFalse => ({ s with reason := "condition_mismatch" }, false)
  | .condTypeErr => ({ s with reason := "condition_type_mismatch" }, false)
  | .applies effect rid obls =>
    let s := { s with lastRuleId := rid }
    if algo == "first-applicable" then
      ({ s with decision := effect, obligations := obls,
                reason := if effect == "deny" then "explicit_deny" else "matched" }, true)
    else if effect == "deny" then
      let s := { s with anyDeny := true, denyRuleId := rid }
      if algo == "deny-overrides" then
        ({ s with decision := "deny", reason := "explicit_deny", obligations := obls }, true)
      else (s, false)
    else
      let s := { s with anyPermit := true, permitRuleId := rid, permitObls := obls }
      if algo == "permit-overrides" then
        ({ s with decision := "permit", reason := "matched", obligations := obls }, true)
      else (s, false)

def rulesLoop (cx : CondCtx) (algo : String) : LoopSt → List PyVal → Except CondErr LoopSt
  | s, [] => .ok s
  | s, r :: rs =>
    match ruleOutcome cx r with
    | .error e => .error e
    | .ok out =>
      let (s', broke) := stepRule algo s out
      if broke then .ok s' else rulesLoop cx algo s' rs

/-- the block after the loop -/
def finalise (algo : String) (s : LoopSt) : Raw :=
  let s :=
    if algo == "deny-overrides" then
      if s.anyDeny then
        { s with decision := "deny", reason := "explicit_deny", lastRuleId := s.denyRuleId, obligations := [] }
      else if s.anyPermit then
        { s with decision := "permit", reason := "matched", lastRuleId := s.permitRuleId, obligations := s.permitObls }
      else { s with decision := "deny", obligations := [] }
    else if algo == "permit-overrides" then
      if s.anyPermit then
        { s with decision := "permit", reason := "matched", lastRuleId := s.permitRuleId, obligations := s.permitObls }
      else if s.anyDeny then
        { s with decision := "deny", reason := "explicit_deny", lastRuleId := s.denyRuleId, obligations := [] }
      else { s with decision := "deny", obligations := [] }
    else
      if s.lastRuleId.isNone then { s with decision := "deny" } else s
  { decision := s.decision, reason := s.reason, ruleId := s.lastRuleId, lastRuleId := s.lastRuleId,
    obligations := s.obligations }

/-- `policy.get("rules") or []`, `[]` when that is not a list -/
def rulesOf (policy : PyVal) : List PyVal :=
  match por (policy.get "rules") (.list []) with
  | .list rs => rs
  | _ => []

/-- `evaluate(policy, env)` with `dflt` the default algorithm literal of the caller -/
def evaluate (cx : CondCtx) (dflt : String) (policy : PyVal) : Except CondErr Raw := do
  let algo ← lowerField (policy.get "algorithm") dflt
  let s ← rulesLoop cx algo {} (rulesOf policy)
  pure (finalise algo s)

end Rbacx
