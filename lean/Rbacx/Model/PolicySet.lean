import Rbacx.Model.Policy
/-
  Rbacx.Model.PolicySet — `decide` of core/policyset.py over (nested) policy sets.
-/
namespace Rbacx
open PyVal

/-- a policy document seen as a tree: anything with a `policies` key is a set -/
inductive PTree where
  | leaf (doc : PyVal)
  | node (doc : PyVal) (children : List PTree)
deriving Inhabited

def toTree : Nat → PyVal → PTree
  | 0, d => .leaf d
  | fuel + 1, d =>
    if d.hasKey "policies" then
      match por (d.get "policies") (.list []) with
      | .list cs => .node d (cs.map (toTree fuel))
      | _ => .node d []
    else .leaf d

def treeOf (doc : PyVal) : PTree := toTree (doc.size + 1) doc

def PTree.doc : PTree → PyVal
  | .leaf d => d
  | .node d _ => d

/-- `res.get("last_rule_id") or res.get("rule_id")` -/
def Raw.rid (r : Raw) : PyVal := por r.lastRuleId r.ruleId

/-- `_is_applicable(result)` -/
def isApplicable (r : Raw) : Bool :=
  let rid := if r.lastRuleId.isNone then r.ruleId else r.lastRuleId
  match rid with
  | .str s => s != "" || r.reason == "matched" || r.reason == "explicit_deny"
  | _ => false

structure SetSt where
  anyPermit : Bool := false
  anyDeny : Bool := false
  first : Option (Raw × PyVal) := Option.none
  permit : Option (Raw × PyVal) := Option.none
  deny : Option (Raw × PyVal) := Option.none
  lastRuleId : PyVal := .none
deriving Inhabited

/-- `if isinstance(rid, str) and rid: last_rule_id = rid` -/
def noteRuleId (s : SetSt) (res : Raw) : SetSt :=
  match res.rid with
  | .str r => if r != "" then { s with lastRuleId := .str r } else s
  | _ => s

/-- the rest of one iteration of `for pol in policies`; the Boolean is `true` on `break` -/
def combineChild (algo : String) (s : SetSt) (pid : PyVal) (res : Raw) : SetSt × Bool :=
  if !isApplicable res then (s, false)
  else if algo == "first-applicable" then ({ s with first := some (res, pid) }, true)
  else if res.decision == "deny" then
    ({ s with anyDeny := true, deny := if s.deny.isNone then some (res, pid) else s.deny }, algo == "deny-overrides")
  else if res.decision == "permit" then
    ({ s with anyPermit := true, permit := if s.permit.isNone then some (res, pid) else s.permit },
     algo == "permit-overrides")
  else (s, false)

/-- one iteration of `for pol in policies`; the Boolean is `true` on `break` -/
def stepChild (algo : String) (s : SetSt) (pid : PyVal) (res : Raw) : SetSt × Bool :=
  combineChild algo (noteRuleId s res) pid res

def noMatch (lastRuleId : PyVal) : Raw :=
  { decision := "deny", reason := "no_match", ruleId := .none, lastRuleId := lastRuleId,
    policyId := .none, obligations := [] }

def denyOut (res : Raw) (pid : PyVal) : Raw :=
  { decision := "deny", reason := "explicit_deny", ruleId := res.rid, lastRuleId := res.rid,
    policyId := pid, obligations := res.obligations }

def permitOut (res : Raw) (pid : PyVal) : Raw :=
  { res with policyId := pid, reason := if res.reason == "" then "matched" else res.reason }

/-- `flag and x is not None` guards of the final block -/
def pick (flag : Bool) (x : Option (Raw × PyVal)) : Option (Raw × PyVal) := if flag then x else Option.none

/-- the block after the loop -/
def finaliseSet (algo : String) (s : SetSt) : Raw :=
  if algo == "first-applicable" then
    match s.first with
    | some (res, pid) => { res with policyId := pid }
    | Option.none => noMatch s.lastRuleId
  else if algo == "deny-overrides" then
    match pick s.anyDeny s.deny with
    | some (res, pid) => denyOut res pid
    | Option.none =>
      match pick s.anyPermit s.permit with
      | some (res, pid) => permitOut res pid
      | Option.none => noMatch s.lastRuleId
  else
    match pick s.anyPermit s.permit with
    | some (res, pid) => permitOut res pid
    | Option.none =>
      match pick s.anyDeny s.deny with
      | some (res, pid) => denyOut res pid
      | Option.none => noMatch s.lastRuleId

mutual
/-- `_decide_single` -/
def decideTree (cx : CondCtx) (interpDflt setDflt : String) : PTree → Except CondErr Raw
  | .leaf doc => evaluate cx interpDflt doc
  | .node doc children =>
    match lowerField (doc.get "algorithm") setDflt with
    | .error e => .error e
    | .ok algo =>
      match childrenLoop cx interpDflt setDflt algo {} children with
      | .error e => .error e
      | .ok s => .ok (finaliseSet algo s)
def childrenLoop (cx : CondCtx) (interpDflt setDflt algo : String) : SetSt → List PTree → Except CondErr SetSt
  | s, [] => .ok s
  | s, c :: cs =>
    match decideTree cx interpDflt setDflt c with
    | .error e => .error e
    | .ok res =>
      let (s', broke) := stepChild algo s (c.doc.get "id") res
      if broke then .ok s' else childrenLoop cx interpDflt setDflt algo s' cs
end

end Rbacx
