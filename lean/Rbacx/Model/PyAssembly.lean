import Rbacx.Model.PyLib
import Rbacx.Model.PyAwait
/-
  Rbacx.Model.PyAssembly — what an API METHOD of a class hands back, as a term over the call of one designated CORE method
  (`harness/pytolean_sinks.py`, `assembly`; made for `Guard.evaluate_async` / `evaluate_sync` / `is_allowed_sync` / `is_allowed_async`
  around `Guard._evaluate_core_async`, core/engine.py — C14's "sync, async and in-loop sync are one core").

  The term language `Api` has a constructor for each way the source may pass the core's result on, and `other` for everything else:
  * `core args`       `self.<core>(a, b, c, d)` — the coroutine of the core on the caller's objects, named by the bare argument names;
  * `method m args`   `self.<m>(a, b, c, d)` for another API method `m`;
  * `await e`, `run e` (`asyncio.run(e)`), `thread e` (`ex.submit(f).result()` on a `ThreadPoolExecutor` for a local `def f(): return e`):
    three ways of running something to completion and handing on ITS result — its value, or its exception (trusted: that is what
    `await`, `asyncio.run`, `Future.result` do);
  * `attr e f`        `e.f`;
  * `ite t a b`       `if t: return a` followed by `b` — `t` (is a loop running?) does not involve the core;
  * `other text`      any statement or expression outside these shapes (a second call, post-processing, a loop, …).
  `paths` lists what the method can hand back, one `Res` per control path; `Res.eval` reads a `Res` for a given behaviour of the core.
-/
namespace Rbacx.PyAsm

inductive Api where
  | core (args : List String)
  | method (name : String) (args : List String)
  | await (e : Api)
  | run (e : Api)
  | thread (e : Api)
  | attr (e : Api) (field : String)
  | ite (test : String) (a b : Api)
  | other (text : String)
deriving Inhabited, Repr

/-- what a control path hands back -/
inductive Res where
  /-- the outcome of the core run ONCE on the caller's objects named `args` -/
  | coreOf (args : List String)
  | field (r : Res) (f : String)
  | junk (why : String)
deriving Inhabited, Repr, DecidableEq

structure Wrapper where
  name : String
  params : List String
  isAsync : Bool
  body : Api
  /-- the number of call sites of the core / of API methods in the method's source text -/
  sites : Nat
deriving Inhabited

/-- the calls of the core / of API methods the term accounts for -/
def Api.leaves : Api → Nat
  | .core _ => 1
  | .method _ _ => 1
  | .await e => e.leaves
  | .run e => e.leaves
  | .thread e => e.leaves
  | .attr e _ => e.leaves
  | .ite _ a b => a.leaves + b.leaves
  | .other _ => 0

def subst (ps as : List String) (x : String) : String :=
  match (ps.zip as).find? (fun p => p.1 == x) with
  | some p => p.2
  | none => x

def Res.rename (σ : String → String) : Res → Res
  | .coreOf args => .coreOf (args.map σ)
  | .field r f => .field (r.rename σ) f
  | .junk w => .junk w

def lookup (tbl : List Wrapper) (m : String) : Option Wrapper := tbl.find? (fun w => w.name == m)

/-- what the term can hand back, one entry per control path (`fuel` bounds the chain of API methods calling API methods) -/
def paths (tbl : List Wrapper) : Nat → Api → List Res
  | 0, _ => [.junk "fuel"]
  | _ + 1, .core args => [.coreOf args]
  | n + 1, .method m args =>
    match lookup tbl m with
    | some w =>
      if w.params.length = args.length then (paths tbl n w.body).map (Res.rename (subst w.params args)) else [.junk "arity"]
    | none => [.junk m]
  | n + 1, .await e => paths tbl n e
  | n + 1, .run e => paths tbl n e
  | n + 1, .thread e => paths tbl n e
  | n + 1, .attr e f => (paths tbl n e).map (Res.field · f)
  | n + 1, .ite _ a b => paths tbl n a ++ paths tbl n b
  | _ + 1, .other t => [.junk t]

/-- a `Res` for a given behaviour of the core: `core args` = what running the core once on these objects gives (a value, or the class
    of the exception it raises) -/
def Res.eval (core : List String → Except String PyVal) : Res → Except String PyVal
  | .coreOf args => core args
  | .field r f => (r.eval core).map (Rbacx.Py.attr · f)
  | .junk w => .error ("not a function of the core: " ++ w)

/-- the API method `name` exists, has `arity` parameters, accounts for every call site in its text, has at least one control path, and
    on every path hands back `expect <its own parameters>` -/
def denotes (tbl : List Wrapper) (name : String) (arity : Nat) (expect : List String → Res) : Bool :=
  match lookup tbl name with
  | some w =>
    w.params.length == arity && w.body.leaves == w.sites && !(paths tbl 8 w.body).isEmpty &&
      (paths tbl 8 w.body).all (fun r => r == expect w.params)
  | none => false

/-- the meaning of `denotes`: for EVERY behaviour of the core, every control path of the method evaluates to `expect params` -/
theorem denotes_sound {tbl : List Wrapper} {name : String} {arity : Nat} {expect : List String → Res}
    (h : denotes tbl name arity expect = true) :
    ∃ w, lookup tbl name = some w ∧ w.params.length = arity ∧ paths tbl 8 w.body ≠ [] ∧
      ∀ (core : List String → Except String PyVal), ∀ r ∈ paths tbl 8 w.body, r.eval core = (expect w.params).eval core := by
  unfold denotes at h
  cases hw : lookup tbl name with
  | none => simp [hw] at h
  | some w =>
    simp only [hw, Bool.and_eq_true, beq_iff_eq, Bool.not_eq_true', List.all_eq_true] at h
    obtain ⟨⟨⟨h1, _⟩, h3⟩, h4⟩ := h
    refine ⟨w, rfl, h1, ?_, ?_⟩
    · intro he; simp [he] at h3
    · intro core r hr
      have := h4 r hr
      rw [this]

end Rbacx.PyAsm
