import Rbacx.Model.PyLib
/-
  Rbacx.Model.PyAwait — the Python constructs `harness/pytolean_async.py` adds to the translator family for statement ranges of an
  `async def` method that talks to collaborators (`Guard._evaluate_core_async`, core/engine.py):

  * an AWAITED COLLABORATOR CALL `await maybe_await(self.<collaborator>.<method>(args…))` is not translated: the call is an
    application of a function parameter whose result is the call's OUTCOME, `some v` = the awaited call returned `v`, `none` = it
    raised (anything `except Exception` catches).  `maybe_await` (await the value if it is awaitable, else hand it on) is part of that
    outcome: sync and async collaborators differ only in how the value arrives.
  * `try: X = <awaited call>; <statements that cannot raise> except Exception: <handler>` is a case split on that outcome; with a
    tuple target `a, b = …` the unpacking belongs to the raising point: a returned value that does not unpack into exactly two
    items raises (TypeError / ValueError) before either name is bound, and lands in the same handler.
  * instances of frozen dataclasses are records of their fields: `C(f=…, …)` is `record`, `x.f` is `attr`, `getattr(x, "f", d)` is
    `getattrD` (the default also for `x = None`).
-/
namespace Rbacx.Py
open PyVal

/-- `a, b = v`: the two items `v` iterates over (list/tuple of length 2, the keys of a 2-entry dict, the characters of a 2-character
    string); `none` = CPython raises (TypeError: not iterable; ValueError: not exactly two items) and binds neither name -/
def unpack2 (v : PyVal) : Option (PyVal × PyVal) :=
  match iter v with
  | [a, b] => some (a, b)
  | _ => Option.none

/-- `a, b = await maybe_await(<collaborator call>)` as the first statement of a `try … except Exception`: `out` is the outcome of
    the awaited call (`none` = raised); `none` = control goes to the handler, with `a`, `b` unbound -/
def awaitUnpack2 (out : Option PyVal) : Option (PyVal × PyVal) := out.bind unpack2

/-- `C(f1=v1, …)` for a frozen dataclass `C`: the record of its fields in declaration order -/
def record (fields : List (String × PyVal)) : PyVal := .dict fields

/-- `x.f` on such a record (CPython raises AttributeError when there is no such field: the translator checks the field against the
    dataclass declaration) -/
def attr (x : PyVal) (f : String) : PyVal := x.get f

/-- `getattr(x, "f", default)`: the field when `x` is a record that has it, else the default (in particular for `x = None`) -/
def getattrD (x : PyVal) (f : String) (dflt : PyVal) : PyVal :=
  match x with
  | .dict kvs => (lookup f kvs).getD dflt
  | _ => dflt

theorem unpack2_pair (a b : PyVal) : unpack2 (.list [a, b]) = some (a, b) := rfl
theorem awaitUnpack2_none : awaitUnpack2 Option.none = Option.none := rfl
theorem awaitUnpack2_pair (a b : PyVal) : awaitUnpack2 (some (.list [a, b])) = some (a, b) := rfl

/-- a returned value that is not a 2-item iterable is the raising case -/
theorem awaitUnpack2_bad (v : PyVal) (h : (iter v).length ≠ 2) : awaitUnpack2 (some v) = Option.none := by
  show unpack2 v = Option.none
  unfold unpack2
  match hv : iter v with
  | [] => rfl
  | [_] => rfl
  | [_, _] => rw [hv] at h; exact absurd rfl h
  | _ :: _ :: _ :: _ => rfl

end Rbacx.Py
