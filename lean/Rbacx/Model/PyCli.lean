import Rbacx.Model.PyLib
/-
  Rbacx.Model.PyCli — meanings of the Python constructs `harness/pytolean_cli.py` targets (C17: the command functions of
  `rbacx/cli.py` and the parser dispatch of `rbacx/store/policy_loader.py`).

  EXCEPTION-PASSING style with exception OBJECTS and the class HIERARCHY: a translated function has type `… → Except Exc PyVal`;
  `.ok v` = the call returned `v`, `.error e` = the exception `e` escaped it.  An exception is its class NAME, its `str(e)` and its
  `.code` (SystemExit); `except C` catches by `isinstance`, i.e. by the table `ancestors` of CPython 3.12's builtin classes (a class
  that is not in the table is read as a direct subclass of `Exception`: jsonschema's `ValidationError` / `SchemaError`, PyYAML's
  `YAMLError`).  Collaborators that stay outside the translation (`open`+`read`, `sys.stdin.read`, `json.loads`, `yaml.safe_load`,
  `bytes.decode`, `validate_policy`, the linters, `_parse_require_attrs`) are function parameters returning `Except Exc PyVal` = the
  OUTCOME of that call; the per-run obligation quantifies over all of them.
-/
namespace Rbacx.PyX
open PyVal

/-- an exception object, as far as the translated code looks at it -/
structure Exc where
  cls : String
  msg : String := ""
  code : PyVal := .none
deriving Inhabited

abbrev Res := Except Exc PyVal

/-- sequencing: the first exception ends the computation -/
def bind {α β : Type} (x : Except Exc α) (k : α → Except Exc β) : Except Exc β :=
  match x with
  | .ok v => k v
  | .error e => .error e

/-- the PROPER ancestors of an exception class (CPython 3.12, `Lib/json/decoder.py` for JSONDecodeError).  Anything else: a direct
    subclass of `Exception` -/
def ancestors : String → List String
  | "BaseException" => []
  | "Exception" => ["BaseException"]
  | "SystemExit" => ["BaseException"]
  | "KeyboardInterrupt" => ["BaseException"]
  | "GeneratorExit" => ["BaseException"]
  | "FileNotFoundError" => ["OSError", "Exception", "BaseException"]
  | "PermissionError" => ["OSError", "Exception", "BaseException"]
  | "IsADirectoryError" => ["OSError", "Exception", "BaseException"]
  | "NotADirectoryError" => ["OSError", "Exception", "BaseException"]
  | "JSONDecodeError" => ["ValueError", "Exception", "BaseException"]
  | "UnicodeError" => ["ValueError", "Exception", "BaseException"]
  | "UnicodeDecodeError" => ["UnicodeError", "ValueError", "Exception", "BaseException"]
  | "RecursionError" => ["RuntimeError", "Exception", "BaseException"]
  | "NotImplementedError" => ["RuntimeError", "Exception", "BaseException"]
  | "ModuleNotFoundError" => ["ImportError", "Exception", "BaseException"]
  | "KeyError" => ["LookupError", "Exception", "BaseException"]
  | "IndexError" => ["LookupError", "Exception", "BaseException"]
  | "OverflowError" => ["ArithmeticError", "Exception", "BaseException"]
  | "NotRepresented" => []       -- not a Python class: what a meaning below answers where it does not represent CPython; no handler catches it
  | _ => ["Exception", "BaseException"]

/-- `issubclass(c, base)` on class names -/
def isSubclass (c base : String) : Bool := c == base || (ancestors c).contains base

/-- does `except (C1, …)` catch the exception? -/
def catches (classes : List String) (e : Exc) : Bool := classes.any fun c => isSubclass e.cls c

/-- how a statement list that may `return` or run off its end finishes: `ret v` = it executed `return v`; `next s` = control ran
    off its end with the variables that are used afterwards at `s` (a tuple, a single value, or `()`) -/
inductive Flow (σ : Type) where
  | ret (v : PyVal)
  | next (s : σ)

/-- `try: <body> except C1 [as e]: <h1> except C2 [as e]: <h2> …`: an exception of the body goes to the FIRST handler whose classes
    catch it (a bare `raise` there is `.error e`), to nobody if none does -/
def tryCatch {α : Type} (body : Except Exc α) (handlers : List (List String × (Exc → Except Exc α))) : Except Exc α :=
  match body with
  | .ok v => .ok v
  | .error e =>
    match handlers.find? (fun h => catches h.1 e) with
    | some h => h.2 e
    | Option.none => .error e

/-- the statements after a compound statement that may have returned -/
def thenFlow {σ : Type} (x : Except Exc (Flow σ)) (k : σ → Res) : Res :=
  match x with
  | .error e => .error e
  | .ok (.ret v) => .ok v
  | .ok (.next s) => k s

/-- the same inside a statement list that is itself a `Flow` (a `try` body, a loop body) -/
def thenFlowF {σ τ : Type} (x : Except Exc (Flow σ)) (k : σ → Except Exc (Flow τ)) : Except Exc (Flow τ) :=
  match x with
  | .error e => .error e
  | .ok (.ret v) => .ok (.ret v)
  | .ok (.next s) => k s

/-- `for idx, x in enumerate(xs): <body>` from index `i` on; the body carries `σ` -/
def forEnumFrom {σ : Type} (i : Nat) (xs : List PyVal) (s : σ) (body : σ → PyVal → PyVal → Except Exc (Flow σ)) :
    Except Exc (Flow σ) :=
  match xs with
  | [] => .ok (.next s)
  | x :: rest =>
    match body s (.int i) x with
    | .error e => .error e
    | .ok (.ret v) => .ok (.ret v)
    | .ok (.next s') => forEnumFrom (i + 1) rest s' body

/-- `for idx, x in enumerate(xs): <body>` -/
def forEnum {σ : Type} (xs : List PyVal) (s : σ) (body : σ → PyVal → PyVal → Except Exc (Flow σ)) : Except Exc (Flow σ) :=
  forEnumFrom 0 xs s body

/-- `for x in xs: <body>` -/
def forEach {σ : Type} (xs : List PyVal) (s : σ) (body : σ → PyVal → Except Exc (Flow σ)) : Except Exc (Flow σ) :=
  match xs with
  | [] => .ok (.next s)
  | x :: rest =>
    match body s x with
    | .error e => .error e
    | .ok (.ret v) => .ok (.ret v)
    | .ok (.next s') => forEach rest s' body

/-- the items an iteration over `v` yields; TypeError for a value that cannot be iterated -/
def iterE (v : PyVal) : Except Exc (List PyVal) :=
  match v with
  | .list _ => .ok (Rbacx.Py.iter v)
  | .dict _ => .ok (Rbacx.Py.iter v)
  | .str _ => .ok (Rbacx.Py.iter v)
  | _ => .error { cls := "TypeError" }

/-- `list(v)` -/
def listE (v : PyVal) : Res := bind (iterE v) fun xs => .ok (.list xs)

/-- `d.get(k)` with a constant string key: AttributeError when `d` is not a dict (no other JSON-shaped value has `.get`) -/
def getE (d : PyVal) (k : String) : Res :=
  match d with
  | .dict _ => .ok (d.get k)
  | _ => .error { cls := "AttributeError" }

/-- `xs.append(x)` on a local list nobody else holds: the list afterwards -/
def append : PyVal → PyVal → PyVal
  | .list xs, x => .list (xs ++ [x])
  | v, _ => v

/-- `getattr(o, "name", default)` on an `argparse.Namespace` (its attributes as a dict) -/
def getattrD (o : PyVal) (name : String) (dflt : PyVal) : PyVal :=
  match o with
  | .dict kvs => (lookup name kvs).getD dflt
  | _ => dflt

/-- `hasattr(o, "name")` -/
def hasattr (o : PyVal) (name : String) : Bool :=
  match o with
  | .dict kvs => (lookup name kvs).isSome
  | _ => false

/-- `o.name`: AttributeError when absent -/
def getattrE (o : PyVal) (name : String) : Res :=
  match o with
  | .dict kvs => (match lookup name kvs with | some v => .ok v | Option.none => .error { cls := "AttributeError" })
  | _ => .error { cls := "AttributeError" }

/-- `int(v)` as far as it is represented: an int is itself, a bool 0/1, `None` / list / dict raise TypeError; floats and strings
    (which `int` truncates / parses) are NOT represented -/
def intE : PyVal → Res
  | .int n => .ok (.int n)
  | .bool b => .ok (.int (boolToInt b))
  | .none => .error { cls := "TypeError" }
  | .list _ => .error { cls := "TypeError" }
  | .dict _ => .error { cls := "TypeError" }
  | _ => .error { cls := "NotRepresented" }

end Rbacx.PyX
