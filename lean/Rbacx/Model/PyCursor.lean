import Rbacx.Model.PyLib
import Rbacx.Model.Redact
/-
  Rbacx.Model.PyCursor — the CPython meaning of MUTATION THROUGH AN ALIAS on JSON-shaped trees, as far as the cursor
  translation (`harness/pytolean_cursor.py`; C19: `_ensure_list_size`, `_set_by_path`, `apply_obligations` of
  obligations/enforcer.py) needs it.

  The reading.  One variable of the function is THE STATE: a `PyVal` tree (for `_set_by_path` its first parameter `obj`).
  A CURSOR is a local that is bound to the state (`cur = obj`) and afterwards re-bound only by subscripting itself
  (`cur = cur[p]`, `cur = cur[key][idx]`): at every moment it denotes a node INSIDE the state, so it is represented by the
  ACCESS PATH of that node — the list of the subscripts taken, each a Python value (`str` = dict key, `int` = list index,
  negative ones as Python reads them).  Reading through the cursor is `atPath state path`; a store through it
  (`cur[k] = v`, `cur[k][i] = v`, `lst.append(v)`) is the functional update of the state at that path — and because the state is
  the ONE tree everybody else holds too (the caller's `obj`), the caller sees it.  This is sound for TREES (no object reachable
  along two different paths — the stated domain of C19's model as well): updating one path then cannot change what another,
  disjoint path reads.

  Operations that can raise in CPython return `Option` (`none` = KeyError / IndexError / TypeError / ValueError escaped); the
  translated functions therefore have type `… → Option PyVal` and the per-run obligation proves `= some (model …)`: that no
  subscript of the source can raise on any tree is a theorem about the source text, not an assumption.
-/
namespace Rbacx.PyC
open PyVal

/-- an access path: the subscripts taken from the state down to a node -/
abbrev Path := List PyVal

/-- the position `lst[i]` denotes in a list of length `len`; `none` = IndexError (`i ≥ len` or `i < -len`) -/
def listPos (len : Nat) (i : Int) : Option Nat :=
  if i < 0 then (if (-i).toNat ≤ len then some (len - (-i).toNat) else none)
  else (if i.toNat < len then some i.toNat else none)

/-- `v[k]` (load): a dict with a `str` key (`none` = KeyError), a list with an `int` index (`none` = IndexError).  Everything else —
    subscripting a scalar, a non-`str` dict key (in no JSON dict), a `bool` index — is `none` as well (TypeError / KeyError; a
    `bool` index, which CPython reads as 0/1, is NOT represented). -/
def item : PyVal → PyVal → Option PyVal
  | .dict kvs, .str k => lookup k kvs
  | .list xs, .int i => (listPos xs.length i).bind fun n => xs[n]?
  | _, _ => Option.none

/-- the container `v` after `v[k] = w`: a dict entry is replaced in place or appended; a list element is replaced IN RANGE ONLY
    (`none` = IndexError — a list never grows by assignment); `none` also for every other receiver (TypeError) -/
def setItem : PyVal → PyVal → PyVal → Option PyVal
  | .dict kvs, .str k, w => some (.dict (Py.setKV k w kvs))
  | .list xs, .int i, w => (listPos xs.length i).map fun n => .list (xs.set n w)
  | _, _, _ => Option.none

/-- the node at an access path (`state[s1][s2]…`), `none` = one of the subscripts raises -/
def atPath : PyVal → Path → Option PyVal
  | v, [] => some v
  | v, s :: r => (item v s).bind fun c => atPath c r

/-- the state after the node at `path` has been changed by `f` (every container on the way holds the changed child at the same
    subscript: that is what mutation of a shared object means for whoever holds the root) -/
def modAt : PyVal → Path → (PyVal → Option PyVal) → Option PyVal
  | v, [], f => f v
  | v, s :: r, f => (item v s).bind fun c => (modAt c r f).bind fun c' => setItem v s c'

/-- `<node at path>[k] = w` -/
def setAt (st : PyVal) (path : Path) (k w : PyVal) : Option PyVal := modAt st path fun c => setItem c k w

/-- `<node at path>.append(w)` (`none`: not a list — AttributeError) -/
def appendAt (st : PyVal) (path : Path) (w : PyVal) : Option PyVal :=
  modAt st path fun c => match c with | .list xs => some (.list (xs ++ [w])) | _ => Option.none

/-- `copy.deepcopy(v)`: a VALUE is its own deep copy.  What the copy buys in CPython — the result shares no object with the
    argument, so mutating it cannot be seen through the argument — is exactly what value semantics gives for free: this is the
    one point of the enforcer where value semantics and reference semantics coincide BECAUSE the source copies
    (the harness's identity / caller-untouched checks are the tie for it). -/
def deepcopy (v : PyVal) : PyVal := v

/-! ### strings, integers -/

/-- `s.split(c)` for a one-character separator -/
def splitChar : PyVal → Char → PyVal
  | .str s, c => .list ((splitStr c s).map .str)
  | _, _ => .list []

/-- `s.split(c, 1)`: at the first occurrence of the one-character separator -/
def splitChar1 : PyVal → Char → PyVal
  | .str s, c =>
    let cs := s.toList
    if cs.contains c then .list [.str (String.ofList (cs.takeWhile (· != c))), .str (String.ofList ((cs.dropWhile (· != c)).drop 1))]
    else .list [.str s]
  | _, _ => .list []

/-- `a, b = v` (`none` = ValueError / TypeError: not exactly two items) -/
def unpack2 : PyVal → Option (PyVal × PyVal)
  | .list [a, b] => some (a, b)
  | _ => Option.none

/-- `v[:n]` with a constant `n` (str, list) -/
def sliceTo : PyVal → Int → PyVal
  | .str s, n =>
    let cs := s.toList
    .str (String.ofList (cs.take (if n < 0 then cs.length - (-n).toNat else n.toNat)))
  | .list xs, n => .list (xs.take (if n < 0 then xs.length - (-n).toNat else n.toNat))
  | v, _ => v

/-- `int(x)`: for a `str` EXACTLY the function the model's path parser uses (`Redact.parsePyInt`: ASCII whitespace, sign, digits
    with single underscores; compared with CPython's `int` on every C19 run), `none` = ValueError; an int is itself, a bool 0/1;
    None and containers raise TypeError (`none`); a float argument (truncation) is NOT represented. -/
def intOf : PyVal → Option PyVal
  | .str s => (Redact.parsePyInt s.toList).map .int
  | .int n => some (.int n)
  | .bool b => some (.int (boolToInt b))
  | _ => Option.none

/-- `len(v)` as a value -/
def lenV (v : PyVal) : PyVal := .int (Py.len v)

/-- `a + b`, `a - b`, `-a` on ints (other kinds: not represented, `None`) -/
def add : PyVal → PyVal → PyVal
  | .int a, .int b => .int (a + b)
  | _, _ => PyVal.none
def sub : PyVal → PyVal → PyVal
  | .int a, .int b => .int (a - b)
  | _, _ => PyVal.none
def neg : PyVal → PyVal
  | .int a => .int (-a)
  | _ => PyVal.none

/-- the iteration budget a measure expression grants -/
def budget : PyVal → Nat
  | .int n => n.toNat
  | _ => 0

/-! ### short-circuit operators whose later operand can raise -/

/-- `a or b` where evaluating `b` may raise: `b` is evaluated only when `a` is falsy -/
def orE (a : PyVal) (b : Unit → Option PyVal) : Option PyVal := if a.truthy then some a else b ()
/-- `a and b` where evaluating `b` may raise -/
def andE (a : PyVal) (b : Unit → Option PyVal) : Option PyVal := if a.truthy then b () else some a

/-! ### loops -/

/-- `while cond: body` on the state, with an iteration budget; condition and body may raise (`none`); running out of budget is
    `none` too — the obligation proves `some`, so the budget (a measure expression supplied with the translation) is not trusted -/
def whileO (fuel : Nat) (st : PyVal) (cond : PyVal → Option PyVal) (body : PyVal → Option PyVal) : Option PyVal :=
  match fuel with
  | 0 => (cond st).bind fun c => if c.truthy then Option.none else some st
  | n + 1 => (cond st).bind fun c => if c.truthy then (body st).bind fun st' => whileO n st' cond body else some st

/-- how one execution of the body of a cursor loop ends: `ret st` = `return` (the function returns None: what remains is the
    state), `next st cur` = `continue` / ran off the end, with the state and the cursor as they are then -/
inductive Step where
  | ret (st : PyVal)
  | next (st : PyVal) (cur : Path)

/-- `for i, x in enumerate(xs): body` carrying the state and a cursor, as the LAST statement of a function that returns None:
    the result is the state when the loop is left (by `return` or by exhaustion) -/
def forEnumFrom (i : Nat) (st : PyVal) (cur : Path) (body : PyVal → PyVal → PyVal → Path → Option Step) : List PyVal → Option PyVal
  | [] => some st
  | x :: xs =>
    (body (.int i) x st cur).bind fun r =>
      match r with
      | .ret st' => some st'
      | .next st' cur' => forEnumFrom (i + 1) st' cur' body xs

def forEnum (xs : List PyVal) (st : PyVal) (cur : Path) (body : PyVal → PyVal → PyVal → Path → Option Step) : Option PyVal :=
  forEnumFrom 0 st cur body xs

/-- `for x in xs: body` carrying the state (no `return`/`break` in the body; `continue` / running off the end = the state then) -/
def forState (xs : List PyVal) (st : PyVal) (body : PyVal → PyVal → Option PyVal) : Option PyVal :=
  match xs with
  | [] => some st
  | x :: rest => (body x st).bind fun st' => forState rest st' body

end Rbacx.PyC
