import Rbacx.Model.PyExcept
import Rbacx.Model.PyProto
/-
  Rbacx.Model.PyDecide — the one meaning `harness/pytolean_decide.py` adds to the translator family (the decision dispatch
  `Guard._decide_async` and the constructor `Guard.__init__`, core/engine.py; C09, C01, C03):

  * `"k" in c` with a string literal on the left is a RAISING point: `strIn k c` is `some b` on the containers of the value universe and
    `none` (= `TypeError`) elsewhere.  It is `PyE.containsE` (the meaning the condition translator already uses, compared with CPython
    by C04's evaluator) read as an outcome.
-/
namespace Rbacx.PyD

/-- `"k" in c`: dict → the key is present; list → an element equals the string; str → substring; anything else raises `TypeError` -/
def strIn (k : String) (c : PyVal) : Option Bool :=
  match Rbacx.PyE.containsE c (.str k) with
  | .ok v => some v.truthy
  | .error _ => none

theorem strIn_dict (k : String) (kvs : List (String × PyVal)) : strIn k (.dict kvs) = some (PyVal.hasKey (.dict kvs) k) := by
  simp [strIn, Rbacx.PyE.containsE, PyVal.truthy]

theorem strIn_none (k : String) : strIn k .none = none := by
  simp [strIn, Rbacx.PyE.containsE]

end Rbacx.PyD
