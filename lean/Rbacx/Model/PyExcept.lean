import Rbacx.Model.Cond
import Rbacx.Model.PyLib
/-
  Rbacx.Model.PyExcept — Python operations in EXCEPTION-PASSING style: the target of `harness/pytolean_except.py`
  (the condition evaluator `eval_condition` and its helpers, core/policy.py; C04/C06).

  A translated expression that can raise in CPython on JSON-shaped values has type `Except CondErr PyVal`:
  `.ok v` = it evaluated to `v`; `.error .typeMismatch` = it raised `ConditionTypeError` (the one exception `evaluate`
  catches: the rule does not apply); `.error (.raised cls)` = it raised the builtin exception class `cls`.  Each definition
  below is the CPython meaning of the construct named in its doc comment, on the value universe `PyVal` (tuples are lists;
  `set`/`frozenset` do not occur).  Where a case is deliberately not represented the result is `.raised "NotRepresented"`,
  a class CPython never raises, so that the differential run (`translated_vs_python`, harness/props/c04.py) would show it.
  Statements are sequenced with `bind` (left to right, the first exception wins), exactly as CPython evaluates them.
  Also the target of the whole-function translation of the two reference evaluators (`policy.evaluate`, `policyset.decide` /
  `_decide_single`; C02): `lowerE`, `dictE`, `forLoop` (several carried variables, `break` / `continue`), `tryBind`.
-/
namespace Rbacx.PyE
open PyVal

abbrev Res := Except CondErr PyVal

/-- sequencing: evaluate `x`; an exception ends the computation, a value goes on into `k` -/
def bind {α β : Type} (x : Except CondErr α) (k : α → Except CondErr β) : Except CondErr β :=
  match x with
  | .ok v => k v
  | .error e => .error e

/-- the exception a `raise Cls(...)` statement raises: `ConditionTypeError` is the model's `typeMismatch` -/
def excOf (cls : String) : CondErr := if cls = "ConditionTypeError" then .typeMismatch else .raised cls

/-- `raise Cls(...)` (also `raise Cls(...) from e`: the cause does not change the class) -/
def raise {α : Type} (cls : String) : Except CondErr α := .error (excOf cls)

/-- the budget of a recursive function ran out (never CPython's behaviour: the obligation proves that a budget suffices) -/
def outOfFuel {α : Type} : Except CondErr α := .error (.raised "OutOfFuel")

/-- does `except C1, C2, …` catch the exception?  `Exception` catches everything raised here; otherwise by class name
    (the translator accepts only `Exception`, `ConditionTypeError` and leaf builtin classes in a handler).  A `ConditionTypeError` is
    `.typeMismatch` and nothing else: `.raised "ConditionTypeError"` is not a value any translated statement produces (`raise
    ConditionTypeError(…)` is `excOf`'s `.typeMismatch`), and it is not what the handler name `ConditionTypeError` stands for — the
    model's `condOutcome` lets every `.raised cls` through, whatever the text of `cls` -/
def catches (classes : List String) : CondErr → Bool
  | .typeMismatch => classes.contains "Exception" || classes.contains "ConditionTypeError"
  | .raised c => classes.contains "Exception" || (c != "ConditionTypeError" && classes.contains c)

/-- `try: <body> except (C1, …): <handler>` where body and handler both end in `return`/`raise` on every path -/
def tryExcept (body : Res) (classes : List String) (handler : Res) : Res :=
  match body with
  | .ok v => .ok v
  | .error e => if catches classes e then handler else .error e

/-- `isinstance(v, T)` / `isinstance(v, (T1, T2, …))`: a tuple is a list here; there are no sets -/
def isInstance (v : PyVal) (tys : List String) : PyVal :=
  .bool (tys.any fun ty =>
    match ty with
    | "tuple" => v.isList
    | "set" => false
    | "frozenset" => false
    | "datetime" => (match v with | .dt _ _ => true | _ => false)
    | t => (Rbacx.Py.isInstance v t).truthy)

/-- can `for x in v` / unpacking / `list(v)` iterate over the value? -/
def isIterable : PyVal → Bool
  | .list _ => true
  | .dict _ => true
  | .str _ => true
  | _ => false

/-- the items an iteration over `v` yields (list: elements; dict: keys; str: characters); TypeError for anything else -/
def iterE (v : PyVal) : Except CondErr (List PyVal) :=
  if isIterable v then .ok (Rbacx.Py.iter v) else .error (.raised "TypeError")

/-- `a, b = v` followed by `k a b`: TypeError when `v` is not iterable, ValueError when it does not yield exactly two items -/
def unpack2 {β : Type} (v : PyVal) (k : PyVal → PyVal → Except CondErr β) : Except CondErr β :=
  match iterE v with
  | .error e => .error e
  | .ok [a, b] => k a b
  | .ok _ => .error (.raised "ValueError")

/-- `list(v)` -/
def listE (v : PyVal) : Res := bind (iterE v) fun xs => .ok (.list xs)

/-- element `i` of a list with Python's negative indices -/
def listIdx (xs : List PyVal) (i : Int) : Option PyVal :=
  let n : Int := xs.length
  let j := if i < 0 then i + n else i
  if j < 0 then Option.none else xs[j.toNat]?

/-- `d[k]`: a dict with a string key (KeyError when absent; TypeError for an unhashable key; any other key is in no JSON dict),
    a list / str with an int index (IndexError out of range); TypeError for everything else -/
def itemE : PyVal → PyVal → Res
  | .dict kvs, .str k => (match lookup k kvs with | some v => .ok v | Option.none => .error (.raised "KeyError"))
  | .dict _, .list _ => .error (.raised "TypeError")
  | .dict _, .dict _ => .error (.raised "TypeError")
  | .dict _, _ => .error (.raised "KeyError")
  | .list xs, .int i => (match listIdx xs i with | some v => .ok v | Option.none => .error (.raised "IndexError"))
  | .list xs, .bool b => (match listIdx xs (boolToInt b) with | some v => .ok v | Option.none => .error (.raised "IndexError"))
  | .str s, .int i =>
    (match listIdx (Rbacx.Py.iter (.str s)) i with | some v => .ok v | Option.none => .error (.raised "IndexError"))
  | _, _ => .error (.raised "TypeError")

/-- `d.get(k)`: AttributeError when `d` is not a dict (no JSON value but a dict has `.get`), TypeError for an unhashable key -/
def getE : PyVal → PyVal → Res
  | .dict kvs, k => if Rbacx.Py.hashable k then .ok (Rbacx.Py.getV (.dict kvs) k) else .error (.raised "TypeError")
  | _, _ => .error (.raised "AttributeError")

/-- `x in c`: a list/tuple compares by `==` (never raises on JSON values); a str needs a str on the left (TypeError otherwise);
    a dict looks the key up (TypeError for an unhashable `x`); any other `c` is not a container: TypeError -/
def containsE : PyVal → PyVal → Res
  | .list xs, x => .ok (.bool (pyIn x xs))
  | .str s, .str t => .ok (.bool (strContains s t))
  | .str _, _ => .error (.raised "TypeError")
  | .dict kvs, .str k => .ok (.bool (PyVal.hasKey (.dict kvs) k))
  | .dict _, .list _ => .error (.raised "TypeError")
  | .dict _, .dict _ => .error (.raised "TypeError")
  | .dict _, _ => .ok (.bool false)
  | _, _ => .error (.raised "TypeError")

/-- `len(v)` -/
def lenE : PyVal → Res
  | .list xs => .ok (.int xs.length)
  | .dict kvs => .ok (.int kvs.length)
  | .str s => .ok (.int s.length)
  | _ => .error (.raised "TypeError")

/-- `float(v)` for a number: an int too large for a double raises OverflowError (`Float.ofInt` rounds to ±inf exactly then).
    `float(<str>)` parses text — NOT represented (the translated source applies `float` behind `isinstance(v, (int, float))`) -/
def floatE : PyVal → Res
  | .float f => .ok (.float f)
  | .int n => (let f := Float.ofInt n; if f.isInf then .error (.raised "OverflowError") else .ok (.float f))
  | .bool b => .ok (.float (if b then 1.0 else 0.0))
  | .str _ => .error (.raised "NotRepresented")
  | _ => .error (.raised "TypeError")

/-- `a < b`: floats (IEEE), ints/bools, strs (code points), datetimes of the same awareness (instants; mixing aware and naive is a
    TypeError).  An int against a float (exact in CPython) and list against list are NOT represented; every other pair of kinds
    is a TypeError -/
def ltE : PyVal → PyVal → Res
  | .float a, .float b => .ok (.bool (decide (a < b)))
  | .int a, .int b => .ok (.bool (decide (a < b)))
  | .bool a, .int b => .ok (.bool (decide (boolToInt a < b)))
  | .int a, .bool b => .ok (.bool (decide (a < boolToInt b)))
  | .bool a, .bool b => .ok (.bool (decide (boolToInt a < boolToInt b)))
  | .str a, .str b => .ok (.bool (decide (a < b)))
  | .dt a1 m1, .dt a2 m2 => if a1 == a2 then .ok (.bool (decide (m1 < m2))) else .error (.raised "TypeError")
  | .float _, .int _ => .error (.raised "NotRepresented")
  | .int _, .float _ => .error (.raised "NotRepresented")
  | .float _, .bool _ => .error (.raised "NotRepresented")
  | .bool _, .float _ => .error (.raised "NotRepresented")
  | .list _, .list _ => .error (.raised "NotRepresented")
  | _, _ => .error (.raised "TypeError")

/-- `a <= b` (same domain as `ltE`) -/
def leE : PyVal → PyVal → Res
  | .float a, .float b => .ok (.bool (decide (a ≤ b)))
  | .int a, .int b => .ok (.bool (decide (a ≤ b)))
  | .bool a, .int b => .ok (.bool (decide (boolToInt a ≤ b)))
  | .int a, .bool b => .ok (.bool (decide (a ≤ boolToInt b)))
  | .bool a, .bool b => .ok (.bool (decide (boolToInt a ≤ boolToInt b)))
  | .str a, .str b => .ok (.bool (decide (a ≤ b)))
  | .dt a1 m1, .dt a2 m2 => if a1 == a2 then .ok (.bool (decide (m1 ≤ m2))) else .error (.raised "TypeError")
  | .float _, .int _ => .error (.raised "NotRepresented")
  | .int _, .float _ => .error (.raised "NotRepresented")
  | .float _, .bool _ => .error (.raised "NotRepresented")
  | .bool _, .float _ => .error (.raised "NotRepresented")
  | .list _, .list _ => .error (.raised "NotRepresented")
  | _, _ => .error (.raised "TypeError")

/-- `a > b` is `b < a` -/
def gtE (a b : PyVal) : Res := ltE b a
/-- `a >= b` is `b <= a` -/
def geE (a b : PyVal) : Res := leE b a

/-- `s.startswith(p)`: AttributeError when `s` is not a str, TypeError when `p` is neither a str nor a tuple of strs -/
def startswithE : PyVal → PyVal → Res
  | .str s, .str p => .ok (.bool (strStartsWith s p))
  | .str _, .list _ => .error (.raised "NotRepresented")
  | .str _, _ => .error (.raised "TypeError")
  | _, _ => .error (.raised "AttributeError")

/-- `s.endswith(p)` -/
def endswithE : PyVal → PyVal → Res
  | .str s, .str p => .ok (.bool (strEndsWith s p))
  | .str _, .list _ => .error (.raised "NotRepresented")
  | .str _, _ => .error (.raised "TypeError")
  | _, _ => .error (.raised "AttributeError")

/-- `s.split(c)` for a one-character constant separator: AttributeError when `s` is not a str -/
def splitE (sep : Char) : PyVal → Res
  | .str s => .ok (.list ((splitStr sep s).map PyVal.str))
  | _ => .error (.raised "AttributeError")

/-- `for x in xs: <body>` where the body carries ONE variable from iteration to iteration (`body state x` = its value at the end of
    the iteration) and contains no `break`/`continue`/`return`: a left fold that stops at the first exception -/
def forFold (xs : List PyVal) (init : PyVal) (body : PyVal → PyVal → Res) : Res :=
  match xs with
  | [] => .ok init
  | x :: rest => bind (body init x) fun s => forFold rest s body

/-- `all(f(x) for x in xs)`: left to right; the first falsy value ends it with `False`, the first exception propagates -/
def allE (xs : List PyVal) (f : PyVal → Res) : Res :=
  match xs with
  | [] => .ok (.bool true)
  | x :: rest => bind (f x) fun v => if v.truthy then allE rest f else .ok (.bool false)

/-- `any(f(x) for x in xs)`: left to right; the first truthy value ends it with `True`, the first exception propagates -/
def anyE (xs : List PyVal) (f : PyVal → Res) : Res :=
  match xs with
  | [] => .ok (.bool false)
  | x :: rest => bind (f x) fun v => if v.truthy then .ok (.bool true) else anyE rest f

/-- `s.lower()`: AttributeError when `s` is not a str (no other JSON value has `.lower`); ASCII letters only, as the model's
    `lowerField` (algorithm and effect names) -/
def lowerE : PyVal → Res
  | .str s => .ok (.str (asciiLower s))
  | _ => .error (.raised "AttributeError")

/-- `dict(x)`: a shallow copy of a dict (values, not references: nobody else holds the copy); TypeError for a value that cannot be
    iterated; a list / str argument (pairs / ValueError) is NOT represented -/
def dictE : PyVal → Res
  | .dict kvs => .ok (.dict kvs)
  | .list _ => .error (.raised "NotRepresented")
  | .str _ => .error (.raised "NotRepresented")
  | _ => .error (.raised "TypeError")

/-- how ONE iteration of a `for` body that carries the variables `σ` (a tuple) ends: `next s` = it ran off its end or executed
    `continue` with the variables at `s`; `brk s` = it executed `break` -/
inductive Ctl (σ : Type) where
  | next (s : σ)
  | brk (s : σ)

/-- `for x in xs: <body>` whose body carries SEVERAL variables (the tuple `σ`) and may `break` / `continue`: the body is run on the
    items from left to right; `brk` ends the loop with the variables as they are, the first exception propagates -/
def forLoop {σ : Type} (xs : List PyVal) (init : σ) (body : σ → PyVal → Except CondErr (Ctl σ)) : Except CondErr σ :=
  match xs with
  | [] => .ok init
  | x :: rest => bind (body init x) fun c => match c with
    | .next s => forLoop rest s body
    | .brk s => .ok s

/-- `try: <the only thing that can raise: x> except (C1, …): <handler>` followed by statements that are OUTSIDE the try: `x` is evaluated
    under the handler; its value goes on into `k` (the rest of the try body and what follows the statement — nothing there is
    protected: the translator accepts this shape only when the rest of the try body cannot raise), a caught exception into `handler`
    (the handler's statements and what follows the statement), any other exception propagates -/
def tryBind {β : Type} (x : Res) (classes : List String) (handler : Except CondErr β) (k : PyVal → Except CondErr β) :
    Except CondErr β :=
  match x with
  | .ok v => k v
  | .error e => if catches classes e then handler else .error e

/-- how a translated STATEMENT RANGE of a function ends: `ret v` = it executed `return v`; `next` = control ran off its end
    (the range assigns nothing the rest of the function reads) -/
inductive Flow where
  | ret (v : PyVal)
  | next

/-- the statements after a translated range: a `return` inside the range ends the function, otherwise `rest` runs -/
def afterRange (r : Except CondErr Flow) (rest : Res) : Res :=
  match r with
  | .ok (.ret v) => .ok v
  | .ok .next => rest
  | .error e => .error e

end Rbacx.PyE
