import Rbacx.Model.PyLib
import Rbacx.Model.PyCli
/-
  Rbacx.Model.PyHttp — meanings of the Python constructs `harness/pytolean_http.py` targets (C10 / C17:
  `HTTPPolicySource.load`, `etag`, the state-creating statements of `__init__`; store/http_store.py).

  STATE- AND EXCEPTION-PASSING: a statement list is a term of type `σ × Except Exc (Flow τ)` — the fields of the object AFTER the
  statements ran (also when an exception escaped: what was assigned before the raise stays assigned) and how they ended: an
  exception, a `return v`, or control ran off the end with the live locals `τ`.  Exceptions are `Rbacx.PyX.Exc` (class name; `except C`
  catches by the class table `Rbacx.PyX.ancestors`).

  The RESPONSE OBJECT `requests.get` returns is a record of OUTCOMES — what each thing the code may do to it answers.  The per-run
  obligation quantifies over all of them; nothing about `requests` is modelled.
-/
namespace Rbacx.PyH
open PyVal

abbrev Exc := Rbacx.PyX.Exc

/-- a response object, as far as the translated code can look at it -/
structure Resp where
  /-- `hasattr(r, name)` -/
  has : String → Bool
  /-- `getattr(r, name, None)` (None when absent) for an attribute that is a plain value -/
  attr : String → PyVal
  /-- `some o`: the attribute is a `bytes` / `bytearray`, `o` = the outcome of `.decode("utf-8")` on it -/
  bytesAttr : String → Option (Except Exc PyVal)
  /-- outcome of `r.raise_for_status()` -/
  raiseForStatus : Except Exc PyVal
  /-- `isinstance(getattr(r, "headers", None), dict)` -/
  headersIsDict : Bool
  /-- outcome of `r.headers.get(key)` -/
  headersGet : String → Except Exc PyVal
  /-- outcome of `r.json()`, by CALL SITE (numbered in source order; each site runs at most once per call of `load`) -/
  json : Nat → Except Exc PyVal

inductive Flow (τ : Type) where
  | ret (v : PyVal)
  | next (s : τ)

abbrev Stm (σ τ : Type) := σ × Except Exc (Flow τ)

/-- a call that stays outside the translation: its outcome either binds or raises here, with the fields as they are now -/
def bindE {σ α τ : Type} (st : σ) (x : Except Exc α) (k : α → Stm σ τ) : Stm σ τ :=
  match x with
  | .ok v => k v
  | .error e => (st, .error e)

/-- the statements after a compound statement -/
def thenFlow {σ τ ρ : Type} (x : Stm σ τ) (k : σ → τ → Stm σ ρ) : Stm σ ρ :=
  match x with
  | (st, .error e) => (st, .error e)
  | (st, .ok (.ret v)) => (st, .ok (.ret v))
  | (st, .ok (.next s)) => k st s

/-- `try: <body> except (C…) [as e]: <handler>`: the handler starts from the fields as the body left them -/
def tryCatch {σ τ : Type} (body : Stm σ τ) (classes : List String) (handler : σ → Exc → Stm σ τ) : Stm σ τ :=
  match body with
  | (st, .error e) => if Rbacx.PyX.catches classes e then handler st e else (st, .error e)
  | r => r

/-- a function body: running off the end returns None -/
def finish {σ : Type} (x : Stm σ Unit) : σ × Except Exc PyVal :=
  match x with
  | (st, .error e) => (st, .error e)
  | (st, .ok (.ret v)) => (st, .ok v)
  | (st, .ok (.next _)) => (st, .ok .none)

/-- `d.setdefault(k, v)` as a statement on a local dict nobody else holds: the dict afterwards -/
def setdefault (d : PyVal) (k : String) (v : PyVal) : PyVal :=
  match d with
  | .dict kvs => (match lookup k kvs with | some _ => d | Option.none => .dict (kvs ++ [(k, v)]))
  | _ => d

/-- `r.headers.get(key)`: AttributeError when the object has no `headers` -/
def Resp.hget (r : Resp) (k : String) : Except Exc PyVal :=
  if r.has "headers" then r.headersGet k else .error { cls := "AttributeError" }

/-- `r.json()` at call site `i` -/
def Resp.callJson (r : Resp) (i : Nat) : Except Exc PyVal :=
  if r.has "json" then r.json i else .error { cls := "AttributeError" }

/-- `r.raise_for_status()` -/
def Resp.callRaise (r : Resp) : Except Exc PyVal :=
  if r.has "raise_for_status" then r.raiseForStatus else .error { cls := "AttributeError" }

/-- `x.decode("utf-8")` where `x = getattr(r, name, None)` -/
def Resp.decode (r : Resp) (name : String) : Except Exc PyVal :=
  match r.bytesAttr name with
  | some o => o
  | Option.none => .error { cls := "AttributeError" }

/-- `isinstance(x, (bytes, bytearray))` where `x = getattr(r, name, None)` -/
def Resp.isBytes (r : Resp) (name : String) : PyVal := .bool (r.bytesAttr name).isSome

def b2v (b : Bool) : PyVal := .bool b

end Rbacx.PyH
