import Rbacx.Model.PyExcept
/-
  Rbacx.Model.PyIdent — Python operations the translation of CLOSURES OVER AN INDEX needs (`compile` of core/compiler.py and the
  `decide(env)` it returns; harness/pytolean_closure.py; C03): object identity, in-place operations on fresh local containers,
  dicts keyed by identities, a stable sort by key.  Exception-passing style as in Model/PyExcept.lean.

  OBJECT IDENTITY.  `id(x)` cannot be a function of the VALUE of `x` (two equal rules of one document are two objects).  The
  translator finds the variables whose values are objects the function OBSERVES BY IDENTITY (everything that flows, through `for`,
  `.append`, subscripts, `.get`, assignments, into an argument of `id`) and represents such an object as the pair
  `tag i v` = `[i, v]` of an identity `i` and its value `v`.  Objects enter where a plain value flows into a list of such objects
  (`rules = policy.get("rules") or []`): `tagList` gives the elements of the list their POSITIONS as identities — distinct positions
  are distinct objects.  (A list that holds one dict object twice is not represented: a JSON / YAML loader never builds one.)
  `id(x)` is `idOf x`; where the object is used as a value (`rule.get(…)`, an argument of another function, a member of a dict
  display) it is `untag x` / `untagList xs`.
-/
namespace Rbacx.PyI
open PyVal Rbacx.PyE

/-- the object with identity `i` and value `v` -/
def tag (i : Nat) (v : PyVal) : PyVal := .list [.int i, v]

def tagFrom (i : Nat) : List PyVal → List PyVal
  | [] => []
  | x :: xs => tag i x :: tagFrom (i + 1) xs

/-- objects enter: the items an iteration over the value yields get their positions as identities (a value that cannot be iterated
    stays as it is: the `for` over it raises TypeError) -/
def tagList (v : PyVal) : PyVal :=
  match iterE v with
  | .ok xs => .list (tagFrom 0 xs)
  | .error _ => v

/-- `id(x)` -/
def idOf : PyVal → PyVal
  | .list [i, _] => i
  | _ => PyVal.none

/-- the object used as a value -/
def untag : PyVal → PyVal
  | .list [_, v] => v
  | v => v

/-- a list of objects used as a value -/
def untagList : PyVal → PyVal
  | .list xs => .list (xs.map untag)
  | v => v

/-! ### in-place operations on a fresh local (the variable is rebound to the container afterwards) -/

/-- `xs.append(x)` -/
def appendE : PyVal → PyVal → Res
  | .list xs, x => .ok (.list (xs ++ [x]))
  | _, _ => .error (.raised "AttributeError")

/-- `s.add(x)` on a set given by the duplicate-free list of its members (`Py.setAdd`); TypeError for an unhashable member -/
def addE (s x : PyVal) : Res :=
  if Rbacx.Py.hashable x then .ok (Rbacx.Py.setAdd s x) else .error (.raised "TypeError")

/-- the position a Python index denotes in a list of length `n` -/
def normIdx (n : Nat) (i : Int) : Option Nat :=
  let j := if i < 0 then i + n else i
  if j < 0 then Option.none else if j.toNat < n then some j.toNat else Option.none

/-- `xs[i] = v` on a list: IndexError out of range, TypeError for an index that is not an int -/
def setIdxE : PyVal → PyVal → PyVal → Res
  | .list xs, .int i, v => (match normIdx xs.length i with | some j => .ok (.list (xs.set j v)) | Option.none => .error (.raised "IndexError"))
  | .list xs, .bool b, v => (match normIdx xs.length (boolToInt b) with | some j => .ok (.list (xs.set j v)) | Option.none => .error (.raised "IndexError"))
  | .list _, _, _ => .error (.raised "TypeError")
  | _, _, _ => .error (.raised "NotRepresented")

/-- `xs[i].append(x)` on a list of lists (the inner lists are fresh, unaliased displays): the list `xs` is bound to afterwards -/
def appendAtE (xs i x : PyVal) : Res :=
  PyE.bind (itemE xs i) fun inner => PyE.bind (appendE inner x) fun inner' => setIdxE xs i inner'

/-- `d.get(k, default)` on a dict with string keys: TypeError for an unhashable key, a non-string key is in no such dict,
    AttributeError when `d` is not a dict -/
def getDE : PyVal → PyVal → PyVal → Res
  | .dict kvs, .str k, dflt => .ok ((lookup k kvs).getD dflt)
  | .dict _, .list _, _ => .error (.raised "TypeError")
  | .dict _, .dict _, _ => .error (.raised "TypeError")
  | .dict _, _, dflt => .ok dflt
  | _, _, _ => .error (.raised "AttributeError")

/-- `d.setdefault(k, []).append(x)` on a dict with string keys whose values are lists: the dict `d` is bound to afterwards (a new
    key goes to the end).  A key that is not a string is NOT represented (TypeError when it is unhashable). -/
def setdefaultAppendE : PyVal → PyVal → PyVal → Res
  | .dict kvs, .str k, x =>
    (match lookup k kvs with
     | some (.list xs) => .ok (.dict (Rbacx.Py.setKV k (.list (xs ++ [x])) kvs))
     | some _ => .error (.raised "AttributeError")
     | Option.none => .ok (.dict (Rbacx.Py.setKV k (.list [x]) kvs)))
  | .dict _, .list _, _ => .error (.raised "TypeError")
  | .dict _, .dict _, _ => .error (.raised "TypeError")
  | .dict _, _, _ => .error (.raised "NotRepresented")
  | _, _, _ => .error (.raised "AttributeError")

/-! ### a dict keyed by identities (ints): the insertion-ordered list of its `[key, value]` entries -/

/-- an entry `[key, value]` -/
def entryOf : PyVal → Option (PyVal × PyVal)
  | .list [k, v] => some (k, v)
  | _ => Option.none

def idLookup (k : PyVal) : List PyVal → Option PyVal
  | [] => Option.none
  | e :: rest =>
    match entryOf e with
    | some (k', v) => if pyEq k' k then some v else idLookup k rest
    | Option.none => idLookup k rest

/-- `d.get(k, default)` -/
def idGet (d k dflt : PyVal) : PyVal :=
  match d with
  | .list es => (idLookup k es).getD dflt
  | _ => dflt

/-- the dict `d` is bound to after `d.setdefault(k, v)` (the returned value is not used) -/
def idSetdefault (d k v : PyVal) : PyVal :=
  match d with
  | .list es => if (idLookup k es).isSome then d else .list (es ++ [.list [k, v]])
  | _ => d

/-! ### `xs.sort(key=f)`: stable, ascending by key; keys are ints (positions, lengths) -/

/-- `a < b` on the keys: ints / bools; any other pair is NOT represented (`false`: the element stays where it is) -/
def keyLt (a b : PyVal) : Bool := (Rbacx.Py.lt a b).truthy

/-- insert `x`, which stood BEFORE all of the (sorted) list, behind the elements whose key is smaller: it stays in front of the
    elements with an equal key (stability) -/
def insertByKey (key : PyVal → PyVal) (x : PyVal) : List PyVal → List PyVal
  | [] => [x]
  | y :: ys => if keyLt (key y) (key x) then y :: insertByKey key x ys else x :: y :: ys

/-- stable insertion sort by key: the elements are inserted from the right, so equal keys keep their order -/
def sortListBy (key : PyVal → PyVal) : List PyVal → List PyVal
  | [] => []
  | x :: xs => insertByKey key x (sortListBy key xs)

/-- the list `xs` is bound to after `xs.sort(key=f)` (`f` total on the elements) -/
def sortBy (xs : PyVal) (key : PyVal → PyVal) : PyVal :=
  match xs with
  | .list l => .list (sortListBy key l)
  | v => v

end Rbacx.PyI
