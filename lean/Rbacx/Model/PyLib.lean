import Rbacx.Model.Value
import Rbacx.Model.Oracle
/-
  Rbacx.Model.PyLib — the handful of Python operations that the source-to-Lean translator
  (`harness/pytolean.py`) targets.  Every Python value is a `PyVal` (tuples are lists); each
  definition below is the CPython meaning of the construct named in its doc comment on
  JSON-shaped values.  `Generated.lean` contains the *mechanical translation of the current
  source text* of selected functions in terms of these; the per-run obligations
  (`Run/C03_translated.lean`) prove that translation equal to the hand-written model the
  theorems are about.
-/
namespace Rbacx.Py
open PyVal

/-- `a and b` (value-returning) -/
def pand (a b : PyVal) : PyVal := if a.truthy then b else a

/-- `not a` -/
def pnot (a : PyVal) : PyVal := .bool (!a.truthy)

/-- the items `for x in v` iterates over (list/tuple: elements; dict: keys; str: characters; else nothing —
    CPython raises TypeError for non-iterables, which the translated functions guard by `isinstance`) -/
def iter : PyVal → List PyVal
  | .list xs => xs
  | .dict kvs => kvs.map fun kv => .str kv.1
  | .str s => s.toList.map fun c => .str (String.ofList [c])
  | _ => []

/-- `x in c`: substring test when both are strings; membership (`==`) for a list/tuple/dict container -/
def contains (c x : PyVal) : PyVal :=
  match c, x with
  | .str s, .str t => .bool (strContains s t)
  | _, _ => .bool ((iter c).any fun y => pyEq y x)

/-- `s.lower()` (ASCII letters only: the callers' inputs are format names, MIME types and file names) -/
def lower : PyVal → PyVal
  | .str s => .str (asciiLower s)
  | v => v

/-- `s.endswith(suffix)` / `s.endswith((suffix, …))` -/
def endswith : PyVal → PyVal → PyVal
  | .str s, .str suf => .bool (strEndsWith s suf)
  | .str s, .list sufs => .bool (sufs.any fun x => match x with | .str suf => strEndsWith s suf | _ => false)
  | _, _ => .bool false

/-- `any(f(x) for x in it)` -/
def anyOf (it : PyVal) (f : PyVal → PyVal) : PyVal := .bool ((iter it).any fun x => (f x).truthy)

/-- `len(v)` -/
def len : PyVal → Int
  | .list xs => xs.length
  | .dict kvs => kvs.length
  | .str s => s.length
  | _ => 0

/-- `out = []; for x in it: out.extend(f(x))` — what an append-only loop computes -/
def collect (it : PyVal) (f : PyVal → List PyVal) : PyVal := .list ((iter it).flatMap f)

/-- `a + b` on lists (used when a loop appends to a non-empty accumulator) -/
def concat : PyVal → PyVal → PyVal
  | .list xs, .list ys => .list (xs ++ ys)
  | a, _ => a

def isInstance (v : PyVal) (ty : String) : PyVal :=
  .bool (match ty with
    | "str" => v.isStr
    | "list" => v.isList
    | "dict" => v.isDict
    | "bool" => v.isBool
    | "int" => (match v with | .int _ => true | .bool _ => true | _ => false)
    | "float" => (match v with | .float _ => true | _ => false)
    | "Iterable" => (match v with | .list _ => true | .dict _ => true | .str _ => true | _ => false)
    | _ => false)

/-- `d.get(k)` -/
def get (d : PyVal) (k : String) : PyVal := d.get k

/-- the entries of a dict after `d[k] = v`: an existing key keeps its position and gets the new value, a new key goes to the end -/
def setKV (k : String) (v : PyVal) : List (String × PyVal) → List (String × PyVal)
  | [] => [(k, v)]
  | (k', w) :: rest => if k' = k then (k', v) :: rest else (k', w) :: setKV k v rest

/-- `d[k] = v` as a value: the dict `d` is bound to afterwards.  (On a non-dict CPython raises TypeError or does something else
    entirely; the translator emits this only for a variable bound to a dict the fragment has just built and not aliased.) -/
def setItem : PyVal → String → PyVal → PyVal
  | .dict kvs, k, v => .dict (setKV k v kvs)
  | d, _, _ => d

/-- a dict display `{"k1": v1, "k2": v2, …}` with constant keys: entries are stored left to right (a repeated key keeps its
    first position and takes the last value) -/
def dictOf (kvs : List (String × PyVal)) : PyVal := kvs.foldl (fun d kv => setItem d kv.1 kv.2) (.dict [])

/-- `dict(d)` for a dict `d`: a shallow copy (as a value: the same entries in the same order).  CPython raises TypeError for
    None/numbers and accepts iterables of pairs; the translated fragments only copy decision dicts, other arguments give `{}` here. -/
def dictCopy : PyVal → PyVal
  | .dict kvs => .dict kvs
  | _ => .dict []

/-- `str(x)`: CPython's meaning on str / None / bool / int.  The text CPython produces for floats, containers and datetimes is
    not modelled (the marker `"<repr>"` stands for it: a text that differs from every literal the translated source compares
    `str(x)` with); the fragments apply `str` to the `decision` of a raw decision dict, which is a string. -/
def strOf : PyVal → PyVal
  | .str s => .str s
  | .none => .str "None"
  | .bool true => .str "True"
  | .bool false => .str "False"
  | .int n => .str (toString n)
  | _ => .str "<repr>"

/-- `str(x)` with CPython's text for floats, containers and datetimes supplied by the oracle (`Oracle.pyStr`: str / None / bool / int
    are rendered as above, everything else is `o.strOf`).  Used by the translated target matcher, which is handed the same `Oracle`
    as the model. -/
def strO (o : Oracle) (x : PyVal) : PyVal := .str (o.pyStr x)

/-- `bool(x)` -/
def boolOf (x : PyVal) : PyVal := .bool x.truthy

/-- `all(f(x) for x in it)` -/
def allOf (it : PyVal) (f : PyVal → PyVal) : PyVal := .bool ((iter it).all fun x => (f x).truthy)

/-- `a in s` for a set `s` given by the list of its members (`{e for x in it}`, `{a, b}`, `set(it)`; the translator emits this only
    for a set that is the right operand of `in` / `not in`): membership by `==`.  CPython looks the hash up first; for the hashable
    JSON values (str, int, float, bool, None) equal values have equal hashes, so that is the same test.  A list or dict MEMBER makes
    CPython raise TypeError (unhashable) while the set is built — not represented here: the translated source must exclude it
    (`match_resource` builds sets of `str(x)` results, and `set(allowed)` only behind `all(isinstance(x, str) for x in allowed)`). -/
def inSet (members : List PyVal) (a : PyVal) : PyVal := .bool (members.any fun y => pyEq y a)

/-- `d.get(k)` with a key that is a value: a non-string key is in no JSON dict -/
def getV (d k : PyVal) : PyVal :=
  match k with
  | .str s => d.get s
  | _ => PyVal.none

/-- the pairs `d.items()` iterates over, in insertion order (CPython raises AttributeError for a non-dict; the translated source
    guards with `isinstance(d, dict)`) -/
def items : PyVal → List (PyVal × PyVal)
  | .dict kvs => kvs.map fun kv => (.str kv.1, kv.2)
  | _ => []

/-- `for k, v in d.items(): <body>` followed by `<rest>`, where the body may `return` and carries no state from one iteration to the
    next: `body k v = some x` means the iteration returned `x`, `none` that it ran to its end.  The first returned value in
    insertion order, else the value of the statements after the loop. -/
def forItemsRet (d : PyVal) (body : PyVal → PyVal → Option PyVal) (rest : PyVal) : PyVal :=
  ((items d).findSome? fun kv => body kv.1 kv.2).getD rest

/-! ### added for the obligation checker (`BasicObligationChecker.check`, core/obligations.py) -/

/-- how control leaves a translated statement range that can `return` AND can be left normally (a loop body with a `return` in it,
    the statements before a loop): `ret v` = the range executed `return v`; `next vs` = it was left normally, `vs` = the values of
    its output variables (a loop body: the carried variables, then the `broke` flag). -/
inductive Flow where
  | ret (v : PyVal)
  | next (vars : List PyVal)

/-- `for x in xs: <body>` followed by `<rest>`, for a body that is a FLOW fragment without carried variables (`body x = .ret v`: the
    iteration executed `return v`; `.next [broke]`: it ended normally, or with `break` when `broke` is `True`): the first returned
    value in iteration order, else the value of the statements after the loop. -/
def forFlow (body : PyVal → Flow) (rest : PyVal) : List PyVal → PyVal
  | [] => rest
  | x :: xs =>
    match body x with
    | .ret v => v
    | .next [.bool true] => rest
    | .next _ => forFlow body rest xs

/-- `d.get(k, default)` (on a non-dict CPython raises AttributeError; here the default, as `get` answers `None`) -/
def getD (d : PyVal) (k : String) (dflt : PyVal) : PyVal :=
  match d with
  | .dict kvs => (lookup k kvs).getD dflt
  | _ => dflt

/-- can the value be a dict key / set member?  (`hash(x)` raises TypeError for lists and dicts; a `datetime` is hashable) -/
def hashable : PyVal → Bool
  | .list _ => false
  | .dict _ => false
  | _ => true

/-- `a < b` — floats with floats (IEEE: false when either is NaN), ints/bools with ints/bools.  Every other pair of kinds is NOT
    represented (`false`): str/list comparisons are not used by the translated source, None or a dict on either side is a TypeError
    in CPython, and an int against a float is compared exactly by CPython (no rounding), which `Float` cannot express here. -/
def lt : PyVal → PyVal → PyVal
  | .float a, .float b => .bool (decide (a < b))
  | .int a, .int b => .bool (decide (a < b))
  | .bool a, .int b => .bool (decide (boolToInt a < b))
  | .int a, .bool b => .bool (decide (a < boolToInt b))
  | .bool a, .bool b => .bool (decide (boolToInt a < boolToInt b))
  | _, _ => .bool false

/-- `a <= b` (same domain as `lt`) -/
def le : PyVal → PyVal → PyVal
  | .float a, .float b => .bool (decide (a ≤ b))
  | .int a, .int b => .bool (decide (a ≤ b))
  | .bool a, .int b => .bool (decide (boolToInt a ≤ b))
  | .int a, .bool b => .bool (decide (a ≤ boolToInt b))
  | .bool a, .bool b => .bool (decide (boolToInt a ≤ boolToInt b))
  | _, _ => .bool false

/-- `a > b` is `b < a` -/
def gt (a b : PyVal) : PyVal := lt b a

/-- `a >= b` is `b <= a` -/
def ge (a b : PyVal) : PyVal := le b a

/-- the text of an f-string whose parts are literal pieces and `str()` results (the translator renders a replacement field
    `{x}` as `strO o x`: `format(x, "")` is `str(x)` for every JSON-shaped value) -/
def fstrText : List PyVal → String
  | [] => ""
  | .str s :: rest => s ++ fstrText rest
  | _ :: rest => fstrText rest

/-- an f-string -/
def fstr (parts : List PyVal) : PyVal := .str (fstrText parts)

def eq (a b : PyVal) : PyVal := .bool (pyEq a b)
def ne (a b : PyVal) : PyVal := .bool (!pyEq a b)
def isNone (a : PyVal) : PyVal := .bool a.isNone
def isNotNone (a : PyVal) : PyVal := .bool (!a.isNone)
def gtInt (a : Int) (b : Int) : PyVal := .bool (decide (a > b))

end Rbacx.Py
