import Rbacx.Model.Value
/-
  Rbacx.Model.PyLib — the handful of Python operations that the source-to-Lean translator
  (`harness/pytolean.py`) targets.  Every Python value is a `PyVal` (tuples are lists); each
  definition below is the CPython meaning of the construct named in its doc comment on
  JSON-shaped values.  `Generated.lean` contains the *mechanical translation of the current
  source text* of selected functions in terms of these; the per-run obligations
  (`Run/C03_translated.lean`) prove that translation equal to the hand-written model the
  theorems are about.
-/
namespace Rbacx.Py
open PyVal

/-- `a and b` (value-returning) -/
def pand (a b : PyVal) : PyVal := if a.truthy then b else a

/-- `not a` -/
def pnot (a : PyVal) : PyVal := .bool (!a.truthy)

/-- the items `for x in v` iterates over (list/tuple: elements; dict: keys; str: characters; else nothing —
    CPython raises TypeError for non-iterables, which the translated functions guard by `isinstance`) -/
def iter : PyVal → List PyVal
  | .list xs => xs
  | .dict kvs => kvs.map fun kv => .str kv.1
  | .str s => s.toList.map fun c => .str (String.ofList [c])
  | _ => []

/-- `x in c`: substring test when both are strings; membership (`==`) for a list/tuple/dict container -/
def contains (c x : PyVal) : PyVal :=
  match c, x with
  | .str s, .str t => .bool (strContains s t)
  | _, _ => .bool ((iter c).any fun y => pyEq y x)

/-- `s.lower()` (ASCII letters only: the callers' inputs are format names, MIME types and file names) -/
def lower : PyVal → PyVal
  | .str s => .str (asciiLower s)
  | v => v

/-- `s.endswith(suffix)` / `s.endswith((suffix, …))` -/
def endswith : PyVal → PyVal → PyVal
  | .str s, .str suf => .bool (strEndsWith s suf)
  | .str s, .list sufs => .bool (sufs.any fun x => match x with | .str suf => strEndsWith s suf | _ => false)
  | _, _ => .bool false

/-- `any(f(x) for x in it)` -/
def anyOf (it : PyVal) (f : PyVal → PyVal) : PyVal := .bool ((iter it).any fun x => (f x).truthy)

/-- `len(v)` -/
def len : PyVal → Int
  | .list xs => xs.length
  | .dict kvs => kvs.length
  | .str s => s.length
  | _ => 0

/-- `out = []; for x in it: out.extend(f(x))` — what an append-only loop computes -/
def collect (it : PyVal) (f : PyVal → List PyVal) : PyVal := .list ((iter it).flatMap f)

/-- `a + b` on lists (used when a loop appends to a non-empty accumulator) -/
def concat : PyVal → PyVal → PyVal
  | .list xs, .list ys => .list (xs ++ ys)
  | a, _ => a

def isInstance (v : PyVal) (ty : String) : PyVal :=
  .bool (match ty with
    | "str" => v.isStr
    | "list" => v.isList
    | "dict" => v.isDict
    | "bool" => v.isBool
    | "int" => (match v with | .int _ => true | .bool _ => true | _ => false)
    | "float" => (match v with | .float _ => true | _ => false)
    | "Iterable" => (match v with | .list _ => true | .dict _ => true | .str _ => true | _ => false)
    | _ => false)

/-- `d.get(k)` -/
def get (d : PyVal) (k : String) : PyVal := d.get k

def eq (a b : PyVal) : PyVal := .bool (pyEq a b)
def ne (a b : PyVal) : PyVal := .bool (!pyEq a b)
def isNone (a : PyVal) : PyVal := .bool a.isNone
def isNotNone (a : PyVal) : PyVal := .bool (!a.isNone)
def gtInt (a : Int) (b : Int) : PyVal := .bool (decide (a > b))

end Rbacx.Py
