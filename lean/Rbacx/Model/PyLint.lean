import Rbacx.Model.PyLib
/-!
  Rbacx.Model.PyLint — meanings of the Python operations that `harness/pytolean_lint.py` emits for the linter's cross-rule analysis
  (`analyze_policy` / `analyze_policyset` of dsl/lint.py; C17).  Everything else it emits is `Rbacx.Py.*` (Model/PyLib.lean).

  Loops: a `for` with `break`/`continue` over carried variables `σ` is `forStep body items σ`; the body answers `Step.next σ'`
  (fell off its end / `continue`) or `Step.brk σ'` (`break`).  All functions are structurally recursive (kernel-reducible).
-/

namespace Rbacx.PyLn
open PyVal

/-- how one iteration of a loop body ended -/
inductive Step (σ : Type) where
  | next (s : σ)
  | brk (s : σ)

/-- `for x in items: body` with `break`/`continue`, `σ` = the carried variables -/
def forStep {α σ : Type} (body : α → σ → Step σ) : List α → σ → σ
  | [], s => s
  | x :: xs, s =>
    match body x s with
    | .next s' => forStep body xs s'
    | .brk s' => s'

/-- the ints `a, a+1, …` (`n` of them) -/
def rangeFrom (a : Int) : Nat → List PyVal
  | 0 => []
  | n + 1 => .int a :: rangeFrom (a + 1) n

/-- `range(a, b)` on ints (anything else: CPython raises TypeError — not represented, the translated source passes ints) -/
def range : PyVal → PyVal → List PyVal
  | .int a, .int b => rangeFrom a (b - a).toNat
  | _, _ => []

/-- `len(x)` as a value -/
def lenV (v : PyVal) : PyVal := .int (Py.len v)

/-- `a + b` on ints (the only use: `earlier_idx + 1`) -/
def add : PyVal → PyVal → PyVal
  | .int a, .int b => .int (a + b)
  | a, _ => a

/-- `xs[i]` for a list and an int in `0 ≤ i < len(xs)`; a negative index counts from the end as in CPython; an index out of range
    raises IndexError in CPython — not represented (`None`): the translated loops index within `range(…, len(xs))` -/
def index : PyVal → PyVal → PyVal
  | .list xs, .int i => if 0 ≤ i then xs.getD i.toNat .none else if (-i).toNat ≤ xs.length then xs.getD (xs.length - (-i).toNat) .none else .none
  | _, _ => .none

/-- `enumerate` from `n` -/
def enumFrom (n : Nat) : List PyVal → List (PyVal × PyVal)
  | [] => []
  | x :: xs => (.int n, x) :: enumFrom (n + 1) xs

/-- the pairs `enumerate(v)` yields -/
def enumerate (v : PyVal) : List (PyVal × PyVal) := enumFrom 0 (Py.iter v)

/-- the list a local list variable is bound to after `x.append(v)` -/
def append : PyVal → PyVal → PyVal
  | .list xs, v => .list (xs ++ [v])
  | a, _ => a

/-- the truth of `set(a) & set(b)`: some member of `a` equals some member of `b` (by `==`; the members are hashable — the
    translated source applies it to the string tuples `_actions` returns) -/
def shares (a b : PyVal) : Bool := (Py.iter a).any fun x => (Py.iter b).any fun y => pyEq x y

/-- `set(v)` as a value: the list of its members (repetitions and order are irrelevant to the one operation applied to it, `issubset`;
    members are hashable in the translated source) -/
def setOf (v : PyVal) : PyVal := .list (Py.iter v)

/-- `a.issubset(b)` on sets given by their members -/
def issubset (a b : PyVal) : PyVal := .bool ((Py.iter a).all fun x => (Py.iter b).any fun y => pyEq y x)

end Rbacx.PyLn
