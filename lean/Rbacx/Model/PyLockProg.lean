import Rbacx.Model.Locks
/-
  Rbacx.Model.PyLockProg — LOCK PROGRAMS: what `harness/pytolean_locks.py` reads a method of `HotReloader` as (policy/loader.py; property
  C14).  A `Prog` is the control skeleton of a method body over the alphabet `Rbacx.Locks.LOp` of `Model/Locks.lean`
  (acquire / release of `self._lock`, `spawn u` = `Thread.start()` / `executor.submit`, `wait u` = `Thread.join()` / `Future.result()`,
  `ext` = a call of unbounded duration into the policy source).  Core Lean only.

  * `Runs p t e` — `t` is the operation list of ONE control path of `p` and `e` how that path leaves `p` (falls through / `return` /
    exception / `break` / `continue`).  A loop iterates ANY number of times (inductive, unbounded); an `if` takes either branch; a
    statement that contains a call may raise (`mayRaise`); an `except` clause may or may not match.
  * `post re p d` — the compositional static analysis: from lock depth `d`, the depth at every kind of exit (`none` = that exit cannot
    happen); fails (`none`) when a blocking operation (`wait`, `ext`) is met with the lock held, a release without a hold, a second
    acquire of a NON-re-entrant lock (`re = false`), two paths that reach the same exit with different depths, or a loop body that
    does not come back to the depth it started from (the loop INVARIANT — loops are not unrolled).
  * `safe re p` — `post` from depth 0 succeeds and every exit (normal, `return`, exception) has depth 0; no `break` / `continue` escapes.
  * `accepts` — a fuel-bounded matcher: is this operation list a path of `p`?
  Soundness of both: `Proofs/LockProg.lean`.
-/
namespace Rbacx.LockProg
open Rbacx.Locks

/-- how a control path leaves a piece of program -/
inductive End where
  | norm | ret | exc | brk | cont
deriving DecidableEq, Repr

inductive Prog where
  | skip
  | atom (o : LOp)
  /-- `return` / `raise` / `break` / `continue` -/
  | exit (e : End)
  | seq (a b : Prog)
  /-- `if … else …` (the test is not interpreted) -/
  | choice (a b : Prog)
  /-- `while …: a` -/
  | loop (a : Prog)
  /-- `with self._lock: a` — released on EVERY way out of `a` -/
  | withLock (a : Prog)
  /-- `try: a except …: h` (all clauses together are `h`, a choice); the exception may also match no clause -/
  | tryCatch (a h : Prog)
  /-- the body of a method of the class, inlined at a call site: its `return` is the call's normal completion -/
  | call (a : Prog)
  /-- outside the translated subset: has no path and is never safe -/
  | unsupported (why : String)
deriving Repr

/-- a statement that contains a call: completes or raises -/
def mayRaise : Prog := .choice .skip (.exit .exc)

inductive Runs : Prog → List LOp → End → Prop where
  | skip : Runs .skip [] .norm
  | atom (o : LOp) : Runs (.atom o) [o] .norm
  | exit (e : End) : Runs (.exit e) [] e
  | seqN {a b t1 t2 e} : Runs a t1 .norm → Runs b t2 e → Runs (.seq a b) (t1 ++ t2) e
  | seqX {a b t e} : Runs a t e → e ≠ .norm → Runs (.seq a b) t e
  | choiceL {a b t e} : Runs a t e → Runs (.choice a b) t e
  | choiceR {a b t e} : Runs b t e → Runs (.choice a b) t e
  | loopDone {a} : Runs (.loop a) [] .norm
  | loopIter {a t1 t2 e1 e} : Runs a t1 e1 → (e1 = .norm ∨ e1 = .cont) → Runs (.loop a) t2 e → Runs (.loop a) (t1 ++ t2) e
  | loopBrk {a t} : Runs a t .brk → Runs (.loop a) t .norm
  | loopX {a t e} : Runs a t e → (e = .ret ∨ e = .exc) → Runs (.loop a) t e
  | withLock {a t e} : Runs a t e → Runs (.withLock a) (.acq :: (t ++ [.rel])) e
  | tryN {a h t e} : Runs a t e → e ≠ .exc → Runs (.tryCatch a h) t e
  | tryH {a h t1 t2 e} : Runs a t1 .exc → Runs h t2 e → Runs (.tryCatch a h) (t1 ++ t2) e
  | tryP {a h t} : Runs a t .exc → Runs (.tryCatch a h) t .exc
  | callN {a t} : Runs a t .norm → Runs (.call a) t .norm
  | callR {a t} : Runs a t .ret → Runs (.call a) t .norm
  | callX {a t} : Runs a t .exc → Runs (.call a) t .exc

/-! ### the static condition on one path, with the lock's kind -/

/-- `Locks.SafeFrom` plus: a lock that is not re-entrant (`re = false`) is never acquired while held -/
def SafeFromR (re : Bool) : Nat → List LOp → Bool
  | d, [] => d == 0
  | d, .acq :: p => (re || d == 0) && SafeFromR re (d + 1) p
  | d, .rel :: p => decide (d > 0) && SafeFromR re (d - 1) p
  | d, .wait _ :: p => d == 0 && SafeFromR re d p
  | d, .ext :: p => d == 0 && SafeFromR re d p
  | d, .spawn _ :: p => SafeFromR re d p
  | d, .work :: p => SafeFromR re d p

/-! ### the analysis -/

/-- lock depth at each kind of exit; `none` = no path leaves that way -/
abbrev Out := End → Option Nat

def allEnds : List End := [.norm, .ret, .exc, .brk, .cont]

def Out.none : Out := fun _ => Option.none
def Out.only (e : End) (d : Nat) : Out := fun e' => if e' = e then some d else Option.none
def Out.set (o : Out) (e : End) (v : Option Nat) : Out := fun e' => if e' = e then v else o e'

def compat : Option Nat → Option Nat → Bool
  | some x, some y => x == y
  | _, _ => true

/-- both analyses hold together: the same exit must be reached at the same depth -/
def merge (a b : Out) : Option Out :=
  if allEnds.all (fun e => compat (a e) (b e)) then some (fun e => (a e).orElse (fun _ => b e)) else Option.none

/-- the release at the end of a `with self._lock:` on every exit of its body -/
def released (o : Out) : Option Out :=
  if allEnds.all (fun e => match o e with | some x => decide (x > 0) | Option.none => true)
  then some (fun e => (o e).map (· - 1)) else Option.none

def postAtom (re : Bool) (d : Nat) : LOp → Option Out
  | .acq => if re || d == 0 then some (Out.only .norm (d + 1)) else Option.none
  | .rel => if d > 0 then some (Out.only .norm (d - 1)) else Option.none
  | .wait _ => if d == 0 then some (Out.only .norm d) else Option.none
  | .ext => if d == 0 then some (Out.only .norm d) else Option.none
  | .spawn _ => some (Out.only .norm d)
  | .work => some (Out.only .norm d)

def post (re : Bool) : Prog → Nat → Option Out
  | .skip, d => some (Out.only .norm d)
  | .atom o, d => postAtom re d o
  | .exit e, d => some (Out.only e d)
  | .seq a b, d =>
    match post re a d with
    | Option.none => Option.none
    | some oa =>
      match oa .norm with
      | Option.none => some oa
      | some d1 =>
        match post re b d1 with
        | Option.none => Option.none
        | some ob => merge (oa.set .norm Option.none) ob
  | .choice a b, d =>
    match post re a d, post re b d with
    | some oa, some ob => merge oa ob
    | _, _ => Option.none
  | .loop a, d =>
    match post re a d with
    | Option.none => Option.none
    | some oa =>
      -- invariant: every iteration comes back to depth `d`; the loop is left at `d` (test false) or where a `break` is
      if compat (oa .norm) (some d) && compat (oa .cont) (some d) && compat (oa .brk) (some d)
      then some (((oa.set .norm (some d)).set .cont Option.none).set .brk Option.none) else Option.none
  | .withLock a, d =>
    if re || d == 0 then
      match post re a (d + 1) with
      | Option.none => Option.none
      | some oa => released oa
    else Option.none
  | .tryCatch a h, d =>
    match post re a d with
    | Option.none => Option.none
    | some oa =>
      match oa .exc with
      | Option.none => some oa
      | some dx =>
        match post re h dx with
        | Option.none => Option.none
        | some oh => merge oa oh
  | .call a, d =>
    match post re a d with
    | Option.none => Option.none
    | some oa =>
      if compat (oa .norm) (oa .ret) && (oa .brk).isNone && (oa .cont).isNone
      then some ((oa.set .norm ((oa .norm).orElse (fun _ => oa .ret))).set .ret Option.none) else Option.none
  | .unsupported _, _ => Option.none

def exitOk : Option Nat → Bool
  | Option.none => true
  | some d => d == 0

/-- the method can be analysed from depth 0 and leaves with the lock released on every exit -/
def safe (re : Bool) (p : Prog) : Bool :=
  match post re p 0 with
  | Option.none => false
  | some o => exitOk (o .norm) && exitOk (o .ret) && exitOk (o .exc) && (o .brk).isNone && (o .cont).isNone

/-! ### every operation of every path is an atom of the program (for the rank condition on waits) -/

def allOps (f : LOp → Bool) : Prog → Bool
  | .skip => true
  | .atom o => f o
  | .exit _ => true
  | .seq a b => allOps f a && allOps f b
  | .choice a b => allOps f a && allOps f b
  | .loop a => allOps f a
  | .withLock a => f .acq && f .rel && allOps f a
  | .tryCatch a h => allOps f a && allOps f h
  | .call a => allOps f a
  | .unsupported _ => true

/-- thread `t` only waits for threads of higher rank -/
def rankOk (t : Nat) : LOp → Bool
  | .wait u => decide (t < u)
  | _ => true

/-! ### is an operation list a path of the program?  (fuel bounds the number of iterations tried per loop) -/

abbrev K := End → List LOp → Bool

def loopK (ma : List LOp → K → Bool) : Nat → List LOp → K → Bool
  | 0, t, k => k .norm t
  | n + 1, t, k =>
    k .norm t || ma t (fun e t' =>
      match e with
      | .norm => loopK ma n t' k
      | .cont => loopK ma n t' k
      | .brk => k .norm t'
      | .ret => k .ret t'
      | .exc => k .exc t')

/-- `matchK fuel p t k`: some prefix of `t` is a path of `p` leaving by `e`, and `k e <the rest>` -/
def matchK (fuel : Nat) : Prog → List LOp → K → Bool
  | .skip, t, k => k .norm t
  | .atom o, t, k =>
    match t with
    | [] => false
    | o' :: t' => o == o' && k .norm t'
  | .exit e, t, k => k e t
  | .seq a b, t, k => matchK fuel a t (fun e t' => if e = .norm then matchK fuel b t' k else k e t')
  | .choice a b, t, k => matchK fuel a t k || matchK fuel b t k
  | .loop a, t, k => loopK (matchK fuel a) fuel t k
  | .withLock a, t, k =>
    match t with
    | .acq :: t' => matchK fuel a t' (fun e t'' => match t'' with | .rel :: r => k e r | _ => false)
    | _ => false
  | .tryCatch a h, t, k => matchK fuel a t (fun e t' => if e = .exc then (k .exc t' || matchK fuel h t' k) else k e t')
  | .call a, t, k =>
    matchK fuel a t (fun e t' =>
      match e with
      | .norm => k .norm t'
      | .ret => k .norm t'
      | .exc => k .exc t'
      | _ => false)
  | .unsupported _, _, _ => false

/-- `t` is a complete path of `p` (leaving normally, by `return` or by an exception) -/
def accepts (fuel : Nat) (p : Prog) (t : List LOp) : Bool :=
  matchK fuel p t (fun e r => r.isEmpty && (e == .norm || e == .ret || e == .exc))

end Rbacx.LockProg
