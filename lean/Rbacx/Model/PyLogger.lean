import Rbacx.Model.PyLib
import Rbacx.Model.Redact
/-
  Rbacx.Model.PyLogger — the meanings the LOGGER translation (`harness/pytolean_logger.py`; C19: `DecisionLogger.__init__`,
  `DecisionLogger._should_drop_by_sampling`, `DecisionLogger.log` of logging/decision_logger.py) targets, on top of Model/PyLib.lean.

  THE TYPED READING.  Everything is a `PyVal`, except the values that take part in FLOAT arithmetic — sampling rates and the draw of
  `random.random()`.  Lean's `Float` is opaque to the kernel, so a float is read as the model's `Redact.FNum`: NaN, or the float's
  exact value in units of 2⁻¹⁰⁷⁴ (an `Int`; ±inf beyond every finite double).  `<=`, `<`, `>`, `>=`, builtin `min` / `max` of two
  floats depend on nothing but that order embedding (IEEE comparisons are exact; `min(a, b)` is `b if b < a else a`), so no statement
  about rounding is trusted.  An expression is float-typed by its SYNTAX (a float literal, `float(…)`, `random.random()`, `min`/`max`
  of float-typed arguments, an attribute `__init__` assigns a float to, a `.get` on the rate map with a float default, a local bound
  to such expressions only); the differential run hands the evaluator the embedding of the real doubles
  (`x.as_integer_ratio()`, exact) and so checks the reading against CPython's own comparisons on every run.
-/
namespace Rbacx.PyL
open Rbacx.Redact

/-- a dict `str → float` (category sampling rates), entries in insertion order -/
abbrev RateMap := List (String × FNum)

/-- `float(x)` of a float-typed `x`: the same number.  (A rate given as an int / bool / numeric str is converted by `float()` too;
    the harness passes the embedding of `float(x)` — computed by CPython — in that case: the domain is "values `float()` accepts",
    a value it rejects raises out of the method and is not represented.) -/
def floatOf (x : FNum) : FNum := x

/-- an integral float literal `k.0` -/
def fint (k : Int) : FNum := .fin (k * unit)

/-- `a >= b` on floats -/
def fge (a b : FNum) : Bool := FNum.le b a

/-- `m.get(k, default)` on a rate map (a non-string key is in no such dict) -/
def rateGet (m : RateMap) (k : PyVal) (dflt : FNum) : FNum :=
  match k with
  | .str s => (lookupRate s m).getD dflt
  | _ => dflt

/-- `dict(x or <literal>)` for an optional rate map (`none` = the argument is None): a falsy `x` (None, `{}`) selects the literal;
    `dict(…)` of a dict is a copy with the same entries -/
def rateMapOr (x : Option RateMap) (dflt : RateMap) : RateMap :=
  match x with
  | some (e :: es) => e :: es
  | _ => dflt

/-- how a call of an EXTERNAL function that may mutate the object passed as its first argument ended: `returned v arg` = it returned
    `v`, `raised arg` = an exception (one that `except Exception` catches) escaped; `arg` = what the first-argument object looks like
    afterwards (the caller still holds it). -/
inductive CallOut where
  | returned (v : PyVal) (arg : PyVal)
  | raised (arg : PyVal)

end Rbacx.PyL
