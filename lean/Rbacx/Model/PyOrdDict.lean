import Rbacx.Model.PyLib
/-
  Rbacx.Model.PyOrdDict — what the METHOD translator (`harness/pytolean_methods.py`) targets: the methods of a class whose one
  mutable field is an `OrderedDict` with string keys, translated in *state-passing style*.

  * the state is the dict as an insertion-ordered association list `OrdDict = List (String × PyVal)` (the payload of `PyVal.dict`);
    a list in which no key occurs twice represents a dict, and on such lists every definition below is CPython's meaning of the
    `OrderedDict` operation named in its doc comment.  (They are total on all lists; `pop` removes every entry of the key.)
  * a translated method returns `OrdDict × Outcome`: the dict when the call ends, and how it ended — `ret v` (returned `v`; running
    off the end returns `None`) or `raised exc` (an exception of class `exc` propagated; the dict is the one at that moment).
  * an instance of a `@dataclass` whose attributes are never assigned after construction is the record of its fields, in
    declaration order: `record [(field, value), …]` (a `PyVal.dict`), `x.f` = `field x "f"`.
  * time: the clock readings are integers handed in as parameters (one per syntactic call site of `time.monotonic()`), and
    `float(n)` of an int `n` is the same exact number (`floatExact`): the stated domain of C15 — an integer clock, `ttl` None or an
    int — on which `now + float(ttl)` is computed exactly by CPython as well (Model/Cache.lean makes the same assumption).
  * comparisons and `+` are defined on ints only; on anything else CPython raises TypeError (`None <= 3`), which is not
    represented: the result is `False` / `None` and the source has to guard it (`x is not None and x <= …`).
-/
namespace Rbacx.PyM
open PyVal

abbrev OrdDict := List (String × PyVal)

/-- how a call ended -/
inductive Outcome where
  /-- `return v` (running off the end: `v = None`) -/
  | ret (v : PyVal)
  /-- an exception of this class left the method -/
  | raised (exc : String)
deriving Inhabited

/-! ### numbers (ints only, see the header) -/

/-- `a <= b` -/
def le : PyVal → PyVal → PyVal
  | .int x, .int y => .bool (decide (x ≤ y))
  | _, _ => .bool false
/-- `a < b` -/
def lt : PyVal → PyVal → PyVal
  | .int x, .int y => .bool (decide (x < y))
  | _, _ => .bool false
/-- `a > b` -/
def gt (a b : PyVal) : PyVal := lt b a
/-- `a >= b` -/
def ge (a b : PyVal) : PyVal := le b a
/-- `a + b` -/
def add : PyVal → PyVal → PyVal
  | .int x, .int y => .int (x + y)
  | _, _ => .none
/-- `float(n)` for an int `n`: the same number, kept exact -/
def floatExact : PyVal → PyVal
  | .int n => .int n
  | _ => .none

/-! ### dataclass instances that are never mutated -/

/-- `C(f1=v1, f2=v2, …)`: the record of the fields in declaration order -/
def record (fields : List (String × PyVal)) : PyVal := .dict fields
/-- `x.f` (CPython raises AttributeError when `x` is None: the source guards it) -/
def field (x : PyVal) (f : String) : PyVal := x.get f

/-! ### `OrderedDict` with string keys -/

/-- `d.get(k)` -/
def odGet (d : OrdDict) : PyVal → PyVal
  | .str k => (PyVal.lookup k d).getD .none
  | _ => .none

/-- the dict after `d.pop(k, None)` (the popped value is not used) -/
def odPop (d : OrdDict) : PyVal → OrdDict
  | .str k => d.filter fun kv => kv.1 != k
  | _ => d

/-- the dict after `d[k] = v`: an existing key keeps its position and gets the new value, a new key goes to the end
    (a key that is not a string is not represented: the keys of this dict are `str` by the method signatures) -/
def odSetItem (d : OrdDict) : PyVal → PyVal → OrdDict
  | .str k, v => Rbacx.Py.setKV k v d
  | _, _ => d

/-- the dict after `d.move_to_end(k)`; `none` = KeyError (the key is not in the dict) -/
def odMoveToEnd (d : OrdDict) : PyVal → Option OrdDict
  | .str k =>
    match PyVal.lookup k d with
    | some v => some ((d.filter fun kv => kv.1 != k) ++ [(k, v)])
    | Option.none => Option.none
  | _ => Option.none

/-- the dict after `d.popitem(last=False)` (the popped pair is not used); `none` = KeyError (the dict is empty) -/
def odPopFirst : OrdDict → Option OrdDict
  | [] => Option.none
  | _ :: rest => some rest

/-- the dict after `d.clear()` -/
def odClear (_ : OrdDict) : OrdDict := []

/-- `len(d)` -/
def odLen (d : OrdDict) : Int := d.length

/-- `list(d.items())[:n]` (`none`: no slice, every entry): a snapshot of the first entries, as (key, value) pairs -/
def odItems (d : OrdDict) : Option Nat → List (PyVal × PyVal)
  | some n => (d.take n).map fun kv => (.str kv.1, kv.2)
  | Option.none => d.map fun kv => (.str kv.1, kv.2)

/-- `out = []; for k, v in <items>: out.extend(f(k, v))` — what an append-only loop over a snapshot of the items computes -/
def collectItems (items : List (PyVal × PyVal)) (f : PyVal → PyVal → List PyVal) : PyVal := .list (items.flatMap fun kv => f kv.1 kv.2)

/-- what ends a loop that was not given enough fuel; `whilePopFirst_fuel` (Proofs/CacheTranslated.lean) shows that it never appears -/
def outOfFuel : String := "<loop fuel exhausted>"

/-- `while cond(d): d.popitem(last=False)` — the body either raises KeyError (empty dict) or makes the dict one entry shorter, so
    `len(d) + 1` rounds are enough (`fuel`; proved: `whilePopFirst_fuel` in Proofs/CacheTranslated.lean).  Result: the dict when the loop ends, and the exception that
    ended it, if any. -/
def whilePopFirst (cond : OrdDict → Bool) : Nat → OrdDict → OrdDict × Option String
  | 0, d => (d, some outOfFuel)
  | n + 1, d =>
    if cond d then
      match odPopFirst d with
      | Option.none => (d, some "KeyError")
      | some d' => whilePopFirst cond n d'
    else (d, Option.none)

/-- the fuel the translator gives `whilePopFirst` -/
def fuel (d : OrdDict) : Nat := d.length + 1

end Rbacx.PyM
