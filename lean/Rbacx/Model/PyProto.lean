import Rbacx.Model.PyLib
import Rbacx.Model.PyAwait
import Rbacx.Model.CanonJson
/-
  Rbacx.Model.PyProto — the meanings `harness/pytolean_proto.py` adds to the translator family for PROTOCOLS of a method with its
  collaborators (the decision-cache protocol of `Guard`, core/engine.py: the cache range of `_evaluate_core_async`, `_cache_key`,
  `set_policy` / `_recompute_etag` / `clear_cache`; C08, C09):

  * a translated range / state-transforming method is a function to `Res`: how it ended (`out = some v`: ran to its end with
    output(s) `v`; `none`: an exception escaped) and the EFFECTS it performed, in program order, up to that point;
  * an external call is a parameter giving the call's OUTCOME (`some v` returned / `none` raised); the translator emits the case split
    at the point of the call, with everything that can run afterwards (handler, `finally` bodies, lock releases) in both branches — so
    the variables hold what had been assigned when the exception was raised;
  * `json.dumps(X, sort_keys=True, separators=(",", ":"), default=str, ensure_ascii=False)` — the translator accepts exactly this
    keyword set — is `dumpsCanon`: the model's `canonJson` (Model/CanonJson.lean, proved injective up to dict-entry order) on float-free
    values, an oracle parameter outside them (floats: `float.__repr__`; datetimes: `default=str`; ints beyond 4300 digits raise).
-/
namespace Rbacx.PyP
open PyVal

/-- one effect of a translated range / method -/
inductive Eff where
  /-- `with self.<lock>:` entered -/
  | acq (lock : String)
  /-- … left (normally, by an exception or by `return`) -/
  | rel (lock : String)
  /-- a traced attribute of `self` was read -/
  | rd (attr : String)
  /-- … was assigned `v` -/
  | wr (attr : String) (v : PyVal)
  /-- a labelled external was called with these arguments (recorded whether it then returned or raised) -/
  | call (callee : String) (args : List PyVal)
deriving Inhabited

/-- how a translated range / method ended and what it did -/
structure Res where
  /-- `some v`: ran to its end (`v` = the output, the list of several); `none`: an exception escaped -/
  out : Option PyVal
  /-- the effects, in program order -/
  trace : List Eff
deriving Inhabited

/-- `json.dumps(v, sort_keys=True, separators=(",", ":"), default=str, ensure_ascii=False)`: the canonical text of the model on
    float-free values; `other v` (`none` = the call raised) elsewhere -/
def dumpsCanon (other : PyVal → Option PyVal) (v : PyVal) : Option PyVal :=
  match canonJson v with
  | some cs => some (.str (String.ofList cs))
  | Option.none => other v

/-- `x += k` for an int literal `k` (meaningful on ints — `_policy_gen` is one by `__init__`; a bool counts as its int; anything
    else would raise in CPython: outside the stated domain) -/
def addInt (x : PyVal) (k : Int) : PyVal :=
  match x with
  | .int n => .int (n + k)
  | .bool b => .int ((if b then 1 else 0) + k)
  | _ => .none

/-- the labels of the calls in a trace, in order -/
def calls : List Eff → List (String × List PyVal)
  | [] => []
  | .call c args :: rest => (c, args) :: calls rest
  | _ :: rest => calls rest

/-- the trace in the vocabulary of the access tracer (harness/guardtrace.py): `acq`, `rel`, `rd a`, `wr a`, the call labels -/
def label : Eff → String
  | .acq _ => "acq"
  | .rel _ => "rel"
  | .rd a => "rd " ++ a
  | .wr a _ => "wr " ++ a
  | .call c _ => c

theorem dumpsCanon_floatFree (other : PyVal → Option PyVal) (v : PyVal) (h : floatFree v = true) :
    dumpsCanon other v = some (.str (String.ofList (canonChars v))) := by
  simp [dumpsCanon, canonJson, h]

theorem dumpsCanon_other (other : PyVal → Option PyVal) (v : PyVal) (h : floatFree v = false) : dumpsCanon other v = other v := by
  simp [dumpsCanon, canonJson, h]

end Rbacx.PyP
