import Rbacx.Model.Value
/-
  Rbacx.Model.PyRebac — the Python operations that the TYPED source-to-Lean translator `harness/pytolean_rebac.py` targets
  (C12: `rbacx/rebac/local.py` — `InMemoryRelationshipStore`, `_split_ref`, `LocalRelationshipChecker`).

  Unlike Model/PyLib.lean (every value a `PyVal`) the translation here is typed by the source's ANNOTATIONS: `str` ↦ `String`,
  `int` ↦ `Int`, `bool` ↦ `Bool`, `tuple[A, B]` ↦ `A × B`, `list[T]` / `Iterable[T]` ↦ `List T`, `set[T]` ↦ `PySet T`,
  `dict[K, V]` ↦ `Dict K V` (insertion-ordered entries), `T | None` ↦ `Option T`, a frozen dataclass with scalar fields ↦ a
  generated `structure`, the userset-expression classes (dataclasses with `str` fields, nested lists of them, anything else) ↦ `Obj`.
  Each definition is the CPython meaning of the construct named in its doc comment ON VALUES OF THOSE TYPES; that callers pass
  values of the annotated types is the domain of the translation (the differential run `translated_vs_python` of props/c12.py
  exercises these meanings against CPython).  Imports core Lean and Model/Value.lean (for `strContains`) only.
-/
namespace Rbacx.PyR

/-! ### objects of the userset-expression kind -/

/-- a Python object as far as `_expand` can tell: an instance of a (frozen) dataclass all of whose fields are `str`
    (`inst cls [(field, value), …]`), a `list` of such objects, `None`, or anything else -/
inductive Obj where
  | inst (cls : String) (fields : List (String × String))
  | list (xs : List Obj)
  | none
  | other
deriving Repr, Inhabited

namespace Obj
/-- `isinstance(o, list)` -/
def isList : Obj → Bool | .list _ => true | _ => false
/-- `isinstance(o, C)` for a dataclass `C` without subclasses among the represented objects -/
def isInst (o : Obj) (c : String) : Bool := match o with | .inst c' _ => c' == c | _ => false
/-- `o.f` for a field of the dataclass (`""` where CPython raises AttributeError: the source reads fields behind `isinstance`) -/
def attr (o : Obj) (f : String) : String := match o with | .inst _ fs => (fs.lookup f).getD "" | _ => ""
/-- the elements `for e in o` iterates over, for a list -/
def elems : Obj → List Obj | .list xs => xs | _ => []
end Obj

/-! ### dicts -/

/-- `dict[K, V]`: the entries in insertion order; lookups take the first entry with an equal key (a Python dict has one) -/
structure Dict (κ ν : Type) where
  entries : List (κ × ν)
deriving Repr

namespace Dict
variable {κ ν : Type}
/-- `{}` -/
def empty : Dict κ ν := ⟨[]⟩
/-- `d.get(k)` as an `Option` -/
def get? [BEq κ] (d : Dict κ ν) (k : κ) : Option ν := d.entries.lookup k
/-- `d.get(k, default)` -/
def getD [BEq κ] (d : Dict κ ν) (k : κ) (dflt : ν) : ν := (d.get? k).getD dflt
/-- `k in d` -/
def hasKey [BEq κ] (d : Dict κ ν) (k : κ) : Bool := (d.get? k).isSome
/-- `d[k]` (CPython raises KeyError for a missing key — not represented: the source subscripts behind `k in d`) -/
def getItem [BEq κ] [Inhabited ν] (d : Dict κ ν) (k : κ) : ν := (d.get? k).getD default
/-- the entries after `d[k] = v`: an existing key keeps its position, a new one goes to the end -/
def setEntries [BEq κ] (k : κ) (v : ν) : List (κ × ν) → List (κ × ν)
  | [] => [(k, v)]
  | (k', w) :: rest => if k == k' then (k', v) :: rest else (k', w) :: setEntries k v rest
/-- the dict `d` is after `d[k] = v` -/
def setItem [BEq κ] (d : Dict κ ν) (k : κ) (v : ν) : Dict κ ν := ⟨setEntries k v d.entries⟩
/-- the entries after `d.setdefault(k, []).append(x)` -/
def sdaEntries {α : Type} [BEq κ] (k : κ) (x : α) : List (κ × List α) → List (κ × List α)
  | [] => [(k, [x])]
  | (k', l) :: rest => if k == k' then (k', l ++ [x]) :: rest else (k', l) :: sdaEntries k x rest
/-- the dict `d` is after `d.setdefault(k, []).append(x)`: the list stored under `k` (a fresh one at the end of the dict when
    the key is new) gets `x` appended.  Value-faithful because the lists are created here and handed out read-only. -/
def setdefaultAppend {α : Type} [BEq κ] (d : Dict κ (List α)) (k : κ) (x : α) : Dict κ (List α) := ⟨sdaEntries k x d.entries⟩
end Dict

/-! ### the callables of a registry, as outcomes -/

/-- what `bool(pred(context))` does for a registered callable `pred` and the call's `context` -/
inductive CallOut where
  | raises
  | returns (truthy : Bool)
deriving DecidableEq, Repr, Inhabited

/-- a `dict[str, Callable]` whose values are only ever called on the call's `context` and passed to `bool`: name ↦ unregistered
    (`none`) / outcome of that.  EXTERNAL: the predicates are user code. -/
abbrev Registry := String → Option CallOut

/-- `bool(pred(context))` for `pred` obtained from a registry: calling `None` raises TypeError, an `Exception` -/
def callBool : Option CallOut → CallOut
  | Option.none => .raises
  | some o => o

/-! ### `.get`, `is None`, `in`, `or {}`, truthiness, iteration — by type -/

/-- `d.get(k)` -/
class Get (δ : Type) (κ : Type) (ρ : outParam Type) where
  get : δ → κ → ρ
instance {κ ν : Type} [BEq κ] : Get (Dict κ ν) κ (Option ν) := ⟨Dict.get?⟩
/-- a dict of objects: a missing key gives the object `None` -/
instance (priority := high) {κ : Type} [BEq κ] : Get (Dict κ Obj) κ Obj := ⟨fun d k => (d.get? k).getD Obj.none⟩
/-- `registry.get(name)`; `None` is a key of no `dict[str, …]` -/
instance : Get Registry (Option String) (Option CallOut) := ⟨fun r k => match k with | Option.none => Option.none | some c => r c⟩

/-- `x is None` -/
class IsNone (α : Type) where
  isNone : α → Bool
instance {α : Type} : IsNone (Option α) := ⟨Option.isNone⟩
instance : IsNone Obj := ⟨fun o => match o with | .none => true | _ => false⟩

/-- `x in c` -/
class In (γ : Type) (α : Type) where
  isIn : α → γ → Bool
/-- substring test -/
instance : In String String := ⟨fun sub s => PyVal.strContains s sub⟩
instance {α : Type} [BEq α] : In (List α) α := ⟨fun x xs => xs.contains x⟩
instance {κ ν : Type} [BEq κ] : In (Dict κ ν) κ := ⟨fun k d => d.hasKey k⟩

/-- `x or {}` -/
class OrEmpty (α : Type) (β : outParam Type) where
  orEmpty : α → β
instance {κ ν : Type} : OrEmpty (Option (Dict κ ν)) (Dict κ ν) :=
  ⟨fun o => match o with | some d => if d.entries.isEmpty then Dict.empty else d | Option.none => Dict.empty⟩
instance : OrEmpty (Option Registry) Registry := ⟨fun o => match o with | some r => r | Option.none => fun _ => Option.none⟩

/-- truth value of a test -/
class Truthy (α : Type) where
  truthy : α → Bool
instance : Truthy Bool := ⟨id⟩
instance {α : Type} : Truthy (List α) := ⟨fun xs => !xs.isEmpty⟩
instance : Truthy String := ⟨fun s => s != ""⟩
instance : Truthy Int := ⟨fun n => n != 0⟩

/-- the items `for x in v` goes through -/
class Iter (α : Type) (β : outParam Type) where
  iter : α → List β
instance {α : Type} : Iter (List α) α := ⟨id⟩
instance : Iter Obj Obj := ⟨Obj.elems⟩

/-- an element a `for` loop over an object visits is a smaller object (termination of the recursion of `_expand`) -/
theorem Obj.sizeOf_lt_of_mem_iter {e o : Obj} (h : e ∈ Iter.iter o) : sizeOf e < sizeOf o := by
  cases o with
  | list xs =>
    have := List.sizeOf_lt_of_mem (show e ∈ xs from h)
    simp only [Obj.list.sizeOf_spec]; omega
  | _ => simp [Iter.iter, Obj.elems] at h

export Get (get)
export IsNone (isNone)
export In (isIn)
export OrEmpty (orEmpty)
export Truthy (truthy)
export Iter (iter)

/-! ### strings -/

def beforeChar (c : Char) : List Char → List Char
  | [] => []
  | x :: xs => if x == c then [] else x :: beforeChar c xs
def afterChar (c : Char) : List Char → List Char
  | [] => []
  | x :: xs => if x == c then xs else afterChar c xs

/-- `s.partition(c)` for a ONE-character separator (the translator emits it for a one-character literal only):
    `(head, sep, tail)` at the first occurrence, `(s, "", "")` without one -/
def partitionChar (s : String) (c : Char) : String × String × String :=
  if s.toList.contains c then (String.ofList (beforeChar c s.toList), String.singleton c, String.ofList (afterChar c s.toList))
  else (s, "", "")

/-! ### lists and sets mutated in place (fresh locals only) -/

/-- the value of `xs.pop(0)` (CPython raises IndexError on an empty list — not represented: the source pops under `while xs:`) -/
def pop0 {α : Type} [Inhabited α] (xs : List α) : α := xs.headD default
/-- the list `xs` is after `xs.pop(0)` -/
def afterPop0 {α : Type} (xs : List α) : List α := xs.tail

/-- `set[T]` of hashable values with structural equality: the duplicate-free list of its members (newest first).  The translator
    accepts a set variable only as the receiver of `.add` and the right operand of `in` / `not in`. -/
abbrev PySet (α : Type) := List α
def setEmpty {α : Type} : PySet α := []
/-- the set `s` is after `s.add(x)` -/
def setAdd {α : Type} [BEq α] (s : PySet α) (x : α) : PySet α := if s.contains x then s else x :: s

/-! ### loops -/

/-- how one run of a loop body ends: `ret v` = it executed `return v`; `next st` = `continue` / end of the body, new state -/
inductive Step (β σ : Type) where
  | ret (v : β)
  | next (st : σ)

/-- how a `while` loop ends: `ret v` = the body returned `v`; `done st` = the condition became false in state `st` -/
inductive LoopEnd (β σ : Type) where
  | ret (v : β)
  | done (st : σ)

/-- `while cond: body` with a budget of `fuel` body runs (`none` = the budget ran out first); the body may `return` -/
def whileRet {β σ : Type} (fuel : Nat) (st : σ) (cond : σ → Bool) (body : σ → Step β σ) : Option (LoopEnd β σ) :=
  if cond st then
    match fuel with
    | 0 => Option.none
    | n + 1 =>
      match body st with
      | .ret v => some (.ret v)
      | .next st' => whileRet n st' cond body
  else some (.done st)

/-- `for x in xs: body` followed by `rest`, for a body without carried state that may `return` (`some v`) or `continue` / end
    (`none`): the first returned value in iteration order, else the value of what follows the loop -/
def forRet {α β : Type} (xs : List α) (body : α → Option β) (rest : β) : β := (xs.findSome? body).getD rest

/-- `for x in xs: body` for a body that carries the state `σ` and neither returns nor breaks -/
def forState {α σ : Type} (xs : List α) (st : σ) (body : σ → α → σ) : σ := xs.foldl body st

end Rbacx.PyR
