import Rbacx.Model.PyExcept
/-
  Rbacx.Model.PyRel — the Python operations `harness/pytolean_rel.py` targets on top of Model/PyExcept.lean (C04: `_parse_dt`;
  C13: `_canon_subject`, `_canon_resource` and the `rel` branch of `eval_condition`, core/policy.py).

  Two layers:
  * more EXCEPTION-PASSING operations (`Except CondErr PyVal`, as in PyExcept.lean): `d.get(k, default)`, `x.tzinfo is [not] None`,
    `x.replace(tzinfo=timezone.utc)` on the model's `PyVal.dt aware micros`, `d.update(e)` as a value;
  * STATE-AND-EXCEPTION-PASSING (`M α = St → Except CondErr α × St`) for a statement range that reads ContextVars: the state is
    what the run can change and an observer can see afterwards — the per-decision memo object `REL_LOCAL_CACHE.get()` (its CONTENT:
    the object itself never changes) and the list of calls made to the relationship checker.  The state SURVIVES an exception
    (the memo is mutated in place, a call that was made was made), which is why this is not `Except CondErr (α × St)`.
-/
namespace Rbacx.PyR
open PyVal

/-! ### exception-passing additions -/

/-- `d.get(k, default)`: AttributeError when `d` is not a dict, TypeError for an unhashable key -/
def getDE : PyVal → PyVal → PyVal → Rbacx.PyE.Res
  | .dict kvs, k, dflt => if Rbacx.Py.hashable k then .ok (Rbacx.Py.getDV (.dict kvs) k dflt) else .error (.raised "TypeError")
  | _, _, _ => .error (.raised "AttributeError")

/-- `x.tzinfo is not None`: only a datetime has the attribute (AttributeError otherwise); `aware` is exactly this bit -/
def tzAwareE : PyVal → Rbacx.PyE.Res
  | .dt aware _ => .ok (.bool aware)
  | _ => .error (.raised "AttributeError")

/-- `x.replace(tzinfo=timezone.utc)`: a NAIVE datetime keeps its wall clock and is read as UTC — `micros` of a naive value is that
    very reading (Model/Value.lean), so only the awareness bit changes.  An aware value would keep its wall clock in ITS zone, which
    `PyVal.dt` does not carry: NOT represented.  `str.replace` takes no keyword: TypeError; no other JSON value has `.replace` -/
def replaceTzUtcE : PyVal → Rbacx.PyE.Res
  | .dt false m => .ok (.dt true m)
  | .dt true _ => .error (.raised "NotRepresented")
  | .str _ => .error (.raised "TypeError")
  | _ => .error (.raised "AttributeError")

/-- the dict a local is bound to after `d.update(e)` (the translator emits this only for a dict the function built itself by
    `d = dict(…)` and has stored nowhere): existing keys keep their position and take the new value, new keys are appended — the
    model's `dictUpdate`.  A non-dict `e` (pairs / TypeError / ValueError) is NOT represented; AttributeError when `d` is no dict -/
def updateE : PyVal → PyVal → Rbacx.PyE.Res
  | .dict a, .dict b => .ok (.dict (Rbacx.dictUpdate a b))
  | .dict _, _ => .error (.raised "NotRepresented")
  | _, _ => .error (.raised "AttributeError")

/-! ### state-and-exception-passing -/

/-- what a run of the `rel` branch can change: the content of the memo object (`none` = `REL_LOCAL_CACHE.get()` is not a dict; a dict
    keyed by tuples is the list of its (key, value) items in insertion order) and the calls made to the checker (argument lists) -/
structure St where
  memo : Option (List (PyVal × PyVal))
  calls : List (List PyVal)

abbrev M (α : Type) := St → Except CondErr α × St

def pure {α : Type} (v : α) : M α := fun s => (.ok v, s)

/-- an operation that neither reads nor changes the state -/
def lift {α : Type} (x : Except CondErr α) : M α := fun s => (x, s)

/-- sequencing: an exception ends the computation; the state is what it was when the exception was raised -/
def bind {α β : Type} (x : M α) (k : α → M β) : M β := fun s =>
  match x s with
  | (.ok v, s') => k v s'
  | (.error e, s') => (.error e, s')

/-- sequencing after a stateless operation -/
def bindE {α β : Type} (x : Except CondErr α) (k : α → M β) : M β := fun s =>
  match x with
  | .ok v => k v s
  | .error e => (.error e, s)

def raise {α : Type} (cls : String) : M α := lift (Rbacx.PyE.raise cls)

/-- `try: <body> except (C1, …): <handler>` where body and handler both FALL THROUGH with the value of the variable the following
    statements read: the handler runs in the state the body left behind -/
def tryCatch {α : Type} (body : M α) (classes : List String) (handler : M α) : M α := fun s =>
  match body s with
  | (.ok v, s') => (.ok v, s')
  | (.error e, s') => if Rbacx.PyE.catches classes e then handler s' else (.error e, s')

/-- the value a local is bound to by `x = CV.get()` for a ContextVar holding an OBJECT (the relationship checker, the event loop):
    `None` when nothing is set, otherwise a handle.  The translator lets such a local occur only in `is [not] None`, as the receiver
    of the designated method and as an argument of an external function, so the handle's text is never looked at -/
def handle (present : Bool) : PyVal := if present then .str "<object>" else .none

/-- the relationship checker in `REL_CHECKER`: absent, or the OUTCOME of `check(subject, relation, resource, context=ctx)` as a
    function of the argument list: `some v` = it returned `v`, `none` = it raised -/
abbrev Checker := Option (List PyVal → Option PyVal)

/-- `checker.check(a, b, c, context=d)`: on `None` AttributeError (no call is made); otherwise the call is RECORDED, then it returns
    or raises (class `CheckerRaised`: whatever it is, a subclass of `Exception`, caught by `except Exception` and by nothing narrower).
    The call does not touch this decision's memo (a nested decision of another engine sets a memo of its own) -/
def callChecker (chk : Checker) (args : List PyVal) : M PyVal := fun s =>
  match chk with
  | Option.none => (.error (.raised "AttributeError"), s)
  | some f =>
    let s' : St := { s with calls := s.calls ++ [args] }
    match f args with
    | some v => (.ok v, s')
    | Option.none => (.error (.raised "CheckerRaised"), s')

/-- can the value be a dict key: a hashable scalar, or a TUPLE (a list here; the translator requires the key to be a tuple display)
    of hashable scalars -/
def keyOk : PyVal → Bool
  | .list xs => xs.all Rbacx.Py.hashable
  | v => Rbacx.Py.hashable v

/-- lookup by `==` (equal hashable JSON values have equal hashes) -/
def memoFind (m : List (PyVal × PyVal)) (k : PyVal) : Option PyVal :=
  (m.find? fun e => pyEq e.1 k).map (·.2)

/-- the items after `m[k] = v`: an existing key keeps its position, a new one goes to the end -/
def memoPut (k v : PyVal) : List (PyVal × PyVal) → List (PyVal × PyVal)
  | [] => [(k, v)]
  | (k', w) :: rest => if pyEq k' k then (k', v) :: rest else (k', w) :: memoPut k v rest

/-- `isinstance(cache, dict)` for the local bound by `cache = REL_LOCAL_CACHE.get()` -/
def memoIsDict : M PyVal := fun s => (.ok (.bool s.memo.isSome), s)

/-- `key in cache`: on a non-dict NOT represented (the source guards by `isinstance(cache, dict)`); TypeError for an unhashable key -/
def memoContains (k : PyVal) : M PyVal := fun s =>
  match s.memo with
  | Option.none => (.error (.raised "NotRepresented"), s)
  | some m => if keyOk k then (.ok (.bool (memoFind m k).isSome), s) else (.error (.raised "TypeError"), s)

/-- `cache[key]` -/
def memoItem (k : PyVal) : M PyVal := fun s =>
  match s.memo with
  | Option.none => (.error (.raised "NotRepresented"), s)
  | some m =>
    if keyOk k then
      match memoFind m k with
      | some v => (.ok v, s)
      | Option.none => (.error (.raised "KeyError"), s)
    else (.error (.raised "TypeError"), s)

/-- `cache[key] = v` -/
def memoSet (k v : PyVal) : M PyVal := fun s =>
  match s.memo with
  | Option.none => (.error (.raised "NotRepresented"), s)
  | some m => if keyOk k then (.ok PyVal.none, { s with memo := some (memoPut k v m) }) else (.error (.raised "TypeError"), s)

end Rbacx.PyR
