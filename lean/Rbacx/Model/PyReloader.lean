import Rbacx.Model.PyLib
/-
  Rbacx.PyR — meanings for the translation of STATEFUL `async` METHODS that talk to collaborators and read a clock / a PRNG
  (harness/pytolean_state.py; used for `HotReloader.check_and_reload_async` / `_register_error`, policy/loader.py, property C10).

  A translated method is a function
      N  config…  readings…  outcomes…  st  tr  args…  ↦  Res
  * `st` — the record of the object's mutable fields (`self._x = …` rebinds `st`), passed in and out;
  * `tr` — the collaborator calls made so far, in program order; every designated collaborator call appends itself BEFORE its outcome
    is looked at (a call that raises has still been made);
  * readings (`time.time()`, `random.uniform(-1.0, 1.0)`) and collaborator OUTCOMES are parameters, numbered in EXECUTION order
    along a path (`now1` = the first clock reading of this call, `load1` = the outcome of the first `source.load()` of this call…);
    an outcome is `Except String α`: `.ok v` = the (awaited) call returned `v`, `.error cls` = it raised; `cls` is the name under
    which the method's `except` clauses see the exception (the first class named in an `except` clause of the method that the exception
    is an instance of, else the name of its own class);
  * numbers (`float` fields, clock readings, draws) are an ABSTRACT type `T` with the operations the source uses, `N : Num T`:
    the translation says which operations are applied to what, in which order — not how floats round.  The evaluator
    (Run/SrcEvalReloader.lean) runs it over exact rationals `Q` (`qNum`); the per-run obligation proves it over integers of
    microseconds, for every interpretation of `*` that doubles on the literal `2.0` (Proofs/ReloaderTranslated.lean).
-/
namespace Rbacx.PyR

/-- the arithmetic a translated method may use on its `float`s -/
structure Num (T : Type) where
  /-- a float literal: `lit m d` = the decimal numeral with digits `m` and `d` digits after the point (`0.2` = `lit 2 1`, `2.0` = `lit 20 1`) -/
  lit : Nat → Nat → T
  add : T → T → T
  sub : T → T → T
  mul : T → T → T
  min : T → T → T
  max : T → T → T
  lt : T → T → Bool
  le : T → T → Bool

/-- an argument of a recorded collaborator call: an opaque object handed through (a loaded policy), or a value -/
inductive Arg (P : Type) where
  | opaque (p : P)
  | val (v : PyVal)
deriving Inhabited

structure Call (P : Type) where
  callee : String
  args : List (Arg P)
deriving Inhabited

/-- how a method call ended -/
inductive Out where
  | returned (v : PyVal)
  | raised (cls : String)
deriving Inhabited

/-- final field record, all collaborator calls in program order, how the call ended -/
structure Res (S P : Type) where
  st : S
  calls : List (Call P)
  out : Out

/-- `isinstance(x, str)` -/
def isStr : PyVal → Bool
  | .str _ => true
  | _ => false

/-- `x is not None` -/
def isNotNone (v : PyVal) : Bool := !v.isNone

/-- `x is None` -/
def isNoneV (v : PyVal) : Bool := v.isNone

/-- `a == b` on values (str / None here) -/
def eq (a b : PyVal) : Bool := PyVal.pyEq a b

/-! ### exact rationals (for the evaluator only: no theorem is about them) -/

structure Q where
  num : Int
  den : Nat          -- > 0 for every value the operations produce from such values
deriving Repr, Inhabited

namespace Q
def norm (n : Int) (d : Nat) : Q :=
  let g := Nat.gcd n.natAbs d
  if g = 0 then ⟨0, 1⟩ else ⟨n / (g : Int), d / g⟩
def add (a b : Q) : Q := norm (a.num * b.den + b.num * a.den) (a.den * b.den)
def neg (a : Q) : Q := ⟨-a.num, a.den⟩
def sub (a b : Q) : Q := add a (neg b)
def mul (a b : Q) : Q := norm (a.num * b.num) (a.den * b.den)
def lt (a b : Q) : Bool := decide (a.num * b.den < b.num * a.den)
def le (a b : Q) : Bool := decide (a.num * b.den ≤ b.num * a.den)
/-- Python's `min(a, b)`: `b` if `b < a` else `a` -/
def min (a b : Q) : Q := if lt b a then b else a
/-- Python's `max(a, b)`: `b` if `b > a` else `a` -/
def max (a b : Q) : Q := if lt a b then b else a
end Q

/-- exact rational arithmetic: what the float operations compute when nothing rounds -/
def qNum : Num Q :=
  { lit := fun m d => Q.norm m (10 ^ d), add := Q.add, sub := Q.sub, mul := Q.mul, min := Q.min, max := Q.max, lt := Q.lt, le := Q.le }

end Rbacx.PyR
