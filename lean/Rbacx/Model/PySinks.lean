import Rbacx.Model.PyLib
import Rbacx.Model.PyAwait
/-
  Rbacx.Model.PySinks — the Python constructs `harness/pytolean_sinks.py` adds to the translator family: a TAIL of an `async def`
  method (from a designated statement to the end of the body) whose point is which SINK CALLS it makes, in which order, with which
  arguments, and what it returns — whatever the sinks do (`Guard._evaluate_core_async`, core/engine.py: the statements from
  `if self.metrics is not None:` to `return d`).  The tail is a function to its `Trace`: the list of sink calls that were made (in
  program order, with their arguments) and how the tail ended.

  * a SINK is what `getattr(<sink object>, "<name>", None)` finds together with what happens when it is called: `absent` (the
    attribute is missing or `None`), or a function — a plain `def` or an `async def` (what `inspect.iscoroutinefunction` tells
    apart) — that returns or raises (an `Exception`; for an `async def` the body runs, and raises, when the call is awaited).  The
    sinks are PARAMETERS of the translated tail: the theorems quantify over all of them.
  * `x(args…)` / `await x(args…)` on such a value as a statement: `call` — the sink's body runs exactly when the way it is called fits
    what it is (a plain function called, a coroutine function called and awaited): one `Call` in the trace, then the tail goes on or
    the exception is raised there.  The two misfits are kept as CPython has them: a coroutine function called WITHOUT `await` creates a
    coroutine object that never runs (no call, nothing raised), a plain function AWAITED runs and then `await <its result>` raises
    TypeError; calling `None` raises TypeError.
  * `try: <body> except Exception: <handler>`: `tryExcept` — an exception raised in the body ends the body there, the calls made so
    far stay made, the handler runs, the statements after the `try` run.
  * statement sequencing `seq`, `return e` = `ret`, running off the end of a block = `next`.
-/
namespace Rbacx.PyS
open PyVal

/-- what `getattr(<sink object>, "<name>", None)` finds, and what calling it does -/
inductive Sink where
  /-- the attribute is missing (or `None`) -/
  | absent
  /-- a function: `coro` = it is an `async def` (`inspect.iscoroutinefunction`), `raises` = its body raises an `Exception` -/
  | fn (coro : Bool) (raises : Bool)
deriving Inhabited, DecidableEq, Repr

/-- `x is not None` -/
def Sink.isNotNone : Sink → Bool
  | .absent => false
  | .fn _ _ => true

/-- `inspect.iscoroutinefunction(x)` (`False` for `None`) -/
def Sink.isCoro : Sink → Bool
  | .absent => false
  | .fn c _ => c

/-- one sink call that was made (the sink's body ran): which sink (named by the attribute path it was looked up under, not by the
    local variable that held it), whether it ran as a coroutine, the positional arguments -/
structure Call where
  callee : String
  coro : Bool
  args : List PyVal
deriving Inhabited

inductive End where
  /-- ran off the end of the statement list -/
  | next
  /-- `return v` -/
  | returned (v : PyVal)
  /-- an `Exception` is propagating -/
  | raised
deriving Inhabited

structure Trace where
  calls : List Call
  ending : End
deriving Inhabited

def next : Trace := ⟨[], .next⟩
def ret (v : PyVal) : Trace := ⟨[], .returned v⟩

/-- statement(s) `t`, then `k` — unless `t` returned or raised -/
def seq (t k : Trace) : Trace :=
  match t.ending with
  | .next => ⟨t.calls ++ k.calls, k.ending⟩
  | _ => t

/-- `try: t except Exception: h` -/
def tryExcept (t h : Trace) : Trace :=
  match t.ending with
  | .raised => ⟨t.calls ++ h.calls, h.ending⟩
  | _ => t

/-- the statement `x(args…)` (`awaited = false`) / `await x(args…)` (`awaited = true`) for a sink value `x` looked up as `label` -/
def call (label : String) (s : Sink) (awaited : Bool) (args : List PyVal) : Trace :=
  match s, awaited with
  | .absent, _ => ⟨[], .raised⟩
  | .fn false r, false => ⟨[⟨label, false, args⟩], if r then .raised else .next⟩
  | .fn true r, true => ⟨[⟨label, true, args⟩], if r then .raised else .next⟩
  | .fn false _, true => ⟨[⟨label, false, args⟩], .raised⟩
  | .fn true _, false => ⟨[], .next⟩

theorem seq_next_left (k : Trace) : seq next k = k := by
  cases k; rfl

theorem seq_next_right (t : Trace) : seq t next = t := by
  obtain ⟨c, e⟩ := t
  cases e <;> simp [seq, next]

end Rbacx.PyS
