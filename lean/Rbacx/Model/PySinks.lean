import Rbacx.Model.PyLib
import Rbacx.Model.PyAwait
/-
  Rbacx.Model.PySinks — the Python constructs `harness/pytolean_sinks.py` adds to the translator family: a TAIL of an `async def`
  method (from a designated statement to the end of the body) whose point is which SINKS' WORK it makes happen, in which order, with
  which arguments, and what it returns — whatever the sinks do (`Guard._evaluate_core_async`, core/engine.py: the statements from
  `if self.metrics is not None:` to `return d`).  The tail is a function to its `Trace`: the list of sink calls whose WORK RAN (in
  program order, with their arguments) and how the tail ended.

  * a SINK is what `getattr(<sink object>, "<name>", None)` finds together with what happens when it is called: `absent` (the
    attribute is missing or `None`), or a function in one of the three SPELLINGS the ports allow (`-> None | Awaitable[None]`):
    `plain` — a `def` that does its work when called; `coroFn` — an `async def` (what `inspect.iscoroutinefunction` recognises): the
    call makes a coroutine object, the work runs when that is awaited; `awaitable` — a plain `def` that RETURNS an awaitable (a
    coroutine object, a Future-like object): the work runs when the returned value is awaited.  `raises`: the work raises an
    `Exception` (where it runs: at call time for `plain`, at await time for the other two).  The sinks are PARAMETERS of the
    translated tail: the theorems quantify over all of them.
  * `await maybe_await(x(args…))` (finding F21's repair): `callMaybe` — the call is made and whatever awaitable comes back is awaited
    (`maybe_await`: await an awaitable, hand anything else on): the work runs exactly once in EVERY spelling.
  * `x(args…)` / `await x(args…)` as a statement (the text before the repair): `call` — the work runs exactly when the way of calling
    fits the spelling: `plain` called, `coroFn` / `awaitable` called and awaited.  The misfits are kept as CPython has them: a
    `coroFn` or `awaitable` sink called WITHOUT `await` makes an awaitable that is dropped — the work never runs, nothing is raised
    (this IS finding F21 for the `awaitable` spelling, which `iscoroutinefunction` does not recognise); a `plain` function AWAITED runs
    and then `await <its result>` raises TypeError; calling `None` raises TypeError.
  * `try: <body> except Exception: <handler>`: `tryExcept` — an exception raised in the body ends the body there, the work done so
    far stays done, the handler runs, the statements after the `try` run.
  * statement sequencing `seq`, `return e` = `ret`, running off the end of a block = `next`.
-/
namespace Rbacx.PyS
open PyVal

/-- the three ways a sink method may be written (the ports' `-> None | Awaitable[None]`) -/
inductive Spelling where
  /-- `def m(self, …): <work>` -/
  | plain
  /-- `async def m(self, …): <work>` -/
  | coroFn
  /-- `def m(self, …): return <awaitable whose awaiting does the work>` -/
  | awaitable
deriving Inhabited, DecidableEq, Repr

/-- what `getattr(<sink object>, "<name>", None)` finds, and what calling it does -/
inductive Sink where
  /-- the attribute is missing (or `None`) -/
  | absent
  /-- a function in one of the three spellings; `raises` = its work raises an `Exception` -/
  | fn (spelling : Spelling) (raises : Bool)
deriving Inhabited, DecidableEq, Repr

/-- `x is not None` -/
def Sink.isNotNone : Sink → Bool
  | .absent => false
  | .fn _ _ => true

/-- `inspect.iscoroutinefunction(x)`: `True` for an `async def` only (`False` for `None` and for a `def` returning an awaitable) -/
def Sink.isCoro : Sink → Bool
  | .fn .coroFn _ => true
  | _ => false

/-- one sink call whose WORK RAN: which sink (named by the attribute path it was looked up under, not by the local variable that
    held it), the positional arguments -/
structure Call where
  callee : String
  args : List PyVal
deriving Inhabited

inductive End where
  /-- ran off the end of the statement list -/
  | next
  /-- `return v` -/
  | returned (v : PyVal)
  /-- an `Exception` is propagating -/
  | raised
deriving Inhabited

structure Trace where
  calls : List Call
  ending : End
deriving Inhabited

def next : Trace := ⟨[], .next⟩
def ret (v : PyVal) : Trace := ⟨[], .returned v⟩

/-- statement(s) `t`, then `k` — unless `t` returned or raised -/
def seq (t k : Trace) : Trace :=
  match t.ending with
  | .next => ⟨t.calls ++ k.calls, k.ending⟩
  | _ => t

/-- `try: t except Exception: h` -/
def tryExcept (t h : Trace) : Trace :=
  match t.ending with
  | .raised => ⟨t.calls ++ h.calls, h.ending⟩
  | _ => t

/-- the statement `await maybe_await(x(args…))` for a sink value `x` looked up as `label`: the call is made, an awaitable result is
    awaited, anything else handed on — the work runs once in every spelling; a raise at call time or at await time propagates from
    this statement -/
def callMaybe (label : String) (s : Sink) (args : List PyVal) : Trace :=
  match s with
  | .absent => ⟨[], .raised⟩
  | .fn _ r => ⟨[⟨label, args⟩], if r then .raised else .next⟩

/-- the statement `x(args…)` (`awaited = false`) / `await x(args…)` (`awaited = true`) for a sink value `x` looked up as `label` -/
def call (label : String) (s : Sink) (awaited : Bool) (args : List PyVal) : Trace :=
  match s, awaited with
  | .absent, _ => ⟨[], .raised⟩
  | .fn .plain r, false => ⟨[⟨label, args⟩], if r then .raised else .next⟩
  | .fn .plain _, true => ⟨[⟨label, args⟩], .raised⟩
  | .fn _ r, true => ⟨[⟨label, args⟩], if r then .raised else .next⟩
  | .fn _ _, false => ⟨[], .next⟩

theorem seq_next_left (k : Trace) : seq next k = k := by
  cases k; rfl

theorem seq_next_right (t : Trace) : seq t next = t := by
  obtain ⟨c, e⟩ := t
  cases e <;> simp [seq, next]

end Rbacx.PyS
