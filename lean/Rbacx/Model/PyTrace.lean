import Rbacx.Model.PyLib
import Rbacx.Model.PyAwait
/-
  Rbacx.Model.PyTrace — the Python constructs `harness/pytolean_trace.py` adds to the translator family: whole `async def` METHODS
  whose point is what they DO (adapters/asgi.py: `RbacxMiddleware.__call__`, `_send_json`).  A translated method is a function to its
  ACTION TRACE: the list of effects it performs on the caller's objects, in program order, and how the call ended.

  * effects: `P["k"] = v` on a parameter `P` (the caller's dict: `setItem`), `await P(msg)` for a parameter `P` (a channel the
    caller handed in: `send`), `await <designated collaborator>(P1, …)` with the caller's own objects passed on (by name: `call`).
    The awaited channel / collaborator is taken to return: an exception of `send` or of the downstream application would propagate
    unchanged with nothing after it executed, and is not represented.
  * ending: `returned` (ran off the end / `return`), `raised cls` (an exception of class `cls` left the method; everything before it
    is kept in the effect list).
  * EXTERNAL calls that can raise (`self.build_env(scope)`, `await self.guard.evaluate_async(…)`): function parameters whose result is
    the call's OUTCOME, `.ok v` = returned `v`, `.error cls` = raised an exception of class `cls`.
  * `a, b, c, d = <external call>`: the unpacking belongs to the raising point (`unpack`): TypeError when the returned value is not
    iterable, ValueError when it does not yield exactly that many items.
  * `await self.<translated method>(…)`: the callee's trace spliced in (`seq`): if the callee raised, so does the caller, there.
  * bytes: `b"…"` and `s.encode("utf-8")` are `bytesOf <the text the bytes decode to>` — UTF-8 encoding is the identity on the
    abstract string (a Lean `String` is a sequence of Unicode scalar values: the lone surrogates on which CPython raises
    UnicodeEncodeError do not exist here); `len` of such a value is the UTF-8 byte count.
-/
namespace Rbacx.PyT
open PyVal

inductive Eff where
  /-- `obj[key] = value` on the caller's object `obj` (a parameter of the method) -/
  | setItem (obj key : String) (value : PyVal)
  /-- `await chan(msg)`, `chan` a parameter of the method (named by the parameter of the ENTRY method it was handed in as) -/
  | send (chan : String) (msg : PyVal)
  /-- `await callee(args…)` for a designated collaborator; the arguments are the caller's own objects, named by parameter -/
  | call (callee : String) (args : List String)
deriving Inhabited

inductive End where
  | returned
  | raised (cls : String)
deriving Inhabited, DecidableEq, Repr

structure Trace where
  effects : List Eff
  ending : End
deriving Inhabited

/-- the method returned (ran off its end, or `return`) -/
def done : Trace := ⟨[], .returned⟩
/-- an exception of class `cls` leaves the method here -/
def raised (cls : String) : Trace := ⟨[], .raised cls⟩
/-- effect `e`, then `k` -/
def eff (e : Eff) (k : Trace) : Trace := ⟨e :: k.effects, k.ending⟩
/-- `await self.<method>(…)` then `k`: the callee's effects, then — when it returned — the rest; when it raised, the exception
    propagates from the call and the rest does not run -/
def seq (t k : Trace) : Trace :=
  match t.ending with
  | .returned => ⟨t.effects ++ k.effects, k.ending⟩
  | .raised _ => t

/-- a `bytes` value, represented by the text it decodes to (UTF-8) -/
def bytesOf (s : String) : PyVal := .dict [("__bytes__", .str s)]

def asBytes : PyVal → Option String
  | .dict [(k, .str s)] => if k = "__bytes__" then some s else Option.none
  | _ => Option.none

/-- `s.encode("utf-8")` / `s.encode("ascii")` for a str `s` (the translator accepts the call only on `str(…)` / `json.dumps(…)`
    results, and `"ascii"` only on `str(len(…))`: digits) -/
def encode : PyVal → PyVal
  | .str s => bytesOf s
  | _ => PyVal.none

/-- `len(x)`: the byte count of a bytes value, else `Py.len` -/
def len (x : PyVal) : PyVal :=
  match asBytes x with
  | some s => .int s.utf8ByteSize
  | Option.none => .int (Rbacx.Py.len x)

/-- `xs.append(x)` as a value: the list `xs` is bound to afterwards (emitted only for a local bound to a fresh list) -/
def append : PyVal → PyVal → PyVal
  | .list xs, x => .list (xs ++ [x])
  | a, _ => a

/-- `xs.extend(ys)` as a value -/
def extend (a b : PyVal) : PyVal := Rbacx.Py.concat a (.list (Rbacx.Py.iter b))

def iterable : PyVal → Bool
  | .list _ => true
  | .dict _ => true
  | .str _ => true
  | _ => false

/-- `x1, …, xn = <external call>`: the call's outcome, then the unpacking — TypeError for a non-iterable, ValueError for a wrong
    number of items; `.ok xs` has exactly `n` items -/
def unpack (n : Nat) (out : Except String PyVal) : Except String (List PyVal) :=
  match out with
  | .error cls => .error cls
  | .ok v =>
    if iterable v then
      (if (Rbacx.Py.iter v).length = n then .ok (Rbacx.Py.iter v) else .error "ValueError")
    else .error "TypeError"

theorem len_bytesOf (s : String) : len (bytesOf s) = .int s.utf8ByteSize := by
  simp [len, bytesOf, asBytes]

theorem encode_str (s : String) : encode (.str s) = bytesOf s := rfl

theorem unpack_tuple (n : Nat) (xs : List PyVal) (h : xs.length = n) : unpack n (.ok (.list xs)) = .ok xs := by
  simp [unpack, iterable, Rbacx.Py.iter, h]

theorem unpack_none (n : Nat) : unpack n (.ok PyVal.none) = .error "TypeError" := rfl

theorem unpack_raised (n : Nat) (cls : String) : unpack n (.error cls) = .error cls := rfl

theorem unpack_length {n : Nat} {out : Except String PyVal} {xs : List PyVal} (h : unpack n out = .ok xs) : xs.length = n := by
  unfold unpack at h
  split at h
  · cases h
  · split at h
    · split at h
      · cases h; assumption
      · cases h
    · cases h

end Rbacx.PyT
