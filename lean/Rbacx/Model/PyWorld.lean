import Rbacx.Model.PyLib
import Rbacx.Model.PyAwait
import Rbacx.Model.PyTrace
/-
  Rbacx.Model.PyWorld — the Python constructs `harness/pytolean_world.py` adds to the translator family: functions and methods whose
  point is what they do to the OUTSIDE WORLD through calls that can fail (store/file_store.py: `atomic_write`,
  `FilePolicySource._stat_sig / _ensure_content_sha / etag / load`; property C16).

  A translated function is WORLD-PASSING and polymorphic in the world `W`:
  * an EXTERNAL call (`os.stat`, `tempfile.mkstemp`, `os.fdopen`, `open`, `os.replace`, `os.unlink`, `parse_policy_text`, …) is a
    parameter of type `Ext W`: positional arguments, keyword arguments and the world in; the world after the call and the call's
    OUTCOME (`.ok v` = returned `v`, `.error cls` = raised an exception of class `cls`) out.  The translation says nothing about what
    an external does: an obligation instantiates `W` with the model's file system (with fault injection), the evaluator with a log
    of the calls made + a script of outcomes.
  * the mutable attributes of `self` (those some translated method assigns) are a generated structure that is passed in and returned
    (`Res.self`), also when an exception leaves the method; attributes only read are ordinary parameters.
  * `try … except C [as e]: …` (`catches`: by class NAME — the handler classes accepted are leaf builtin classes, `Exception` and
    `BaseException`), bare `raise` in a handler, `try … finally: …` (the `finally` block is rendered on every way out of the body:
    normal, `return`, exception — and an exception of the block replaces the one in flight), `with <external call> as f: …` for a
    FILE OBJECT (`__enter__` returns the object and does not raise; `__exit__` is the external `close` on it, runs on every way out,
    never suppresses; an exception of `close` replaces the one in flight) are all rendered by the translator as explicit `match`es on
    outcomes, in CPython's order — this file only supplies the vocabulary.
-/
namespace Rbacx.PyW

/-- an external call: positional arguments, keyword arguments, world ↦ world after the call, outcome -/
abbrev Ext (W : Type) := List PyVal → List (String × PyVal) → W → W × Except String PyVal

/-- how a translated function ends: the world, the mutable attributes of `self` (`Unit` for a module-level function), and the
    value returned / the class of the exception that left it -/
structure Res (W S : Type) where
  world : W
  self : S
  out : Except String PyVal

/-- classes that `except Exception` does NOT catch -/
def baseOnly (cls : String) : Bool :=
  cls == "KeyboardInterrupt" || cls == "SystemExit" || cls == "GeneratorExit" || cls == "BaseException"

/-- does a handler for class `h` catch an exception of class `cls`?  By name; `Exception` catches everything but the
    `BaseException`-only classes, `BaseException` everything (the translator accepts only leaf builtin classes besides these two) -/
def catches1 (h cls : String) : Bool :=
  h == cls || h == "BaseException" || (h == "Exception" && !baseOnly cls)

def catches (handlers : List String) (cls : String) : Bool := handlers.any (catches1 · cls)

/-- `x[i]` for a constant index into a tuple/list the source has just built or unpacked (IndexError / TypeError are not represented:
    `None`) -/
def item (v : PyVal) (i : Nat) : PyVal :=
  match v with
  | .list xs => xs.getD i PyVal.none
  | _ => PyVal.none

theorem catches_self (c : String) : catches [c] c = true := by simp [catches, catches1]

theorem catches_leaf (h cls : String) (h1 : h ≠ "BaseException") (h2 : h ≠ "Exception") : catches [h] cls = decide (h = cls) := by
  have e1 : (h == "BaseException") = false := by simpa using h1
  have e2 : (h == "Exception") = false := by simpa using h2
  simp only [catches, catches1, e1, e2, List.any_cons, List.any_nil, Bool.or_false, Bool.false_and]
  by_cases h3 : h = cls <;> simp [h3]

theorem catches_fnf (cls : String) : catches ["FileNotFoundError"] cls = decide (cls = "FileNotFoundError") := by
  rw [catches_leaf _ _ (by decide) (by decide)]
  by_cases h : cls = "FileNotFoundError" <;> simp [h, eq_comm]

end Rbacx.PyW
