/-
  Rbacx.Model.Rebac — executable model of `rbacx/rebac/local.py`
  (`LocalRelationshipChecker.check`, `_direct_allowed`, `_caveat_holds`, `_lookup_expr`, `_expand`,
  `_split_ref`, `batch_check`, `InMemoryRelationshipStore.direct_for_resource`), as written.

  * the tuple store is the insertion-ordered list of tuples; `direct_for_resource(rel, obj)` is the
    sub-list with that resource and relation (what the `_by_res_rel` index holds);
  * the caveat registry is already applied to the call's `context`: a name is unregistered
    (`none`), its predicate raises (`some .raises`) or `bool(pred(context))` is `b` (`some (.val b)`)
    — `Registry.ofPreds` builds that table from predicates that are functions of a context;
  * the clock is an adversarial oracle `deadlineHit : Nat → Bool`: its argument is the number of
    earlier in-loop reads of `time.perf_counter_ns()` in this call (`ticks`), its value says
    whether that read is past the deadline;
  * `max_depth` / `max_nodes` are Python ints (`Int`: negative settings are legal inputs);
  * the BFS is well-founded recursion with a real measure (no fuel).

  Imports core Lean only.
-/
namespace Rbacx.Rebac

/-! ### data -/

/-- `RelTuple(subject, relation, resource, caveat=None)` -/
structure RelTuple where
  subject : String
  relation : String
  resource : String
  caveat : Option String := none
deriving DecidableEq, Repr, Inhabited

/-- `UsersetExpr`: `This() | ComputedUserset(r) | TupleToUserset(ts, cu) | [e, …]`; `other` is any
    object `_expand` does not recognise ("unknown/extension nodes are ignored"). -/
inductive Expr where
  | this
  | computed (relation : String)
  | ttu (tupleset : String) (computedUserset : String)
  | union (es : List Expr)
  | other
deriving Repr, Inhabited

/-- what calling a registered caveat predicate on the call's context does -/
inductive CavOut where
  | raises
  | val (b : Bool)
deriving DecidableEq, Repr, Inhabited

/-- caveat name ↦ unregistered (`none`) / outcome of `bool(pred(context))` -/
abbrev Registry := String → Option CavOut

/-- a registry of predicates over a context type, applied to the call's context
    (`none` result of a predicate = it raised) -/
def Registry.ofPreds {Ctx : Type} (preds : String → Option (Ctx → Option Bool)) (ctx : Ctx) : Registry :=
  fun name =>
    match preds name with
    | none => none
    | some p =>
      match p ctx with
      | none => some .raises
      | some b => some (.val b)

/-- BFS node `(subject, relation, resource)` -/
abbrev Triple := String × String × String

/-- `rules: dict[object_type][relation] -> UsersetExpr` (association lists, first match) -/
abbrev Rules := List (String × List (String × Expr))

/-- everything `LocalRelationshipChecker.__init__` stores, with the registry applied to the context -/
structure Config where
  tuples : List RelTuple
  rules : Rules
  reg : Registry
  maxDepth : Int
  maxNodes : Int

/-! ### `_split_ref` -/

/-- `":" in s` -/
def hasColon (s : String) : Bool := s.toList.contains ':'

/-- `s.partition(":")[0]` on the characters -/
def beforeColon : List Char → List Char
  | [] => []
  | c :: cs => if c == ':' then [] else c :: beforeColon cs

/-- `s.partition(":")[2]` on the characters -/
def afterColon : List Char → List Char
  | [] => []
  | c :: cs => if c == ':' then cs else afterColon cs

/-- `_split_ref`: `'type:id' ↦ ('type','id')`, default type `user` when there is no colon -/
def splitRef (ref : String) : String × String :=
  if hasColon ref then (String.ofList (beforeColon ref.toList), String.ofList (afterColon ref.toList))
  else ("user", ref)

/-! ### store, caveats, direct tuples -/

/-- `store.direct_for_resource(relation, resource)` -/
def directFor (tuples : List RelTuple) (relation resource : String) : List RelTuple :=
  tuples.filter fun t => t.resource == resource && t.relation == relation

/-- `_caveat_holds(t, context)` -/
def caveatHolds (reg : Registry) (t : RelTuple) : Bool :=
  match t.caveat with
  | none => true
  | some c =>
    match reg c with
    | none => false            -- unknown caveat
    | some .raises => false    -- failed predicate
    | some (.val b) => b

/-- the `for t in …` loop of `_direct_allowed` -/
def directLoop (reg : Registry) (subject : String) : List RelTuple → Bool
  | [] => false
  | t :: rest =>
    if t.subject != subject then directLoop reg subject rest
    else
      match t.caveat with
      | none => true
      | some c =>
        match reg c with
        | none => directLoop reg subject rest                 -- unknown caveat -> continue
        | some .raises => directLoop reg subject rest          -- failed predicate -> continue
        | some (.val b) => if b then true else directLoop reg subject rest

/-- `_direct_allowed(subject, relation, resource, context)` -/
def directAllowed (cfg : Config) (n : Triple) : Bool :=
  directLoop cfg.reg n.1 (directFor cfg.tuples n.2.1 n.2.2)

/-! ### `_lookup_expr`, `_expand` -/

/-- `(self.rules.get(obj_type) or {}).get(relation)` -/
def lookupExpr (rules : Rules) (objType relation : String) : Option Expr :=
  match rules.lookup objType with
  | none => none
  | some m => m.lookup relation

/-- the `TupleToUserset` branch: follow `tupleset` edges out of `resource` whose subject is an
    object reference and whose caveat holds -/
def ttuTargets (cfg : Config) (subject resource tupleset computedUserset : String) : List Triple :=
  ((directFor cfg.tuples tupleset resource).filter
      fun edge => hasColon edge.subject && caveatHolds cfg.reg edge).map
    fun edge => (subject, computedUserset, edge.subject)

mutual
/-- `_expand(expr, subject, resource, context)`: the next BFS nodes, in yield order -/
def expand (cfg : Config) (subject resource : String) : Expr → List Triple
  | .this => []
  | .computed r => [(subject, r, resource)]
  | .ttu ts cu => ttuTargets cfg subject resource ts cu
  | .union es => expandList cfg subject resource es
  | .other => []
def expandList (cfg : Config) (subject resource : String) : List Expr → List Triple
  | [] => []
  | e :: es => expand cfg subject resource e ++ expandList cfg subject resource es
end

/-- the rewrite successors of a node: `_lookup_expr` on the object's type, then `_expand` -/
def successors (cfg : Config) (n : Triple) : List Triple :=
  match lookupExpr cfg.rules (splitRef n.2.2).1 n.2.1 with
  | none => []
  | some e => expand cfg n.1 n.2.2 e

/-- the entries `queue.append((s2, r2, o2, depth + 1))` adds for one expanded node -/
def children (cfg : Config) (n : Triple) (depth : Nat) : List (Triple × Nat) :=
  (successors cfg n).map fun m => (m, depth + 1)

/-! ### `check` -/

/-- how a `check` call ends.  `found` ↦ `return True`; the other three ↦ `return False`
    (`exhausted`: the queue ran empty; `nodeLimit`: `visits > max_nodes`; `deadline`: clock past it) -/
inductive Outcome where
  | found
  | exhausted
  | nodeLimit
  | deadline
deriving DecidableEq, Repr, Inhabited

def Outcome.toBool : Outcome → Bool
  | .found => true
  | _ => false

/-- the `while queue:` loop.  `queue.pop(0)` is the head, `queue.append` is `++` at the end. -/
def bfs (cfg : Config) (deadlineHit : Nat → Bool)
    (queue : List (Triple × Nat)) (seen : List Triple) (visits ticks : Nat) : Outcome :=
  match queue with
  | [] => .exhausted
  | (n, depth) :: rest =>
    if seen.contains n then bfs cfg deadlineHit rest seen visits ticks
    else if ((visits + 1 : Nat) : Int) > cfg.maxNodes then .nodeLimit
    else if (depth : Int) > cfg.maxDepth then bfs cfg deadlineHit rest (n :: seen) (visits + 1) ticks
    else if deadlineHit ticks then .deadline
    else if directAllowed cfg n then .found
    else bfs cfg deadlineHit (rest ++ children cfg n depth) (n :: seen) (visits + 1) (ticks + 1)
termination_by ((cfg.maxNodes + 1 - (visits : Int)).toNat, queue.length)
decreasing_by
  all_goals simp_wf
  · apply Prod.Lex.right; omega
  · apply Prod.Lex.left; omega
  · apply Prod.Lex.left; omega

/-- `check(subject, relation, resource, context=…)` with its reason -/
def checkOutcome (cfg : Config) (deadlineHit : Nat → Bool) (q : Triple) : Outcome :=
  bfs cfg deadlineHit [(q, 0)] [] 0 0

/-- `LocalRelationshipChecker.check` -/
def check (cfg : Config) (deadlineHit : Nat → Bool) (q : Triple) : Bool :=
  (checkOutcome cfg deadlineHit q).toBool

/-! ### clocks -/

/-- the oracle induced by a concrete clock: read 0 is `start`, read `k+1` is the `k`-th in-loop read;
    `deadline = start + deadline_ms * 1_000_000`, test `now > deadline` -/
def deadlineOfClock (clock : Nat → Int) (deadlineMs : Int) : Nat → Bool :=
  fun k => decide (clock (k + 1) > clock 0 + deadlineMs * 1000000)

/-- a clock that advances by `step` ns on every read (monotone time): the same oracle for every call
    whatever the absolute time at which the call starts -/
def linearClockHit (step deadlineMs : Int) : Nat → Bool :=
  fun k => decide (((k : Int) + 1) * step > deadlineMs * 1000000)

/-! ### `batch_check` -/

/-- the loop of `batch_check`; `chk j` is the `j`-th actual `self.check` call of this batch (each may
    see a different clock); the memo maps a triple to the first answer computed for it -/
def batchLoop (chk : Nat → Triple → Bool) : List Triple → List (Triple × Bool) → List Bool
  | [], _ => []
  | k :: ks, memo =>
    match memo.lookup k with
    | some b => b :: batchLoop chk ks memo
    | none =>
      let res := chk memo.length k
      res :: batchLoop chk ks ((k, res) :: memo)

/-- `batch_check(triples, context=…)`; `deadlineHits j` is the clock oracle of the `j`-th `check` call -/
def batchCheck (cfg : Config) (deadlineHits : Nat → Nat → Bool) (triples : List Triple) : List Bool :=
  batchLoop (fun j => check cfg (deadlineHits j)) triples []

end Rbacx.Rebac
