import Rbacx.Model.Value
/-
  Rbacx.Model.Redact — `obligations/enforcer.py` (`_set_by_path`, `apply_obligations`) and
  `logging/decision_logger.py` (`DecisionLogger.log`: sampling, redaction-spec priority, size bound).

  Python mutates; the model returns the new value.  The partial mutations Python performs *before*
  a later no-op `return` (intermediates created, a non-list replaced by `[]`, a list grown) are
  reproduced: every function below returns the state the object is in when Python returns.

  Domain restrictions (the harness does not generate these, the theorems do not speak about them):
  * index strings are ASCII (`int()` also accepts non-ASCII decimal digits / Unicode whitespace) and
    shorter than CPython's 4300-digit limit; indices are small enough for the list to be grown;
  * environments are trees (no object shared between two positions – `copy.deepcopy` preserves sharing,
    the value model has none) and contain no lone surrogates;
  * placeholders are scalars (a container placeholder is inserted *by reference* at every path and a later
    path could then mutate the placeholder itself);
  * path entries are `str` (also covered: `None`, `bool`, `int` through `str(path)`).
-/
namespace Rbacx
namespace Redact

/-! ### Python `int(s)` on ASCII strings -/

/-- `Py_ISSPACE`: TAB LF VT FF CR SPACE (0x1c–0x1f are *not* accepted by `int()`; probed) -/
def isWs (c : Char) : Bool := c == ' ' || (9 ≤ c.toNat && c.toNat ≤ 13)

def isDigit (c : Char) : Bool := 48 ≤ c.toNat && c.toNat ≤ 57

/-- decimal digits with single underscores *between* digits; `prev` = the previous character was a digit -/
def parseDigits : List Char → Nat → Bool → Option Nat
  | [], acc, prev => if prev then some acc else none
  | c :: cs, acc, prev =>
    if isDigit c then parseDigits cs (acc * 10 + (c.toNat - 48)) true
    else if c == '_' && prev then parseDigits cs acc false
    else none

/-- strip ASCII whitespace on both sides -/
def strip (cs : List Char) : List Char := ((cs.dropWhile isWs).reverse.dropWhile isWs).reverse

/-- `int(s)` (base 10): optional surrounding whitespace, optional sign, digits with single underscores
    between digits; `none` = `ValueError` -/
def parsePyInt (cs : List Char) : Option Int :=
  match strip cs with
  | '-' :: ds => (parseDigits ds 0 false).map fun n => -(n : Int)
  | '+' :: ds => (parseDigits ds 0 false).map fun n => (n : Int)
  | ds => (parseDigits ds 0 false).map fun n => (n : Int)

/-! ### path segments -/

inductive Seg where
  /-- `name[...]` whose bracket content is not an `int()` literal: the whole call returns here -/
  | invalid
  | key (k : String)
  | index (k : String) (i : Int)
deriving DecidableEq, Repr

/-- `if "[" in p and p.endswith("]"): key, idx_str = p.split("[", 1); idx = int(idx_str[:-1])` -/
def parseSeg (p : String) : Seg :=
  let cs := p.toList
  if cs.contains '[' && cs.getLast? == some ']' then
    let key := cs.takeWhile (· != '[')
    let idxStr := (cs.dropWhile (· != '[')).drop 1
    match parsePyInt idxStr.dropLast with
    | some i => .index (String.ofList key) i
    | none => .invalid
  else .key p

/-! ### dict / list primitives -/

/-- `d[k] = v`: replace the value of an existing key (its position is kept) or append -/
def setKey (k : String) (v : PyVal) : List (String × PyVal) → List (String × PyVal)
  | [] => [(k, v)]
  | (k', w) :: rest => if k' = k then (k', v) :: rest else (k', w) :: setKey k v rest

/-- the dict found at an intermediate position, or the fresh `{}` the code puts there
    (`if p not in cur or not isinstance(cur[p], dict): cur[p] = {}`) -/
def childDict : Option PyVal → PyVal
  | some (.dict d) => .dict d
  | _ => .dict []

/-- `cur[key]` after `if key not in cur or not isinstance(cur[key], list): cur[key] = []` -/
def childList : Option PyVal → List PyVal
  | some (.list xs) => xs
  | _ => []

/-- `_ensure_list_size(lst, idx)`: append `{}` while `len(lst) <= idx` (nothing for a negative index) -/
def ensureSize (lst : List PyVal) (idx : Int) : List PyVal :=
  if idx < 0 then lst else lst ++ List.replicate (idx.toNat + 1 - lst.length) (.dict [])

/-- the position `lst[idx]` denotes (only used when `-len ≤ idx`) -/
def normIdx (len : Nat) (idx : Int) : Nat :=
  if idx < 0 then len - (-idx).toNat else idx.toNat

/-! ### `_set_by_path` -/

/-- the loop of `_set_by_path` from segment `p` on, with `cur` the current container; returns the
    new value of `cur`.  `setParts [] _ v = v` is "the position itself is assigned": the last segment's
    `cur[p] = value` is `cur[p] = setParts [] _ value`, so last and non-last segments share one case. -/
def setParts : List String → PyVal → PyVal → PyVal
  | [], _, value => value
  | p :: rest, cur, value =>
    match cur with
    | .dict kvs =>
      match parseSeg p with
      | .invalid => cur                                   -- invalid index → no-op
      | .key k => .dict (setKey k (setParts rest (childDict (PyVal.lookup k kvs)) value) kvs)
      | .index k idx =>
        let lst := childList (PyVal.lookup k kvs)
        if idx < -(lst.length : Int) then
          .dict (setKey k (.list lst) kvs)                -- no-op, but `cur[key] = []` may have happened
        else
          let lst' := ensureSize lst idx
          let i := normIdx lst.length idx
          .dict (setKey k (.list (lst'.set i (setParts rest (childDict lst'[i]?) value))) kvs)
    | _ => cur                                            -- cannot descend into / create keys on a non-dict

/-- `_set_by_path(obj, path, value)`; `str.split(".")` never returns `[]` -/
def setByPath (obj : PyVal) (path : String) (value : PyVal) : PyVal :=
  match PyVal.splitStr '.' path with
  | [] => obj
  | parts => setParts parts obj value

/-! ### reading a path (specification side) -/

def getParts : List String → PyVal → Option PyVal
  | [], cur => some cur
  | p :: rest, cur =>
    match cur with
    | .dict kvs =>
      match parseSeg p with
      | .invalid => none
      | .key k => (PyVal.lookup k kvs).bind (getParts rest)
      | .index k idx =>
        match PyVal.lookup k kvs with
        | some (.list xs) =>
          if idx < -(xs.length : Int) then none else (xs[normIdx xs.length idx]?).bind (getParts rest)
        | _ => none
    | _ => none

def getByPath (obj : PyVal) (path : String) : Option PyVal :=
  match PyVal.splitStr '.' path with
  | [] => none
  | parts => getParts parts obj

/-- the final assignment of `_set_by_path` is reached: the root is a dict, every bracket segment holds an
    `int()` literal, and no index lies before the start of its list (lists of freshly created
    intermediates are empty, so a negative index below a created node never lands) -/
def lands : List String → PyVal → Bool
  | [], _ => true
  | p :: rest, cur =>
    match cur with
    | .dict kvs =>
      match parseSeg p with
      | .invalid => false
      | .key k => lands rest (childDict (PyVal.lookup k kvs))
      | .index k idx =>
        let lst := childList (PyVal.lookup k kvs)
        if idx < -(lst.length : Int) then false
        else lands rest (childDict (ensureSize lst idx)[normIdx lst.length idx]?)
    | _ => false

def landsPath (obj : PyVal) (path : String) : Bool :=
  match PyVal.splitStr '.' path with
  | [] => false
  | parts => lands parts obj

/-! ### leaves -/

mutual
/-- some scalar leaf (anything that is not a list or a dict) satisfies `P` -/
def anyLeaf (P : PyVal → Bool) : PyVal → Bool
  | .list xs => anyLeafL P xs
  | .dict kvs => anyLeafD P kvs
  | v => P v
def anyLeafL (P : PyVal → Bool) : List PyVal → Bool
  | [] => false
  | x :: xs => anyLeaf P x || anyLeafL P xs
def anyLeafD (P : PyVal → Bool) : List (String × PyVal) → Bool
  | [] => false
  | (_, v) :: kvs => anyLeaf P v || anyLeafD P kvs
end

/-- the leaf is a string containing `s` -/
def holds (s : String) : PyVal → Bool
  | .str t => PyVal.strContains t s
  | _ => false

/-- the secret `s` occurs (as a substring of a string leaf) somewhere in `v` -/
def occurs (s : String) (v : PyVal) : Bool := anyLeaf (holds s) v

/-- a `P`-leaf in the entries of a dict other than the first entry under key `k`
    (the entry `d[k]` denotes; a Python dict has no second one) -/
def anyOtherD (P : PyVal → Bool) (k : String) : List (String × PyVal) → Bool
  | [] => false
  | (k', v) :: rest => if k' = k then anyLeafD P rest else anyLeaf P v || anyOtherD P k rest

/-- a `P`-leaf in the elements of a list other than element `i` -/
def anyOtherL (P : PyVal → Bool) : Nat → List PyVal → Bool
  | _, [] => false
  | 0, _ :: xs => anyLeafL P xs
  | i + 1, x :: xs => anyLeaf P x || anyOtherL P i xs

/-- some `P`-leaf of `cur` sits at a position that is **not under** the position the path denotes in `cur`
    (if the path does not resolve inside some node, every leaf of that node counts as outside) -/
def leakOutside (P : PyVal → Bool) : List String → PyVal → Bool
  | [], _ => false
  | p :: rest, cur =>
    match cur with
    | .dict kvs =>
      match parseSeg p with
      | .invalid => anyLeaf P cur
      | .key k =>
        anyOtherD P k kvs ||
          (match PyVal.lookup k kvs with
           | some c => leakOutside P rest c
           | none => false)
      | .index k idx =>
        anyOtherD P k kvs ||
          (match PyVal.lookup k kvs with
           | some (.list xs) =>
             if idx < -(xs.length : Int) then anyLeafL P xs
             else anyOtherL P (normIdx xs.length idx) xs ||
               (match xs[normIdx xs.length idx]? with
                | some c => leakOutside P rest c
                | none => false)
           | some c => anyLeaf P c
           | none => false)
    | _ => anyLeaf P cur

def leakOutsidePath (P : PyVal → Bool) (obj : PyVal) (path : String) : Bool :=
  match PyVal.splitStr '.' path with
  | [] => anyLeaf P obj
  | parts => leakOutside P parts obj

/-- the segment is a plain key or an index that is not negative: the position it denotes does not depend
    on the current length of the list -/
def stableSeg (p : String) : Bool :=
  match parseSeg p with
  | .invalid => false
  | .key _ => true
  | .index _ i => decide (0 ≤ i)

def stablePath (path : String) : Bool := (PyVal.splitStr '.' path).all stableSeg

/-! ### `apply_obligations` -/

def phMask : PyVal := .str "***"
def phRedact : PyVal := .str "[REDACTED]"

/-- `str(path)` for the kinds of path entry the model covers (`none`: outside the domain) -/
def pathStr : PyVal → Option String
  | .str s => some s
  | .none => some "None"
  | .bool b => some (if b then "True" else "False")
  | .int n => some (toString n)
  | _ => none

/-- `for path in ob.get("fields", []) or []`: the iterated items, `none` = `TypeError` (a truthy
    non-iterable such as `5`).  A `str` iterates its characters, a dict its keys. -/
def fieldsOf (ob : List (String × PyVal)) : Option (List PyVal) :=
  match PyVal.lookup "fields" ob with
  | none => some []
  | some f =>
    if !f.truthy then some []
    else match f with
      | .list xs => some xs
      | .str s => some (s.toList.map fun c => .str (String.ofList [c]))
      | .dict kvs => some (kvs.map fun kv => .str kv.1)
      | _ => none

/-- the `_set_by_path(out, path, placeholder)` calls one obligation performs, in order;
    `none` = evaluating it raises (`ob` is not a mapping → `AttributeError`; `fields` is not iterable) -/
def specWrites : PyVal → Option (List (String × PyVal))
  | .dict ob =>
    match PyVal.lookup "type" ob with
    | some (.str "mask_fields") =>
      (fieldsOf ob).map fun ps => ps.filterMap fun p =>
        (pathStr p).map fun s => (s, (PyVal.lookup "placeholder" ob).getD phMask)
    | some (.str "redact_fields") =>
      (fieldsOf ob).map fun ps => ps.filterMap fun p => (pathStr p).map fun s => (s, phRedact)
    | _ => some []                                         -- unknown type: ignored
  | _ => none

def applyWrites (out : PyVal) (ws : List (String × PyVal)) : PyVal :=
  ws.foldl (fun o w => setByPath o w.1 w.2) out

/-- the loop of `apply_obligations` over `out`: the state reached and whether an exception escaped
    (raising happens before any write of the offending obligation) -/
def applySpecs : PyVal → List PyVal → PyVal × Bool
  | out, [] => (out, false)
  | out, ob :: rest =>
    match specWrites ob with
    | none => (out, true)
    | some ws => applySpecs (applyWrites out ws) rest

/-- all writes of a spec list, if none of the specs raises -/
def allWrites : List PyVal → Option (List (String × PyVal))
  | [] => some []
  | ob :: rest =>
    match specWrites ob, allWrites rest with
    | some ws, some more => some (ws ++ more)
    | _, _ => none

/-- `apply_obligations(payload, specs)`: the returned payload (when nothing raises) -/
def applyObligations (payload : PyVal) (specs : List PyVal) : PyVal := (applySpecs payload specs).1

/-- what the caller sees after `apply_obligations(payload, specs, in_place=…)` returned normally:
    `(returned object, the caller's payload object afterwards)`.  With `in_place` they are the same object;
    without, the code works on `copy.deepcopy(payload)` and the caller's object is not reachable from it. -/
def applyObligationsIO (payload : PyVal) (specs : List PyVal) (inPlace : Bool) : PyVal × PyVal :=
  let out := applyObligations payload specs
  (out, if inPlace then out else payload)

/-- every spec is a mapping whose `fields` is iterable or falsy, with path entries inside the domain -/
def specsWF (specs : List PyVal) : Bool := (allWrites specs).isSome

/-! ### floats as far as `<`, `<=`, `>` can see -/

/-- A Python float under comparison: NaN, or an extended real.  Every finite double is an integer
    multiple of 2⁻¹⁰⁷⁴, so `x ↦ x·2¹⁰⁷⁴` embeds the finite doubles into `Int` *exactly* and
    order-preservingly (±inf ↦ ±2²¹⁰⁰, beyond every finite double; −0.0 ↦ 0 = +0.0 as under `==`).
    Comparisons, `min` and `max` commute with the embedding, so nothing about IEEE arithmetic is assumed. -/
inductive FNum where
  | nan
  | fin (k : Int)
deriving DecidableEq, Repr, Inhabited

/-- 1.0 -/
def unit : Int := 2 ^ 1074

namespace FNum
def zero : FNum := .fin 0
def one : FNum := .fin unit
/-- Python `a <= b` -/
def le : FNum → FNum → Bool
  | .fin a, .fin b => decide (a ≤ b)
  | _, _ => false
/-- Python `a < b` -/
def lt : FNum → FNum → Bool
  | .fin a, .fin b => decide (a < b)
  | _, _ => false
/-- Python `a > b` -/
def gt (a b : FNum) : Bool := lt b a
/-- builtin `min(a, b)`: `b if b < a else a` -/
def pmin (a b : FNum) : FNum := if lt b a then b else a
/-- builtin `max(a, b)`: `b if b > a else a` -/
def pmax (a b : FNum) : FNum := if gt b a then b else a
/-- `max(0.0, min(1.0, x))` -/
def clamp (x : FNum) : FNum := pmax zero (pmin one x)
/-- a draw of `random.random()`: a float in [0, 1) -/
def isDraw (d : FNum) : Prop := le zero d = true ∧ lt d one = true
end FNum

/-! ### `DecisionLogger` -/

structure LogCfg where
  /-- `float(sample_rate)` -/
  sampleRate : FNum := .one
  /-- the `redactions=` argument; `none` = not provided (`[]` *is* provided) -/
  redactions : Option (List PyVal) := none
  useDefault : Bool := false
  /-- `_DEFAULT_REDACTIONS` (read from the module by the harness on every run) -/
  defaults : List PyVal := []
  inPlace : Bool := false
  smart : Bool := false
  /-- `category_sampling_rates` with values after `float()`; `none` = not provided -/
  strategy : Option (List (String × FNum)) := none
  /-- the `max_env_bytes=` argument as passed -/
  maxEnvBytes : PyVal := .none

def defaultStrategy : List (String × FNum) := [("deny", .one), ("permit_with_obligations", .one)]

/-- `dict(category_sampling_rates or {"deny": 1.0, "permit_with_obligations": 1.0})` -/
def effStrategy (cfg : LogCfg) : List (String × FNum) :=
  match cfg.strategy with
  | some (e :: es) => e :: es
  | _ => defaultStrategy

def lookupRate (k : String) : List (String × FNum) → Option FNum
  | [] => none
  | (k', r) :: rest => if k' = k then some r else lookupRate k rest

/-- the sampling category of a payload -/
def category (payload : PyVal) : String :=
  let isDeny : Bool := match payload.get "decision" with | .str "deny" => true | _ => false
  if isDeny || !(payload.get "allowed").truthy then "deny"
  else if (payload.get "obligations").truthy then "permit_with_obligations"
  else "permit"

/-- the rate the draw is compared with -/
def effRate (cfg : LogCfg) (payload : PyVal) : FNum :=
  if !cfg.smart then cfg.sampleRate
  else ((lookupRate (category payload) (effStrategy cfg)).getD cfg.sampleRate).clamp

/-- `_should_drop_by_sampling(payload)` with `random.random() = draw` -/
def shouldDrop (cfg : LogCfg) (payload : PyVal) (draw : FNum) : Bool :=
  let r := effRate cfg payload
  r.le .zero || draw.gt r

/-- strict priority: explicit `redactions` (even `[]`) > defaults when opted in > none -/
def effectiveSpecs (cfg : LogCfg) : List PyVal :=
  match cfg.redactions with
  | some rs => rs
  | none => if cfg.useDefault then cfg.defaults else []

/-- `max_env_bytes if isinstance(max_env_bytes, int) and max_env_bytes > 0 else None` (`True` is the int 1) -/
def effBound (cfg : LogCfg) : Option Int :=
  match cfg.maxEnvBytes with
  | .int n => if n > 0 then some n else none
  | .bool true => some 1
  | _ => none

/-- `dict(safe.get("env") or {})` (domain: `env` is a dict or falsy) -/
def envObj (payload : PyVal) : PyVal :=
  let e := payload.get "env"
  if e.truthy then e else .dict []

def truncMarker (size : Nat) : PyVal := .dict [("_truncated", .bool true), ("size_bytes", .int size)]

/-- the env after the redaction step and whether `apply_obligations` raised.  When it raised, the
    `except` branch emits `env_obj` "as is": the untouched shallow copy, or – in place – the object in the
    state the exception left it. -/
def redactStep (cfg : LogCfg) (payload : PyVal) : PyVal × Bool :=
  let env := envObj payload
  match effectiveSpecs cfg with
  | [] => (env, false)
  | specs =>
    let r := applySpecs env specs
    if r.2 then (if cfg.inPlace then r.1 else env, true) else (r.1, false)

structure LogOut where
  env : PyVal
  truncated : Bool

/-- `DecisionLogger.log(payload)` with `random.random() = draw`: `none` = nothing emitted, otherwise the
    `env` of the emitted record.  `jsonSize v` is the oracle `len(json.dumps(v, ensure_ascii=False).encode("utf-8"))`
    (`none`: `json.dumps` raised – the inner `except` then emits the env in full). -/
def log (cfg : LogCfg) (jsonSize : PyVal → Option Nat) (payload : PyVal) (draw : FNum) : Option LogOut :=
  if shouldDrop cfg payload draw then none
  else
    let r := redactStep cfg payload
    if r.2 then some ⟨r.1, false⟩                         -- outer `except`: no size check
    else
      match effBound cfg with
      | none => some ⟨r.1, false⟩
      | some b =>
        match jsonSize r.1 with
        | none => some ⟨r.1, false⟩
        | some n => if (n : Int) > b then some ⟨truncMarker n, true⟩ else some ⟨r.1, false⟩

end Redact
end Rbacx
