import Rbacx.Model.Engine
/-
  Rbacx.Model.RelMemo — the `rel` branch of `eval_condition` with the per-decision memo
  (`REL_LOCAL_CACHE`) and the trace of calls made to the relationship checker, threaded through the
  condition tree, the rule loop, the set evaluator and the compiled function (state-passing versions
  of the pure definitions; `Proofs/RelMemo.lean` relates the two).
-/
namespace Rbacx
open PyVal

/-- insertion sort of dict entries by key -/
def insertAll (kvs : List (String × PyVal)) : List (String × PyVal) :=
  kvs.foldl (fun acc kv =>
    let (lo, hi) := acc.span (fun e => e.1 < kv.1)
    lo ++ kv :: hi) []

mutual
/-- canonical form of a context value for the memo key: dict entries sorted by key (json.dumps(sort_keys=True)) -/
def normCtx : PyVal → PyVal
  | .list xs => .list (normCtxL xs)
  | .dict kvs => .dict (insertAll (normCtxD kvs))
  | v => v
def normCtxL : List PyVal → List PyVal
  | [] => []
  | x :: xs => normCtx x :: normCtxL xs
def normCtxD : List (String × PyVal) → List (String × PyVal)
  | [] => []
  | (k, v) :: kvs => (k, normCtx v) :: normCtxD kvs
end

/-- equality of memo keys: same triple and the same `_ctx_hash` (JSON text with sorted keys) -/
def keyEq (a b : RelKey) : Bool :=
  a.subject == b.subject && a.relation == b.relation && a.resource == b.resource && (normCtx a.ctx == normCtx b.ctx)

structure RelSt where
  memo : List (RelKey × Bool) := []
  /-- calls made to the checker, in order -/
  trace : List RelKey := []
deriving Inhabited

def memoLookup (memo : List (RelKey × Bool)) (k : RelKey) : Option Bool :=
  (memo.find? (fun e => keyEq e.1 k)).map (·.2)

/-- a `rel` node with the memo -/
def evalRelM (cx : CondCtx) (expr : PyVal) (st : RelSt) : CondRes × RelSt :=
  match relQuery cx.o expr cx.env with
  | .error e => (.error e, st)
  | .ok Option.none => (.ok false, st)
  | .ok (some key) =>
    match cx.checker with
    | Option.none => (.ok false, st)
    | some chk =>
      match memoLookup st.memo key with
      | some b => (.ok b, st)
      | Option.none =>
        let b := (chk key).getD false
        (.ok b, { memo := st.memo ++ [(key, b)], trace := st.trace ++ [key] })

mutual
def evalCondM (cx : CondCtx) : Cond → RelSt → CondRes × RelSt
  | .lit v, st => (.ok v.truthy, st)
  | .rel expr, st => evalRelM cx expr st
  | .bin op operands, st => (evalBin cx op operands, st)
  | .all Option.none, st => (.error .typeMismatch, st)
  | .all (some subs), st => evalAllM cx subs st
  | .any Option.none, st => (.error .typeMismatch, st)
  | .any (some subs), st => evalAnyM cx subs st
  | .not c, st => let (r, st') := evalCondM cx c st; (r.map (!·), st')
  | .unknown, st => (.ok false, st)
def evalAllM (cx : CondCtx) : List Cond → RelSt → CondRes × RelSt
  | [], st => (.ok true, st)
  | c :: cs, st =>
    match evalCondM cx c st with
    | (.ok true, st') => evalAllM cx cs st'
    | r => r
def evalAnyM (cx : CondCtx) : List Cond → RelSt → CondRes × RelSt
  | [], st => (.ok false, st)
  | c :: cs, st =>
    match evalCondM cx c st with
    | (.ok false, st') => evalAnyM cx cs st'
    | r => r
end

def condOutcomeM (cx : CondCtx) (cond : PyVal) (st : RelSt) : Except CondErr (Option Outcome) × RelSt :=
  if cond.isNone then (.ok Option.none, st)
  else match evalCondM cx (condOf cond) st with
    | (.ok true, st') => (.ok Option.none, st')
    | (.ok false, st') => (.ok (some .condFalse), st')
    | (.error .typeMismatch, st') => (.ok (some .condTypeErr), st')
    | (.error (.raised cls), st') => (.error (.raised cls), st')

def ruleOutcomeM (cx : CondCtx) (rule : PyVal) (st : RelSt) : Except CondErr Outcome × RelSt :=
  if !matchActions rule (por (cx.env.get "action") (.str "")) then (.ok .actionMismatch, st)
  else if !matchResource cx.o (isStrict cx.env) (por (rule.get "resource") (.dict []))
            (por (cx.env.get "resource") (.dict [])) then (.ok .resourceMismatch, st)
  else match condOutcomeM cx (rule.get "condition") st with
    | (.error e, st') => (.error e, st')
    | (.ok (some out), st') => (.ok out, st')
    | (.ok Option.none, st') =>
      match lowerField (rule.get "effect") "permit" with
      | .error e => (.error e, st')
      | .ok effect => (.ok (.applies effect (por (rule.get "id") (.str "")) (ruleObligations rule)), st')

def rulesLoopM (cx : CondCtx) (algo : String) : LoopSt → List PyVal → RelSt → Except CondErr LoopSt × RelSt
  | s, [], st => (.ok s, st)
  | s, r :: rs, st =>
    match ruleOutcomeM cx r st with
    | (.error e, st') => (.error e, st')
    | (.ok out, st') =>
      let (s', broke) := stepRule algo s out
      if broke then (.ok s', st') else rulesLoopM cx algo s' rs st'

def evaluateM (cx : CondCtx) (dflt : String) (policy : PyVal) (st : RelSt) : Except CondErr Raw × RelSt :=
  match lowerField (policy.get "algorithm") dflt with
  | .error e => (.error e, st)
  | .ok algo =>
    match rulesLoopM cx algo {} (rulesOf policy) st with
    | (.error e, st') => (.error e, st')
    | (.ok s, st') => (.ok (finalise algo s), st')

mutual
def decideTreeM (cx : CondCtx) (interpDflt setDflt : String) : PTree → RelSt → Except CondErr Raw × RelSt
  | .leaf doc, st => evaluateM cx interpDflt doc st
  | .node doc children, st =>
    match lowerField (doc.get "algorithm") setDflt with
    | .error e => (.error e, st)
    | .ok algo =>
      match childrenLoopM cx interpDflt setDflt algo {} children st with
      | (.error e, st') => (.error e, st')
      | (.ok s, st') => (.ok (finaliseSet algo s), st')
def childrenLoopM (cx : CondCtx) (interpDflt setDflt algo : String) : SetSt → List PTree → RelSt → Except CondErr SetSt × RelSt
  | s, [], st => (.ok s, st)
  | s, c :: cs, st =>
    match decideTreeM cx interpDflt setDflt c st with
    | (.error e, st') => (.error e, st')
    | (.ok res, st') =>
      let (s', broke) := stepChild algo s (c.doc.get "id") res
      if broke then (.ok s', st') else childrenLoopM cx interpDflt setDflt algo s' cs st'
end

def compiledDecideM (cx : CondCtx) (c : Consts) (policy : PyVal) (st : RelSt) : Except CondErr Raw × RelSt :=
  if policy.hasKey "policies" then decideTreeM cx c.interpDefault c.setDefault (treeOf policy) st
  else
    match lowerField (policy.get "algorithm") c.compilerDefault with
    | .error e => (.error e, st)
    | .ok algo =>
      let actionVal := cx.env.get "action"
      let action := if actionVal.isNone then "" else cx.o.pyStr actionVal
      let res := por (cx.env.get "resource") (.dict [])
      let rt := res.get "type"
      let resType : Option String := if rt.isNone then Option.none else some (cx.o.pyStr rt)
      let cands := (rulesOf policy).filter (isCandidate · action)
      let selected := selectBucket cx.o (isStrict cx.env) cands resType res
      match rulesLoopM cx algo {} selected st with
      | (.error e, st') => (.error e, st')
      | (.ok s, st') => (.ok (finalise algo s), st')

/-- one decision: a fresh memo (`REL_LOCAL_CACHE.set({})`), compiled function with interpreter fall-back
    (the fall-back keeps the memo filled by the failed compiled run, as the code does) -/
def guardDecideM (cx : CondCtx) (c : Consts) (policy : PyVal) : Except CondErr Raw × RelSt :=
  match compiledDecideM cx c policy {} with
  | (.ok r, st) => (.ok r, st)
  | (.error _, st) =>
    if policy.hasKey "policies" then decideTreeM cx c.interpDefault c.setDefault (treeOf policy) st
    else evaluateM cx c.interpDefault policy st

end Rbacx
