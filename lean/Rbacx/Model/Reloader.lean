/-
  Rbacx.Model.Reloader — `HotReloader` (src/rbacx/policy/loader.py) as a state machine.

  One reload check (`check_and_reload_async`) is a function of
    * the reloader/engine state,
    * `force`, the clock value `now` read at the start of the check,
    * `jit : Time → Time`, the jitter the PRNG draw of this check yields for a given (new)
      back-off value (the code computes `self._backoff * self.jitter_ratio * random.uniform(-1, 1)`
      *after* doubling the back-off, so the jitter is a function of the new back-off),
    * `etagRes`, `loadRes`: what `source.etag()` / `source.load()` answered *when they were asked*.
      A source that changes between the two calls is simply a pair of observations of two
      different source states; nothing else about the source enters this file.

  Times are exact rationals with the fixed denominator 10^6 (integers of microseconds).  The
  literals of the code are `0.2` (= `floorUs`) and `2.0` (the back-off factor).

  The check is written as the four atomic blocks the code consists of
  (snapshot under the lock / `etag()` / `load()` / publish-or-register-error under the lock),
  so that the same definitions give the sequential function `check` and the interleaving
  semantics of overlapping checks (`Conc`, below).
-/
namespace Rbacx.Reloader

abbrev Tag := String
/-- a policy document, identified by a marker (the harness puts the marker into the document) -/
abbrev Doc := String
/-- `Time`: an instant or a duration in microseconds, an `Int`.  (A notation rather than an
    `abbrev`, so that `omega` sees plain integer arithmetic.) -/
scoped notation "Time" => Int

/-- exception classes as the three `except` clauses of `check_and_reload_async` see them
    (everything here derives from `Exception`; `BaseException`s are outside the model) -/
inductive Exc where
  | jsonDecode                 -- json.JSONDecodeError
  | fileNotFound               -- FileNotFoundError
  | other (name : String)      -- any other subclass of Exception
deriving DecidableEq, Repr, Inhabited

/-- what a call into the source produced -/
inductive Res (α : Type) where
  | ok (v : α)
  | raise (e : Exc)
deriving DecidableEq, Repr, Inhabited

/-- what `etag()` returned: a `str`, `None`, or some other object -/
inductive EtagObs where
  | tag (t : Tag)
  | none
  | nonStr
deriving DecidableEq, Repr, Inhabited

/-- `etag if isinstance(etag, str) else None` -/
def EtagObs.toOpt : EtagObs → Option Tag
  | .tag t => some t
  | .none => Option.none
  | .nonStr => Option.none

/-- result of a check: the code's contract is "returns a bool"; `raised` is there so that
    "never raises" is a statement about the handler, not an artefact of the type -/
inductive Out where
  | returned (b : Bool)
  | raised (e : Exc)
deriving DecidableEq, Repr, Inhabited

structure Cfg where
  backoffMin : Time
  backoffMax : Time
deriving DecidableEq, Repr, Inhabited

/-- the literal `0.2` in `max(0.2, self._backoff + jitter)` -/
def floorUs : Time := 200000

structure RState where
  lastEtag : Option Tag          -- `_last_etag`
  suppressUntil : Time           -- `_suppress_until`
  backoff : Time                 -- `_backoff`
  lastErrorSet : Bool            -- `_last_error is not None`
  enginePolicy : Doc             -- `guard.policy`
  cacheEpoch : Nat               -- bumped by the `clear_cache()` inside `Guard.set_policy`
  loads : Nat                    -- number of `source.load()` calls made by this reloader
  etagCalls : Nat                -- number of `source.etag()` calls (constructor included)
deriving DecidableEq, Repr, Inhabited

/-! ### the locked blocks -/

/-- `min(self.backoff_max, max(self.backoff_min, self._backoff * 2.0))` -/
def nextBackoff (cfg : Cfg) (b : Time) : Time := min cfg.backoffMax (max cfg.backoffMin (b * 2))

/-- `_register_error` -/
def registerError (cfg : Cfg) (now : Time) (jit : Time → Time) (s : RState) : RState :=
  let b := nextBackoff cfg s.backoff
  { s with lastErrorSet := true, backoff := b, suppressUntil := now + max floorUs (b + jit b) }

/-- the three `except` clauses: `json.JSONDecodeError`, `FileNotFoundError`, `Exception`.
    They differ only in what is logged. -/
def handle (cfg : Cfg) (now : Time) (jit : Time → Time) (e : Exc) (s : RState) : RState × Out :=
  match e with
  | .jsonDecode => (registerError cfg now jit s, .returned false)
  | .fileNotFound => (registerError cfg now jit s, .returned false)
  | .other _ => (registerError cfg now jit s, .returned false)

/-- `guard.set_policy(policy)` (never raises: engine.py wraps tag computation, compilation and the
    cache clear) followed by the four assignments, all under the lock -/
def publish (cfg : Cfg) (etag : Option Tag) (d : Doc) (s : RState) : RState :=
  { s with enginePolicy := d, cacheEpoch := s.cacheEpoch + 1, lastEtag := etag,
           lastErrorSet := false, backoff := cfg.backoffMin }

/-- block 1: `now < self._suppress_until and not force` -/
def suppressed (force : Bool) (now : Time) (s : RState) : Bool :=
  decide (now < s.suppressUntil) && !force

/-! ### the unlocked blocks -/

/-- where the check stands after `etag()` answered -/
inductive Pre where
  | done (s : RState) (out : Out)              -- finished without loading
  | load (s : RState) (etag : Option Tag)      -- goes on to `load()`; `etag` is what a publish will record
  | fail (s : RState) (e : Exc)                -- `etag()` raised on the unforced path: error registration is next

/-- forced path: `try: etag = etag() (non-str ⇒ None) except Exception: etag = None` -/
def forcedTag : Res EtagObs → Option Tag
  | .ok o => o.toOpt
  | .raise _ => none

/-- block 2: `etag()` has answered `e`; `last` is the snapshot of `_last_etag` taken in block 1.
    Forced: an exception or a non-str becomes `None`, then load.  Unforced: an exception goes to
    the error path; `etag is not None and etag == last_etag` ⇒ return False; otherwise load. -/
def afterEtag (force : Bool) (last : Option Tag) (e : Res EtagObs) (s : RState) : Pre :=
  let s1 := { s with etagCalls := s.etagCalls + 1 }
  if force then
    .load s1 (forcedTag e)
  else
    match e with
    | .raise c => .fail s1 c
    | .ok o =>
      let etag := o.toOpt
      if etag.isSome && etag == last then .done s1 (.returned false)
      else .load s1 etag

/-- blocks 3+4: `load()` has answered `l`; publish or register the error -/
def afterLoad (cfg : Cfg) (now : Time) (jit : Time → Time) (etag : Option Tag) (l : Res Doc) (s : RState) :
    RState × Out :=
  let s1 := { s with loads := s.loads + 1 }
  match l with
  | .ok d => (publish cfg etag d s1, .returned true)
  | .raise c => handle cfg now jit c s1

/-- one whole, non-overlapped check -/
def check (cfg : Cfg) (force : Bool) (now : Time) (jit : Time → Time) (e : Res EtagObs) (l : Res Doc)
    (s : RState) : RState × Out :=
  if suppressed force now s then (s, .returned false)
  else
    match afterEtag force s.lastEtag e s with
    | .done s' o => (s', o)
    | .fail s' c => handle cfg now jit c s'
    | .load s' etag => afterLoad cfg now jit etag l s'

/-- does this check get as far as calling `etag()` / `load()`?  (used by the source-level semantics
    to decide which source calls actually happen) -/
def callsEtag (force : Bool) (now : Time) (s : RState) : Bool := !suppressed force now s

def callsLoad (force : Bool) (now : Time) (e : Res EtagObs) (s : RState) : Bool :=
  !suppressed force now s &&
    (match afterEtag force s.lastEtag e s with
     | .load _ _ => true
     | _ => false)

/-! ### construction -/

/-- what the constructor saw of `source.etag()` -/
inductive Prime where
  | skipped                         -- `initial_load=True`, or `etag` is a coroutine function, or there is no `etag`
  | called (e : Res EtagObs)        -- sync `etag()` was called (`initial_load=False`)
deriving DecidableEq, Repr, Inhabited

/-- the primed tag: the sync `etag()` result if it is a str; None otherwise (also on an exception) -/
def Prime.tag : Prime → Option Tag
  | .called (.ok (.tag t)) => some t
  | _ => none

/-- `HotReloader.__init__`: prime `_last_etag` with a sync `etag()` result if it is a str, else None;
    an exception also gives None -/
def init (cfg : Cfg) (p : Prime) (policy0 : Doc) : RState :=
  { lastEtag := p.tag,
    suppressUntil := 0, backoff := cfg.backoffMin, lastErrorSet := false,
    enginePolicy := policy0, cacheEpoch := 0, loads := 0,
    etagCalls := (match p with | .called _ => 1 | .skipped => 0) }

/-! ### histories of non-overlapping checks (observation level) -/

inductive Event where
  | advance (dt : Nat)                                                          -- the clock moves on
  | check (force : Bool) (jit : Time → Time) (e : Res EtagObs) (l : Res Doc)    -- one whole check

structure HState where
  now : Time
  rs : RState

def stepEvent (cfg : Cfg) (h : HState) : Event → HState × Option Out
  | .advance dt => ({ h with now := h.now + dt }, none)
  | .check force jit e l =>
    let r := check cfg force h.now jit e l h.rs
    ({ h with rs := r.1 }, some r.2)

def run (cfg : Cfg) : HState → List Event → HState
  | h, [] => h
  | h, ev :: evs => run cfg (stepEvent cfg h ev).1 evs

/-- the document a check obtained from a successful `load()`, if it got that far -/
def loadedBy (h : HState) : Event → Option Doc
  | .advance _ => none
  | .check force _ e l =>
    if callsLoad force h.now e h.rs then (match l with | .ok d => some d | .raise _ => none) else none

/-- all documents successful loads returned along a history, in order -/
def loadedDocs (cfg : Cfg) : HState → List Event → List Doc
  | _, [] => []
  | h, ev :: evs =>
    (loadedBy h ev).toList ++ loadedDocs cfg (stepEvent cfg h ev).1 evs

/-- outputs of the checks of a history, in order -/
def outputs (cfg : Cfg) : HState → List Event → List Out
  | _, [] => []
  | h, ev :: evs =>
    (stepEvent cfg h ev).2.toList ++ outputs cfg (stepEvent cfg h ev).1 evs

/-! ### overlapping checks: small-step semantics over the atomic blocks -/

inductive Pc where
  | idle
  | start                                         -- about to run block 1 (snapshot under the lock)
  | etag (last : Option Tag)                      -- about to call `source.etag()`
  | load (etag : Option Tag)                      -- about to call `source.load()`
  | publish (etag : Option Tag) (d : Doc)         -- `load()` returned `d`; about to publish under the lock
  | fail (e : Exc)                                -- an exception is in flight; `_register_error` under the lock is next
  | done (out : Out)

structure Thread where
  force : Bool
  now : Time
  jit : Time → Time
  pc : Pc
  /-- ghost: has this check executed its publish block? -/
  touched : Bool

def Thread.idle : Thread := { force := false, now := 0, jit := fun _ => 0, pc := .idle, touched := false }

/-- what the source answers to the call a block makes (blocks that make no call ignore it) -/
inductive Obs where
  | none
  | etag (e : Res EtagObs)
  | load (l : Res Doc)

/-- one atomic block of one thread.  A block given the wrong kind of observation stutters. -/
def stepThread (cfg : Cfg) (t : Thread) (o : Obs) (s : RState) : Thread × RState :=
  match t.pc, o with
  | .start, _ =>
    if suppressed t.force t.now s then ({ t with pc := .done (.returned false) }, s)
    else ({ t with pc := .etag s.lastEtag }, s)
  | .etag last, .etag e =>
    (match afterEtag t.force last e s with
     | .done s' out => ({ t with pc := .done out }, s')
     | .fail s' c => ({ t with pc := .fail c }, s')
     | .load s' etag => ({ t with pc := .load etag }, s'))
  | .load etag, .load l =>
    let s1 := { s with loads := s.loads + 1 }
    (match l with
     | .ok d => ({ t with pc := .publish etag d }, s1)
     | .raise c => ({ t with pc := .fail c }, s1))
  | .publish etag d, _ => ({ t with pc := .done (.returned true), touched := true }, publish cfg etag d s)
  | .fail c, _ =>
    let r := handle cfg t.now t.jit c s
    ({ t with pc := .done r.2 }, r.1)
  | _, _ => (t, s)

/-- global configuration: shared reloader/engine state, the checks in flight, and (ghost) every
    document a successful `load()` has returned so far -/
structure Conc where
  rs : RState
  ts : Nat → Thread
  loaded : List Doc

inductive CEvent where
  | spawn (i : Nat) (force : Bool) (now : Time) (jit : Time → Time)   -- thread slot `i` begins a check
  | step (i : Nat) (o : Obs)                                          -- thread `i` runs its next block

def upd (ts : Nat → Thread) (i : Nat) (t : Thread) : Nat → Thread := fun j => if j = i then t else ts j

/-- a thread slot can begin a new check when it is idle or its previous check has finished -/
def canSpawn : Pc → Bool
  | .idle => true
  | .done _ => true
  | _ => false

/-- the document a block adds to the ghost list: the one a successful `load()` just returned -/
def newlyLoaded (pc : Pc) (o : Obs) : List Doc :=
  match pc, o with
  | .load _, .load (.ok d) => [d]
  | _, _ => []

def cstep (cfg : Cfg) (c : Conc) : CEvent → Conc
  | .spawn i force now jit =>
    if canSpawn (c.ts i).pc then
      { c with ts := upd c.ts i { force, now, jit, pc := .start, touched := false } }
    else c
  | .step i o =>
    let r := stepThread cfg (c.ts i) o c.rs
    { rs := r.2, ts := upd c.ts i r.1, loaded := c.loaded ++ newlyLoaded (c.ts i).pc o }

def crun (cfg : Cfg) : Conc → List CEvent → Conc
  | c, [] => c
  | c, ev :: evs => crun cfg (cstep cfg c ev) evs

def Conc.init (s : RState) : Conc := { rs := s, ts := fun _ => Thread.idle, loaded := [] }

end Rbacx.Reloader
