/-
  Rbacx.Model.Roles — `StaticRoleResolver.expand` of core/roles.py, as written:

      if not roles: return []
      out = set(); stack = list(roles)
      while stack:
          r = stack.pop()                      # from the END of the list
          if r in out: continue
          out.add(r)
          for p in self.graph.get(r, []): stack.append(p)
      return sorted(out)

  Domain: role names and the graph's keys/parents are `str` (Unicode scalar values); the graph is
  a `dict[str, list[str]]`, rendered as an association list in insertion order (`dict.get` = first
  matching key; a Python dict has no duplicate keys, the model does not need that).

  Representation: the Python list `stack` is kept REVERSED (head = the end of the Python list), so
  `pop()` is the head and `append` is `cons`.  The set `out` is a list to which an element is only
  added when it is not yet a member.  `sorted` on `str` is code-point lexicographic = Lean's `<`
  on `String` (`s.toList < t.toList`, `Char` compared by code point).
-/
namespace Rbacx.Roles

abbrev Graph := List (String × List String)

/-- `graph.get(r)` -/
def lookup (r : String) : Graph → Option (List String)
  | [] => none
  | (k, ps) :: rest => if k = r then some ps else lookup r rest

/-- `graph.get(r, [])` -/
def parents (g : Graph) (r : String) : List String := (lookup r g).getD []

/-- `for p in ps: stack.append(p)` on the reversed stack -/
def pushAll (ps stack : List String) : List String := ps.reverse ++ stack

/-- keys of the graph that have not been visited yet (first component of the termination measure) -/
def unvisited (g : Graph) (out : List String) : Nat := (g.filter fun e => decide (e.1 ∉ out)).length

theorem unvisited_cons_le (g : Graph) (r : String) (out : List String) :
    unvisited g (r :: out) ≤ unvisited g out := by
  unfold unvisited
  induction g with
  | nil => simp
  | cons e g ih =>
    simp only [List.filter_cons]
    by_cases h1 : e.1 ∉ r :: out
    · have h2 : e.1 ∉ out := fun h => h1 (List.mem_cons_of_mem _ h)
      simp only [h1, h2, not_false_eq_true, decide_true, if_true, List.length_cons]
      omega
    · by_cases h2 : e.1 ∉ out
      · simp only [h1, h2, not_false_eq_true, decide_true, decide_false, if_true, List.length_cons]
        simp only [Bool.false_eq_true, if_false]
        omega
      · simp only [h1, h2, decide_false, Bool.false_eq_true, if_false]
        exact ih

theorem unvisited_cons_lt (g : Graph) (r : String) (out : List String) (ps : List String)
    (hl : lookup r g = some ps) (hr : r ∉ out) : unvisited g (r :: out) < unvisited g out := by
  unfold unvisited
  induction g with
  | nil => simp [lookup] at hl
  | cons e g ih =>
    obtain ⟨k, qs⟩ := e
    simp only [lookup] at hl
    simp only [List.filter_cons]
    by_cases hk : k = r
    · subst hk
      have h1 : ¬ (k ∉ k :: out) := by simp
      have := unvisited_cons_le g k out
      unfold unvisited at this
      simp only [h1, hr, not_false_eq_true, decide_true, decide_false, if_true, List.length_cons]
      simp only [Bool.false_eq_true, if_false]
      omega
    · simp only [hk, if_false] at hl
      have ih' := ih hl
      by_cases h2 : k ∉ out
      · have h1 : k ∉ r :: out := by
          intro h; rcases List.mem_cons.mp h with h | h
          · exact hk h
          · exact h2 h
        simp only [h1, h2, not_false_eq_true, decide_true, if_true, List.length_cons]
        omega
      · have h1 : ¬ (k ∉ r :: out) := fun h => h2 (fun h' => h (List.mem_cons_of_mem _ h'))
        simp only [h1, h2, decide_false, Bool.false_eq_true, if_false]
        exact ih'

/-- what the termination proof needs about one productive iteration -/
theorem step_decreases (g : Graph) (r : String) (rest out : List String) (hr : r ∉ out) :
    Prod.Lex (· < ·) (· < ·)
      (unvisited g (r :: out), (pushAll (parents g r) rest).length)
      (unvisited g out, (r :: rest).length) := by
  unfold parents
  cases hl : lookup r g with
  | none =>
    have hle := unvisited_cons_le g r out
    rcases Nat.lt_or_eq_of_le hle with h | h
    · exact Prod.Lex.left _ _ h
    · rw [h]; apply Prod.Lex.right; simp [pushAll]
  | some ps => exact Prod.Lex.left _ _ (unvisited_cons_lt g r out ps hl hr)

/-- the `while stack:` loop; `stack` reversed (head = top), `out` = the visited set -/
def expandLoop (g : Graph) (stack out : List String) : List String :=
  match stack with
  | [] => out
  | r :: rest =>
    if r ∈ out then expandLoop g rest out
    else expandLoop g (pushAll (parents g r) rest) (r :: out)
termination_by (unvisited g out, stack.length)
decreasing_by
  · apply Prod.Lex.right; simp
  · rename_i hr; exact step_decreases g r rest out hr

/-- insertion into a list sorted by code-point order -/
def insertSorted (x : String) : List String → List String
  | [] => [x]
  | y :: ys => if x < y then x :: y :: ys else y :: insertSorted x ys

/-- `sorted(xs)` for strings -/
def sortStrings : List String → List String
  | [] => []
  | x :: xs => insertSorted x (sortStrings xs)

/-- `StaticRoleResolver(graph).expand(roles)` for a list -/
def expand (g : Graph) (roles : List String) : List String :=
  if roles.isEmpty then [] else sortStrings (expandLoop g roles.reverse [])

/-- `expand(roles)` where `roles` may be `None` -/
def expandOpt (g : Graph) : Option (List String) → List String
  | none => []
  | some rs => expand g rs

end Rbacx.Roles
