import Rbacx.Model.Reloader
/-
  Rbacx.Model.Sources — policy sources as state machines, and histories of a reloader together
  with its source.

  A source is a state type with two calls, `etag` and `load`; each call yields an observation and
  the source's next state (sources have internal caches: the file source's (size, mtime) → sha
  cache, the HTTP source's cached ETag and cached body).  Everything else that happens to a source
  (a write, a delete, a touch, a fault that comes and goes) is an arbitrary function on its state.

  Models, each of the code as written:
    * `customSource`  scripted source: what the harness's own scripted sync/async source does
    * `fileSource`    store/file_store.py   `FilePolicySource`
    * `httpSource`    store/http_store.py   `HTTPPolicySource`  (switch `tagIsRemote`, DESIGN §3.4 / F9)
    * `s3Source`      store/s3_store.py     `S3PolicySource`
  Hashes, ETags, version ids and checksums are oracle data carried by the content (`Blob`).
-/
namespace Rbacx.Reloader

structure Source (σ : Type) where
  etag : σ → Res EtagObs × σ
  load : σ → Res Doc × σ

/-- a stored content (file bytes / HTTP body / S3 object) with the oracle facts about it -/
structure Blob where
  /-- ghost: ordinal of the write that produced this content (a *new* document gets a new serial) -/
  serial : Nat
  /-- the document the content parses to (when it parses) -/
  doc : Doc
  /-- does `parse_policy_text` succeed on it?  (otherwise `json.JSONDecodeError`) -/
  valid : Bool
  /-- oracle: sha256 hex digest of the bytes; also the tag a tagged custom source reports -/
  sha : Tag
  size : Nat
  /-- HTTP: the `ETag` response header; S3: the `ETag` of HeadObject (usually quoted) -/
  etag : Option String
  /-- S3 `VersionId` -/
  vid : Option String
  /-- S3 `GetObjectAttributes` checksums that are present, as (algorithm, value) -/
  cks : List (String × String)
deriving DecidableEq, Repr, Inhabited

/-- parse of a stored content: `json.loads` -/
def Blob.parse (b : Blob) : Res Doc := if b.valid then .ok b.doc else .raise .jsonDecode

/-- what `HTTPPolicySource.load` returns on a 304 with nothing cached: `{}` -/
def emptyDoc : Doc := "{}"

/-! ### scripted custom source -/

inductive TagMode where
  | str | none | nonStr
deriving DecidableEq, Repr, Inhabited

structure CustomW where
  cur : Option Blob            -- `none`: the document is missing
  tagMode : TagMode            -- does `etag()` report a tag, `None`, or a non-string object?
  etagFault : Option Exc       -- one-shot: the next `etag()` raises this
  loadFault : Option Exc       -- one-shot: the next `load()` raises this
  /-- ghost: serial of the most recent write -/
  hi : Nat
deriving DecidableEq, Repr, Inhabited

def customEtag (w : CustomW) : Res EtagObs × CustomW :=
  match w.etagFault with
  | some c => (.raise c, { w with etagFault := none })
  | none =>
    match w.tagMode, w.cur with
    | .str, some b => (.ok (.tag b.sha), w)
    | .str, none => (.ok .none, w)
    | .none, _ => (.ok .none, w)
    | .nonStr, _ => (.ok .nonStr, w)

def customLoad (w : CustomW) : Res Doc × CustomW :=
  match w.loadFault with
  | some c => (.raise c, { w with loadFault := none })
  | none =>
    match w.cur with
    | none => (.raise .fileNotFound, w)
    | some b => (b.parse, w)

def customSource : Source CustomW := { etag := customEtag, load := customLoad }

/-! ### FilePolicySource -/

structure FileOnDisk where
  blob : Blob
  mtime : Nat                  -- st_mtime_ns
deriving DecidableEq, Repr, Inhabited

structure FileW where
  disk : Option FileOnDisk
  /-- `(_cached_stat_sig, _cached_sha)`; both are set and reset together -/
  cache : Option ((Nat × Nat) × Tag)
  mtimeInTag : Bool            -- `include_mtime_in_etag`
  /-- ghost: serial of the most recent write -/
  hi : Nat
deriving DecidableEq, Repr, Inhabited

/-- `_ensure_content_sha` + `etag()`: the sha is recomputed only when (size, mtime) differs from the
    cached signature -/
def fileEtag (w : FileW) : Res EtagObs × FileW :=
  match w.disk with
  | none => (.ok .none, { w with cache := none })
  | some f =>
    let sig := (f.blob.size, f.mtime)
    let sha : Tag :=
      match w.cache with
      | some (sig', sha') => if sig' = sig then sha' else f.blob.sha
      | none => f.blob.sha
    let tag := if w.mtimeInTag then sha ++ ":" ++ toString f.mtime else sha
    (.ok (.tag tag), { w with cache := some (sig, sha) })

/-- `load()`: open (FileNotFoundError) and parse -/
def fileLoad (w : FileW) : Res Doc × FileW :=
  match w.disk with
  | none => (.raise .fileNotFound, w)
  | some f => (f.blob.parse, w)

def fileSource : Source FileW := { etag := fileEtag, load := fileLoad }

/-! ### HTTPPolicySource -/

structure HttpW where
  server : Option Blob         -- what the URL serves now; `none`: 404
  serverEtags : Bool           -- the server sends `ETag` and answers 304 to a matching `If-None-Match`
  failNext : Option Exc        -- one-shot: the next GET has an error status (`raise_for_status` raises)
  cachedTag : Option Tag       -- `_etag`
  cachedDoc : Option Doc       -- `_policy_cache`
  /-- variant switch: `false` = the code today (`etag()` returns the tag cached by the last `load()`),
      `true` = `etag()` asks the server (a HEAD) -/
  tagIsRemote : Bool
  /-- ghost: serial of the most recent write -/
  hi : Nat
deriving DecidableEq, Repr, Inhabited

/-- the non-empty `ETag` header of a 200 answer, if the server sends one -/
def HttpW.srvTag (w : HttpW) (b : Blob) : Option Tag :=
  if w.serverEtags then (match b.etag with | some t => if t = "" then none else some t | none => none) else none

def httpEtag (w : HttpW) : Res EtagObs × HttpW :=
  if w.tagIsRemote then
    (match w.server with
     | some b => (match w.srvTag b with | some t => (.ok (.tag t), w) | none => (.ok .none, w))
     | none => (.ok .none, w))
  else
    (match w.cachedTag with
     | some t => (.ok (.tag t), w)
     | none => (.ok .none, w))

/-- the `If-None-Match` header: `_etag` when it is truthy -/
def HttpW.inm (w : HttpW) : Option Tag :=
  match w.cachedTag with
  | some t => if t = "" then none else some t
  | none => none

/-- the server answers 304: it honours `If-None-Match` and the header equals the current ETag -/
def HttpW.notModified (w : HttpW) (b : Blob) : Bool := w.serverEtags && w.inm.isSome && w.inm == w.srvTag b

/-- `_etag` after a 200 answer: the ETag header if there is a non-empty one, else unchanged -/
def HttpW.newTag (w : HttpW) (b : Blob) : Option Tag :=
  match w.srvTag b with
  | some t => some t
  | none => w.cachedTag

/-- `load()`: conditional GET (`If-None-Match: _etag` when `_etag` is truthy); 304 ⇒ the cached body
    (`{}` if none); error status ⇒ raise; 200 ⇒ remember the ETag header *first*, then parse, then
    remember the parsed body -/
def httpLoad (w : HttpW) : Res Doc × HttpW :=
  match w.failNext with
  | some c => (.raise c, { w with failNext := none })
  | none =>
    match w.server with
    | none => (.raise (.other "HTTPError"), w)
    | some b =>
      if w.notModified b then (.ok (w.cachedDoc.getD emptyDoc), w)
      else if b.valid then (.ok b.doc, { w with cachedTag := w.newTag b, cachedDoc := some b.doc })
      else (.raise .jsonDecode, { w with cachedTag := w.newTag b })

def httpSource : Source HttpW := { etag := httpEtag, load := httpLoad }

/-! ### S3PolicySource -/

inductive Detector where
  | etag | versionId | checksum
deriving DecidableEq, Repr, Inhabited

structure S3W where
  obj : Option Blob            -- `none`: NoSuchKey
  det : Detector               -- `change_detector`
  prefer : Option String       -- `prefer_checksum`
  headFails : Bool             -- HeadObject raises (network, credentials): `_head()` answers `{}`
  attrsFail : Bool             -- GetObjectAttributes raises: `_get_checksum()` answers None
  getFault : Option Exc        -- one-shot failure of GetObject
  /-- ghost: serial of the most recent write -/
  hi : Nat
deriving DecidableEq, Repr, Inhabited

/-- strip one pair of surrounding double quotes -/
def unquote (s : String) : String :=
  let cs := s.toList
  if cs.length ≥ 2 && cs.head? == some '"' && cs.getLast? == some '"' then
    String.ofList ((cs.drop 1).dropLast)
  else s

/-- `_head_etag()` rendered as the tag `etag()` builds from it: `f"etag:{et}" if et else None` -/
def s3HeadTag (headFails : Bool) (obj : Option Blob) : Option Tag :=
  if headFails then none
  else
    match obj with
    | none => none
    | some b =>
      match b.etag with
      | some e => let et := unquote e; if et = "" then none else some ("etag:" ++ et)
      | none => none

/-- `_get_checksum()`: the preferred algorithm if present (and non-empty), else the first present in
    the fixed order -/
def pickChecksum (prefer : Option String) (cks : List (String × String)) : Option (String × String) :=
  let present := fun (a : String) => match cks.find? (fun kv => kv.1 == a) with
    | some kv => if kv.2 = "" then none else some (a, kv.2)
    | none => none
  let order := ["sha256", "crc32c", "sha1", "crc32", "crc64nvme"]
  let pref : Option (String × String) :=
    match prefer with
    | some p => if p = "" then none else (if order.contains p then present p else none)
    | none => none
  match pref with
  | some r => some r
  | none => order.findSome? present

/-- `S3PolicySource.etag()` as a function of what it depends on -/
def s3TagOf (det : Detector) (prefer : Option String) (headFails attrsFail : Bool) (obj : Option Blob) : Option Tag :=
  match det with
  | .etag => s3HeadTag headFails obj
  | .versionId =>
    let vid : Option String :=
      if headFails then none else (match obj with | some b => b.vid | none => none)
    (match vid with
     | some v => if v = "" then s3HeadTag headFails obj else some ("vid:" ++ v)
     | none => s3HeadTag headFails obj)
  | .checksum =>
    let ck : Option (String × String) :=
      if attrsFail then none else (match obj with | some b => pickChecksum prefer b.cks | none => none)
    (match ck with
     | some (a, v) => some ("ck:" ++ a ++ ":" ++ v)
     | none => s3HeadTag headFails obj)

def s3EtagTag (w : S3W) : Option Tag := s3TagOf w.det w.prefer w.headFails w.attrsFail w.obj

def s3Etag (w : S3W) : Res EtagObs × S3W :=
  match s3EtagTag w with
  | some t => (.ok (.tag t), w)
  | none => (.ok .none, w)

def s3Load (w : S3W) : Res Doc × S3W :=
  match w.getFault with
  | some c => (.raise c, { w with getFault := none })
  | none =>
    match w.obj with
    | none => (.raise (.other "NoSuchKey"), w)
    | some b => (b.parse, w)

def s3Source : Source S3W := { etag := s3Etag, load := s3Load }

/-! ### what can happen to a source from outside -/

inductive SrcOp where
  | write (b : Blob) (mtime : Nat)     -- new content (file: written with this mtime)
  | delete
  | touch (mtime : Nat)                -- file: metadata-only change
  | faultEtag (c : Exc)                -- custom: the next `etag()` raises
  | faultLoad (c : Exc)                -- custom: next `load()` raises; http: next GET fails; s3: next GetObject fails
  | headFails (v : Bool)               -- s3
  | attrsFail (v : Bool)               -- s3
deriving DecidableEq, Repr, Inhabited

def CustomW.apply (w : CustomW) : SrcOp → CustomW
  | .write b _ => { w with cur := some b, hi := b.serial }
  | .delete => { w with cur := none }
  | .faultEtag c => { w with etagFault := some c }
  | .faultLoad c => { w with loadFault := some c }
  | _ => w

def FileW.apply (w : FileW) : SrcOp → FileW
  | .write b m => { w with disk := some { blob := b, mtime := m }, hi := b.serial }
  | .delete => { w with disk := none }
  | .touch m => (match w.disk with
                 | some f => { w with disk := some { f with mtime := m } }
                 | none => w)
  | _ => w

def HttpW.apply (w : HttpW) : SrcOp → HttpW
  | .write b _ => { w with server := some b, hi := b.serial }
  | .delete => { w with server := none }
  | .faultLoad c => { w with failNext := some c }
  | _ => w

def S3W.apply (w : S3W) : SrcOp → S3W
  | .write b _ => { w with obj := some b, hi := b.serial }
  | .delete => { w with obj := none }
  | .faultLoad c => { w with getFault := some c }
  | .headFails v => { w with headFails := v }
  | .attrsFail v => { w with attrsFail := v }
  | _ => w

/-- the four kinds under one type (what the driver runs) -/
inductive World where
  | custom (w : CustomW)
  | file (w : FileW)
  | http (w : HttpW)
  | s3 (w : S3W)
deriving DecidableEq, Repr, Inhabited

def World.apply : World → SrcOp → World
  | .custom w, op => .custom (w.apply op)
  | .file w, op => .file (w.apply op)
  | .http w, op => .http (w.apply op)
  | .s3 w, op => .s3 (w.apply op)

def World.applyAll (w : World) (ops : List SrcOp) : World := ops.foldl World.apply w

def worldEtag : World → Res EtagObs × World
  | .custom w => let r := customEtag w; (r.1, .custom r.2)
  | .file w => let r := fileEtag w; (r.1, .file r.2)
  | .http w => let r := httpEtag w; (r.1, .http r.2)
  | .s3 w => let r := s3Etag w; (r.1, .s3 r.2)

def worldLoad : World → Res Doc × World
  | .custom w => let r := customLoad w; (r.1, .custom r.2)
  | .file w => let r := fileLoad w; (r.1, .file r.2)
  | .http w => let r := httpLoad w; (r.1, .http r.2)
  | .s3 w => let r := s3Load w; (r.1, .s3 r.2)

def worldSource : Source World := { etag := worldEtag, load := worldLoad }

/-- the document the source holds now, if a `load()` of a client with no cached state would succeed -/
def World.currentDoc : World → Option Doc
  | .custom w => (match w.loadFault, w.cur with
                  | none, some b => if b.valid then some b.doc else none
                  | _, _ => none)
  | .file w => (match w.disk with
                | some f => if f.blob.valid then some f.blob.doc else none
                | none => none)
  | .http w => (match w.failNext, w.server with
                | none, some b => if b.valid then some b.doc else none
                | _, _ => none)
  | .s3 w => (match w.getFault, w.obj with
              | none, some b => if b.valid then some b.doc else none
              | _, _ => none)

/-- the version tag an honest `etag()` would report for the current content (for HTTP: the server's
    ETag, whatever the client has cached) -/
def World.honestTag : World → Option Tag
  | .custom w => (match w.etagFault, w.tagMode, w.cur with
                  | none, .str, some b => some b.sha
                  | _, _, _ => none)
  | .file w => (match (fileEtag w).1 with | .ok (.tag t) => some t | _ => none)
  | .http w => (match w.server with | some b => w.srvTag b | none => none)
  | .s3 w => s3EtagTag w

/-- no one-shot fault is waiting to fire -/
def World.noPendingFault : World → Bool
  | .custom w => w.etagFault.isNone && w.loadFault.isNone
  | .file _ => true
  | .http w => w.failNext.isNone
  | .s3 w => w.getFault.isNone

/-! ### histories of a reloader with its source -/

inductive WEvent (σ : Type) where
  | env (f : σ → σ)                                                   -- the source changes
  | advance (dt : Nat)                                                 -- the clock moves on
  | check (force : Bool) (jit : Time → Time) (mid : σ → σ)             -- one whole check; `mid` happens to the
                                                                       -- source between `etag()` and `load()`

structure WState (σ : Type) where
  now : Time
  rs : RState
  src : σ

/-- one non-overlapped check against the source: exactly the calls the code makes, in its order -/
def wcheck {σ : Type} (S : Source σ) (cfg : Cfg) (force : Bool) (jit : Time → Time) (mid : σ → σ)
    (w : WState σ) : WState σ × Out :=
  if suppressed force w.now w.rs then ({ w with src := mid w.src }, .returned false)
  else
    let e := S.etag w.src
    let σ1 := mid e.2
    match afterEtag force w.rs.lastEtag e.1 w.rs with
    | .done s' o => ({ w with rs := s', src := σ1 }, o)
    | .fail s' c => let r := handle cfg w.now jit c s'; ({ w with rs := r.1, src := σ1 }, r.2)
    | .load s' etag =>
      let l := S.load σ1
      let r := afterLoad cfg w.now jit etag l.1 s'
      ({ w with rs := r.1, src := l.2 }, r.2)

def wstep {σ : Type} (S : Source σ) (cfg : Cfg) (w : WState σ) : WEvent σ → WState σ × Option Out
  | .env f => ({ w with src := f w.src }, none)
  | .advance dt => ({ w with now := w.now + dt }, none)
  | .check force jit mid => let r := wcheck S cfg force jit mid w; (r.1, some r.2)

def wrun {σ : Type} (S : Source σ) (cfg : Cfg) : WState σ → List (WEvent σ) → WState σ
  | w, [] => w
  | w, ev :: evs => wrun S cfg (wstep S cfg w ev).1 evs

def woutputs {σ : Type} (S : Source σ) (cfg : Cfg) : WState σ → List (WEvent σ) → List Out
  | _, [] => []
  | w, ev :: evs =>
    (wstep S cfg w ev).2.toList ++ woutputs S cfg (wstep S cfg w ev).1 evs

/-- `HotReloader(guard, source, initial_load=…)` at clock `now0`: with `initial_load=False` and a
    sync `etag` the constructor calls `etag()` once -/
def winit {σ : Type} (S : Source σ) (cfg : Cfg) (initialLoad asyncEtag : Bool) (now0 : Time) (policy0 : Doc)
    (σ0 : σ) : WState σ :=
  if initialLoad || asyncEtag then { now := now0, rs := init cfg .skipped policy0, src := σ0 }
  else
    let e := S.etag σ0
    { now := now0, rs := init cfg (.called e.1) policy0, src := e.2 }

end Rbacx.Reloader
