import Rbacx.Model.Oracle
/-
  Rbacx.Model.Target — `match_actions` and `match_resource` of core/policy.py, as written.
-/
namespace Rbacx
open PyVal

/-- the strings obtained by iterating `rule["actions"]` and keeping `str` items
    (`none` when the value is not iterable) -/
def actionStrings (acts : PyVal) : Option (List String) :=
  match acts with
  | .list xs => some (xs.filterMap PyVal.asStr?)
  | .str s => some (s.toList.map fun c => String.ofList [c])
  | .dict kvs => some (kvs.map (·.1))
  | _ => Option.none

/-- `match_actions(rule, action)` -/
def matchActions (rule : PyVal) (action : PyVal) : Bool :=
  match actionStrings (rule.get "actions") with
  | Option.none => false
  | some acts =>
    (match action with
     | .str a => acts.contains a
     | _ => false) || acts.contains "*"

/-- `_is_strict(env)` -/
def isStrict (env : PyVal) : Bool := (env.get "__strict_types__").truthy

/-- the candidate list built from the rule's declared type -/
def allowedTypes (rType : PyVal) : List PyVal :=
  match rType with
  | .list xs => xs
  | v => [v]

def attrsOf (d : PyVal) : PyVal :=
  por (por (d.get "attrs") (d.get "attributes")) (.dict [])

/-- one constrained attribute `k: v` against the resource's attribute mapping -/
def attrMatches (o : Oracle) (strict : Bool) (resAttrs : PyVal) (k : String) (v : PyVal) : Bool :=
  resAttrs.hasKey k &&
  (let rv := resAttrs.get k
   match v with
   | .list xs =>
     if strict then xs.any (fun x => pyEq rv x)
     else (xs.map o.pyStr).contains (o.pyStr rv)
   | _ =>
     if strict then pyEq rv v
     else o.pyStr rv == o.pyStr v)

/-- the `# type check` block -/
def typeOk (o : Oracle) (strict : Bool) (rType resType : PyVal) : Bool :=
  rType.isNone ||
  (let allowed := allowedTypes rType
   (allowed.map o.pyStr).contains "*" ||
   (if strict then
      resType.isStr && allowed.all PyVal.isStr && allowed.any (fun x => pyEq x resType)
    else
      !resType.isNone && (allowed.map o.pyStr).contains (o.pyStr resType)))

/-- the `# id check` block -/
def idOk (o : Oracle) (strict : Bool) (rId resId : PyVal) : Bool :=
  rId.isNone ||
  (if strict then !resId.isNone && pyEq resId rId
   else !resId.isNone && o.pyStr resId == o.pyStr rId)

/-- the `# attributes` block -/
def attrsOk (o : Oracle) (strict : Bool) (rAttrs resAttrs : PyVal) : Bool :=
  match rAttrs with
  | .dict kvs => resAttrs.isDict && kvs.all (fun kv => attrMatches o strict resAttrs kv.1 kv.2)
  | _ => true

/-- the strictness the matcher works with: the flag `evaluate` passes, or the legacy in-resource flag -/
def effectiveStrict (strictEnv : Bool) (res : PyVal) : Bool := strictEnv || (res.get "__strict_types__").truthy

/-- `match_resource(rdef, resource, strict=…)`; `strictEnv` is the flag `evaluate` passes. -/
def matchResource (o : Oracle) (strictEnv : Bool) (rdef res : PyVal) : Bool :=
  match rdef with
  | .dict [] => true
  | .dict _ =>
    let strict := effectiveStrict strictEnv res
    typeOk o strict (rdef.get "type") (res.get "type") &&
    idOk o strict (rdef.get "id") (res.get "id") &&
    attrsOk o strict (attrsOf rdef) (attrsOf res)
  | _ => false

end Rbacx
