import Rbacx.Model.Compiler
import Rbacx.Model.PyCli
/-
  Rbacx.Model.Tools — `_detect_format` of store/policy_loader.py and the exit-code logic of cli.py.
-/
namespace Rbacx
open PyVal

inductive Format where
  | json | yaml
deriving Repr, DecidableEq, Inhabited

def hasInfix (s sub : String) : Bool := strContains s sub

/-- `_detect_format(filename=…, content_type=…, fmt=…)`; `none` = the argument is None/empty -/
def detectFormat (fmt contentType filename : Option String) : Format :=
  let fmtL := (fmt.map asciiLower).getD ""
  if fmtL == "json" then .json
  else if fmtL == "yaml" then .yaml
  else
    let ct := (contentType.map asciiLower).getD ""
    if ct != "" && (hasInfix ct "yaml" || hasInfix ct "x-yaml") then .yaml
    else if ct != "" && hasInfix ct "json" then .json
    else
      let fn := (filename.map asciiLower).getD ""
      if fn != "" && (strEndsWith fn ".yaml" || strEndsWith fn ".yml") then .yaml
      else .json

/-! ### command line -/

inductive CliCmd where
  | validate | check | lint
deriving Repr, DecidableEq, Inhabited

def EXIT_OK : Nat := 0
def EXIT_LINT_ERRORS : Nat := 3
def EXIT_ENV : Nat := 5
def EXIT_SCHEMA_ERRORS : Nat := 6

/-- exit status given the schema verdict of each validated document (the document itself, or each child
    with `--policyset`), whether jsonschema is importable, and the number of lint issues -/
def cliStatus (cmd : CliCmd) (strict : Bool) (validatorAvailable : Bool) (verdicts : List Bool) (lintIssues : Nat) : Nat :=
  match cmd with
  | .lint => if strict && lintIssues != 0 then EXIT_LINT_ERRORS else EXIT_OK
  | .validate =>
    if !validatorAvailable then EXIT_ENV
    else if verdicts.all id then EXIT_OK else EXIT_SCHEMA_ERRORS
  | .check =>
    if !validatorAvailable then EXIT_ENV
    else if !(verdicts.all id) then EXIT_SCHEMA_ERRORS
    else if strict && lintIssues != 0 then EXIT_LINT_ERRORS else EXIT_OK

/-! ### parser dispatch: `_parse_yaml`, `parse_policy_text`, `parse_policy_bytes` of store/policy_loader.py

  The parsers themselves are ORACLES: `jsonLoads text` / `yamlSafeLoad text` = the outcome of `json.loads(text)` / `yaml.safe_load(text)`
  (a value, or the exception that escapes), `importYaml` = the outcome of `import yaml`. -/

structure Parsers where
  jsonLoads : PyVal → PyX.Res
  importYaml : PyX.Res
  yamlSafeLoad : PyVal → PyX.Res

/-- `_parse_yaml(text)`: a failed import is an ImportError (only what `except Exception` catches is converted); an empty document
    (`None`) is `{}`; anything but a mapping is a ValueError -/
def parseYaml (P : Parsers) (text : PyVal) : PyX.Res :=
  match P.importYaml with
  | .error e => if PyX.isSubclass e.cls "Exception" then .error { cls := "ImportError" } else .error e
  | .ok _ =>
    match P.yamlSafeLoad text with
    | .error e => .error e
    | .ok PyVal.none => .ok (.dict [])
    | .ok (.dict kvs) => .ok (.dict kvs)
    | .ok _ => .error { cls := "ValueError" }

/-- `parse_policy_text(text, filename=…, content_type=…, fmt=…)`: `detectFormat`, then the chosen oracle parser -/
def parsePolicyText (P : Parsers) (text : PyVal) (fmt contentType filename : Option String) : PyX.Res :=
  match detectFormat fmt contentType filename with
  | .json => P.jsonLoads text
  | .yaml => parseYaml P text

/-- `parse_policy_bytes(data, …, encoding=…)`: decode (an oracle), then `parse_policy_text` with the same hints -/
def parsePolicyBytes (P : Parsers) (decode : PyVal → PyVal → PyX.Res) (data encoding : PyVal) (fmt contentType filename : Option String) :
    PyX.Res :=
  match decode data encoding with
  | .error e => .error e
  | .ok text => parsePolicyText P text fmt contentType filename

/-! ### the command functions `cmd_lint`, `cmd_validate`, `cmd_check` of cli.py, outcome by outcome

  `cliStatus` above is the status function in terms of the VERDICTS; `cliRun` is the whole command function in terms of the outcomes of
  its collaborators — reading the input, parsing it, the validator on each validated value, the linter — including the exceptions
  that escape (cli.py defines EXIT_IO and EXIT_USAGE but no command function returns them: an unreadable file or unparsable text
  is an exception that escapes `cmd_*` and `main`). -/

def EXIT_USAGE : Nat := 2
def EXIT_IO : Nat := 4

structure CliWorld where
  openRead : PyVal → PyX.Res
  stdinRead : PyX.Res
  parsers : Parsers
  parseRequireAttrs : PyVal → PyX.Res
  validate : PyVal → PyX.Res
  lintPolicy : PyVal → PyVal → PyX.Res
  lintSet : PyVal → PyVal → PyX.Res

/-- `_load_policy_from_arg(path)`: the file unless `--policy` is absent, empty or `-` (then STDIN); the file name is the only format
    hint (STDIN: none, hence JSON) -/
def cliLoad (w : CliWorld) (path : Option String) : PyX.Res :=
  match path with
  | some p =>
    if p != "" && p != "-" then
      (match w.openRead (.str p) with
       | .error e => .error e
       | .ok text => parsePolicyText w.parsers text Option.none Option.none (some p))
    else
      (match w.stdinRead with
       | .error e => .error e
       | .ok text => parsePolicyText w.parsers text Option.none Option.none Option.none)
  | Option.none =>
    (match w.stdinRead with
     | .error e => .error e
     | .ok text => parsePolicyText w.parsers text Option.none Option.none Option.none)

/-- the values `_validate_doc` hands to the validator: the document, or with `--policyset` what iterating `doc.get("policies") or []`
    yields (AttributeError for a document that is not a mapping, TypeError for `policies` that cannot be iterated) -/
def cliValidated (policyset : Bool) (doc : PyVal) : Except PyX.Exc (List PyVal) :=
  if policyset then
    (match PyX.getE doc "policies" with
     | .error e => .error e
     | .ok ps => PyX.iterE (PyVal.por ps (.list [])))
  else .ok [doc]

/-- an exception of the validator that `_validate_doc` does NOT turn into a schema error: a RuntimeError (re-raised) or something
    `except Exception` does not catch -/
def escapesValidation (e : PyX.Exc) : Bool := PyX.isSubclass e.cls "RuntimeError" || !PyX.isSubclass e.cls "Exception"

/-- the verdict per validated value, in order, up to the first exception that escapes -/
def cliVerdicts (validate : PyVal → PyX.Res) : List PyVal → Except PyX.Exc (List Bool)
  | [] => .ok []
  | d :: ds =>
    match validate d with
    | .ok _ => (match cliVerdicts validate ds with | .ok vs => .ok (true :: vs) | .error e => .error e)
    | .error e =>
      if escapesValidation e then .error e
      else (match cliVerdicts validate ds with | .ok vs => .ok (false :: vs) | .error e' => .error e')

def cliValidatePhase (validate : PyVal → PyX.Res) (policyset : Bool) (doc : PyVal) : Except PyX.Exc (List Bool) :=
  match cliValidated policyset doc with
  | .error e => .error e
  | .ok ds => cliVerdicts validate ds

/-- reading, parsing and validating, as `cmd_validate` has them inside one `try` -/
def cliLoadValidate (w : CliWorld) (policyset : Bool) (path : Option String) : Except PyX.Exc (List Bool) :=
  match cliLoad w path with
  | .error e => .error e
  | .ok doc => cliValidatePhase w.validate policyset doc

/-- the lint phase: the linter for the mode, `list(issues)`, `--strict` -/
def cliLintPhase (w : CliWorld) (strict policyset : Bool) (doc require : PyVal) : Except PyX.Exc Nat :=
  match (if policyset then w.lintSet doc require else w.lintPolicy doc require) with
  | .error e => .error e
  | .ok issues =>
    match PyX.iterE issues with
    | .error e => .error e
    | .ok l => .ok (if strict && !l.isEmpty then EXIT_LINT_ERRORS else EXIT_OK)

/-- what a command function does: `.ok status` = it returns the status, `.error e` = the exception escapes it.
    `path` / `requireArg` = the `policy` / `require_attrs` attributes of the Namespace, `strict` / `policyset` the truthiness of those -/
def cliRun (cmd : CliCmd) (w : CliWorld) (strict policyset : Bool) (path : Option String) (requireArg : PyVal) : Except PyX.Exc Nat :=
  match cmd with
  | .lint =>
    (match w.parseRequireAttrs requireArg with
     | .error e => .error e
     | .ok req =>
       match cliLoad w path with
       | .error e => .error e
       | .ok doc => cliLintPhase w strict policyset doc req)
  | .validate =>
    -- reading, parsing and validating are all inside the `try`: a RuntimeError of any of them is the ENV status
    (match cliLoadValidate w policyset path with
     | .error e => if PyX.isSubclass e.cls "RuntimeError" then .ok EXIT_ENV else .error e
     | .ok vs => .ok (if vs.all id then EXIT_OK else EXIT_SCHEMA_ERRORS))
  | .check =>
    (match w.parseRequireAttrs requireArg with
     | .error e => .error e
     | .ok req =>
       -- reading and parsing are OUTSIDE the `try` here: a RuntimeError while loading escapes
       match cliLoad w path with
       | .error e => .error e
       | .ok doc =>
         match cliValidatePhase w.validate policyset doc with
         | .error e => if PyX.isSubclass e.cls "RuntimeError" then .ok EXIT_ENV else .error e
         | .ok vs =>
           if vs.all id then cliLintPhase w strict policyset doc req else .ok EXIT_SCHEMA_ERRORS)

/-- a boolean flag of the Namespace: `bool(getattr(args, name, False))` -/
def cliFlag (args : PyVal) (name : String) : Bool := (PyX.getattrD args name (.bool false)).truthy

/-- the model's outcome as the Python value / exception the command function produces -/
def encExit : Except PyX.Exc Nat → PyX.Res
  | .ok n => .ok (.int n)
  | .error e => .error e

/-- `main(argv)`: building the parser, `parser.parse_args(argv)` (argparse ends `--version` / `--help` / usage errors with SystemExit:
    only the exit with code 0 of an `argv` that names `-v` / `--version` is turned into EXIT_OK, every other one escapes), no
    subcommand = EXIT_USAGE, otherwise the command function's outcome: an exception escapes, a status is returned as `int(status)`,
    and a status `int` rejects with an `Exception` is EXIT_OK -/
def cliMain (buildParser : PyX.Res) (parseArgs callFunc : PyVal → PyX.Res) (argv : PyVal) : PyX.Res :=
  match buildParser with
  | .error e => .error e
  | .ok _ =>
    match parseArgs argv with
    | .error e =>
      if PyX.isSubclass e.cls "SystemExit" && (pyEq e.code (.int 0) && (argv.truthy &&
          ((Py.iter argv).any fun a => pyEq (.str "-v") a || pyEq (.str "--version") a))) then .ok (.int EXIT_OK) else .error e
    | .ok args =>
      if !PyX.hasattr args "func" then .ok (.int EXIT_USAGE)
      else
        match callFunc args with
        | .error e => .error e
        | .ok rc =>
          match PyX.intE rc with
          | .ok code => .ok code
          | .error e => if PyX.isSubclass e.cls "Exception" then .ok (.int EXIT_OK) else .error e

end Rbacx
