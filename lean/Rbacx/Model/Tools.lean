import Rbacx.Model.Compiler
/-
  Rbacx.Model.Tools — `_detect_format` of store/policy_loader.py and the exit-code logic of cli.py.
-/
namespace Rbacx
open PyVal

inductive Format where
  | json | yaml
deriving Repr, DecidableEq, Inhabited

def hasInfix (s sub : String) : Bool := strContains s sub

/-- `_detect_format(filename=…, content_type=…, fmt=…)`; `none` = the argument is None/empty -/
def detectFormat (fmt contentType filename : Option String) : Format :=
  let fmtL := (fmt.map asciiLower).getD ""
  if fmtL == "json" then .json
  else if fmtL == "yaml" then .yaml
  else
    let ct := (contentType.map asciiLower).getD ""
    if ct != "" && (hasInfix ct "yaml" || hasInfix ct "x-yaml") then .yaml
    else if ct != "" && hasInfix ct "json" then .json
    else
      let fn := (filename.map asciiLower).getD ""
      if fn != "" && (strEndsWith fn ".yaml" || strEndsWith fn ".yml") then .yaml
      else .json

/-! ### command line -/

inductive CliCmd where
  | validate | check | lint
deriving Repr, DecidableEq, Inhabited

def EXIT_OK : Nat := 0
def EXIT_LINT_ERRORS : Nat := 3
def EXIT_ENV : Nat := 5
def EXIT_SCHEMA_ERRORS : Nat := 6

/-- exit status given the schema verdict of each validated document (the document itself, or each child
    with `--policyset`), whether jsonschema is importable, and the number of lint issues -/
def cliStatus (cmd : CliCmd) (strict : Bool) (validatorAvailable : Bool) (verdicts : List Bool) (lintIssues : Nat) : Nat :=
  match cmd with
  | .lint => if strict && lintIssues != 0 then EXIT_LINT_ERRORS else EXIT_OK
  | .validate =>
    if !validatorAvailable then EXIT_ENV
    else if verdicts.all id then EXIT_OK else EXIT_SCHEMA_ERRORS
  | .check =>
    if !validatorAvailable then EXIT_ENV
    else if !(verdicts.all id) then EXIT_SCHEMA_ERRORS
    else if strict && lintIssues != 0 then EXIT_LINT_ERRORS else EXIT_OK

end Rbacx
