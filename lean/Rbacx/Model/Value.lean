/-
  Rbacx.Model.Value — the JSON-shaped Python value universe the model computes over.

  Everything rbacx evaluates (policies, requests, environments, raw decisions) is a tree of
  None / bool / int / float / str / list / dict (string keys, insertion ordered) plus datetime
  objects that may appear in request contexts.  Semantics that are Python's rather than JSON's
  (truthiness, `==` across the numeric tower, `in`, `str.split`) are defined once, here.

  String functions are written over `List Char` (`String.toList`) so that they reduce in the
  kernel and are easy to reason about.
-/

inductive PyVal where
  | none
  | bool (b : Bool)
  | int (n : Int)
  | float (f : Float)
  | str (s : String)
  | list (xs : List PyVal)
  | dict (kvs : List (String × PyVal))
  /-- `datetime`; `micros` is the UTC instant in µs (for a naive value: its wall clock read as UTC). -/
  | dt (aware : Bool) (micros : Int)
deriving Inhabited

namespace PyVal

/-! ### kinds -/

def isNone : PyVal → Bool | none => true | _ => false
def isStr : PyVal → Bool | str _ => true | _ => false
def isList : PyVal → Bool | list _ => true | _ => false
def isDict : PyVal → Bool | dict _ => true | _ => false
def isBool : PyVal → Bool | bool _ => true | _ => false
/-- `isinstance(x, (int, float))` – note: true for `bool` as in Python. -/
def isIntOrFloat : PyVal → Bool | bool _ => true | int _ => true | float _ => true | _ => false
/-- a JSON number that is not a boolean -/
def isNumber : PyVal → Bool | int _ => true | float _ => true | _ => false

mutual
def size : PyVal → Nat
  | list xs => 1 + sizeL xs
  | dict kvs => 1 + sizeD kvs
  | _ => 1
def sizeL : List PyVal → Nat
  | [] => 0
  | x :: xs => size x + sizeL xs
def sizeD : List (String × PyVal) → Nat
  | [] => 0
  | (_, v) :: kvs => size v + sizeD kvs
end

/-! ### dict access -/

def lookup (k : String) : List (String × PyVal) → Option PyVal
  | [] => Option.none
  | (k', v) :: rest => if k' = k then some v else lookup k rest

/-- `d.get(k)` for a dict; `None` for a missing key.  On a non-dict the model answers `None`
    (the code would raise; the domain of the model excludes those shapes – see DESIGN §2.1). -/
def get (d : PyVal) (k : String) : PyVal :=
  match d with
  | dict kvs => (lookup k kvs).getD none
  | _ => none

/-- `k in d` -/
def hasKey (d : PyVal) (k : String) : Bool :=
  match d with
  | dict kvs => (lookup k kvs).isSome
  | _ => false

/-! ### truthiness, `or` -/

def truthy : PyVal → Bool
  | none => false
  | bool b => b
  | int n => n != 0
  | float f => f != 0.0          -- NaN is truthy, ±0.0 is falsy
  | str s => s != ""
  | list xs => !xs.isEmpty
  | dict kvs => !kvs.isEmpty
  | dt _ _ => true

/-- Python `a or b` -/
def por (a b : PyVal) : PyVal := if a.truthy then a else b

/-! ### exact comparison across the numeric tower -/

/-- decode an IEEE-754 double: `some (negative, mantissa, exp2)` with value `±mantissa·2^exp2`
    for finite values, `none` for NaN/±Inf -/
def floatDyadic (f : Float) : Option (Bool × Nat × Int) :=
  let b : Nat := f.toBits.toNat
  let sign : Bool := b / 2^63 == 1
  let e : Nat := (b / 2^52) % 2048
  let m : Nat := b % 2^52
  if e == 2047 then Option.none
  else if e == 0 then some (sign, m, -1074)
  else some (sign, m + 2^52, Int.ofNat e - 1075)

/-- the exact integer value of a float, if it is finite and integral -/
def floatToInt? (f : Float) : Option Int :=
  match floatDyadic f with
  | Option.none => Option.none
  | some (neg, m, e) =>
    if m == 0 then some 0
    else if e >= 0 then
      let v : Int := (m * 2 ^ e.toNat : Nat)
      some (if neg then -v else v)
    else
      let d := 2 ^ (-e).toNat
      if m % d == 0 then
        let v : Int := (m / d : Nat)
        some (if neg then -v else v)
      else Option.none

/-- Python `int == float` (exact, no rounding) -/
def intEqFloat (n : Int) (f : Float) : Bool :=
  match floatToInt? f with
  | some k => k == n
  | Option.none => false

def boolToInt (b : Bool) : Int := if b then 1 else 0

mutual
/-- Python `==` on JSON-shaped values (numeric tower identified: `True == 1 == 1.0`;
    everything else is kind-strict; dicts compare key-wise regardless of order). -/
def pyEq : PyVal → PyVal → Bool
  | none, none => true
  | bool a, bool b => a == b
  | bool a, int b => boolToInt a == b
  | int a, bool b => a == boolToInt b
  | bool a, float b => intEqFloat (boolToInt a) b
  | float a, bool b => intEqFloat (boolToInt b) a
  | int a, int b => a == b
  | int a, float b => intEqFloat a b
  | float a, int b => intEqFloat b a
  | float a, float b => a == b
  | str a, str b => a == b
  | list xs, list ys => pyEqL xs ys
  | dict xs, dict ys => xs.length == ys.length && pyEqD xs ys
  | dt a1 m1, dt a2 m2 => a1 == a2 && m1 == m2
  | _, _ => false
def pyEqL : List PyVal → List PyVal → Bool
  | [], [] => true
  | x :: xs, y :: ys => pyEq x y && pyEqL xs ys
  | _, _ => false
/-- every entry of the left dict has an equal entry under the same key on the right -/
def pyEqD : List (String × PyVal) → List (String × PyVal) → Bool
  | [], _ => true
  | (k, v) :: rest, ys =>
    (match lookup k ys with
     | some w => pyEq v w
     | Option.none => false) && pyEqD rest ys
end

/-- `x in xs` for a list -/
def pyIn (x : PyVal) (xs : List PyVal) : Bool := xs.any (fun y => pyEq y x)

/-! ### strings as code-point lists -/

def isInfix (needle hay : List Char) : Bool :=
  match hay with
  | [] => needle.isEmpty
  | c :: cs => needle.isPrefixOf (c :: cs) || isInfix needle cs

/-- Python `sub in s` -/
def strContains (s sub : String) : Bool := isInfix sub.toList s.toList
def strStartsWith (s p : String) : Bool := p.toList.isPrefixOf s.toList
def strEndsWith (s p : String) : Bool := p.toList.isSuffixOf s.toList

/-- `cs.split(sep)` for a single-character separator, as Python: never returns `[]` -/
def splitOnChar (sep : Char) : List Char → List Char → List (List Char)
  | acc, [] => [acc.reverse]
  | acc, c :: cs => if c == sep then acc.reverse :: splitOnChar sep [] cs else splitOnChar sep (c :: acc) cs

def splitStr (sep : Char) (s : String) : List String :=
  (splitOnChar sep [] s.toList).map String.ofList

/-- ASCII lower-casing (the model only uses it where the result is compared with ASCII literals) -/
def asciiLower (s : String) : String :=
  String.ofList (s.toList.map fun c => if 'A' ≤ c ∧ c ≤ 'Z' then Char.ofNat (c.toNat + 32) else c)

/-! ### structural equality (bit-exact on floats), used for oracle-table lookups -/

mutual
def beq : PyVal → PyVal → Bool
  | none, none => true
  | bool a, bool b => a == b
  | int a, int b => a == b
  | float a, float b => a.toBits == b.toBits
  | str a, str b => a == b
  | list xs, list ys => beqL xs ys
  | dict xs, dict ys => beqD xs ys
  | dt a1 m1, dt a2 m2 => a1 == a2 && m1 == m2
  | _, _ => false
def beqL : List PyVal → List PyVal → Bool
  | [], [] => true
  | x :: xs, y :: ys => beq x y && beqL xs ys
  | _, _ => false
def beqD : List (String × PyVal) → List (String × PyVal) → Bool
  | [], [] => true
  | (k, v) :: xs, (k', w) :: ys => k == k' && beq v w && beqD xs ys
  | _, _ => false
end

instance : BEq PyVal := ⟨beq⟩

def asList : PyVal → List PyVal
  | list xs => xs
  | _ => []

def asStr? : PyVal → Option String
  | str s => some s
  | _ => Option.none

end PyVal
