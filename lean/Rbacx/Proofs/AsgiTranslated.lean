import Rbacx.Model.Asgi
import Rbacx.Model.PyTrace
import Rbacx.Proofs.EngineTranslated
/-
  Rbacx.Proofs.AsgiTranslated — what the per-run obligation `Run/C20_translated.lean` needs to prove the mechanical translation of
  `RbacxMiddleware.__call__` / `_send_json` (adapters/asgi.py; `Generated.Src.asgi_call`, `Src.asgi_send_json`: ACTION TRACES, Model/PyTrace.lean)
  equal to the model `asgiCall` (Model/Asgi.lean).  Nothing here depends on the generated code.

  * the encoding of the model's action list as a trace (`encAsgiTrace`): `injectGuard` ↦ `scope["rbacx_guard"] = <the guard>`,
    `sendStart st hs` ↦ `await send({"type": "http.response.start", "status": st, "headers": [(bytes, bytes)…]})`, `sendBody b` ↦
    `await send({"type": "http.response.body", "body": <bytes>})`, `callDownstream` ↦ `await self.app(scope, receive, send)`,
    `propagate cls` ↦ the call ENDS with `raised cls` (it is always the last action of the model);
  * what the trace combinators do (`seq_eff`, `seq_done`), what the header statements compute (`append_list`, `extend_headers`), and
    what can be read off an encoded trace (`mem_effects_*`).
-/
namespace Rbacx.Translated
open Rbacx Rbacx.Py Rbacx.PyT PyVal

/-! ### the encoding of the model's actions -/

/-- a header `(name, value)`: a tuple of two bytes values -/
def encHeader (h : String × String) : PyVal := .list [bytesOf h.1, bytesOf h.2]

def startMsg (status : Nat) (hs : List (String × String)) : PyVal :=
  Py.dictOf [("type", .str "http.response.start"), ("status", .int status), ("headers", .list (hs.map encHeader))]

def bodyMsg (b : String) : PyVal := Py.dictOf [("type", .str "http.response.body"), ("body", bytesOf b)]

def downstreamEff : Eff := .call "self.app" ["scope", "receive", "send"]

/-- one action (other than `propagate`) as the effect the source performs; `g` is the object `self.guard` -/
def encAsgiEff (g : PyVal) : AsgiAction → Eff
  | .injectGuard => .setItem "scope" "rbacx_guard" g
  | .sendStart st hs => .send "send" (startMsg st hs)
  | .sendBody b => .send "send" (bodyMsg b)
  | .callDownstream => downstreamEff
  | .propagate _ => downstreamEff     -- never used: `encAsgiTrace` ends the trace at a `propagate`

/-- the model's action list as a trace: effects element by element; `propagate cls` is how the call ends -/
def encAsgiTrace (g : PyVal) : List AsgiAction → Trace
  | [] => done
  | .propagate cls :: _ => raised cls
  | .injectGuard :: rest => eff (encAsgiEff g .injectGuard) (encAsgiTrace g rest)
  | .sendStart st hs :: rest => eff (encAsgiEff g (.sendStart st hs)) (encAsgiTrace g rest)
  | .sendBody b :: rest => eff (encAsgiEff g (.sendBody b)) (encAsgiTrace g rest)
  | .callDownstream :: rest => eff (encAsgiEff g .callDownstream) (encAsgiTrace g rest)

/-- the four values `build_env` returns, as the request dataclasses -/
def encRequest4 (req : Request) : List PyVal := [encSubject req, encAction req, encResource req, encContext req]

/-! ### combinators -/

theorem seq_eff (e : Eff) (t k : Trace) : seq (eff e t) k = eff e (seq t k) := by
  unfold seq eff
  cases h : t.ending <;> simp [h]

theorem seq_done (k : Trace) : seq done k = k := rfl

theorem seq_raised (cls : String) (k : Trace) : seq (raised cls) k = raised cls := rfl

theorem effects_eff (e : Eff) (t : Trace) : (eff e t).effects = e :: t.effects := rfl
theorem ending_eff (e : Eff) (t : Trace) : (eff e t).ending = t.ending := rfl

/-! ### the header statements -/

theorem append_list (xs : List PyVal) (x : PyVal) : PyT.append (.list xs) x = .list (xs ++ [x]) := rfl

/-- `if extra_headers: headers.extend(extra_headers)` on a list of encoded headers -/
theorem extend_headers (base : List PyVal) (hs : List (String × String)) :
    (if (PyVal.list (hs.map encHeader)).truthy then PyT.extend (.list base) (.list (hs.map encHeader)) else .list base)
      = .list (base ++ hs.map encHeader) := by
  cases hs with
  | nil => simp [truthy]
  | cons h t => simp [truthy, PyT.extend, Py.concat, Py.iter]

theorem encode_strO_str (o : Oracle) (s : String) : PyT.encode (strO o (.str s)) = bytesOf s := rfl

theorem encode_strO (o : Oracle) (v : PyVal) : PyT.encode (strO o v) = bytesOf (o.pyStr v) := rfl

/-- `str(len(body)).encode("ascii")` for the bytes of a text: the decimal byte count, as the model's `toString` has it -/
theorem content_length (o : Oracle) (s : String) :
    PyT.encode (strO o (PyT.len (PyT.encode (.str s)))) = bytesOf (toString s.utf8ByteSize) := by
  rw [encode_str, len_bytesOf, encode_strO]
  rfl

/-- `scope.get("type")` is not affected by `scope["rbacx_guard"] = …` (any `scope`, dict or not) -/
theorem get_type_setItem (scope g : PyVal) : Py.get (Py.setItem scope "rbacx_guard" g) "type" = Py.get scope "type" := by
  cases scope <;> try rfl
  next kvs =>
    simp only [Py.setItem, Py.get, PyVal.get]
    rw [lookup_setKV]
    simp

/-- the enforcement test of the source on the encoded configuration -/
theorem enforce_test (cfg : AsgiCfg) (st benv : PyVal) (hb : benv.isNone = !cfg.hasBuilder) :
    (pand (Py.eq st (.str "http")) (pand (Py.eq (.str cfg.mode) (.str "enforce")) (Py.isNotNone benv))).truthy
      = (pyEq st (.str "http") && cfg.mode == "enforce" && cfg.hasBuilder) := by
  have h1 : pyEq (.str cfg.mode) (.str "enforce") = (cfg.mode == "enforce") := by simp [pyEq]
  simp only [pand, Py.eq, Py.isNotNone, truthy, h1, hb]
  cases pyEq st (.str "http") <;> cases (cfg.mode == "enforce") <;> cases cfg.hasBuilder <;> rfl

/-! ### reading an encoded trace -/

theorem encAsgiTrace_downstream_mem (g : PyVal) (acts : List AsgiAction)
    (hlast : ∀ cls, AsgiAction.propagate cls ∈ acts → False) :
    downstreamEff ∈ (encAsgiTrace g acts).effects ↔ AsgiAction.callDownstream ∈ acts := by
  induction acts with
  | nil => simp [encAsgiTrace, done]
  | cons a rest ih =>
    have ih' := ih (fun cls h => hlast cls (List.mem_cons_of_mem _ h))
    cases a with
    | propagate cls => exact absurd (List.mem_cons_self) (fun h => hlast cls h)
    | injectGuard => simp [encAsgiTrace, effects_eff, encAsgiEff, downstreamEff] ; simpa [downstreamEff] using ih'
    | sendStart st hs => simp [encAsgiTrace, effects_eff, encAsgiEff, downstreamEff] ; simpa [downstreamEff] using ih'
    | sendBody b => simp [encAsgiTrace, effects_eff, encAsgiEff, downstreamEff] ; simpa [downstreamEff] using ih'
    | callDownstream => simp [encAsgiTrace, effects_eff, encAsgiEff]

/-- every effect of an encoded trace is the encoding of one of the model's actions (not a `propagate`) -/
theorem mem_encAsgiTrace (g : PyVal) (e : Eff) (acts : List AsgiAction) (h : e ∈ (encAsgiTrace g acts).effects) :
    ∃ a, a ∈ acts ∧ (∀ cls, a ≠ .propagate cls) ∧ e = encAsgiEff g a := by
  induction acts with
  | nil => simp [encAsgiTrace, done] at h
  | cons a rest ih =>
    cases a with
    | propagate cls => simp [encAsgiTrace, raised] at h
    | injectGuard =>
      simp only [encAsgiTrace, effects_eff, List.mem_cons] at h
      rcases h with h | h
      · exact ⟨.injectGuard, List.mem_cons_self, by simp, h⟩
      · obtain ⟨a, ha, hn, he⟩ := ih h; exact ⟨a, List.mem_cons_of_mem _ ha, hn, he⟩
    | sendStart st hs =>
      simp only [encAsgiTrace, effects_eff, List.mem_cons] at h
      rcases h with h | h
      · exact ⟨.sendStart st hs, List.mem_cons_self, by simp, h⟩
      · obtain ⟨a, ha, hn, he⟩ := ih h; exact ⟨a, List.mem_cons_of_mem _ ha, hn, he⟩
    | sendBody b =>
      simp only [encAsgiTrace, effects_eff, List.mem_cons] at h
      rcases h with h | h
      · exact ⟨.sendBody b, List.mem_cons_self, by simp, h⟩
      · obtain ⟨a, ha, hn, he⟩ := ih h; exact ⟨a, List.mem_cons_of_mem _ ha, hn, he⟩
    | callDownstream =>
      simp only [encAsgiTrace, effects_eff, List.mem_cons] at h
      rcases h with h | h
      · exact ⟨.callDownstream, List.mem_cons_self, by simp, h⟩
      · obtain ⟨a, ha, hn, he⟩ := ih h; exact ⟨a, List.mem_cons_of_mem _ ha, hn, he⟩

/-- the `"type"` entry tells the two messages apart -/
theorem startMsg_type (st : Nat) (hs : List (String × String)) : Py.get (startMsg st hs) "type" = .str "http.response.start" := rfl
theorem bodyMsg_type (b : String) : Py.get (bodyMsg b) "type" = .str "http.response.body" := rfl

/-- a message sent by an encoded trace is the encoding of a `sendStart` or of a `sendBody` of the model -/
theorem send_of_encAsgiTrace (g : PyVal) (ch : String) (msg : PyVal) (acts : List AsgiAction)
    (h : Eff.send ch msg ∈ (encAsgiTrace g acts).effects) :
    ch = "send" ∧ ((∃ st hs, AsgiAction.sendStart st hs ∈ acts ∧ msg = startMsg st hs) ∨ (∃ b, AsgiAction.sendBody b ∈ acts ∧ msg = bodyMsg b)) := by
  obtain ⟨a, ha, _, he⟩ := mem_encAsgiTrace g _ acts h
  cases a with
  | injectGuard => simp [encAsgiEff] at he
  | propagate cls => simp [encAsgiEff, downstreamEff] at he
  | callDownstream => simp [encAsgiEff, downstreamEff] at he
  | sendStart st hs =>
    simp only [encAsgiEff, Eff.send.injEq] at he
    exact ⟨he.1, Or.inl ⟨st, hs, ha, he.2⟩⟩
  | sendBody b =>
    simp only [encAsgiEff, Eff.send.injEq] at he
    exact ⟨he.1, Or.inr ⟨b, ha, he.2⟩⟩

end Rbacx.Translated
