import Rbacx.Spec.Cache
/-
  Proofs.CacheBasic — list facts about the pieces of `Cache.step`, and the capacity / no-duplicate
  invariant of `_data`.
-/
namespace Rbacx.Cache
variable {V : Type}

theorem keys_remove (k : String) (d : List (Entry V)) : keys (remove k d) = (keys d).filter (· != k) := by
  simp only [keys, remove, List.filter_map]
  rfl

theorem keys_append (a b : List (Entry V)) : keys (a ++ b) = keys a ++ keys b := by
  simp [keys]

theorem remove_sublist (k : String) (d : List (Entry V)) : (remove k d).Sublist d := List.filter_sublist

theorem mem_remove {k : String} {d : List (Entry V)} {e : Entry V} : e ∈ remove k d ↔ e ∈ d ∧ e.key ≠ k := by
  simp [remove, List.mem_filter]

theorem not_mem_keys_remove (k : String) (d : List (Entry V)) : k ∉ keys (remove k d) := by
  simp [keys_remove, List.mem_filter]

theorem keys_sublist {a b : List (Entry V)} (h : a.Sublist b) : (keys a).Sublist (keys b) := h.map _

theorem mem_keys {k : String} {d : List (Entry V)} : k ∈ keys d ↔ ∃ e ∈ d, e.key = k := by
  simp [keys]

theorem mem_keys_of_mem {e : Entry V} {d : List (Entry V)} (h : e ∈ d) : e.key ∈ keys d := mem_keys.mpr ⟨e, h, rfl⟩

theorem lookup_some {k : String} {d : List (Entry V)} {e : Entry V} (h : lookup k d = some e) : e ∈ d ∧ e.key = k := by
  refine ⟨List.mem_of_find?_eq_some h, ?_⟩
  have := List.find?_some h
  simpa using this

theorem lookup_none {k : String} {d : List (Entry V)} (h : lookup k d = none) : k ∉ keys d := by
  intro hk
  obtain ⟨e, he, hek⟩ := mem_keys.mp hk
  have := (List.find?_eq_none.mp h) e he
  simp [hek] at this

/-- with distinct keys an entry is determined by its key -/
theorem entry_unique {d : List (Entry V)} (hn : (keys d).Nodup) {e e' : Entry V} (he : e ∈ d) (he' : e' ∈ d)
    (hk : e.key = e'.key) : e = e' := by
  induction d with
  | nil => cases he
  | cons x xs ih =>
    simp only [keys, List.map_cons, List.nodup_cons, List.mem_map, not_exists, not_and] at hn
    rcases List.mem_cons.mp he with rfl | he1 <;> rcases List.mem_cons.mp he' with rfl | he2
    · rfl
    · exact absurd hk.symm (hn.1 e' he2)
    · exact absurd hk (hn.1 e he1)
    · exact ih hn.2 he1 he2

theorem lookup_of_mem {d : List (Entry V)} (hn : (keys d).Nodup) {e : Entry V} (he : e ∈ d) : lookup e.key d = some e := by
  cases h : lookup e.key d with
  | none => exact absurd (mem_keys_of_mem he) (lookup_none h)
  | some e' =>
    obtain ⟨h1, h2⟩ := lookup_some h
    rw [entry_unique hn h1 he h2]

/-! ### the eviction loop is `drop` -/

theorem evictLoop_eq_drop {α : Type} (m : Int) (l : List α) : evictLoop m l = l.drop (l.length - m.toNat) := by
  induction l with
  | nil => simp [evictLoop]
  | cons x xs ih =>
    simp only [evictLoop]
    split
    · rename_i h
      rw [ih]
      have : (x :: xs).length - m.toNat = (xs.length - m.toNat) + 1 := by
        simp only [List.length_cons] at h ⊢
        omega
      rw [this, List.drop_succ_cons]
    · rename_i h
      have : (x :: xs).length - m.toNat = 0 := by
        simp only [List.length_cons] at h ⊢
        omega
      rw [this, List.drop_zero]

theorem evictLoop_sublist {α : Type} (m : Int) (l : List α) : (evictLoop m l).Sublist l := by
  rw [evictLoop_eq_drop]; exact List.drop_sublist _ _

theorem evictLoop_length {α : Type} (m : Int) (l : List α) : (evictLoop m l).length ≤ m.toNat := by
  rw [evictLoop_eq_drop, List.length_drop]; omega

theorem evictLoop_neg {α : Type} {m : Int} (h : m < 0) (l : List α) : evictLoop m l = [] := by
  have := evictLoop_length m l
  have h0 : m.toNat = 0 := by omega
  rw [h0] at this
  exact List.eq_nil_of_length_eq_zero (by omega)

theorem purge_sublist (pfx : Option Nat) (now : Time) (d : List (Entry V)) : (purge pfx now d).Sublist d := by
  cases pfx with
  | none => exact List.filter_sublist
  | some n =>
    simp only [purge]
    conv => rhs; rw [← List.take_append_drop n d]
    exact List.Sublist.append List.filter_sublist (List.Sublist.refl _)

/-- an entry the purge removed had reached its deadline -/
theorem purge_lost {pfx : Option Nat} {now : Time} {d : List (Entry V)} {e : Entry V} (he : e ∈ d)
    (hne : e ∉ purge pfx now d) : expired e.exp now = true := by
  cases pfx with
  | none =>
    simp only [purge, List.mem_filter, not_and, Bool.not_eq_eq_eq_not] at hne
    simpa using hne he
  | some n =>
    simp only [purge, List.mem_append, List.mem_filter, not_or, not_and] at hne
    rw [← List.take_append_drop n d, List.mem_append] at he
    rcases he with h | h
    · simpa using hne.1 h
    · exact absurd h hne.2

/-! ### invariant: distinct keys, never more than `max maxsize 0` entries -/

structure Inv (c : Cfg) (d : List (Entry V)) : Prop where
  nodup : (keys d).Nodup
  cap : d.length ≤ c.maxsize.toNat

theorem nodup_remove {d : List (Entry V)} (k : String) (h : (keys d).Nodup) : (keys (remove k d)).Nodup :=
  h.sublist (keys_sublist (remove_sublist k d))

theorem nodup_remove_append {d : List (Entry V)} (e : Entry V) (h : (keys d).Nodup) :
    (keys (remove e.key d ++ [e])).Nodup := by
  rw [keys_append, List.nodup_append]
  refine ⟨nodup_remove _ h, by simp [keys], ?_⟩
  intro a ha b hb
  simp only [keys, List.map_cons, List.map_nil, List.mem_singleton] at hb
  subst hb
  intro hab
  subst hab
  exact not_mem_keys_remove _ _ ha

theorem nodup_inserted {d : List (Entry V)} (k : String) (v : V) (ttl : Option Int) (now1 : Time)
    (h : (keys d).Nodup) : (keys (inserted d k v ttl now1)).Nodup :=
  nodup_remove_append ⟨k, v, expiry ttl now1⟩ h

theorem remove_length_le (k : String) (d : List (Entry V)) : (remove k d).length ≤ d.length :=
  (remove_sublist k d).length_le

/-- moving a present key to the end keeps the number of entries -/
theorem remove_append_length {d : List (Entry V)} (hn : (keys d).Nodup) {e : Entry V} (he : e ∈ d) :
    (remove e.key d ++ [e]).length = d.length := by
  induction d with
  | nil => cases he
  | cons x xs ih =>
    have hn' := hn
    simp only [keys, List.map_cons, List.nodup_cons] at hn'
    rcases List.mem_cons.mp he with rfl | he1
    · -- e is the head: nothing else has its key
      have hx : remove e.key xs = xs := by
        apply List.filter_eq_self.mpr
        intro a ha
        have : a.key ≠ e.key := fun h => hn'.1 (h ▸ mem_keys_of_mem ha)
        simpa using this
      have h1 : remove e.key (e :: xs) = remove e.key xs := by simp [remove]
      rw [h1, hx]
      simp
    · have hx : x.key ≠ e.key := fun h => hn'.1 (h ▸ mem_keys_of_mem he1)
      have := ih hn'.2 he1
      simp only [remove, List.length_append, List.length_cons, List.length_nil] at this ⊢
      rw [List.filter_cons]
      simp only [bne_iff_ne, ne_eq, hx, not_false_eq_true, ↓reduceIte, List.length_cons]
      omega

theorem step_inv (c : Cfg) {d : List (Entry V)} (h : Inv c d) (op : Op V) : Inv c (step c d op).1 := by
  cases op with
  | get k now =>
    simp only [step]
    cases hl : lookup k d with
    | none => exact h
    | some e =>
      obtain ⟨he, hk⟩ := lookup_some hl
      subst hk
      dsimp only
      split
      · exact ⟨nodup_remove _ h.nodup, Nat.le_trans (remove_length_le _ _) h.cap⟩
      · exact ⟨nodup_remove_append e h.nodup, by rw [remove_append_length h.nodup he]; exact h.cap⟩
  | set k v ttl now1 now2 =>
    simp only [step]
    split
    · exact ⟨by simp [keys], by simp⟩
    · have hs : (purge c.purgePrefix now2 (evictLoop c.maxsize (inserted d k v ttl now1))).Sublist (inserted d k v ttl now1) :=
        (purge_sublist _ _ _).trans (evictLoop_sublist _ _)
      exact ⟨(nodup_inserted k v ttl now1 h.nodup).sublist (keys_sublist hs),
             Nat.le_trans (purge_sublist _ _ _).length_le (evictLoop_length _ _)⟩
  | delete k => exact ⟨nodup_remove _ h.nodup, Nat.le_trans (remove_length_le _ _) h.cap⟩
  | clear => exact ⟨by simp [step, keys], by simp [step]⟩

theorem inv_nil (c : Cfg) : Inv c ([] : List (Entry V)) := ⟨by simp [keys], by simp⟩

theorem runFrom_inv (c : Cfg) (ops : List (Op V)) {d : List (Entry V)} (h : Inv c d) : Inv c (runFrom c d ops) := by
  induction ops generalizing d with
  | nil => exact h
  | cons op ops ih => exact ih (step_inv c h op)

theorem runFrom_append (c : Cfg) (d : List (Entry V)) (a b : List (Op V)) :
    runFrom c d (a ++ b) = runFrom c (runFrom c d a) b := by
  induction a generalizing d with
  | nil => rfl
  | cons op ops ih => exact ih _

/-! ### one-step facts for users of the cache as a black box (C08: `SoundCache`) -/

/-- a hit returns the value of an entry held under that key -/
theorem step_get_some (c : Cfg) (d : List (Entry V)) (k : String) (now : Time) (v : V)
    (h : (step c d (.get k now)).2 = .got (some v)) : ∃ e ∈ d, e.key = k ∧ e.val = v := by
  simp only [step] at h
  cases hl : lookup k d with
  | none => simp [hl] at h
  | some e =>
    obtain ⟨he, hk⟩ := lookup_some hl
    simp only [hl] at h
    split at h
    · cases h
    · simp only [Out.got.injEq, Option.some.injEq] at h
      exact ⟨e, he, hk, h⟩

/-- an entry held after a call was held before it, or the call is the `set` that stored it -/
theorem step_mem (c : Cfg) (d : List (Entry V)) (op : Op V) (e : Entry V) (h : e ∈ (step c d op).1) :
    e ∈ d ∨ ∃ ttl now1 now2, op = .set e.key e.val ttl now1 now2 := by
  cases op with
  | get k now =>
    simp only [step] at h
    cases hl : lookup k d with
    | none => simp only [hl] at h; exact Or.inl h
    | some e0 =>
      simp only [hl] at h
      split at h
      · exact Or.inl (mem_remove.mp h).1
      · simp only [List.mem_append, List.mem_singleton] at h
        rcases h with h | rfl
        · exact Or.inl (mem_remove.mp h).1
        · exact Or.inl (lookup_some hl).1
  | set k v ttl now1 now2 =>
    simp only [step] at h
    split at h
    · cases h
    · have h1 := ((purge_sublist _ _ _).trans (evictLoop_sublist _ _)).subset h
      simp only [inserted, List.mem_append, List.mem_singleton] at h1
      rcases h1 with h1 | rfl
      · exact Or.inl (mem_remove.mp h1).1
      · exact Or.inr ⟨ttl, now1, now2, rfl⟩
  | delete k => exact Or.inl (mem_remove.mp h).1
  | clear => cases h

/-- `clear` empties the cache -/
theorem step_clear (c : Cfg) (d : List (Entry V)) : (step c d .clear).1 = [] := rfl

/-- the capacity loop pops exactly `capVictims`, from the least recently used end -/
theorem capVictims_append (c : Cfg) (d : List (Entry V)) (k : String) (v : V) (ttl : Option Int) (now1 now2 : Time) :
    capVictims c d (.set k v ttl now1 now2) ++ evictLoop c.maxsize (inserted d k v ttl now1) = inserted d k v ttl now1 := by
  simp only [capVictims, evictLoop_eq_drop, List.take_append_drop]

end Rbacx.Cache
