import Rbacx.Proofs.CacheRefine
/-
  Proofs.CacheLatest — exact characterisation of `get` over a history with a monotone clock:
  the latest value, unless its deadline is reached or the capacity loop popped it.
-/
namespace Rbacx.Cache
variable {V : Type}

theorem expired_mono {e : Option Time} {a b : Time} (hab : a ≤ b) (h : expired e a = true) : expired e b = true := by
  cases e with
  | none => simp [expired] at h
  | some t => simp only [expired, decide_eq_true_eq] at h ⊢; exact Int.le_trans h hab

/-- ghost invariant: held entries are the latest bindings and not marked evicted; a bound key that is
    not held is marked evicted or its deadline was reached at the last clock value `T` -/
structure Ghost (d : List (Entry V)) (m : AMap V) (ev : String → Bool) (T : Time) : Prop where
  nodup : (keys d).Nodup
  held : ∀ e ∈ d, m e.key = some (e.val, e.exp) ∧ ev e.key = false
  gone : ∀ k v e, m k = some (v, e) → k ∉ keys d → ev k = true ∨ expired e T = true

theorem ghost_init (T : Time) : Ghost ([] : List (Entry V)) (fun _ => none) (fun _ => false) T :=
  ⟨by simp [keys], (by intro e he; cases he), (by intro k v e h; cases h)⟩

/-- an entry that survives the eviction loop is not among the victims (keys are distinct) -/
theorem not_victim_of_mem_drop {d1 : List (Entry V)} (hn : (keys d1).Nodup) (n : Nat) {e : Entry V}
    (he : e ∈ d1.drop n) : e.key ∉ keys (d1.take n) := by
  rw [← List.take_append_drop n d1, keys_append, List.nodup_append] at hn
  intro hk
  exact hn.2.2 _ hk _ (mem_keys_of_mem he) rfl

theorem ghost_step (c : Cfg) {d : List (Entry V)} {m : AMap V} {ev : String → Bool} {T : Time}
    (h : Ghost d m ev T) (op : Op V)
    (hcarry : ∀ k v e, m k = some (v, e) → expired e T = true → expired e (lastTime T op) = true) :
    Ghost (step c d op).1 (aStep m op) (evStep c d ev op) (lastTime T op) := by
  cases op with
  | get k now =>
    simp only [step, aStep, evStep, lastTime]
    cases hl : lookup k d with
    | none =>
      exact ⟨h.nodup, h.held, fun k' v e h1 h2 => (h.gone k' v e h1 h2).imp_right (hcarry k' v e h1)⟩
    | some e0 =>
      obtain ⟨he0, hk⟩ := lookup_some hl
      subst hk
      dsimp only
      split
      · rename_i hx
        refine ⟨nodup_remove _ h.nodup, fun e he => h.held e (mem_remove.mp he).1, ?_⟩
        intro k' v e h1 h2
        by_cases hkk : k' = e0.key
        · subst hkk
          rw [(h.held e0 he0).1] at h1
          cases h1
          exact Or.inr hx
        · have : k' ∉ keys d := by
            intro hk'
            apply h2
            rw [keys_remove, List.mem_filter]
            exact ⟨hk', by simpa using hkk⟩
          exact (h.gone k' v e h1 this).imp_right (hcarry k' v e h1)
      · refine ⟨nodup_remove_append e0 h.nodup, ?_, ?_⟩
        · intro e he
          simp only [List.mem_append, List.mem_singleton] at he
          rcases he with he | rfl
          · exact h.held e (mem_remove.mp he).1
          · exact h.held e he0
        · intro k' v e h1 h2
          have : k' ∉ keys d := by
            intro hk'
            apply h2
            rw [keys_append, List.mem_append]
            by_cases hkk : k' = e0.key
            · right; simp [keys, hkk]
            · left; rw [keys_remove, List.mem_filter]; exact ⟨hk', by simpa using hkk⟩
          exact (h.gone k' v e h1 this).imp_right (hcarry k' v e h1)
  | set k v ttl now1 now2 =>
    have hn1 := nodup_inserted k v ttl now1 h.nodup
    -- facts about the dict right after the insert
    have hheld1 : ∀ e ∈ inserted d k v ttl now1,
        aStep m (.set k v ttl now1 now2) e.key = some (e.val, e.exp) ∧ (e.key != k && ev e.key) = false := by
      intro e he
      simp only [inserted, List.mem_append, List.mem_singleton] at he
      rcases he with he | rfl
      · obtain ⟨hed, hne⟩ := mem_remove.mp he
        simp only [aStep, hne, ↓reduceIte]
        exact ⟨(h.held e hed).1, by simp [(h.held e hed).2]⟩
      · simp [aStep]
    have hsub : (step c d (.set k v ttl now1 now2)).1.Sublist
        ((inserted d k v ttl now1).drop ((inserted d k v ttl now1).length - c.maxsize.toNat)) := by
      simp only [step]
      split
      · exact List.nil_sublist _
      · rw [← evictLoop_eq_drop]; exact purge_sublist _ _ _
    refine ⟨hn1.sublist (keys_sublist (hsub.trans (List.drop_sublist _ _))), ?_, ?_⟩
    · intro e he
      have hed := hsub.subset he
      have h1 := hheld1 e ((List.drop_sublist _ _).subset hed)
      refine ⟨h1.1, ?_⟩
      simp only [evStep, capVictims, Bool.or_eq_false_iff]
      exact ⟨h1.2, decide_eq_false (not_victim_of_mem_drop hn1 _ hed)⟩
    · intro k' v' e' h1 h2
      simp only [evStep, capVictims, lastTime, Bool.or_eq_true, Bool.and_eq_true, bne_iff_ne, ne_eq]
      by_cases hin : k' ∈ keys (inserted d k v ttl now1)
      · -- it was in the dict after the insert: popped by the loop or purged
        obtain ⟨e, he, hek⟩ := mem_keys.mp hin
        subst hek
        have hb := (hheld1 e he).1
        rw [hb] at h1
        cases h1
        by_cases hdrop : e ∈ (inserted d k v ttl now1).drop ((inserted d k v ttl now1).length - c.maxsize.toNat)
        · right
          have hneg : ¬ c.maxsize < 0 := by
            intro hneg
            have : c.maxsize.toNat = 0 := by omega
            rw [this, Nat.sub_zero, List.drop_length] at hdrop
            cases hdrop
          have hnp : e ∉ purge c.purgePrefix now2 (evictLoop c.maxsize (inserted d k v ttl now1)) := by
            intro hp
            apply h2
            simp only [step, hneg, ↓reduceIte]
            exact mem_keys_of_mem hp
          rw [← evictLoop_eq_drop] at hdrop
          exact purge_lost hdrop hnp
        · left; right
          have := he
          rw [← List.take_append_drop ((inserted d k v ttl now1).length - c.maxsize.toNat) (inserted d k v ttl now1),
            List.mem_append] at this
          exact decide_eq_true (mem_keys_of_mem (this.resolve_right hdrop))
      · -- it was not held before either
        have hkk : k' ≠ k := by
          intro hkk; apply hin; rw [keys_inserted, hkk]; simp
        have hnd : k' ∉ keys d := by
          intro hk'; apply hin; rw [keys_inserted, List.mem_append]; left
          rw [List.mem_filter]; exact ⟨hk', by simpa using hkk⟩
        simp only [aStep, hkk, ↓reduceIte] at h1
        rcases h.gone k' v' e' h1 hnd with hev | hx
        · left; left; exact ⟨hkk, hev⟩
        · right; exact hcarry k' v' e' h1 hx
  | delete k =>
    simp only [step, aStep, evStep, lastTime]
    refine ⟨nodup_remove _ h.nodup, ?_, ?_⟩
    · intro e he
      obtain ⟨hed, hne⟩ := mem_remove.mp he
      simp only [hne, ↓reduceIte]
      exact h.held e hed
    · intro k' v e h1 h2
      by_cases hkk : k' = k
      · simp [hkk] at h1
      · simp only [hkk, ↓reduceIte] at h1
        have : k' ∉ keys d := by
          intro hk'; apply h2; rw [keys_remove, List.mem_filter]; exact ⟨hk', by simpa using hkk⟩
        exact h.gone k' v e h1 this
  | clear =>
    exact ⟨by simp [step, keys], (by intro e he; cases he), (by intro k v e h1; simp [aStep] at h1)⟩

theorem monoFrom_append {T : Time} {a b : List (Op V)} (h : monoFrom T (a ++ b)) :
    monoFrom T a ∧ monoFrom (a.foldl lastTime T) b := by
  induction a generalizing T with
  | nil => exact ⟨trivial, h⟩
  | cons op ops ih =>
    obtain ⟨h1, h2⟩ := h
    obtain ⟨h3, h4⟩ := ih h2
    exact ⟨⟨h1, h3⟩, h4⟩

theorem lastTime_ge {T : Time} {op : Op V} (hm : monoFrom T [op]) : T ≤ lastTime T op := by
  cases op with
  | get k now => exact hm.1
  | set k v ttl now1 now2 => exact Int.le_trans hm.1.1 hm.1.2
  | delete k => exact Int.le_refl _
  | clear => exact Int.le_refl _

/-- monotone clock: the ghost invariant holds along the run -/
theorem ghost_run_mono (c : Cfg) (ops : List (Op V)) {d : List (Entry V)} {m : AMap V} {ev : String → Bool} {T : Time}
    (h : Ghost d m ev T) (hm : monoFrom T ops) :
    Ghost (runFrom c d ops) (aRun m ops) (evRun c d ev ops) (ops.foldl lastTime T) := by
  induction ops generalizing d m ev T with
  | nil => exact h
  | cons op ops ih =>
    exact ih (ghost_step c h op (fun _ _ _ _ hx => expired_mono (lastTime_ge ⟨hm.1, trivial⟩) hx)) hm.2

def NoDeadline (m : AMap V) : Prop := ∀ k v e, m k = some (v, e) → e = none

theorem aStep_noDeadline {m : AMap V} (hm : NoDeadline m) {op : Op V} (hop : noTtl [op]) : NoDeadline (aStep m op) := by
  intro k v e hk
  have hop := hop op List.mem_cons_self
  cases op with
  | get k' now => exact hm k v e hk
  | set k' v0 ttl n1 n2 =>
    simp only [aStep] at hk
    split at hk
    · simp only [Option.some.injEq, Prod.mk.injEq] at hk
      rw [← hk.2]
      cases ttl with
      | none => rfl
      | some t =>
        have : ¬ (0 < t) := by simp only at hop; omega
        simp [expiry, this]
    · exact hm k v e hk
  | delete k' =>
    simp only [aStep] at hk
    split at hk
    · cases hk
    · exact hm k v e hk
  | clear => simp [aStep] at hk

/-- no deadlines: the ghost invariant holds along the run whatever the clock does -/
theorem ghost_run_noTtl (c : Cfg) (ops : List (Op V)) {d : List (Entry V)} {m : AMap V} {ev : String → Bool} {T : Time}
    (h : Ghost d m ev T) (hm : NoDeadline m) (hn : noTtl ops) :
    Ghost (runFrom c d ops) (aRun m ops) (evRun c d ev ops) (ops.foldl lastTime T) ∧ NoDeadline (aRun m ops) := by
  induction ops generalizing d m ev T with
  | nil => exact ⟨h, hm⟩
  | cons op ops ih =>
    have hop : noTtl [op] := by
      intro op' hop'
      simp only [List.mem_singleton] at hop'
      subst hop'
      exact hn op' List.mem_cons_self
    refine ih (ghost_step c h op ?_) (aStep_noDeadline hm hop) (fun op' hop' => hn op' (List.mem_cons_of_mem _ hop'))
    intro k v e hk hx
    rw [hm k v e hk] at hx
    simp [expired] at hx

/-- the result of a `get` in a state satisfying the ghost invariant -/
theorem get_of_ghost (c : Cfg) {d : List (Entry V)} {m : AMap V} {ev : String → Bool} {T : Time}
    (h : Ghost d m ev T) (k : String) (now : Time)
    (hcarry : ∀ v e, m k = some (v, e) → expired e T = true → expired e now = true) :
    (step c d (.get k now)).2 = .got (match m k with
      | none => none
      | some (v, e) => if expired e now || ev k then none else some v) := by
  simp only [step]
  cases hl : lookup k d with
  | none =>
    have hk := lookup_none hl
    cases hm : m k with
    | none => rfl
    | some p =>
      obtain ⟨v, e⟩ := p
      rcases h.gone k v e hm hk with hev | hx
      · simp [hev]
      · simp [hcarry v e hm hx]
  | some e0 =>
    obtain ⟨he0, hk⟩ := lookup_some hl
    subst hk
    obtain ⟨hb, hev⟩ := h.held e0 he0
    rw [hb]
    dsimp only
    by_cases hx : expired e0.exp now = true
    · simp [hx]
    · simp [hx, hev]

/-! ### reading `latest` off the history -/

theorem aRun_append (m : AMap V) (a b : List (Op V)) : aRun m (a ++ b) = aRun (aRun m a) b := by
  induction a generalizing m with
  | nil => rfl
  | cons op ops ih => exact ih _

/-- a binding of the abstract map is either the initial one, untouched, or comes from the latest `set` -/
theorem aRun_some {m : AMap V} {ops : List (Op V)} {k : String} {v : V} {e : Option Time}
    (h : aRun m ops k = some (v, e)) :
    (m k = some (v, e) ∧ Op.clear ∉ ops ∧ Op.delete k ∉ ops ∧ ∀ v' ttl' n1 n2, Op.set k v' ttl' n1 n2 ∉ ops)
    ∨ ∃ ops1 ttl now1 now2 ops2, ops = ops1 ++ Op.set k v ttl now1 now2 :: ops2 ∧ e = expiry ttl now1 ∧ Op.clear ∉ ops2
        ∧ Op.delete k ∉ ops2 ∧ ∀ v' ttl' n1 n2, Op.set k v' ttl' n1 n2 ∉ ops2 := by
  induction ops generalizing m with
  | nil => exact Or.inl ⟨h, by simp, by simp, by simp⟩
  | cons op ops ih =>
    rcases ih h with ⟨h1, h2, h3, h4⟩ | ⟨ops1, ttl, now1, now2, ops2, h1, h2, h3, h4, h5⟩
    · -- untouched by the tail: look at `op`
      cases op with
      | get k' now => exact Or.inl ⟨h1, by simp [h2], by simp [h3], by simpa using h4⟩
      | set k' v0 ttl0 n1 n2 =>
        by_cases hk : k = k'
        · subst hk
          simp only [aStep, ↓reduceIte, Option.some.injEq, Prod.mk.injEq] at h1
          obtain ⟨rfl, rfl⟩ := h1
          exact Or.inr ⟨[], ttl0, n1, n2, ops, rfl, rfl, h2, h3, h4⟩
        · simp only [aStep, hk, ↓reduceIte] at h1
          refine Or.inl ⟨h1, by simp [h2], by simp [h3], ?_⟩
          intro v' ttl' n1' n2'
          simp only [List.mem_cons, not_or]
          refine ⟨?_, h4 v' ttl' n1' n2'⟩
          intro heq
          cases heq
          exact hk rfl
      | delete k' =>
        by_cases hk : k = k'
        · simp [aStep, hk] at h1
        · simp only [aStep, hk, ↓reduceIte] at h1
          refine Or.inl ⟨h1, by simp [h2], ?_, by simpa using h4⟩
          simp only [List.mem_cons, not_or]
          exact ⟨fun heq => hk (by cases heq; rfl), h3⟩
      | clear => simp [aStep] at h1
    · exact Or.inr ⟨op :: ops1, ttl, now1, now2, ops2, by simp [h1], h2, h3, h4, h5⟩

theorem latest_stored {ops : List (Op V)} {k : String} {v : V} {e : Option Time} (h : latest ops k = some (v, e)) :
    StoredSinceClear ops k v := by
  rcases aRun_some h with ⟨h1, _⟩ | ⟨ops1, ttl, now1, now2, ops2, h1, _, h3, h4, h5⟩
  · cases h1
  · exact ⟨ops1, ttl, now1, now2, ops2, h1, h3, h4, h5⟩

/-- in a history that sets no deadline every binding is deadline-free -/
theorem aRun_noTtl {m : AMap V} {ops : List (Op V)} (hm : NoDeadline m) (h : noTtl ops) : NoDeadline (aRun m ops) := by
  induction ops generalizing m with
  | nil => exact hm
  | cons op ops ih =>
    refine ih (aStep_noDeadline hm ?_) (fun op' hop' => h op' (List.mem_cons_of_mem _ hop'))
    intro op' hop'
    simp only [List.mem_singleton] at hop'
    subst hop'
    exact h op' List.mem_cons_self

end Rbacx.Cache
