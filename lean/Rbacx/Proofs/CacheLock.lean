import Rbacx.Model.CacheLock
import Rbacx.Model.Cache
/-
  Proofs.CacheLock — if every access is made under the one lock, every interleaving is a sequential
  history of whole calls, in the order in which the calls acquired the lock.
-/
namespace Rbacx.Cache.Lock
variable {S L : Type}

theorem upd_same {α : Type} (f : Nat → α) (i : Nat) (x : α) : upd f i x i = x := by simp [upd]
theorem upd_ne {α : Type} (f : Nat → α) {i j : Nat} (x : α) (h : j ≠ i) : upd f i x j = f j := by simp [upd, h]
theorem upd_upd {α : Type} (f : Nat → α) (i : Nat) (x y : α) : upd (upd f i x) i y = upd f i y := by
  funext j; simp only [upd]; split <;> rfl

/-- this scheduling step makes thread `i` acquire the free lock for a new call -/
def acq (cf : Conf S L) (i : Nat) : Bool :=
  match cf.lock, (cf.th i).cur, (cf.th i).todo with
  | none, [], _ :: _ => true
  | _, _, _ => false

/-- the calls in the order in which they took the lock -/
def acqOrder (cf : Conf S L) : List Nat → List Nat
  | [] => []
  | i :: rest => (if acq cf i then [i] else []) ++ acqOrder (stepThread cf i) rest

structure LInv (cf : Conf S L) : Prop where
  curLocked : ∀ i, ∀ μ ∈ (cf.th i).cur, μ.underLock = true
  todoLocked : ∀ i, ∀ c ∈ (cf.th i).todo, ∀ μ ∈ c.body, μ.underLock = true
  /-- whoever is inside a call holds the lock … -/
  holder : ∀ i, (cf.th i).cur ≠ [] → cf.lock = some i
  /-- … and the lock is free between calls -/
  held : ∀ i, cf.lock = some i → (cf.th i).cur ≠ []

theorem linv_of_quiet {desc : List MethodDesc} {cf : Conf S L} (hall : AllUnderLock desc = true) (hq : Quiet cf)
    (hc : Conforms desc cf) : LInv cf := by
  refine ⟨?_, ?_, ?_, ?_⟩
  · intro i μ hμ; rw [hq.2 i] at hμ; cases hμ
  · intro i c hcm μ hμ
    obtain ⟨accs, hmem, hflags⟩ := hc i c hcm
    simp only [AllUnderLock, List.all_eq_true] at hall
    have h1 := hall _ hmem
    have h2 : μ.underLock ∈ c.body.map (·.underLock) := List.mem_map.mpr ⟨μ, hμ, rfl⟩
    rw [hflags] at h2
    obtain ⟨a, ha, hae⟩ := List.mem_map.mp h2
    rw [← hae]
    exact h1 a ha
  · intro i hne; exact absurd (hq.2 i) hne
  · intro i hl; rw [hq.1] at hl; cases hl

theorem complete_of_free {cf : Conf S L} (h : cf.lock = none) : complete cf = cf := by
  simp [complete, h]

/-- one scheduling step, seen through `complete`: nothing, or one whole call -/
theorem stepThread_sim {cf : Conf S L} (h : LInv cf) (i : Nat) :
    LInv (stepThread cf i) ∧
    complete (stepThread cf i) = (if acq cf i then stepAtomic (complete cf) i else complete cf) := by
  obtain ⟨sh, lock, th⟩ := cf
  cases hcur : (th i).cur with
  | cons μ r =>
    -- in the middle of a call: `i` holds the lock and goes on
    have hl : lock = some i := h.holder i (by simp [hcur])
    have hμ : μ.underLock = true := h.curLocked i μ (by simp [hcur])
    subst hl
    have hacq : acq (⟨sh, some i, th⟩ : Conf S L) i = false := by simp [acq]
    rw [hacq]
    cases r with
    | nil =>
      refine ⟨⟨?_, ?_, ?_, ?_⟩, ?_⟩
      · intro j ν hν
        by_cases hj : j = i
        · subst hj; simp [stepThread, Thread.next, hcur, hμ, headLocked, upd_same] at hν
        · simp only [stepThread, Thread.next, hcur, hμ, headLocked] at hν
          simp at hν
          rw [upd_ne _ _ hj] at hν
          exact h.curLocked j ν hν
      · intro j c hc
        by_cases hj : j = i
        · subst hj
          simp [stepThread, Thread.next, hcur, hμ, headLocked, upd_same] at hc
          exact h.todoLocked j c hc
        · simp only [stepThread, Thread.next, hcur, hμ, headLocked] at hc
          simp at hc
          rw [upd_ne _ _ hj] at hc
          exact h.todoLocked j c hc
      · intro j hne
        by_cases hj : j = i
        · subst hj; simp [stepThread, Thread.next, hcur, hμ, headLocked, upd_same] at hne
        · simp only [stepThread, Thread.next, hcur, hμ, headLocked] at hne
          simp at hne
          rw [upd_ne _ _ hj] at hne
          have := h.holder j hne
          simp at this
          exact absurd this.symm hj
      · intro j hlk
        simp [stepThread, Thread.next, hcur, hμ, headLocked] at hlk
      · simp [stepThread, Thread.next, hcur, hμ, headLocked, complete, runMicros]
    | cons ν r' =>
      have hν : ν.underLock = true := h.curLocked i ν (by simp [hcur])
      refine ⟨⟨?_, ?_, ?_, ?_⟩, ?_⟩
      · intro j ξ hξ
        by_cases hj : j = i
        · subst hj
          simp [stepThread, Thread.next, hcur, hμ, hν, headLocked, upd_same] at hξ
          exact h.curLocked j ξ (by simp [hcur, hξ])
        · simp only [stepThread, Thread.next, hcur, hμ, hν, headLocked] at hξ
          simp at hξ
          rw [upd_ne _ _ hj] at hξ
          exact h.curLocked j ξ hξ
      · intro j c hc
        by_cases hj : j = i
        · subst hj
          simp [stepThread, Thread.next, hcur, hμ, hν, headLocked, upd_same] at hc
          exact h.todoLocked j c hc
        · simp only [stepThread, Thread.next, hcur, hμ, hν, headLocked] at hc
          simp at hc
          rw [upd_ne _ _ hj] at hc
          exact h.todoLocked j c hc
      · intro j hne
        by_cases hj : j = i
        · subst hj; simp [stepThread, Thread.next, hcur, hμ, hν, headLocked]
        · simp only [stepThread, Thread.next, hcur, hμ, hν, headLocked] at hne
          simp at hne
          rw [upd_ne _ _ hj] at hne
          have := h.holder j hne
          simp at this
          exact absurd this.symm hj
      · intro j hlk
        simp [stepThread, Thread.next, hcur, hμ, hν, headLocked] at hlk
        subst hlk
        simp [stepThread, Thread.next, hcur, hμ, hν, headLocked, upd_same]
      · simp [stepThread, Thread.next, hcur, hμ, hν, headLocked, complete, runMicros, upd_same, upd_upd]
  | nil =>
    cases htodo : (th i).todo with
    | nil =>
      have hacq : acq (⟨sh, lock, th⟩ : Conf S L) i = false := by
        simp only [acq, hcur, htodo]
      have hst : stepThread (⟨sh, lock, th⟩ : Conf S L) i = ⟨sh, lock, th⟩ := by
        simp [stepThread, Thread.next, hcur, htodo]
      rw [hacq, hst]
      exact ⟨h, rfl⟩
    | cons c cs =>
      have hμ : c.first.underLock = true := h.todoLocked i c (by simp [htodo]) c.first (by simp [Call.body])
      cases lock with
      | some j =>
        have hji : j ≠ i := by
          intro hji; subst hji
          exact h.held j rfl hcur
        have hacq : acq (⟨sh, some j, th⟩ : Conf S L) i = false := by simp [acq]
        have hst : stepThread (⟨sh, some j, th⟩ : Conf S L) i = ⟨sh, some j, th⟩ := by
          simp [stepThread, Thread.next, hcur, htodo, hμ, hji]
        rw [hacq, hst]
        exact ⟨h, rfl⟩
      | none =>
        have hacq : acq (⟨sh, none, th⟩ : Conf S L) i = true := by simp [acq, hcur, htodo]
        have hquiet : ∀ j, (th j).cur = [] := by
          intro j
          cases hj : (th j).cur with
          | nil => rfl
          | cons a b => have := h.holder j (by simp [hj]); simp at this
        rw [hacq]
        cases hrest : c.rest with
        | nil =>
          refine ⟨⟨?_, ?_, ?_, ?_⟩, ?_⟩
          · intro j ξ hξ
            by_cases hj : j = i
            · subst hj; simp [stepThread, Thread.next, hcur, htodo, hμ, hrest, headLocked, upd_same] at hξ
            · simp only [stepThread, Thread.next, hcur, htodo, hμ, hrest, headLocked] at hξ
              simp at hξ
              rw [upd_ne _ _ hj, hquiet j] at hξ
              cases hξ
          · intro j c' hc'
            by_cases hj : j = i
            · subst hj
              simp [stepThread, Thread.next, hcur, htodo, hμ, hrest, headLocked, upd_same] at hc'
              exact h.todoLocked j c' (by simp [htodo, hc'])
            · simp only [stepThread, Thread.next, hcur, htodo, hμ, hrest, headLocked] at hc'
              simp at hc'
              rw [upd_ne _ _ hj] at hc'
              exact h.todoLocked j c' hc'
          · intro j hne
            by_cases hj : j = i
            · subst hj; simp [stepThread, Thread.next, hcur, htodo, hμ, hrest, headLocked, upd_same] at hne
            · simp only [stepThread, Thread.next, hcur, htodo, hμ, hrest, headLocked] at hne
              simp at hne
              rw [upd_ne _ _ hj] at hne
              exact absurd (hquiet j) hne
          · intro j hlk
            simp [stepThread, Thread.next, hcur, htodo, hμ, hrest, headLocked] at hlk
          · simp [stepThread, Thread.next, hcur, htodo, hμ, hrest, headLocked, complete, stepAtomic, runMicros, Call.body]
        | cons ν r' =>
          have hν : ν.underLock = true :=
            h.todoLocked i c (by simp [htodo]) ν (by simp [Call.body, hrest])
          refine ⟨⟨?_, ?_, ?_, ?_⟩, ?_⟩
          · intro j ξ hξ
            by_cases hj : j = i
            · subst hj
              simp [stepThread, Thread.next, hcur, htodo, hμ, hν, hrest, headLocked, upd_same] at hξ
              exact h.todoLocked j c (by simp [htodo]) ξ (by simp [Call.body, hrest, hξ])
            · simp only [stepThread, Thread.next, hcur, htodo, hμ, hν, hrest, headLocked] at hξ
              simp at hξ
              rw [upd_ne _ _ hj, hquiet j] at hξ
              cases hξ
          · intro j c' hc'
            by_cases hj : j = i
            · subst hj
              simp [stepThread, Thread.next, hcur, htodo, hμ, hν, hrest, headLocked, upd_same] at hc'
              exact h.todoLocked j c' (by simp [htodo, hc'])
            · simp only [stepThread, Thread.next, hcur, htodo, hμ, hν, hrest, headLocked] at hc'
              simp at hc'
              rw [upd_ne _ _ hj] at hc'
              exact h.todoLocked j c' hc'
          · intro j hne
            by_cases hj : j = i
            · subst hj; simp [stepThread, Thread.next, hcur, htodo, hμ, hν, hrest, headLocked]
            · simp only [stepThread, Thread.next, hcur, htodo, hμ, hν, hrest, headLocked] at hne
              simp at hne
              rw [upd_ne _ _ hj] at hne
              exact absurd (hquiet j) hne
          · intro j hlk
            simp [stepThread, Thread.next, hcur, htodo, hμ, hν, hrest, headLocked] at hlk
            subst hlk
            simp [stepThread, Thread.next, hcur, htodo, hμ, hν, hrest, headLocked, upd_same]
          · simp [stepThread, Thread.next, hcur, htodo, hμ, hν, hrest, headLocked, complete, stepAtomic, runMicros,
              Call.body, upd_same, upd_upd]

theorem exec_sim {cf : Conf S L} (h : LInv cf) (sched : List Nat) :
    LInv (exec cf sched) ∧ complete (exec cf sched) = execAtomic (complete cf) (acqOrder cf sched) := by
  induction sched generalizing cf with
  | nil => exact ⟨h, rfl⟩
  | cons i rest ih =>
    obtain ⟨h1, h2⟩ := stepThread_sim h i
    obtain ⟨h3, h4⟩ := ih h1
    refine ⟨h3, ?_⟩
    simp only [exec, List.foldl_cons] at h4 ⊢
    rw [h4, h2, acqOrder]
    split <;> simp [execAtomic]

theorem acqOrder_sublist (cf : Conf S L) (sched : List Nat) : (acqOrder cf sched).Sublist sched := by
  induction sched generalizing cf with
  | nil => exact List.Sublist.refl _
  | cons i rest ih =>
    simp only [acqOrder]
    split
    · exact (ih _).cons_cons _
    · exact (ih _).cons _

/-! ### the cache as an instance: shared state = the dict, local state = the results a thread has collected -/

/-- the call, run without interruption, behaves as `Cache.step` on `op` and records the result -/
def Implements {V : Type} (c : Cache.Cfg) (call : Call (List (Cache.Entry V)) (List (Cache.Out V))) (op : Cache.Op V) : Prop :=
  ∀ d outs, runMicros d outs call.body = ((Cache.step c d op).1, outs ++ [(Cache.step c d op).2])

theorem stepAtomic_implements {V : Type} (c : Cache.Cfg) (cf : Conf (List (Cache.Entry V)) (List (Cache.Out V))) (i : Nat)
    (call : Call _ _) (cs : List (Call _ _)) (op : Cache.Op V) (htodo : (cf.th i).todo = call :: cs)
    (himp : Implements c call op) :
    (stepAtomic cf i).sh = (Cache.step c cf.sh op).1
    ∧ ((stepAtomic cf i).th i).loc = (cf.th i).loc ++ [(Cache.step c cf.sh op).2]
    ∧ ((stepAtomic cf i).th i).todo = cs
    ∧ ∀ j, j ≠ i → (stepAtomic cf i).th j = cf.th j := by
  have h := himp cf.sh (cf.th i).loc
  simp only [stepAtomic, htodo, upd_same]
  refine ⟨by rw [h], by rw [h], trivial, ?_⟩
  intro j hj
  exact upd_ne _ _ hj

end Rbacx.Cache.Lock
