import Rbacx.Model.PyProto
import Rbacx.Model.CacheHistory
import Rbacx.Model.Conc
import Rbacx.Proofs.EngineTranslated
import Rbacx.Proofs.CanonJson
/-
  Library for the per-run obligation `Run/C08_translated.lean` (the decision-cache protocol of `Guard` translated from the current
  source text by harness/pytolean_proto.py): the protocol of one evaluation and of one `set_policy` call AS THE MODELS ASSUME THEM,
  written once over `PyVal` outcomes — `protoStep` is what `CacheHist.stepCached` (C08) does on an evaluation and what the `eGet … eSet`
  steps of `Conc.stepCore` (C09) do; `updState` / `updTrace` are the `uGen … uRel` steps — and their simple consequences.  Nothing here
  mentions the generated definitions.
-/
namespace Rbacx.Translated
open Rbacx Rbacx.Py Rbacx.PyP PyVal

/-! ### one evaluation -/

theorem none_isNone : PyVal.none.isNone = true := rfl

def getEff (key : PyVal) : Eff := .call "cache.get" [key]
def setEff (key raw ttl : PyVal) : Eff := .call "cache.set" [key, raw, ttl]

/-- a miss (also: a `cache.get` that raised): decide; an escaping exception of the decision escapes; else store under the key iff the
    generation read at store time equals the one read at the start -/
def protoMiss (key : PyVal) (decOut : Option PyVal) (genSame : Bool) (ttl : PyVal) (tr : List Eff) : Res :=
  match decOut with
  | Option.none => ⟨Option.none, tr⟩
  | some raw => ⟨some raw, if genSame then tr ++ [setEff key raw ttl] else tr⟩

/-- **the cache protocol of one evaluation as the models assume it**: with a cache and a truthy key — look up; a value that is not
    `None` is the answer and nothing is stored; otherwise (also when `cache.get` raised) a miss.  Without cache or key: the plain
    decision, no cache call at all. -/
def protoStep (cachePresent : Bool) (key : PyVal) (getOut decOut : Option PyVal) (genSame : Bool) (ttl : PyVal) : Res :=
  if cachePresent && key.truthy then
    match getOut with
    | some c => if c.isNone then protoMiss key decOut genSame ttl [getEff key] else ⟨some c, [getEff key]⟩
    | Option.none => protoMiss key decOut genSame ttl [getEff key]
  else ⟨decOut, []⟩

/-- is this effect a `cache.set`? -/
def isSet : Eff → Bool
  | .call c _ => c == "cache.set"
  | _ => false

theorem protoMiss_no_set (key : PyVal) (d : Option PyVal) (ttl : PyVal) (tr : List Eff) (h : tr.any isSet = false) :
    (protoMiss key d false ttl tr).trace.any isSet = false := by
  unfold protoMiss
  cases d <;> simpa using h

/-- **nothing is stored if the generation moved** — whatever the cache, the key and the decision are -/
theorem protoStep_no_set (p : Bool) (key : PyVal) (g d : Option PyVal) (ttl : PyVal) :
    (protoStep p key g d false ttl).trace.any isSet = false := by
  unfold protoStep
  split
  · cases g with
    | none => exact protoMiss_no_set _ _ _ _ (by simp [getEff, isSet])
    | some c =>
      by_cases hc : c.isNone = true
      · simp only [hc, if_true]; exact protoMiss_no_set _ _ _ _ (by simp [getEff, isSet])
      · simp [hc, getEff, isSet]
  · simp

/-- whatever is stored is the decision of THIS evaluation, under THIS key, and the generation had not moved -/
theorem protoStep_set (p : Bool) (key : PyVal) (g d : Option PyVal) (same : Bool) (ttl : PyVal) (k v t : PyVal)
    (h : setEff k v t ∈ (protoStep p key g d same ttl).trace) : k = key ∧ d = some v ∧ t = ttl ∧ same = true ∧ p = true ∧ key.truthy = true := by
  have miss : ∀ tr, tr = [getEff key] → setEff k v t ∈ (protoMiss key d same ttl tr).trace → k = key ∧ d = some v ∧ t = ttl ∧ same = true := by
    intro tr htr hm
    subst htr
    unfold protoMiss at hm
    cases d with
    | none => simp [getEff, setEff] at hm
    | some raw =>
      cases same with
      | false => simp [getEff, setEff] at hm
      | true =>
        simp only [if_true, List.mem_append, List.mem_cons, List.not_mem_nil, or_false] at hm
        rcases hm with hm | hm
        · simp [getEff, setEff] at hm
        · simp only [setEff, Eff.call.injEq, List.cons.injEq, and_true, true_and] at hm
          obtain ⟨h1, h2, h3⟩ := hm
          exact ⟨h1, by rw [h2], h3, rfl⟩
  unfold protoStep at h
  split at h
  · rename_i hp
    simp only [Bool.and_eq_true] at hp
    cases g with
    | none =>
      obtain ⟨a, b, c, e⟩ := miss _ rfl h
      exact ⟨a, b, c, e, hp.1, hp.2⟩
    | some c =>
      by_cases hc : c.isNone = true
      · simp only [hc, if_true] at h
        obtain ⟨a, b, c', e⟩ := miss _ rfl h
        exact ⟨a, b, c', e, hp.1, hp.2⟩
      · simp [hc, getEff, setEff] at h
  · simp at h

/-! ### the bridge to `CacheHist.stepCached` (C08) -/

open Rbacx.CacheHist in
/-- a cache operation of the abstract history as the effect the engine performs (the time is the cache's own business) -/
def encCOp {R : Type} (encR : R → PyVal) (ttl : PyVal) : COp R → Eff
  | .get k _ => getEff (.str k)
  | .set k v _ => setEff (.str k) (encR v) ttl
  | .clear => .call "cache.clear" []

open Rbacx.CacheHist in
/-- **`protoStep` is `stepCached`'s evaluation**: with a cache, a non-empty string key, an unchanged generation (the sequential
    histories of C08), a cache that answers what the abstract cache holds and a decision procedure that answers the world's decision,
    the raw decision `protoStep` ends with is the one `stepCached` finishes, and its effects are the cache operations `stepCached` appends.
    (`post = id`: the engine stores the raw decision itself and does not write to it afterwards.) -/
theorem protoStep_stepCached {P E R D : Type} (w : World P E R D) (c : CacheLike R) (s : St P R c) (e : Nat) (env : E) (now : Int)
    (encR : R → PyVal) (hR : ∀ r, (encR r).isNone = false) (hpost : ∀ r e, w.post r e = r) (ttl : PyVal)
    (hne : w.cacheKey (s.pols e) env ≠ "") :
    ∃ raw ops, (protoStep true (.str (w.cacheKey (s.pols e) env))
                  (some (match (c.get s.cache (w.cacheKey (s.pols e) env) now).1 with | some r => encR r | Option.none => PyVal.none))
                  (some (encR (w.decide (s.pols e) env))) true ttl) = ⟨some (encR raw), ops.map (encCOp encR ttl)⟩ ∧
      (stepCached w c s (.eval e env now)).2 = some (w.finish raw env) ∧
      (stepCached w c s (.eval e env now)).1.cops = s.cops ++ ops := by
  have hk : (PyVal.str (w.cacheKey (s.pols e) env)).truthy = true := by simpa [PyVal.truthy] using hne
  rcases hg : c.get s.cache (w.cacheKey (s.pols e) env) now with ⟨r, cs⟩
  cases r with
  | some raw =>
    refine ⟨raw, [.get (w.cacheKey (s.pols e) env) now], ?_, ?_, ?_⟩
    · simp [protoStep, hk, hR, encCOp]
    · simp [stepCached, hg]
    · simp [stepCached, hg]
  | none =>
    refine ⟨w.decide (s.pols e) env, [.get (w.cacheKey (s.pols e) env) now, .set (w.cacheKey (s.pols e) env) (w.decide (s.pols e) env) now], ?_, ?_, ?_⟩
    · simp [protoStep, protoMiss, hk, none_isNone, encCOp]
    · simp [stepCached, hg]
    · simp [stepCached, hg, hpost]

/-! ### `set_policy` -/

/-- the etag `_recompute_etag` computes from a policy: sha3-256 (hex) of its sorted JSON text; `None` when either step raised -/
def newEtag (dumps sha : PyVal → Option PyVal) (policy : PyVal) : PyVal := ((dumps policy).bind sha).getD .none

/-- the compiled function it installs: the compiler's answer on the policy, `None` when it raised, the OLD one when the compiler is
    not importable -/
def newCompiled (present : Bool) (compile : PyVal → Option PyVal) (old policy : PyVal) : PyVal :=
  if present then (compile policy).getD .none else old

/-- **the updater program**: acquire · gen += 1 · pol := p · etag := tagOf p · fn := compile p · cache.clear() · release (with the
    reads of the just-written policy object that the tracer also sees) — for EVERY outcome of the externals -/
def updTrace (lock : String) (g : Int) (policy etag compiled : PyVal) (present cachePresent : Bool) : List Eff :=
  [.acq lock, .rd "_policy_gen", .wr "_policy_gen" (.int (g + 1)), .wr "policy" policy, .rd "policy", .wr "policy_etag" etag] ++
  (if present then [.rd "policy", .wr "_compiled" compiled] else []) ++
  (if cachePresent then [.call "cache.clear" []] else []) ++ [.rel lock]

/-- in the tracer's vocabulary, without the updater's reads of its own policy object, that is the program `Conc.stepCore` runs
    (`uAcq … uRel`; `Conc.expectedSetPolicy`) -/
theorem updTrace_shape (lock : String) (g : Int) (policy etag compiled : PyVal) :
    ((updTrace lock g policy etag compiled true true).map label).filter (· != "rd policy") = Conc.expectedSetPolicy := by
  simp [updTrace, label, Conc.expectedSetPolicy]

/-- is this effect a lock operation? -/
def isLockEff : Eff → Bool
  | .acq _ => true
  | .rel _ => true
  | _ => false

/-- every read, write and the cache call lie strictly inside ONE lock block: the trace is `acq · (no lock operation)* · rel` -/
theorem updTrace_locked (lock : String) (g : Int) (policy etag compiled : PyVal) (present cachePresent : Bool) :
    ∃ mid, updTrace lock g policy etag compiled present cachePresent = .acq lock :: (mid ++ [.rel lock]) ∧ mid.any isLockEff = false := by
  refine ⟨[.rd "_policy_gen", .wr "_policy_gen" (.int (g + 1)), .wr "policy" policy, .rd "policy", .wr "policy_etag" etag] ++
      (if present then [.rd "policy", .wr "_compiled" compiled] else []) ++ (if cachePresent then [.call "cache.clear" []] else []), ?_, ?_⟩
  · simp [updTrace]
  · cases present <;> cases cachePresent <;> simp [isLockEff]

end Rbacx.Translated
