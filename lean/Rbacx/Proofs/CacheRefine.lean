import Rbacx.Proofs.CacheBasic
/-
  Proofs.CacheRefine — the model refines the abstract map + recency order of `Spec/Cache.lean`,
  and every call it makes satisfies the observation spec `obsOk`.
-/
namespace Rbacx.Cache
variable {V : Type}

/-- how the dict relates to the spec's bookkeeping of the history so far -/
structure Rel (d : List (Entry V)) (s : SpecSt V) : Prop where
  keys_eq : s.keys = keys d
  /-- every held entry is the latest binding of its key -/
  bind : ∀ e ∈ d, s.m e.key = some (e.val, e.exp)
  /-- `_data` is ordered by last touch -/
  sub : (keys d).Sublist s.to
  toNodup : s.to.Nodup

theorem rel_init : Rel ([] : List (Entry V)) SpecSt.init :=
  ⟨rfl, (by intro e he; cases he), (by simp [keys, SpecSt.init]), (by simp [SpecSt.init])⟩

/-! ### list facts about recency order -/

theorem nodup_move_end {to : List String} (k : String) (h : to.Nodup) : (to.filter (· != k) ++ [k]).Nodup := by
  rw [List.nodup_append]
  refine ⟨h.sublist List.filter_sublist, by simp, ?_⟩
  intro a ha b hb
  simp only [List.mem_singleton] at hb
  subst hb
  simp only [List.mem_filter, bne_iff_ne, ne_eq] at ha
  exact ha.2

theorem sublist_move_end {ks to : List String} (k : String) (h : ks.Sublist to) :
    (ks.filter (· != k) ++ [k]).Sublist (to.filter (· != k) ++ [k]) :=
  List.Sublist.append (h.filter _) (List.Sublist.refl _)

theorem keysSince_cons_self (a : String) (L : List String) : keysSince (a :: L) a = L := by
  simp [keysSince]

theorem keysSince_cons_ne {a x : String} (h : x ≠ a) (L : List String) : keysSince (x :: L) a = keysSince L a := by
  simp [keysSince, h]

theorem not_mem_keysSince {L : List String} (h : L.Nodup) (a : String) : a ∉ keysSince L a := by
  induction L with
  | nil => simp [keysSince]
  | cons x L ih =>
    by_cases hx : x = a
    · subst hx; rw [keysSince_cons_self]; exact (List.nodup_cons.mp h).1
    · rw [keysSince_cons_ne hx]; exact ih (List.nodup_cons.mp h).2

theorem keysSince_sublist (L : List String) (a : String) : (keysSince L a).Sublist L :=
  (List.drop_sublist _ _).trans (List.dropWhile_sublist _)

/-- what follows `a` in a sublist follows it in the list -/
theorem sublist_keysSince {a : String} {l L : List String} (h : (a :: l).Sublist L) : l.Sublist (keysSince L a) := by
  induction L with
  | nil => cases h
  | cons x L' ih =>
    by_cases hx : x = a
    · subst hx
      rw [keysSince_cons_self]
      exact List.cons_sublist_cons.mp h
    · rw [keysSince_cons_ne hx]
      rcases List.sublist_cons_iff.mp h with h' | ⟨r, hr, _⟩
      · exact ih h'
      · exact absurd (List.cons.inj hr).1.symm hx

theorem keys_inserted (d : List (Entry V)) (k : String) (v : V) (ttl : Option Int) (now1 : Time) :
    keys (inserted d k v ttl now1) = (keys d).filter (· != k) ++ [k] := by
  rw [inserted, keys_append, keys_remove]
  rfl

/-! ### the relation is preserved -/

theorem Rel.mono {d d' : List (Entry V)} {s : SpecSt V} (h : Rel d s) (hs : d'.Sublist d) : Rel d' ⟨s.m, s.to, keys d'⟩ :=
  ⟨rfl, fun e he => h.bind e (hs.subset he), (keys_sublist hs).trans h.sub, h.toNodup⟩

/-- the state between the `move_to_end` and the eviction loop of a `set` -/
theorem rel_inserted {d : List (Entry V)} {s : SpecSt V} (h : Rel d s) (k : String) (v : V) (ttl : Option Int)
    (now1 now2 : Time) (out : Out V) :
    Rel (inserted d k v ttl now1)
      ⟨aStep s.m (.set k v ttl now1 now2), touch s.to (.set k v ttl now1 now2) out, keys (inserted d k v ttl now1)⟩ := by
  refine ⟨rfl, ?_, ?_, ?_⟩
  · intro e he
    simp only [inserted, List.mem_append, List.mem_singleton] at he
    rcases he with he | rfl
    · obtain ⟨hed, hne⟩ := mem_remove.mp he
      simp only [aStep, hne, ↓reduceIte]
      exact h.bind e hed
    · simp [aStep]
  · rw [keys_inserted]
    exact sublist_move_end k h.sub
  · exact nodup_move_end k h.toNodup

theorem step_rel (c : Cfg) {d : List (Entry V)} {s : SpecSt V} (h : Rel d s) (op : Op V) :
    Rel (step c d op).1 (s.next ⟨op, (step c d op).2, keys (step c d op).1⟩) := by
  cases op with
  | get k now =>
    simp only [step, SpecSt.next]
    cases hl : lookup k d with
    | none => exact ⟨rfl, h.bind, h.sub, h.toNodup⟩
    | some e =>
      obtain ⟨he, hk⟩ := lookup_some hl
      subst hk
      dsimp only
      split
      · exact h.mono (remove_sublist _ _)
      · refine ⟨rfl, ?_, ?_, nodup_move_end _ h.toNodup⟩
        · intro e' he'
          simp only [List.mem_append, List.mem_singleton] at he'
          rcases he' with he' | rfl
          · exact h.bind e' (mem_remove.mp he').1
          · exact h.bind e' he
        · simp only [touch, touched, keys_append, keys_remove]
          exact sublist_move_end _ h.sub
  | set k v ttl now1 now2 =>
    have hi := rel_inserted h k v ttl now1 now2 (step c d (.set k v ttl now1 now2)).2
    simp only [step, SpecSt.next] at hi ⊢
    split
    · exact hi.mono (List.nil_sublist _)
    · exact hi.mono ((purge_sublist _ _ _).trans (evictLoop_sublist _ _))
  | delete k =>
    have := h.mono (remove_sublist k d)
    refine ⟨rfl, ?_, this.sub, this.toNodup⟩
    intro e he
    have hne := (mem_remove.mp he).2
    simp only [step, SpecSt.next, aStep, hne, ↓reduceIte]
    exact h.bind e (mem_remove.mp he).1
  | clear =>
    exact ⟨rfl, (by intro e he; cases he), List.nil_sublist _, h.toNodup⟩

/-! ### every call of the model satisfies the observation spec -/

theorem contains_keys {k : String} {ks : List String} : ks.contains k = true ↔ k ∈ ks := List.contains_iff_mem

theorem capOk_of_inv {c : Cfg} {d : List (Entry V)} (h : Inv c d) (op : Op V) (out : Out V) :
    capOk c.maxsize (⟨op, out, keys d⟩ : Obs V) = true := by
  simp only [capOk, Bool.and_eq_true, decide_eq_true_eq]
  exact ⟨by simpa [keys] using h.cap, h.nodup⟩

theorem outOk_step [DecidableEq V] (c : Cfg) {d : List (Entry V)} {s : SpecSt V} (h : Rel d s) (op : Op V) :
    outOk c.maxsize s ⟨op, (step c d op).2, keys (step c d op).1⟩ = true := by
  cases op with
  | get k now =>
    simp only [outOk, step]
    cases hl : lookup k d with
    | none =>
      have hk : k ∉ s.keys := by rw [h.keys_eq]; exact lookup_none hl
      dsimp only
      cases hm : s.m k with
      | none => simp
      | some p =>
        obtain ⟨v, e⟩ := p
        by_cases hx : expired e now = true <;> simp [hx, hk]
    | some e =>
      obtain ⟨he, hk⟩ := lookup_some hl
      subst hk
      have hb := h.bind e he
      have hc : e.key ∈ s.keys := by rw [h.keys_eq]; exact mem_keys_of_mem he
      dsimp only
      rw [hb]
      dsimp only
      by_cases hx : expired e.exp now = true
      · simp [hx]
      · simp [hx, hc]
  | set k v ttl now1 now2 =>
    simp only [outOk, step]
    split <;> simp
  | delete k => simp [outOk, step]
  | clear => simp [outOk, step]

/-- the capacity clause for an entry the eviction loop popped -/
theorem victim_explained {d1 : List (Entry V)} {to : List String} (m : Int) (hsub : (keys d1).Sublist to)
    {e : Entry V} (he : e ∈ d1.take (d1.length - m.toNat)) :
    m < (d1.length : Int) ∧ m ≤ ((keysSince to e.key).length : Int)
      ∧ ∀ k2 ∈ keys (d1.drop (d1.length - m.toNat)), k2 ∈ keysSince to e.key := by
  obtain ⟨pre, post0, hsplit⟩ := List.append_of_mem he
  have hlen : (d1.take (d1.length - m.toNat)).length = pre.length + (post0.length + 1) := by
    rw [hsplit]; simp
  have hpos : 0 < d1.length - m.toNat := by
    rw [List.length_take] at hlen; omega
  have hd1 : d1 = pre ++ e :: (post0 ++ d1.drop (d1.length - m.toNat)) := by
    conv => lhs; rw [← List.take_append_drop (d1.length - m.toNat) d1, hsplit]
    simp
  have hk : (e.key :: keys (post0 ++ d1.drop (d1.length - m.toNat))).Sublist to := by
    have : (keys d1) = keys pre ++ (e.key :: keys (post0 ++ d1.drop (d1.length - m.toNat))) := by
      conv => lhs; rw [hd1]
      simp [keys]
    rw [this] at hsub
    exact (List.sublist_append_right _ _).trans hsub
  have hpost := sublist_keysSince hk
  refine ⟨by omega, ?_, ?_⟩
  · have h1 := hpost.length_le
    simp only [keys, List.length_map, List.length_append, List.length_drop] at h1
    omega
  · intro k2 hk2
    apply hpost.subset
    rw [keys_append]
    exact List.mem_append_right _ hk2

theorem lossOk_step (c : Cfg) {d : List (Entry V)} {s : SpecSt V} (h : Rel d s) (op : Op V) :
    lossOk c.maxsize s ⟨op, (step c d op).2, keys (step c d op).1⟩ = true := by
  simp only [lossOk, List.all_eq_true, Bool.or_eq_true, contains_keys]
  intro k hk
  cases op with
  | get k' now =>
    simp only [keysAfterInsert, h.keys_eq] at hk
    simp only [step, lossExplained]
    cases hl : lookup k' d with
    | none => exact Or.inl hk
    | some e =>
      obtain ⟨he, hek⟩ := lookup_some hl
      subst hek
      dsimp only
      by_cases hkk : k = e.key
      · subst hkk
        by_cases hx : expired e.exp now = true
        · right
          simp [deadlinePassed, h.bind e he, hx]
        · left
          simp [hx, keys]
      · left
        have : k ∈ keys (remove e.key d) := by
          rw [keys_remove, List.mem_filter]; exact ⟨hk, by simpa using hkk⟩
        split
        · exact this
        · rw [keys_append]; exact List.mem_append_left _ this
  | set k' v ttl now1 now2 =>
    have hi := rel_inserted h k' v ttl now1 now2 (step c d (.set k' v ttl now1 now2)).2
    simp only [keysAfterInsert, h.keys_eq, ← keys_inserted d k' v ttl now1] at hk
    obtain ⟨e, he, hek⟩ := mem_keys.mp hk
    subst hek
    by_cases hin : e.key ∈ keys (step c d (.set k' v ttl now1 now2)).1
    · exact Or.inl hin
    right
    have hlen : (keysAfterInsert s.keys (Op.set k' v ttl now1 now2)).length = (inserted d k' v ttl now1).length := by
      show (s.keys.filter (· != k') ++ [k']).length = _
      rw [h.keys_eq, ← keys_inserted d k' v ttl now1]
      simp [keys]
    simp only [lossExplained, Bool.or_eq_true, Bool.and_eq_true, decide_eq_true_eq, List.all_eq_true, contains_keys, hlen]
    by_cases hev : e ∈ evictLoop c.maxsize (inserted d k' v ttl now1)
    · -- survived the eviction loop, so the purge removed it
      left
      have hm : ¬ c.maxsize < 0 := by
        intro hm; rw [evictLoop_neg hm] at hev; cases hev
      simp only [step, hm, ↓reduceIte] at hin
      have hnp : e ∉ purge c.purgePrefix now2 (evictLoop c.maxsize (inserted d k' v ttl now1)) :=
        fun hp => hin (mem_keys_of_mem hp)
      have := purge_lost hev hnp
      have hb : aStep s.m (.set k' v ttl now1 now2) e.key = some (e.val, e.exp) := hi.bind e he
      simp only [deadlinePassed, SpecSt.next]
      rw [hb]
      exact this
    · right
      rw [evictLoop_eq_drop] at hev
      have htake : e ∈ (inserted d k' v ttl now1).take ((inserted d k' v ttl now1).length - c.maxsize.toNat) := by
        have := he
        rw [← List.take_append_drop ((inserted d k' v ttl now1).length - c.maxsize.toNat) (inserted d k' v ttl now1),
          List.mem_append] at this
        exact this.resolve_right hev
      obtain ⟨h1, h2, h3⟩ := victim_explained c.maxsize hi.sub htake
      refine ⟨⟨h1, h2⟩, ?_⟩
      intro k2 hk2
      apply h3
      have hsub : (step c d (.set k' v ttl now1 now2)).1.Sublist
          ((inserted d k' v ttl now1).drop ((inserted d k' v ttl now1).length - c.maxsize.toNat)) := by
        simp only [step]
        split
        · exact List.nil_sublist _
        · rw [← evictLoop_eq_drop]; exact purge_sublist _ _ _
      exact (keys_sublist hsub).subset hk2
  | delete k' =>
    simp only [keysAfterInsert, h.keys_eq] at hk
    simp only [step, lossExplained]
    by_cases hkk : k = k'
    · right; simp [hkk]
    · left; rw [keys_remove, List.mem_filter]; exact ⟨hk, by simpa using hkk⟩
  | clear => right; rfl

theorem gainOk_step (c : Cfg) {d : List (Entry V)} {s : SpecSt V} (h : Rel d s) (op : Op V) :
    gainOk s ⟨op, (step c d op).2, keys (step c d op).1⟩ = true := by
  simp only [gainOk, List.all_eq_true, contains_keys]
  intro k hk
  cases op with
  | get k' now =>
    simp only [keysAfterInsert, h.keys_eq]
    simp only [step] at hk
    cases hl : lookup k' d with
    | none => simpa [hl] using hk
    | some e =>
      obtain ⟨he, hek⟩ := lookup_some hl
      subst hek
      simp only [hl] at hk
      split at hk
      · exact (keys_sublist (remove_sublist _ _)).subset hk
      · rw [keys_append, List.mem_append] at hk
        rcases hk with hk | hk
        · exact (keys_sublist (remove_sublist _ _)).subset hk
        · simp only [keys, List.map_cons, List.map_nil, List.mem_singleton] at hk
          subst hk; exact mem_keys_of_mem he
  | set k' v ttl now1 now2 =>
    simp only [keysAfterInsert, h.keys_eq, ← keys_inserted d k' v ttl now1]
    have hsub : (step c d (.set k' v ttl now1 now2)).1.Sublist (inserted d k' v ttl now1) := by
      simp only [step]
      split
      · exact List.nil_sublist _
      · exact (purge_sublist _ _ _).trans (evictLoop_sublist _ _)
    exact (keys_sublist hsub).subset hk
  | delete k' =>
    simp only [keysAfterInsert, h.keys_eq]
    exact (keys_sublist (remove_sublist _ _)).subset hk
  | clear => simp [step, keys] at hk

theorem orderOk_step (c : Cfg) {d : List (Entry V)} {s : SpecSt V} (h : Rel d s) (op : Op V) :
    orderOk s ⟨op, (step c d op).2, keys (step c d op).1⟩ = true := by
  simp only [orderOk, List.isSublist_iff_sublist]
  exact (step_rel c h op).sub

theorem obsOk_step [DecidableEq V] (c : Cfg) {d : List (Entry V)} {s : SpecSt V} (hi : Inv c d) (h : Rel d s) (op : Op V) :
    obsOk c.maxsize s ⟨op, (step c d op).2, keys (step c d op).1⟩ = true := by
  simp only [obsOk, Bool.and_eq_true]
  exact ⟨⟨⟨⟨capOk_of_inv (step_inv c hi op) _ _, outOk_step c h op⟩, lossOk_step c h op⟩, gainOk_step c h op⟩,
    orderOk_step c h op⟩

theorem traceOkFrom_model [DecidableEq V] (c : Cfg) (ops : List (Op V)) {d : List (Entry V)} {s : SpecSt V}
    (hi : Inv c d) (h : Rel d s) : traceOkFrom c.maxsize s (traceFrom c d ops) = true := by
  induction ops generalizing d s with
  | nil => rfl
  | cons op ops ih =>
    simp only [traceFrom, traceOkFrom, Bool.and_eq_true]
    exact ⟨obsOk_step c hi h op, ih (step_inv c hi op) (step_rel c h op)⟩

/-! ### along a whole history -/

theorem rel_runFrom (c : Cfg) (ops : List (Op V)) {d : List (Entry V)} {s : SpecSt V} (h : Rel d s) :
    Rel (runFrom c d ops) (specAfter s (traceFrom c d ops)) := by
  induction ops generalizing d s with
  | nil => exact h
  | cons op ops ih => exact ih (step_rel c h op)

theorem specAfter_m (c : Cfg) (ops : List (Op V)) (d : List (Entry V)) (s : SpecSt V) :
    (specAfter s (traceFrom c d ops)).m = aRun s.m ops := by
  induction ops generalizing d s with
  | nil => rfl
  | cons op ops ih => exact ih _ _

theorem specAfter_to (s : SpecSt V) (obs : List (Obs V)) : (specAfter s obs).to = touchOrderFrom s.to obs := by
  induction obs generalizing s with
  | nil => rfl
  | cons o rest ih => exact ih _

theorem traceFrom_append (c : Cfg) (d : List (Entry V)) (a b : List (Op V)) :
    traceFrom c d (a ++ b) = traceFrom c d a ++ traceFrom c (runFrom c d a) b := by
  induction a generalizing d with
  | nil => rfl
  | cons op ops ih => simp only [List.cons_append, traceFrom, runFrom, ih]

theorem touchOrderFrom_append (to : List String) (a b : List (Obs V)) :
    touchOrderFrom to (a ++ b) = touchOrderFrom (touchOrderFrom to a) b := by
  induction a generalizing to with
  | nil => rfl
  | cons o rest ih => exact ih _

/-- the model's dict against the spec bookkeeping of its own history -/
theorem rel_run (c : Cfg) (ops : List (Op V)) :
    Rel (run c ops) ⟨latest ops, touchOrder (trace c ops), keys (run c ops)⟩ := by
  have h := rel_runFrom c ops (rel_init (V := V))
  have hm := specAfter_m c ops [] (SpecSt.init (V := V))
  have ht := specAfter_to (SpecSt.init (V := V)) (traceFrom c [] ops)
  exact ⟨rfl, fun e he => by have := h.bind e he; rw [hm] at this; exact this,
    by have := h.sub; rw [ht] at this; exact this, by have := h.toNodup; rw [ht] at this; exact this⟩

end Rbacx.Cache
