import Rbacx.Model.PyOrdDict
import Rbacx.Proofs.CacheBasic
/-
  Rbacx.Proofs.CacheTranslated — library for the per-run obligation `Run/C15_translated.lean`: the encoding of the cache model's
  states, arguments and results as the Python values the translated methods of `DefaultInMemoryCache` compute with, and what every
  operation of `Model/PyOrdDict.lean` does on encoded states.  Nothing here mentions the generated text; the lemmas are about the
  operations the translator emits (`odGet`, `odPop`, `odSetItem`, `odMoveToEnd`, `whilePopFirst`, `collectItems`/`odItems`, the
  deadline test) and are put together in the Run file by unfolding the generated definitions.
-/
namespace Rbacx.PyM
open PyVal Rbacx.Cache

/-! ### the loop `while cond(d): d.popitem(last=False)` is given enough fuel -/

/-- the loop never runs out of the fuel it is given -/
theorem whilePopFirst_fuel (cond : OrdDict → Bool) (n : Nat) (d : OrdDict) (h : d.length < n) :
    (whilePopFirst cond n d).2 ≠ some outOfFuel := by
  induction n generalizing d with
  | zero => omega
  | succ n ih =>
    simp only [whilePopFirst]
    split
    · cases d with
      | nil => simp [odPopFirst, outOfFuel]
      | cons x rest =>
        simp only [odPopFirst]
        exact ih rest (by simp only [List.length_cons] at h; omega)
    · simp

/-- more fuel changes nothing -/
theorem whilePopFirst_mono (cond : OrdDict → Bool) (n m : Nat) (d : OrdDict) (h : d.length < n) (hm : n ≤ m) :
    whilePopFirst cond m d = whilePopFirst cond n d := by
  induction n generalizing d m with
  | zero => omega
  | succ n ih =>
    obtain ⟨m', rfl⟩ : ∃ m', m = m' + 1 := ⟨m - 1, by omega⟩
    simp only [whilePopFirst]
    split
    · cases d with
      | nil => simp [odPopFirst]
      | cons x rest =>
        simp only [odPopFirst]
        exact ih m' rest (by simp only [List.length_cons] at h; omega) (by omega)
    · rfl

/-- with the test `len(d) > m` the loop is the model's `evictLoop`; for `m < 0` it empties the dict and `popitem` raises -/
theorem whilePopFirst_evict (m : Int) (n : Nat) (d : OrdDict) (h : d.length < n) :
    whilePopFirst (fun data => (gt (.int (odLen data)) (.int m)).truthy) n d
      = if m < 0 then ([], some "KeyError") else (evictLoop m d, Option.none) := by
  induction n generalizing d with
  | zero => omega
  | succ n ih =>
    simp only [whilePopFirst, gt, lt, odLen, truthy]
    cases d with
    | nil =>
      simp only [List.length_nil, Int.natCast_zero, odPopFirst, evictLoop]
      by_cases hm : m < 0 <;> simp [hm]
    | cons x rest =>
      have ih' := ih rest (by simp only [List.length_cons] at h; omega)
      simp only [gt, lt, odLen, truthy] at ih'
      simp only [odPopFirst, evictLoop]
      by_cases hc : m < ((x :: rest).length : Int)
      · simp only [hc, decide_true, ↓reduceIte]
        exact ih'
      · simp only [hc, decide_false, Bool.false_eq_true, ↓reduceIte]
        have : ¬ m < 0 := by simp only [List.length_cons] at hc; omega
        simp [this]

end Rbacx.PyM

namespace Rbacx.CacheTr
open Rbacx.Cache Rbacx.PyM

/-! ### the encoding -/

/-- `_Entry.expires_at` -/
def encTime : Option Time → PyVal
  | none => PyVal.none
  | some t => .int t

/-- the `_Entry(value=…, expires_at=…)` object stored for a model entry -/
def entryVal (e : Entry PyVal) : PyVal := record [("value", e.val), ("expires_at", encTime e.exp)]

def encEntry (e : Entry PyVal) : String × PyVal := (e.key, entryVal e)

/-- `self._data` for a model state -/
def encState (d : List (Entry PyVal)) : OrdDict := d.map encEntry

/-- the argument `ttl`: None or an int -/
def encTtl : Option Int → PyVal
  | none => PyVal.none
  | some n => .int n

/-- what the Python call does for a model outcome: `get` returns the value or None, the others return None, `keyError` is a raised KeyError -/
def encOut : Out PyVal → Outcome
  | .got none => .ret PyVal.none
  | .got (some v) => .ret v
  | .done => .ret PyVal.none
  | .keyError => .raised "KeyError"

def encStep (r : List (Entry PyVal) × Out PyVal) : OrdDict × Outcome := (encState r.1, encOut r.2)

theorem encEntry_injective : ∀ e e' : Entry PyVal, encEntry e = encEntry e' → e = e' := by
  intro ⟨k, v, x⟩ ⟨k', v', x'⟩ h
  simp only [encEntry, entryVal, record, Prod.mk.injEq, PyVal.dict.injEq, List.cons.injEq, and_true, true_and] at h
  obtain ⟨hk, hv, hx⟩ := h
  subst hk hv
  cases x <;> cases x' <;> simp_all [encTime]

theorem encState_injective : ∀ d d' : List (Entry PyVal), encState d = encState d' → d = d' := by
  intro d d' h
  induction d generalizing d' with
  | nil => cases d' <;> simp_all [encState]
  | cons e r ih =>
    cases d' with
    | nil => simp [encState] at h
    | cons e' r' =>
      simp only [encState, List.map_cons, List.cons.injEq] at h
      rw [encEntry_injective e e' h.1, ih r' h.2]

/-! ### fields of an entry, the deadline test -/

@[simp] theorem field_value (e : Entry PyVal) : field (entryVal e) "value" = e.val := by
  simp [field, entryVal, record, PyVal.get, PyVal.lookup]

@[simp] theorem field_expires (e : Entry PyVal) : field (entryVal e) "expires_at" = encTime e.exp := by
  simp [field, entryVal, record, PyVal.get, PyVal.lookup]

@[simp] theorem isNone_entryVal (e : Entry PyVal) : (Rbacx.Py.isNone (entryVal e)).truthy = false := by
  simp [Rbacx.Py.isNone, entryVal, record, PyVal.isNone, PyVal.truthy]

/-- `x is not None and x <= now` on an encoded deadline is the model's `expired` -/
@[simp] theorem expired_test (x : Option Time) (now : Time) :
    (Rbacx.Py.pand (Rbacx.Py.isNotNone (encTime x)) (le (encTime x) (.int now))).truthy = expired x now := by
  cases x <;> simp [encTime, Rbacx.Py.pand, Rbacx.Py.isNotNone, PyVal.isNone, PyVal.truthy, le, expired]

/-- `ttl is not None and ttl > 0` -/
theorem ttl_test (ttl : Option Int) :
    (Rbacx.Py.pand (Rbacx.Py.isNotNone (encTtl ttl)) (gt (encTtl ttl) (.int 0))).truthy
      = (match ttl with | some t => decide (0 < t) | none => false) := by
  cases ttl <;> simp [encTtl, Rbacx.Py.pand, Rbacx.Py.isNotNone, PyVal.isNone, PyVal.truthy, gt, lt]

/-- the two values `expires_at` can have when `set` takes the lock are the model's `expiry` -/
theorem expiry_pos (t : Int) (now1 : Time) (h : 0 < t) :
    add (.int now1) (floatExact (encTtl (some t))) = encTime (expiry (some t) now1) := by
  simp [encTtl, floatExact, add, expiry, h, encTime]

theorem expiry_none (ttl : Option Int) (now1 : Time) (h : (match ttl with | some t => decide (0 < t) | none => false) = false) :
    PyVal.none = encTime (expiry ttl now1) := by
  cases ttl with
  | none => rfl
  | some t =>
    have : ¬ 0 < t := by simpa using h
    simp [expiry, this, encTime]

/-! ### the dict operations on encoded states -/

theorem lookup_enc (k : String) (d : List (Entry PyVal)) :
    PyVal.lookup k (encState d) = (lookup k d).map entryVal := by
  induction d with
  | nil => rfl
  | cons e rest ih =>
    simp only [encState, List.map_cons, PyVal.lookup, lookup, List.find?_cons] at ih ⊢
    by_cases h : e.key = k
    · simp [encEntry, h]
    · have hb : (e.key == k) = false := by simpa using h
      simp only [encEntry, h, ↓reduceIte, hb]
      exact ih

/-- `self._data.get(key)` -/
theorem odGet_enc (k : String) (d : List (Entry PyVal)) :
    odGet (encState d) (.str k) = match lookup k d with | none => PyVal.none | some e => entryVal e := by
  simp only [odGet, lookup_enc]
  cases lookup k d <;> rfl

/-- `self._data.pop(key, None)` -/
@[simp] theorem odPop_enc (k : String) (d : List (Entry PyVal)) : odPop (encState d) (.str k) = encState (remove k d) := by
  simp only [odPop, encState, remove, List.filter_map]
  rfl

/-- `self._data.move_to_end(key)` -/
theorem odMoveToEnd_enc (k : String) (d : List (Entry PyVal)) :
    odMoveToEnd (encState d) (.str k) = (lookup k d).map fun e => encState (remove k d ++ [e]) := by
  simp only [odMoveToEnd, lookup_enc]
  cases h : lookup k d with
  | none => rfl
  | some e =>
    have hk := (lookup_some h).2
    simp only [Option.map_some, Option.some.injEq]
    have := odPop_enc k d
    simp only [odPop] at this
    rw [this]
    simp [encState, encEntry, hk]

theorem lookup_setKV (k : String) (v : PyVal) (l : OrdDict) : PyVal.lookup k (Rbacx.Py.setKV k v l) = some v := by
  induction l with
  | nil => simp [Rbacx.Py.setKV, PyVal.lookup]
  | cons kv rest ih =>
    obtain ⟨k', w⟩ := kv
    simp only [Rbacx.Py.setKV]
    by_cases h : k' = k
    · simp [h, PyVal.lookup]
    · simp [h, PyVal.lookup, ih]

theorem filter_setKV (k : String) (v : PyVal) (l : OrdDict) :
    (Rbacx.Py.setKV k v l).filter (fun kv => kv.1 != k) = l.filter (fun kv => kv.1 != k) := by
  induction l with
  | nil => simp [Rbacx.Py.setKV]
  | cons kv rest ih =>
    obtain ⟨k', w⟩ := kv
    simp only [Rbacx.Py.setKV]
    by_cases h : k' = k
    · simp [h]
    · simp [h, ih]

/-- `self._data[key] = _Entry(value=value, expires_at=x); self._data.move_to_end(key)` is the model's `inserted` -/
theorem setItem_moveToEnd_enc (k : String) (v : PyVal) (x : Option Time) (d : List (Entry PyVal)) :
    odMoveToEnd (odSetItem (encState d) (.str k) (record [("value", v), ("expires_at", encTime x)])) (.str k)
      = some (encState (remove k d ++ [⟨k, v, x⟩])) := by
  simp only [odMoveToEnd, odSetItem, lookup_setKV, filter_setKV]
  have := odPop_enc k d
  simp only [odPop] at this
  rw [this]
  simp [encState, encEntry, entryVal]

theorem evictLoop_enc (m : Int) (d : List (Entry PyVal)) : evictLoop m (encState d) = encState (evictLoop m d) := by
  simp only [evictLoop_eq_drop, encState, List.length_map, List.map_drop]

/-- the capacity loop of `set` on an encoded state -/
theorem whilePopFirst_enc (m : Int) (d : List (Entry PyVal)) :
    whilePopFirst (fun data => (gt (.int (odLen data)) (.int m)).truthy) (fuel (encState d)) (encState d)
      = if m < 0 then ([], some "KeyError") else (encState (evictLoop m d), Option.none) := by
  rw [whilePopFirst_evict m _ _ (by simp [fuel]), evictLoop_enc]

/-! ### the purge: scan a prefix for reached deadlines, then pop what was found -/

/-- popping a list of string keys one after the other keeps the entries under none of them -/
theorem foldl_odPop (ks : List String) (s : OrdDict) :
    (ks.map PyVal.str).foldl odPop s = s.filter fun kv => !ks.contains kv.1 := by
  induction ks generalizing s with
  | nil => exact (List.filter_eq_self.mpr (by simp)).symm
  | cons k rest ih =>
    simp only [List.map_cons, List.foldl_cons, odPop, ih, List.filter_filter]
    congr 1
    funext kv
    simp only [List.contains_cons, bne, Bool.not_or]
    exact Bool.and_comm _ _

/-- the keys the scan collects: those of the inspected entries whose deadline is reached -/
def expiredKeys (pfx : Option Nat) (now : Time) (d : List (Entry PyVal)) : List String :=
  (List.filter (fun e : Entry PyVal => expired e.exp now) (match pfx with | some n => d.take n | none => d)).map fun e => e.key

/-- what the scan loop of `_purge_expired_unlocked` appends to `to_delete` -/
theorem scan_enc (pfx : Option Nat) (now : Time) (d : List (Entry PyVal)) :
    Rbacx.Py.concat (.list []) (collectItems (odItems (encState d) pfx) fun k entry =>
        if (Rbacx.Py.pand (Rbacx.Py.isNotNone (field entry "expires_at")) (le (field entry "expires_at") (.int now))).truthy then [k] else [])
      = .list ((expiredKeys pfx now d).map PyVal.str) := by
  have h : ∀ l : List (Entry PyVal),
      (List.map (fun kv : String × PyVal => (PyVal.str kv.1, kv.2)) (List.map encEntry l)).flatMap (fun kv =>
        if (Rbacx.Py.pand (Rbacx.Py.isNotNone (field kv.2 "expires_at")) (le (field kv.2 "expires_at") (.int now))).truthy then [kv.1] else [])
      = ((l.filter fun e => expired e.exp now).map (·.key)).map PyVal.str := by
    intro l
    induction l with
    | nil => rfl
    | cons e rest ih =>
      simp only [List.map_cons, List.flatMap_cons, ih, encEntry, field_expires, expired_test, List.filter_cons]
      cases expired e.exp now <;> simp
  simp only [Rbacx.Py.concat, collectItems, List.nil_append, expiredKeys]
  cases pfx with
  | none => simp only [odItems, encState]; rw [h]
  | some n => simp only [odItems, encState, ← List.map_take]; rw [h]

/-- on a dict (no key twice) popping the collected keys is the model's `purge` -/
theorem purge_filter (pfx : Option Nat) (now : Time) (d : List (Entry PyVal)) (hd : (keys d).Nodup) :
    d.filter (fun e => !(expiredKeys pfx now d).contains e.key) = purge pfx now d := by
  cases pfx with
  | none =>
    simp only [purge, expiredKeys]
    apply List.filter_congr
    intro e he
    congr 1
    by_cases hx : expired e.exp now = true
    · simp only [hx, List.contains_eq_mem, List.mem_map, List.mem_filter, decide_eq_true_eq]
      exact ⟨e, ⟨he, hx⟩, rfl⟩
    · simp only [hx, List.contains_eq_mem, List.mem_map, List.mem_filter, decide_eq_false_iff_not, not_exists, not_and]
      intro e' ⟨he', hx'⟩ hk
      exact hx (entry_unique hd he' he hk ▸ hx')
  | some n =>
    simp only [purge, expiredKeys]
    have hnd : (keys (d.take n ++ d.drop n)).Nodup := by rw [List.take_append_drop]; exact hd
    generalize hK : List.map (fun e : Entry PyVal => e.key) (List.filter (fun e => expired e.exp now) (List.take n d)) = K
    conv => lhs; rw [← List.take_append_drop n d]
    rw [List.filter_append]
    subst hK
    congr 1
    · apply List.filter_congr
      intro e he
      congr 1
      have hed : e ∈ d := List.mem_of_mem_take he
      by_cases hx : expired e.exp now = true
      · simp only [hx, List.contains_eq_mem, List.mem_map, List.mem_filter, decide_eq_true_eq]
        exact ⟨e, ⟨he, hx⟩, rfl⟩
      · simp only [hx, List.contains_eq_mem, List.mem_map, List.mem_filter, decide_eq_false_iff_not, not_exists, not_and]
        intro e' ⟨he', hx'⟩ hk
        exact hx (entry_unique hd (List.mem_of_mem_take he') hed hk ▸ hx')
    · rw [List.filter_eq_self]
      intro e he
      simp only [List.contains_eq_mem, List.mem_map, List.mem_filter, Bool.not_eq_eq_eq_not, Bool.not_true, decide_eq_false_iff_not,
        not_exists, not_and]
      intro e' ⟨he', _⟩ hk
      rw [keys_append] at hnd
      exact (List.nodup_append.mp hnd).2.2 e'.key (mem_keys_of_mem he') e.key (mem_keys_of_mem he) hk

/-- the body of `_purge_expired_unlocked` on an encoded dict, with the clock value it reads -/
theorem purge_enc (pfx : Option Nat) (now : Time) (d : List (Entry PyVal)) (hd : (keys d).Nodup) :
    (Rbacx.Py.iter (Rbacx.Py.concat (.list []) (collectItems (odItems (encState d) pfx) fun k entry =>
        if (Rbacx.Py.pand (Rbacx.Py.isNotNone (field entry "expires_at")) (le (field entry "expires_at") (.int now))).truthy then [k] else []))).foldl
      (fun data k => odPop data k) (encState d)
      = encState (purge pfx now d) := by
  rw [scan_enc, Rbacx.Py.iter, foldl_odPop, ← purge_filter pfx now d hd]
  simp only [encState, List.filter_map]
  rfl

end Rbacx.CacheTr
