import Rbacx.Proofs.CanonJsonEnc
import Rbacx.Proofs.CanonJsonNorm
import Rbacx.Proofs.CanonJsonConv
/-
  Rbacx.Proofs.CanonJson — the canonical serialiser `canonJson` (= `enc ∘ norm`, Model/CanonJson.lean) is injective
  up to the order of dict entries, on float-free values without duplicate keys; and conversely it does not see that
  order.  Plus the `etag:` prefix of the cache key.
-/
namespace Rbacx

/-- unique parse of the canonical text: what follows a canonical value is determined, and so is the value up to
    the order of dict entries -/
theorem canonChars_prefix_free (a b : PyVal) (r₁ r₂ : List Char)
    (fa : floatFree a = true) (fb : floatFree b = true) (na : noDupKeys a = true) (nb : noDupKeys b = true)
    (h1 : NoDigitHead r₁) (h2 : NoDigitHead r₂) (h : canonChars a ++ r₁ = canonChars b ++ r₂) : a ≃ b ∧ r₁ = r₂ := by
  obtain ⟨hn, hr⟩ := enc_inj (norm a) (norm b) r₁ r₂ (floatFree_norm a fa) (floatFree_norm b fb) h1 h2 h
  exact ⟨norm_eq_permEq a b na nb hn, hr⟩

theorem canonChars_injective (a b : PyVal) (fa : floatFree a = true) (fb : floatFree b = true)
    (na : noDupKeys a = true) (nb : noDupKeys b = true) (h : canonChars a = canonChars b) : a ≃ b :=
  norm_eq_permEq a b na nb (enc_injective _ _ (floatFree_norm a fa) (floatFree_norm b fb) h)

/-- **the canonical serialiser is injective** (up to the order of dict entries at every depth) -/
theorem canonJson_injective (a b : PyVal) (fa : floatFree a = true) (fb : floatFree b = true)
    (na : noDupKeys a = true) (nb : noDupKeys b = true) (h : canonJson a = canonJson b) : a ≃ b := by
  simp only [canonJson, fa, fb, if_true, Option.some.injEq] at h
  exact canonChars_injective a b fa fb na nb h

/-- the same without mentioning the domain: two values that both serialise, to the same text -/
theorem canonJson_injective' (a b : PyVal) (s : List Char) (na : noDupKeys a = true) (nb : noDupKeys b = true)
    (ha : canonJson a = some s) (hb : canonJson b = some s) : a ≃ b := by
  have fa : floatFree a = true := by
    cases hf : floatFree a
    · simp [canonJson, hf] at ha
    · rfl
  have fb : floatFree b = true := by
    cases hf : floatFree b
    · simp [canonJson, hf] at hb
    · rfl
  exact canonJson_injective a b fa fb na nb (ha.trans hb.symm)

/-- **converse**: the order of dict entries, at any depth, is invisible in the canonical text -/
theorem canonChars_congr (a b : PyVal) (fa : floatFree a = true) (na : noDupKeys a = true) (nb : noDupKeys b = true)
    (h : a ≃ b) : canonChars a = canonChars b := by
  simp only [canonChars, permEq_norm_eq a b fa na nb h]

theorem canonJson_congr (a b : PyVal) (fa : floatFree a = true) (fb : floatFree b = true)
    (na : noDupKeys a = true) (nb : noDupKeys b = true) (h : a ≃ b) : canonJson a = canonJson b := by
  simp only [canonJson, fa, fb, if_true, canonChars_congr a b fa na nb h]

/-- on the domain, equal canonical text is exactly equality up to the order of dict entries -/
theorem canonJson_eq_iff (a b : PyVal) (fa : floatFree a = true) (fb : floatFree b = true)
    (na : noDupKeys a = true) (nb : noDupKeys b = true) : canonJson a = canonJson b ↔ a ≃ b :=
  ⟨canonJson_injective a b fa fb na nb, canonJson_congr a b fa fb na nb⟩

/-! ### the `etag:` prefix -/

/-- a tag without `:` followed by `:` — the split is unique -/
theorem tag_split : ∀ (t₁ t₂ c₁ c₂ : List Char), ':' ∉ t₁ → ':' ∉ t₂ → t₁ ++ ':' :: c₁ = t₂ ++ ':' :: c₂ → t₁ = t₂ ∧ c₁ = c₂
  | [], [], _, _, _, _, h => by simpa using h
  | [], d :: t₂, _, _, _, h2, h => by
    simp only [List.nil_append, List.cons_append, List.cons.injEq] at h
    exact absurd (h.1 ▸ List.mem_cons_self ..) h2
  | c :: t₁, [], _, _, h1, _, h => by
    simp only [List.nil_append, List.cons_append, List.cons.injEq] at h
    exact absurd (h.1 ▸ List.mem_cons_self ..) h1
  | c :: t₁, d :: t₂, c₁, c₂, h1, h2, h => by
    simp only [List.cons_append, List.cons.injEq] at h
    obtain ⟨ht, hc⟩ := tag_split t₁ t₂ c₁ c₂ (fun hm => h1 (List.mem_cons_of_mem _ hm))
      (fun hm => h2 (List.mem_cons_of_mem _ hm)) h.2
    exact ⟨by rw [h.1, ht], hc⟩

/-- lower-case hex digest (`hashlib.sha3_256(…).hexdigest()`) -/
def isHexTag (s : String) : Bool := s.toList.all fun c => c.isDigit || (decide ('a' ≤ c) && decide (c ≤ 'f'))

theorem colon_not_mem_of_isHexTag (s : String) (h : isHexTag s = true) : ':' ∉ s.toList := by
  intro hm
  have := List.all_eq_true.mp h ':' hm
  exact absurd this (by decide)

/-- equal cache keys ⇒ equal tags and environments equal up to the order of dict entries -/
theorem cacheKeyOf_injective (tag tag' : String) (env env' : PyVal) (ht : ':' ∉ tag.toList) (ht' : ':' ∉ tag'.toList)
    (ne : noDupKeys env = true) (ne' : noDupKeys env' = true) (k : String)
    (h : cacheKeyOf tag env = some k) (h' : cacheKeyOf tag' env' = some k) : tag = tag' ∧ env ≃ env' := by
  simp only [cacheKeyOf, Option.map_eq_some_iff] at h h'
  obtain ⟨cs, hcs, hk⟩ := h
  obtain ⟨cs', hcs', hk'⟩ := h'
  have := congrArg String.toList (hk.trans hk'.symm)
  simp only [String.toList_append, String.toList_ofList, List.append_assoc] at this
  have hsplit := tag_split tag.toList tag'.toList cs cs' ht ht' (by simpa using this)
  rw [← hsplit.2] at hcs'
  exact ⟨String.toList_inj.mp hsplit.1, canonJson_injective' env env' cs ne ne' hcs hcs'⟩

end Rbacx
