import Rbacx.Proofs.CanonJsonNorm
/-
  Rbacx.Proofs.CanonJsonConv — the converse direction: values equal up to the order of dict entries have the same
  normal form (`permEq_norm_eq`), because two key-sorted duplicate-free entry lists with the same members are equal.
-/
namespace Rbacx
open List

/-! ### `ltChars` is a strict total order -/

theorem ltChars_nil_right (c : List Char) : ltChars c [] = false := by cases c <;> rfl

theorem ltChars_cons (a b : Char) (as bs : List Char) :
    ltChars (a :: as) (b :: bs) = true ↔ a.toNat < b.toNat ∨ (a.toNat = b.toNat ∧ ltChars as bs = true) := by
  simp [ltChars]

theorem ltChars_cons_false (a b : Char) (as bs : List Char) :
    ltChars (a :: as) (b :: bs) = false ↔ b.toNat ≤ a.toNat ∧ (a.toNat = b.toNat → ltChars as bs = false) := by
  rw [← Bool.not_eq_true, ltChars_cons]
  constructor
  · intro h
    refine ⟨by omega, fun he => ?_⟩
    cases hl : ltChars as bs
    · rfl
    · exact absurd (.inr ⟨he, hl⟩) h
  · rintro ⟨h1, h2⟩ (h | ⟨he, hl⟩)
    · omega
    · rw [h2 he] at hl; cases hl

theorem ltChars_asymm : ∀ (a b : List Char), ltChars a b = true → ltChars b a = false
  | _, [], h => by rw [ltChars_nil_right] at h; cases h
  | [], _ :: _, _ => rfl
  | a :: as, b :: bs, h => by
    rw [ltChars_cons] at h
    rw [ltChars_cons_false]
    rcases h with h | ⟨he, hl⟩
    · exact ⟨by omega, fun he => by omega⟩
    · exact ⟨by omega, fun _ => ltChars_asymm as bs hl⟩

/-- `≤` is transitive -/
theorem ltChars_le_trans : ∀ (a b c : List Char), ltChars b a = false → ltChars c b = false → ltChars c a = false
  | [], _, c, _, _ => ltChars_nil_right c
  | _ :: _, [], _, h, _ => by cases h
  | _ :: _, _ :: _, [], _, h => by cases h
  | a :: as, b :: bs, c :: cs, h1, h2 => by
    rw [ltChars_cons_false] at h1 h2 ⊢
    refine ⟨by omega, fun he => ?_⟩
    exact ltChars_le_trans as bs cs (h1.2 (by omega)) (h2.2 (by omega))

theorem ltChars_antisymm : ∀ (a b : List Char), ltChars a b = false → ltChars b a = false → a = b
  | [], [], _, _ => rfl
  | [], _ :: _, h, _ => by cases h
  | _ :: _, [], _, h => by cases h
  | a :: as, b :: bs, h1, h2 => by
    rw [ltChars_cons_false] at h1 h2
    have he : a.toNat = b.toNat := by omega
    rw [Char.toNat_inj.mp he, ltChars_antisymm as bs (h1.2 he) (h2.2 he.symm)]

/-! ### `sortKV` sorts -/

/-- key of `e` ≤ key of `f` -/
def leKV (e f : String × PyVal) : Prop := ltChars f.1.toList e.1.toList = false

theorem insKV_sorted (e : String × PyVal) : ∀ (l : List (String × PyVal)), l.Pairwise leKV → (insKV e l).Pairwise leKV
  | [], _ => by simp [insKV]
  | f :: r, h => by
    rw [pairwise_cons] at h
    simp only [insKV]
    split
    · rename_i hlt
      rw [pairwise_cons]
      refine ⟨fun x hx => ?_, insKV_sorted e r h.2⟩
      have := (insKV_perm e r).mem_iff.mp hx
      rw [mem_cons] at this
      rcases this with rfl | hxr
      · exact ltChars_asymm _ _ hlt
      · exact h.1 x hxr
    · rename_i hnlt
      have hef : leKV e f := by simpa [leKV] using hnlt
      rw [pairwise_cons]
      refine ⟨fun x hx => ?_, pairwise_cons.mpr h⟩
      rw [mem_cons] at hx
      rcases hx with rfl | hxr
      · exact hef
      · exact ltChars_le_trans _ _ _ hef (h.1 x hxr)

theorem sortKV_sorted : ∀ (l : List (String × PyVal)), (sortKV l).Pairwise leKV
  | [] => Pairwise.nil
  | e :: r => insKV_sorted e _ (sortKV_sorted r)

/-! ### distinct keys -/

def KeysDistinct (l : List (String × PyVal)) : Prop := l.Pairwise fun e f => e.1 ≠ f.1

theorem keysDistinct_of_noDupKeysD : ∀ (l : List (String × PyVal)), noDupKeysD l = true → KeysDistinct l
  | [], _ => Pairwise.nil
  | (k, v) :: r, h => by
    simp only [noDupKeysD, Bool.and_eq_true] at h
    refine pairwise_cons.mpr ⟨fun f hf hk => ?_, keysDistinct_of_noDupKeysD r h.2⟩
    obtain ⟨k', w⟩ := f
    simp only at hk
    subst hk
    have := lookup_isSome_of_mem k w r hf
    have hn := h.1.1
    cases hl : PyVal.lookup k r <;> simp [hl] at this hn

theorem normD_eq_map : ∀ (l : List (String × PyVal)), normD l = l.map fun e => (e.1, norm e.2)
  | [] => rfl
  | (k, v) :: r => by simp [normD, normD_eq_map r]

theorem keysDistinct_normD (l : List (String × PyVal)) (h : KeysDistinct l) : KeysDistinct (normD l) := by
  unfold KeysDistinct
  rw [normD_eq_map, pairwise_map]
  exact h

theorem KeysDistinct.nodup {l : List (String × PyVal)} (h : KeysDistinct l) : l.Nodup :=
  Pairwise.imp (fun hne heq => hne (by rw [heq])) h

theorem KeysDistinct.perm {l l' : List (String × PyVal)} (h : KeysDistinct l) (p : l ~ l') : KeysDistinct l' :=
  Pairwise.perm h p (fun hne => Ne.symm hne)

theorem KeysDistinct.eq_of_key_eq : ∀ {l : List (String × PyVal)}, KeysDistinct l → ∀ {a b}, a ∈ l → b ∈ l → a.1 = b.1 → a = b
  | [], _, _, _, ha, _, _ => by cases ha
  | e :: r, h, a, b, ha, hb, hk => by
    have h' := pairwise_cons.mp h
    rw [mem_cons] at ha hb
    rcases ha with rfl | ha <;> rcases hb with rfl | hb
    · rfl
    · exact absurd hk (h'.1 b hb)
    · exact absurd hk.symm (h'.1 a ha)
    · exact KeysDistinct.eq_of_key_eq h'.2 ha hb hk

/-! ### pigeonhole -/

theorem subset_of_nodup_of_length_le {α : Type} {l₁ l₂ : List α} (h1 : l₁.Nodup) (hs : l₁ ⊆ l₂)
    (hl : l₂.length ≤ l₁.length) : l₂ ⊆ l₁ := by
  classical
  intro y hy
  apply Classical.byContradiction
  intro hn
  have hsub : l₁ ⊆ l₂.erase y := fun x hx => (mem_erase_of_ne (by rintro rfl; exact hn hx)).2 (hs hx)
  have hle := h1.length_le_of_subset hsub
  rw [length_erase] at hle
  simp only [hy, if_true] at hle
  have := length_pos_of_mem hy
  omega

/-- two key-sorted entry lists with distinct keys and the same members (one inclusion and the lengths suffice) are equal -/
theorem sortKV_eq_of_subset (l₁ l₂ : List (String × PyVal)) (d1 : KeysDistinct l₁) (d2 : KeysDistinct l₂)
    (hs : l₁ ⊆ l₂) (hl : l₂.length ≤ l₁.length) : sortKV l₁ = sortKV l₂ := by
  have hs' := subset_of_nodup_of_length_le d1.nodup hs hl
  have p : l₁ ~ l₂ := (perm_ext_iff_of_nodup d1.nodup d2.nodup).mpr fun a => ⟨fun h => hs h, fun h => hs' h⟩
  have ps : sortKV l₁ ~ sortKV l₂ := (sortKV_perm l₁).trans (p.trans (sortKV_perm l₂).symm)
  refine Perm.eq_of_pairwise (le := leKV) (fun a b ha hb hab hba => ?_) (sortKV_sorted l₁) (sortKV_sorted l₂) ps
  have hk : a.1 = b.1 := String.toList_inj.mp (ltChars_antisymm _ _ hba hab)
  exact (d1.perm (sortKV_perm l₁).symm).eq_of_key_eq ha (ps.symm.subset hb) hk

/-! ### equal up to dict-entry order ⇒ equal normal forms -/

mutual
theorem permEq_norm_eq : ∀ (a b : PyVal), floatFree a = true → noDupKeys a = true → noDupKeys b = true →
    permEq a b = true → norm a = norm b
  | .none, b, _, _, _, h => by cases b <;> simp [permEq] at h <;> rfl
  | .bool x, b, _, _, _, h => by cases b <;> simp [permEq] at h <;> simp [norm, h]
  | .int x, b, _, _, _, h => by cases b <;> simp [permEq] at h <;> simp [norm, h]
  | .float x, _, fa, _, _, _ => by simp [floatFree] at fa
  | .str x, b, _, _, _, h => by cases b <;> simp [permEq] at h <;> simp [norm, h]
  | .dt x m, _, fa, _, _, _ => by simp [floatFree] at fa
  | .list xs, b, fa, na, nb, h => by
    cases b <;> simp [permEq] at h
    rename_i ys
    simp only [noDupKeys, floatFree] at fa na nb
    simp only [norm]
    rw [permEqL_normL_eq xs ys fa na nb h]
  | .dict xs, b, fa, na, nb, h => by
    cases b <;> simp [permEq] at h
    rename_i ys
    simp only [noDupKeys, floatFree] at fa na nb
    simp only [norm]
    rw [sortKV_eq_of_subset (normD xs) (normD ys)
      (keysDistinct_normD _ (keysDistinct_of_noDupKeysD xs na)) (keysDistinct_normD _ (keysDistinct_of_noDupKeysD ys nb))
      (fun e he => permEqD_normD_sub xs ys fa na nb h.2 e he) (by simp [length_normD, h.1])]
theorem permEqL_normL_eq : ∀ (xs ys : List PyVal), floatFreeL xs = true → noDupKeysL xs = true → noDupKeysL ys = true →
    permEqL xs ys = true → normL xs = normL ys
  | [], [], _, _, _, _ => rfl
  | [], _ :: _, _, _, _, h => by simp [permEqL] at h
  | _ :: _, [], _, _, _, h => by simp [permEqL] at h
  | x :: xs, y :: ys, fa, na, nb, h => by
    simp only [noDupKeysL, floatFreeL, Bool.and_eq_true] at fa na nb
    simp only [permEqL, Bool.and_eq_true] at h
    simp only [normL]
    rw [permEq_norm_eq x y fa.1 na.1 nb.1 h.1, permEqL_normL_eq xs ys fa.2 na.2 nb.2 h.2]
theorem permEqD_normD_sub : ∀ (xs ys : List (String × PyVal)), floatFreeD xs = true → noDupKeysD xs = true →
    noDupKeysD ys = true → permEqD xs ys = true → ∀ e ∈ normD xs, e ∈ normD ys
  | [], _, _, _, _, _, _, he => by cases he
  | (k, v) :: xs, ys, fa, na, nb, h, e, he => by
    simp only [noDupKeysD, floatFreeD, Bool.and_eq_true] at fa na
    simp only [permEqD, Bool.and_eq_true] at h
    simp only [normD, mem_cons] at he
    rcases he with rfl | he
    · cases hl : PyVal.lookup k ys with
      | none => simp [hl] at h
      | some w =>
        simp only [hl] at h
        have hw := mem_of_lookup k w ys hl
        rw [permEq_norm_eq v w fa.1 na.1.2 (noDupKeys_of_mem k w ys nb hw) h.1]
        exact mem_normD_of_mem k w ys hw
    · exact permEqD_normD_sub xs ys fa.2 na.2 nb h.2 e he
end

end Rbacx
