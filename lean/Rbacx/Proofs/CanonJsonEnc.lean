import Rbacx.Proofs.CanonJsonStr
/-
  Rbacx.Proofs.CanonJsonEnc — the encoder `enc` (entries in the order given) is uniquely parseable on float-free
  values: `enc a ++ r₁ = enc b ++ r₂ → a = b ∧ r₁ = r₂` whenever the continuations cannot extend a number.
  In particular `enc` is injective (`enc_injective`).
-/
namespace Rbacx

/-! ### the first character tells the constructor -/

def kind : PyVal → Nat
  | .none => 0 | .bool _ => 1 | .int _ => 2 | .str _ => 3 | .list _ => 4 | .dict _ => 5 | _ => 6

def headKind (c : Char) : Nat :=
  if c = 'n' then 0 else if c = 't' ∨ c = 'f' then 1 else if c = '-' ∨ c.isDigit = true then 2
  else if c = '"' then 3 else if c = '[' then 4 else if c = '{' then 5 else 6

theorem headKind_digit (c : Char) (h : c.isDigit = true) : headKind c = 2 := by
  have h1 : c ≠ 'n' := by rintro rfl; exact absurd h (by decide)
  have h2 : c ≠ 't' := by rintro rfl; exact absurd h (by decide)
  have h3 : c ≠ 'f' := by rintro rfl; exact absurd h (by decide)
  simp [headKind, h1, h2, h3, h]

theorem enc_head (a : PyVal) (fa : floatFree a = true) : ∃ c r, enc a = c :: r ∧ headKind c = kind a := by
  cases a with
  | none => exact ⟨_, _, rfl, by decide⟩
  | bool b => cases b <;> exact ⟨_, _, rfl, by decide⟩
  | int n =>
    obtain ⟨c, r, hc, hk⟩ := encInt_head n
    refine ⟨c, r, by simpa [enc] using hc, ?_⟩
    rcases hk with rfl | hd
    · rfl
    · exact headKind_digit c hd
  | str s => exact ⟨_, _, rfl, rfl⟩
  | list xs => exact ⟨_, _, rfl, rfl⟩
  | dict kvs => exact ⟨_, _, rfl, rfl⟩
  | float f => simp [floatFree] at fa
  | dt a m => simp [floatFree] at fa

theorem kind_lt_of_floatFree (a : PyVal) (fa : floatFree a = true) : kind a < 6 := by
  cases a <;> simp [floatFree] at fa <;> simp [kind]

theorem enc_kind_eq (a b : PyVal) (r₁ r₂ : List Char) (fa : floatFree a = true) (fb : floatFree b = true)
    (h : enc a ++ r₁ = enc b ++ r₂) : kind a = kind b := by
  obtain ⟨c, r, hc, hk⟩ := enc_head a fa
  obtain ⟨c', r', hc', hk'⟩ := enc_head b fb
  rw [hc, hc'] at h
  simp only [List.cons_append, List.cons.injEq] at h
  rw [← hk, ← hk', h.1]

/-- a value never starts with a character of head-kind 6 (`]`, `}`, `,`, `:` …) -/
theorem enc_head_ne (a : PyVal) (fa : floatFree a = true) (c : Char) (hc : headKind c = 6) (X Y : List Char) :
    enc a ++ X ≠ c :: Y := by
  intro h
  obtain ⟨c', r, hc', hk⟩ := enc_head a fa
  rw [hc'] at h
  simp only [List.cons_append, List.cons.injEq] at h
  have := kind_lt_of_floatFree a fa
  rw [← hk, h.1, hc] at this
  exact absurd this (by decide)

theorem noDigitHead_encL (xs : List PyVal) (r : List Char) : NoDigitHead (encL xs ++ r) := by
  cases xs <;> simp [encL, NoDigitHead] <;> decide

theorem noDigitHead_encD (kvs : List (String × PyVal)) (r : List Char) : NoDigitHead (encD kvs ++ r) := by
  cases kvs <;> simp [encD, NoDigitHead] <;> decide

/-! ### unique parse -/

mutual
theorem enc_inj : ∀ (a b : PyVal) (r₁ r₂ : List Char), floatFree a = true → floatFree b = true →
    NoDigitHead r₁ → NoDigitHead r₂ → enc a ++ r₁ = enc b ++ r₂ → a = b ∧ r₁ = r₂
  | .none, b, r₁, r₂, fa, fb, _, _, h => by
    cases b with
    | none => simpa [enc] using h
    | _ => exact absurd (enc_kind_eq _ _ r₁ r₂ fa fb h) (by simp [kind])
  | .bool x, b, r₁, r₂, fa, fb, _, _, h => by
    cases b with
    | bool y => cases x <;> cases y <;> first | (simp [enc] at h; done) | simpa [enc] using h
    | _ => exact absurd (enc_kind_eq _ _ r₁ r₂ fa fb h) (by simp [kind])
  | .int m, b, r₁, r₂, fa, fb, n1, n2, h => by
    cases b with
    | int n =>
      obtain ⟨hmn, hr⟩ := encInt_inj m n r₁ r₂ n1 n2 (by simpa [enc] using h)
      exact ⟨by rw [hmn], hr⟩
    | _ => exact absurd (enc_kind_eq _ _ r₁ r₂ fa fb h) (by simp [kind])
  | .str s, b, r₁, r₂, fa, fb, _, _, h => by
    cases b with
    | str t =>
      obtain ⟨hst, hr⟩ := quoteStr_inj s.toList t.toList r₁ r₂ (by simpa [enc] using h)
      exact ⟨by rw [String.toList_inj.mp hst], hr⟩
    | _ => exact absurd (enc_kind_eq _ _ r₁ r₂ fa fb h) (by simp [kind])
  | .list xs, b, r₁, r₂, fa, fb, _, _, h => by
    cases b with
    | list ys =>
      simp only [enc, List.cons_append, List.cons.injEq, true_and] at h
      simp only [floatFree] at fa fb
      obtain ⟨hxy, hr⟩ := encL0_inj xs ys r₁ r₂ fa fb h
      exact ⟨by rw [hxy], hr⟩
    | _ => exact absurd (enc_kind_eq _ _ r₁ r₂ fa fb h) (by simp [kind])
  | .dict xs, b, r₁, r₂, fa, fb, _, _, h => by
    cases b with
    | dict ys =>
      simp only [enc, List.cons_append, List.cons.injEq, true_and] at h
      simp only [floatFree] at fa fb
      obtain ⟨hxy, hr⟩ := encD0_inj xs ys r₁ r₂ fa fb h
      exact ⟨by rw [hxy], hr⟩
    | _ => exact absurd (enc_kind_eq _ _ r₁ r₂ fa fb h) (by simp [kind])
  | .float _, _, _, _, fa, _, _, _, _ => by simp [floatFree] at fa
  | .dt _ _, _, _, _, fa, _, _, _, _ => by simp [floatFree] at fa
theorem encL0_inj : ∀ (xs ys : List PyVal) (r₁ r₂ : List Char), floatFreeL xs = true → floatFreeL ys = true →
    encL0 xs ++ r₁ = encL0 ys ++ r₂ → xs = ys ∧ r₁ = r₂
  | [], [], _, _, _, _, h => by simpa [encL0] using h
  | [], y :: ys, r₁, r₂, _, fb, h => by
    simp only [floatFreeL, Bool.and_eq_true] at fb
    simp only [encL0, List.cons_append, List.nil_append, List.append_assoc] at h
    exact absurd h.symm (enc_head_ne y fb.1 ']' (by decide) _ _)
  | x :: xs, [], r₁, r₂, fa, _, h => by
    simp only [floatFreeL, Bool.and_eq_true] at fa
    simp only [encL0, List.cons_append, List.nil_append, List.append_assoc] at h
    exact absurd h (enc_head_ne x fa.1 ']' (by decide) _ _)
  | x :: xs, y :: ys, r₁, r₂, fa, fb, h => by
    simp only [floatFreeL, Bool.and_eq_true] at fa fb
    simp only [encL0, List.append_assoc] at h
    obtain ⟨hxy, hrest⟩ := enc_inj x y _ _ fa.1 fb.1 (noDigitHead_encL xs r₁) (noDigitHead_encL ys r₂) h
    obtain ⟨hxs, hr⟩ := encL_inj xs ys r₁ r₂ fa.2 fb.2 hrest
    exact ⟨by rw [hxy, hxs], hr⟩
theorem encL_inj : ∀ (xs ys : List PyVal) (r₁ r₂ : List Char), floatFreeL xs = true → floatFreeL ys = true →
    encL xs ++ r₁ = encL ys ++ r₂ → xs = ys ∧ r₁ = r₂
  | [], [], _, _, _, _, h => by simpa [encL] using h
  | [], y :: ys, _, _, _, _, h => by simp [encL] at h
  | x :: xs, [], _, _, _, _, h => by simp [encL] at h
  | x :: xs, y :: ys, r₁, r₂, fa, fb, h => by
    simp only [floatFreeL, Bool.and_eq_true] at fa fb
    simp only [encL, List.cons_append, List.append_assoc, List.cons.injEq, true_and] at h
    obtain ⟨hxy, hrest⟩ := enc_inj x y _ _ fa.1 fb.1 (noDigitHead_encL xs r₁) (noDigitHead_encL ys r₂) h
    obtain ⟨hxs, hr⟩ := encL_inj xs ys r₁ r₂ fa.2 fb.2 hrest
    exact ⟨by rw [hxy, hxs], hr⟩
theorem encD0_inj : ∀ (xs ys : List (String × PyVal)) (r₁ r₂ : List Char), floatFreeD xs = true → floatFreeD ys = true →
    encD0 xs ++ r₁ = encD0 ys ++ r₂ → xs = ys ∧ r₁ = r₂
  | [], [], _, _, _, _, h => by simpa [encD0] using h
  | [], (k, v) :: ys, _, _, _, _, h => by simp [encD0, quoteStr] at h
  | (k, v) :: xs, [], _, _, _, _, h => by simp [encD0, quoteStr] at h
  | (k, v) :: xs, (k', v') :: ys, r₁, r₂, fa, fb, h => by
    simp only [floatFreeD, Bool.and_eq_true] at fa fb
    simp only [encD0, List.cons_append, List.append_assoc] at h
    obtain ⟨hk, hrest⟩ := quoteStr_inj _ _ _ _ h
    simp only [List.cons.injEq, true_and] at hrest
    obtain ⟨hv, hrest'⟩ := enc_inj v v' _ _ fa.1 fb.1 (noDigitHead_encD xs r₁) (noDigitHead_encD ys r₂) hrest
    obtain ⟨hxs, hr⟩ := encD_inj xs ys r₁ r₂ fa.2 fb.2 hrest'
    exact ⟨by rw [String.toList_inj.mp hk, hv, hxs], hr⟩
theorem encD_inj : ∀ (xs ys : List (String × PyVal)) (r₁ r₂ : List Char), floatFreeD xs = true → floatFreeD ys = true →
    encD xs ++ r₁ = encD ys ++ r₂ → xs = ys ∧ r₁ = r₂
  | [], [], _, _, _, _, h => by simpa [encD] using h
  | [], (k, v) :: ys, _, _, _, _, h => by simp [encD] at h
  | (k, v) :: xs, [], _, _, _, _, h => by simp [encD] at h
  | (k, v) :: xs, (k', v') :: ys, r₁, r₂, fa, fb, h => by
    simp only [floatFreeD, Bool.and_eq_true] at fa fb
    simp only [encD, List.cons_append, List.append_assoc, List.cons.injEq, true_and] at h
    obtain ⟨hk, hrest⟩ := quoteStr_inj _ _ _ _ h
    simp only [List.cons.injEq, true_and] at hrest
    obtain ⟨hv, hrest'⟩ := enc_inj v v' _ _ fa.1 fb.1 (noDigitHead_encD xs r₁) (noDigitHead_encD ys r₂) hrest
    obtain ⟨hxs, hr⟩ := encD_inj xs ys r₁ r₂ fa.2 fb.2 hrest'
    exact ⟨by rw [String.toList_inj.mp hk, hv, hxs], hr⟩
end

/-- the encoder is injective on float-free values -/
theorem enc_injective (a b : PyVal) (fa : floatFree a = true) (fb : floatFree b = true) (h : enc a = enc b) : a = b :=
  (enc_inj a b [] [] fa fb trivial trivial (by simpa using h)).1

end Rbacx
