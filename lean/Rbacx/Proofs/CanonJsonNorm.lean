import Rbacx.Model.CanonJson
/-
  Rbacx.Proofs.CanonJsonNorm — the key-sorting normal form `norm`:

  * `sortKV` is a permutation (`sortKV_perm`), so `norm` keeps a value float-free (`floatFree_norm`);
  * on duplicate-free values, equal normal forms ⇒ equal up to dict-entry order (`norm_eq_permEq`).
-/
namespace Rbacx
open List

/-! ### insertion sort is a permutation -/

theorem insKV_perm (e : String × PyVal) : ∀ l, insKV e l ~ e :: l
  | [] => Perm.refl _
  | f :: r => by
    simp only [insKV]
    split
    · exact ((insKV_perm e r).cons f).trans (Perm.swap e f r)
    · exact Perm.refl _

theorem sortKV_perm : ∀ l, sortKV l ~ l
  | [] => Perm.refl _
  | e :: r => (insKV_perm e (sortKV r)).trans ((sortKV_perm r).cons e)

theorem mem_sortKV (x : String × PyVal) (l : List (String × PyVal)) : x ∈ sortKV l ↔ x ∈ l :=
  (sortKV_perm l).mem_iff

theorem length_sortKV (l : List (String × PyVal)) : (sortKV l).length = l.length := (sortKV_perm l).length_eq

/-! ### `norm` stays inside the domain -/

theorem floatFreeD_iff (l : List (String × PyVal)) : floatFreeD l = true ↔ ∀ e ∈ l, floatFree e.2 = true := by
  induction l with
  | nil => simp [floatFreeD]
  | cons e r ih => obtain ⟨k, v⟩ := e; simp [floatFreeD, ih]

mutual
theorem floatFree_norm : ∀ (a : PyVal), floatFree a = true → floatFree (norm a) = true
  | .none, h => h
  | .bool _, h => h
  | .int _, h => h
  | .str _, h => h
  | .float _, h => h
  | .dt _ _, h => h
  | .list xs, h => by
    simp only [norm, floatFree] at h ⊢
    exact floatFreeL_normL xs h
  | .dict kvs, h => by
    simp only [norm, floatFree] at h ⊢
    rw [floatFreeD_iff]
    intro e he
    exact (floatFreeD_iff _).mp (floatFreeD_normD kvs h) e ((mem_sortKV _ _).mp he)
theorem floatFreeL_normL : ∀ (xs : List PyVal), floatFreeL xs = true → floatFreeL (normL xs) = true
  | [], h => h
  | x :: xs, h => by
    simp only [floatFreeL, normL, Bool.and_eq_true] at h ⊢
    exact ⟨floatFree_norm x h.1, floatFreeL_normL xs h.2⟩
theorem floatFreeD_normD : ∀ (kvs : List (String × PyVal)), floatFreeD kvs = true → floatFreeD (normD kvs) = true
  | [], h => h
  | (k, v) :: kvs, h => by
    simp only [floatFreeD, normD, Bool.and_eq_true] at h ⊢
    exact ⟨floatFree_norm v h.1, floatFreeD_normD kvs h.2⟩
end

/-! ### entries of a duplicate-free dict -/

theorem length_normD : ∀ (kvs : List (String × PyVal)), (normD kvs).length = kvs.length
  | [] => rfl
  | (k, v) :: kvs => by simp [normD, length_normD kvs]

theorem mem_normD_of_mem (k : String) (v : PyVal) : ∀ (kvs : List (String × PyVal)), (k, v) ∈ kvs → (k, norm v) ∈ normD kvs
  | [], h => by cases h
  | (k', v') :: kvs, h => by
    simp only [normD, mem_cons, Prod.mk.injEq] at h ⊢
    rcases h with ⟨hk, hv⟩ | h
    · exact .inl ⟨hk, by rw [hv]⟩
    · exact .inr (mem_normD_of_mem k v kvs h)

theorem mem_of_mem_normD (k : String) (u : PyVal) : ∀ (kvs : List (String × PyVal)), (k, u) ∈ normD kvs →
    ∃ w, (k, w) ∈ kvs ∧ u = norm w
  | [], h => by cases h
  | (k', v') :: kvs, h => by
    simp only [normD, mem_cons, Prod.mk.injEq] at h
    rcases h with ⟨hk, hv⟩ | h
    · exact ⟨v', by rw [hk]; exact mem_cons_self .., hv⟩
    · obtain ⟨w, hw, hu⟩ := mem_of_mem_normD k u kvs h
      exact ⟨w, mem_cons_of_mem _ hw, hu⟩

theorem lookup_isSome_of_mem (k : String) (w : PyVal) : ∀ (kvs : List (String × PyVal)), (k, w) ∈ kvs →
    (PyVal.lookup k kvs).isSome = true
  | [], h => by cases h
  | (k', v') :: kvs, h => by
    simp only [mem_cons, Prod.mk.injEq] at h
    simp only [PyVal.lookup]
    split
    · rfl
    · rename_i hne
      rcases h with ⟨hk, _⟩ | h
      · exact absurd hk.symm hne
      · exact lookup_isSome_of_mem k w kvs h

/-- in a duplicate-free dict, `lookup` finds exactly the entries -/
theorem lookup_of_mem (k : String) (w : PyVal) : ∀ (kvs : List (String × PyVal)), noDupKeysD kvs = true → (k, w) ∈ kvs →
    PyVal.lookup k kvs = some w
  | [], _, h => by cases h
  | (k', v') :: kvs, nd, h => by
    simp only [noDupKeysD, Bool.and_eq_true] at nd
    simp only [mem_cons, Prod.mk.injEq] at h
    simp only [PyVal.lookup]
    rcases h with ⟨hk, hv⟩ | h
    · simp [hk, hv]
    · split
      · rename_i hkk
        have := lookup_isSome_of_mem k w kvs h
        rw [← hkk] at this
        have hn := nd.1.1
        cases hl : PyVal.lookup k' kvs <;> simp [hl] at this hn
      · exact lookup_of_mem k w kvs nd.2 h

theorem mem_of_lookup (k : String) (w : PyVal) : ∀ (kvs : List (String × PyVal)), PyVal.lookup k kvs = some w → (k, w) ∈ kvs
  | [], h => by simp [PyVal.lookup] at h
  | (k', v') :: kvs, h => by
    simp only [PyVal.lookup] at h
    split at h
    · rename_i hk
      simp only [Option.some.injEq] at h
      rw [← hk, h]
      exact mem_cons_self ..
    · exact mem_cons_of_mem _ (mem_of_lookup k w kvs h)

theorem noDupKeys_of_mem (k : String) (w : PyVal) : ∀ (kvs : List (String × PyVal)), noDupKeysD kvs = true → (k, w) ∈ kvs →
    noDupKeys w = true
  | [], _, h => by cases h
  | (k', v') :: kvs, nd, h => by
    simp only [noDupKeysD, Bool.and_eq_true] at nd
    simp only [mem_cons, Prod.mk.injEq] at h
    rcases h with ⟨_, hv⟩ | h
    · rw [hv]; exact nd.1.2
    · exact noDupKeys_of_mem k w kvs nd.2 h

/-! ### equal normal forms ⇒ equal up to dict-entry order -/

mutual
theorem norm_eq_permEq : ∀ (a b : PyVal), noDupKeys a = true → noDupKeys b = true → norm a = norm b → permEq a b = true
  | .none, b, _, _, h => by cases b <;> simp [norm] at h <;> simp [permEq]
  | .bool x, b, _, _, h => by cases b <;> simp [norm] at h <;> simp [permEq, h]
  | .int x, b, _, _, h => by cases b <;> simp [norm] at h <;> simp [permEq, h]
  | .float x, b, _, _, h => by cases b <;> simp [norm] at h <;> simp [permEq, h]
  | .str x, b, _, _, h => by cases b <;> simp [norm] at h <;> simp [permEq, h]
  | .dt x m, b, _, _, h => by cases b <;> simp [norm] at h <;> simp [permEq, h]
  | .list xs, b, na, nb, h => by
    cases b <;> simp [norm] at h
    rename_i ys
    simp only [noDupKeys] at na nb
    simp only [permEq]
    exact normL_eq_permEqL xs ys na nb h
  | .dict xs, b, na, nb, h => by
    cases b <;> simp [norm] at h
    rename_i ys
    simp only [noDupKeys] at na nb
    simp only [permEq, Bool.and_eq_true, beq_iff_eq]
    refine ⟨?_, normD_sub_permEqD xs ys na nb ?_⟩
    · have := congrArg List.length h
      simpa [length_sortKV, length_normD] using this
    · intro e he
      have : e ∈ sortKV (normD xs) := (mem_sortKV _ _).mpr he
      rw [h] at this
      exact (mem_sortKV _ _).mp this
theorem normL_eq_permEqL : ∀ (xs ys : List PyVal), noDupKeysL xs = true → noDupKeysL ys = true → normL xs = normL ys →
    permEqL xs ys = true
  | [], [], _, _, _ => rfl
  | [], _ :: _, _, _, h => by simp [normL] at h
  | _ :: _, [], _, _, h => by simp [normL] at h
  | x :: xs, y :: ys, na, nb, h => by
    simp only [noDupKeysL, Bool.and_eq_true] at na nb
    simp only [normL, cons.injEq] at h
    simp only [permEqL, Bool.and_eq_true]
    exact ⟨norm_eq_permEq x y na.1 nb.1 h.1, normL_eq_permEqL xs ys na.2 nb.2 h.2⟩
theorem normD_sub_permEqD : ∀ (xs ys : List (String × PyVal)), noDupKeysD xs = true → noDupKeysD ys = true →
    (∀ e ∈ normD xs, e ∈ normD ys) → permEqD xs ys = true
  | [], _, _, _, _ => rfl
  | (k, v) :: xs, ys, na, nb, h => by
    simp only [noDupKeysD, Bool.and_eq_true] at na
    simp only [normD, mem_cons, forall_eq_or_imp] at h
    obtain ⟨w, hw, hnorm⟩ := mem_of_mem_normD k (norm v) ys h.1
    simp only [permEqD, lookup_of_mem k w ys nb hw, Bool.and_eq_true]
    exact ⟨norm_eq_permEq v w na.1.2 (noDupKeys_of_mem k w ys nb hw) hnorm, normD_sub_permEqD xs ys na.2 nb h.2⟩
end

end Rbacx
