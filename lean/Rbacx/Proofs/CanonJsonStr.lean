import Rbacx.Model.CanonJson
/-
  Rbacx.Proofs.CanonJsonStr — the leaves of the canonical encoding are uniquely parseable:

  * `escChar` is a prefix code, hence an escaped string followed by its closing quote determines the string and
    what follows (`quoteStr_inj`);
  * a decimal integer followed by something that is not a digit determines the integer and what follows
    (`encInt_inj`).
-/
namespace Rbacx

/-! ### escaped characters -/

/-- what a two-character escape `\e` stands for -/
def unescShort (e : Char) : Char :=
  if e = '"' then '"' else if e = '\\' then '\\' else if e = 'n' then '\n' else if e = 'r' then '\r'
  else if e = 't' then '\t' else if e = 'b' then '\x08' else '\x0c'

theorem escChar_shape (c : Char) :
    (escChar c = [c] ∧ c ≠ '\\' ∧ c ≠ '"') ∨
    (∃ e, escChar c = ['\\', e] ∧ e ≠ 'u' ∧ c = unescShort e) ∨
    (escChar c = ['\\', 'u', '0', '0', Nat.digitChar (c.toNat / 16), Nat.digitChar (c.toNat % 16)] ∧ c.toNat < 32) := by
  unfold escChar
  split
  · rename_i h; subst h; exact .inr (.inl ⟨'"', rfl, by decide, by decide⟩)
  split
  · rename_i h; subst h; exact .inr (.inl ⟨'\\', rfl, by decide, by decide⟩)
  split
  · rename_i h; subst h; exact .inr (.inl ⟨'n', rfl, by decide, by decide⟩)
  split
  · rename_i h; subst h; exact .inr (.inl ⟨'r', rfl, by decide, by decide⟩)
  split
  · rename_i h; subst h; exact .inr (.inl ⟨'t', rfl, by decide, by decide⟩)
  split
  · rename_i h; subst h; exact .inr (.inl ⟨'b', rfl, by decide, by decide⟩)
  split
  · rename_i h; subst h; exact .inr (.inl ⟨'f', rfl, by decide, by decide⟩)
  split
  · rename_i h; exact .inr (.inr ⟨rfl, h⟩)
  · rename_i h1 h2 _ _ _ _ _ _; exact .inl ⟨rfl, h2, h1⟩

theorem digitChar_inj16 : ∀ a, a < 16 → ∀ b, b < 16 → Nat.digitChar a = Nat.digitChar b → a = b := by decide

/-- `escChar` is a prefix code -/
theorem escChar_prefix (c d : Char) (X Y : List Char) (h : escChar c ++ X = escChar d ++ Y) : c = d ∧ X = Y := by
  rcases escChar_shape c with ⟨hc, hc1, _⟩ | ⟨e, hc, he, hce⟩ | ⟨hc, hlt⟩ <;>
  rcases escChar_shape d with ⟨hd, hd1, _⟩ | ⟨e', hd, he', hde⟩ | ⟨hd, hlt'⟩ <;>
  rw [hc, hd] at h <;>
  simp only [List.cons_append, List.nil_append, List.cons.injEq] at h
  · exact ⟨h.1, h.2⟩
  · exact absurd h.1 hc1
  · exact absurd h.1 hc1
  · exact absurd h.1.symm hd1
  · obtain ⟨_, h2, h3⟩ := h
    subst h2
    exact ⟨hce.trans hde.symm, h3⟩
  · exact absurd h.2.1 he
  · exact absurd h.1.symm hd1
  · exact absurd h.2.1.symm he'
  · obtain ⟨_, _, _, _, h5, h6, h7⟩ := h
    have a1 := digitChar_inj16 _ (by omega) _ (by omega) h5
    have a2 := digitChar_inj16 _ (Nat.mod_lt _ (by decide)) _ (Nat.mod_lt _ (by decide)) h6
    exact ⟨Char.toNat_inj.mp (by omega), h7⟩

/-- an escaped character never starts with the closing quote -/
theorem escChar_head_ne_quote (c : Char) (X Y : List Char) : escChar c ++ X ≠ '"' :: Y := by
  intro h
  rcases escChar_shape c with ⟨hc, _, hq⟩ | ⟨e, hc, _, _⟩ | ⟨hc, _⟩ <;> rw [hc] at h <;>
  simp only [List.cons_append, List.nil_append, List.cons.injEq] at h
  · exact hq h.1
  · exact absurd h.1 (by decide)
  · exact absurd h.1 (by decide)

/-- the closing quote is the first unescaped `"`: the escaped body followed by `"` determines the string and the rest -/
theorem escStr_inj : ∀ (s t r₁ r₂ : List Char), escStr s ++ '"' :: r₁ = escStr t ++ '"' :: r₂ → s = t ∧ r₁ = r₂
  | [], [], r₁, r₂, h => by simpa [escStr] using h
  | [], d :: t, r₁, r₂, h => by
    simp only [escStr, List.nil_append, List.append_assoc] at h
    exact absurd h.symm (escChar_head_ne_quote d _ _)
  | c :: s, [], r₁, r₂, h => by
    simp only [escStr, List.nil_append, List.append_assoc] at h
    exact absurd h (escChar_head_ne_quote c _ _)
  | c :: s, d :: t, r₁, r₂, h => by
    simp only [escStr, List.append_assoc] at h
    obtain ⟨hcd, hrest⟩ := escChar_prefix c d _ _ h
    obtain ⟨hst, hr⟩ := escStr_inj s t r₁ r₂ hrest
    exact ⟨by rw [hcd, hst], hr⟩

theorem quoteStr_inj (s t r₁ r₂ : List Char) (h : quoteStr s ++ r₁ = quoteStr t ++ r₂) : s = t ∧ r₁ = r₂ := by
  simp only [quoteStr, List.cons_append, List.append_assoc, List.nil_append, List.cons.injEq, true_and] at h
  exact escStr_inj s t r₁ r₂ h

/-! ### decimal integers -/

/-- a continuation that cannot extend a number: empty, or not starting with a digit -/
def NoDigitHead : List Char → Prop
  | [] => True
  | c :: _ => c.isDigit = false

/-- two maximal runs of `p`-characters followed by non-`p` continuations: the split is unique -/
theorem run_split_unique (p : Char → Bool) : ∀ (l₁ l₂ r₁ r₂ : List Char),
    (∀ c ∈ l₁, p c = true) → (∀ c ∈ l₂, p c = true) →
    (∀ c r, r₁ = c :: r → p c = false) → (∀ c r, r₂ = c :: r → p c = false) →
    l₁ ++ r₁ = l₂ ++ r₂ → l₁ = l₂ ∧ r₁ = r₂
  | [], [], _, _, _, _, _, _, h => ⟨rfl, by simpa using h⟩
  | [], d :: l₂, r₁, r₂, _, h2, h3, _, h => by
    have := h3 d (l₂ ++ r₂) (by simpa using h)
    rw [h2 d (List.mem_cons_self ..)] at this
    cases this
  | c :: l₁, [], r₁, r₂, h1, _, _, h4, h => by
    have := h4 c (l₁ ++ r₁) (by simpa using h.symm)
    rw [h1 c (List.mem_cons_self ..)] at this
    cases this
  | c :: l₁, d :: l₂, r₁, r₂, h1, h2, h3, h4, h => by
    simp only [List.cons_append, List.cons.injEq] at h
    obtain ⟨hl, hr⟩ := run_split_unique p l₁ l₂ r₁ r₂ (fun x hx => h1 x (List.mem_cons_of_mem _ hx))
      (fun x hx => h2 x (List.mem_cons_of_mem _ hx)) h3 h4 h.2
    exact ⟨by rw [h.1, hl], hr⟩

theorem noDigitHead_iff (r : List Char) : NoDigitHead r ↔ ∀ c r', r = c :: r' → c.isDigit = false := by
  cases r with
  | nil => simp [NoDigitHead]
  | cons c r => simp [NoDigitHead]

theorem natDigits_inj (m n : Nat) (r₁ r₂ : List Char) (h1 : NoDigitHead r₁) (h2 : NoDigitHead r₂)
    (h : Nat.toDigits 10 m ++ r₁ = Nat.toDigits 10 n ++ r₂) : m = n ∧ r₁ = r₂ := by
  obtain ⟨hd, hr⟩ := run_split_unique Char.isDigit _ _ r₁ r₂
    (fun c hc => Nat.isDigit_of_mem_toDigits (by decide) (by decide) hc)
    (fun c hc => Nat.isDigit_of_mem_toDigits (by decide) (by decide) hc)
    ((noDigitHead_iff r₁).mp h1) ((noDigitHead_iff r₂).mp h2) h
  have := congrArg (fun l => Nat.ofDigitChars 10 l 0) hd
  simp only [Nat.ofDigitChars_ten_toDigits] at this
  exact ⟨this, hr⟩

/-- a decimal natural starts with a digit -/
theorem natDigits_head (n : Nat) : ∃ c r, Nat.toDigits 10 n = c :: r ∧ c.isDigit = true := by
  cases h : Nat.toDigits 10 n with
  | nil => exact absurd h Nat.toDigits_ne_nil
  | cons c r =>
    exact ⟨c, r, rfl, Nat.isDigit_of_mem_toDigits (b := 10) (n := n) (by decide) (by decide) (by rw [h]; exact List.mem_cons_self ..)⟩

theorem encInt_inj (m n : Int) (r₁ r₂ : List Char) (h1 : NoDigitHead r₁) (h2 : NoDigitHead r₂)
    (h : encInt m ++ r₁ = encInt n ++ r₂) : m = n ∧ r₁ = r₂ := by
  cases m with
  | ofNat a =>
    cases n with
    | ofNat b =>
      obtain ⟨hab, hr⟩ := natDigits_inj a b r₁ r₂ h1 h2 h
      exact ⟨by rw [hab], hr⟩
    | negSucc b =>
      obtain ⟨c, r, hc, hdig⟩ := natDigits_head a
      simp only [encInt, hc, List.cons_append, List.cons.injEq] at h
      rw [h.1] at hdig
      exact absurd hdig (by decide)
  | negSucc a =>
    cases n with
    | ofNat b =>
      obtain ⟨c, r, hc, hdig⟩ := natDigits_head b
      simp only [encInt, hc, List.cons_append, List.cons.injEq] at h
      rw [← h.1] at hdig
      exact absurd hdig (by decide)
    | negSucc b =>
      simp only [encInt, List.cons_append, List.cons.injEq, true_and] at h
      obtain ⟨hab, hr⟩ := natDigits_inj _ _ r₁ r₂ h1 h2 h
      exact ⟨by rw [Nat.add_right_cancel hab], hr⟩

/-- the first character of an integer: `-` or a digit -/
theorem encInt_head (n : Int) : ∃ c r, encInt n = c :: r ∧ (c = '-' ∨ c.isDigit = true) := by
  cases n with
  | ofNat a =>
    obtain ⟨c, r, hc, hdig⟩ := natDigits_head a
    exact ⟨c, r, hc, .inr hdig⟩
  | negSucc a => exact ⟨'-', _, rfl, .inl rfl⟩

end Rbacx
