import Rbacx.Model.Tools
import Rbacx.Proofs.PyLibLemmas
/-!
  Lemmas for the per-run obligation `Run/C17_cli_translated.lean` (the command functions of cli.py and the parser dispatch of
  store/policy_loader.py as translated by harness/pytolean_cli.py).  Nothing here mentions the generated text: the sequencing lemmas
  of `Rbacx.PyX` (Model/PyCli.lean), and the SIMULATION lemma `forEnumFrom_verdicts` — a loop whose body, on every item, leaves the
  accumulated list alone when the validator accepts, lets the exception escape when `escapesValidation` says so, and otherwise
  appends ONE entry, runs to the model's `cliVerdicts`: same escaping exception, or a list that is empty exactly when every verdict
  is `true`.  The loop is generic in the body and in what is appended (so a change to the error entries keeps the obligation).
-/
namespace Rbacx.PyX
open Rbacx PyVal

@[simp] theorem bind_ok {α β : Type} (v : α) (k : α → Except Exc β) : bind (.ok v) k = k v := rfl
@[simp] theorem bind_error {α β : Type} (e : Exc) (k : α → Except Exc β) : bind (.error e : Except Exc α) k = .error e := rfl
@[simp] theorem thenFlow_ret {σ : Type} (v : PyVal) (k : σ → Res) : thenFlow (.ok (.ret v)) k = .ok v := rfl
@[simp] theorem thenFlow_next {σ : Type} (s : σ) (k : σ → Res) : thenFlow (.ok (.next s)) k = k s := rfl
@[simp] theorem thenFlow_error {σ : Type} (e : Exc) (k : σ → Res) : thenFlow (.error e) k = .error e := rfl
@[simp] theorem thenFlowF_ret {σ τ : Type} (v : PyVal) (k : σ → Except Exc (Flow τ)) : thenFlowF (.ok (.ret v)) k = .ok (.ret v) := rfl
@[simp] theorem thenFlowF_next {σ τ : Type} (s : σ) (k : σ → Except Exc (Flow τ)) : thenFlowF (.ok (.next s)) k = k s := rfl
@[simp] theorem thenFlowF_error {σ τ : Type} (e : Exc) (k : σ → Except Exc (Flow τ)) : thenFlowF (.error e) k = .error e := rfl
@[simp] theorem tryCatch_ok {α : Type} (v : α) (hs : List (List String × (Exc → Except Exc α))) : tryCatch (.ok v) hs = .ok v := rfl

theorem tryCatch_error_nil {α : Type} (e : Exc) : tryCatch (.error e : Except Exc α) [] = .error e := rfl

theorem tryCatch_error_cons {α : Type} (e : Exc) (cl : List String) (h : Exc → Except Exc α) (hs : List (List String × (Exc → Except Exc α))) :
    tryCatch (.error e) ((cl, h) :: hs) = if catches cl e then h e else tryCatch (.error e) hs := by
  simp only [tryCatch, List.find?]
  cases catches cl e <;> simp

@[simp] theorem catches_one (c : String) (e : Exc) : catches [c] e = isSubclass e.cls c := by
  simp [catches]

/-- the loop of `_validate_doc` against the model's `cliVerdicts` -/
theorem forEnumFrom_verdicts (validate : PyVal → Res) (entry : Exc → Nat → PyVal)
    (body : PyVal → PyVal → PyVal → Except Exc (Flow PyVal))
    (hbody : ∀ (acc : List PyVal) (i : Nat) (d : PyVal),
      body (.list acc) (.int i) d =
        match validate d with
        | .ok _ => .ok (.next (.list acc))
        | .error e => if escapesValidation e then .error e else .ok (.next (.list (acc ++ [entry e i])))) :
    ∀ (ds : List PyVal) (i : Nat) (acc : List PyVal),
      match cliVerdicts validate ds with
      | .error e => forEnumFrom i ds (.list acc) body = .error e
      | .ok vs => ∃ more : List PyVal, forEnumFrom i ds (.list acc) body = .ok (.next (.list (acc ++ more))) ∧ more.isEmpty = vs.all id := by
  intro ds
  induction ds with
  | nil => intro i acc; exact ⟨[], by simp [forEnumFrom], rfl⟩
  | cons d ds ih =>
    intro i acc
    simp only [cliVerdicts, forEnumFrom, hbody]
    cases hv : validate d with
    | ok v =>
      simp only []
      have := ih (i + 1) acc
      cases hr : cliVerdicts validate ds with
      | error e => rw [hr] at this; simpa using this
      | ok vs =>
        rw [hr] at this
        obtain ⟨more, h1, h2⟩ := this
        exact ⟨more, h1, by simpa using h2⟩
    | error e =>
      cases he : escapesValidation e with
      | true => simp [he]
      | false =>
        simp only [he, Bool.false_eq_true, if_false]
        have := ih (i + 1) (acc ++ [entry e i])
        cases hr : cliVerdicts validate ds with
        | error e' => rw [hr] at this; simpa using this
        | ok vs =>
          rw [hr] at this
          obtain ⟨more, h1, _⟩ := this
          exact ⟨entry e i :: more, by simpa using h1, by simp⟩


/-- what `_validate_doc` (a `Res`: the list of error entries, or an escaping exception) has to do with the model's verdict list -/
def ValidateSpec (model : Except Exc (List Bool)) (impl : Res) : Prop :=
  match model with
  | .error e => impl = .error e
  | .ok vs => ∃ errs : List PyVal, impl = .ok (.list errs) ∧ errs.isEmpty = vs.all id

theorem forEnum_spec (validate : PyVal → Res) (entry : Exc → Nat → PyVal)
    (body : PyVal → PyVal → PyVal → Except Exc (Flow PyVal))
    (hbody : ∀ (acc : List PyVal) (i : Nat) (d : PyVal),
      body (.list acc) (.int i) d =
        match validate d with
        | .ok _ => .ok (.next (.list acc))
        | .error e => if escapesValidation e then .error e else .ok (.next (.list (acc ++ [entry e i]))))
    (ds : List PyVal) :
    ValidateSpec (cliVerdicts validate ds) (thenFlow (forEnum ds (.list []) body) fun errs => .ok errs) := by
  have := forEnumFrom_verdicts validate entry body hbody ds 0 []
  unfold ValidateSpec forEnum
  cases hr : cliVerdicts validate ds with
  | error e => rw [hr] at this; simp [this]
  | ok vs =>
    rw [hr] at this
    obtain ⟨more, h1, h2⟩ := this
    exact ⟨more, by simp [h1], h2⟩

end Rbacx.PyX
