import Rbacx.Model.PyIdent
import Rbacx.Model.Compiler
import Rbacx.Proofs.EvaluatorsTranslated
/-
  Rbacx.Proofs.CompileTranslated — what the per-run obligation `Run/C03_whole.lean` needs to prove the translation of `compile` and the
  closure it returns (`Generated.Src.compile_decide`, harness/pytolean_closure.py) equal to the model's `compiledDecide`.  Nothing here
  depends on the generated code:

  * identified objects (`PyI.tag`): the tagged list of a list of rules is strictly sorted by identity;
  * `forLoop` with a body that never breaks is a fold (`forLoop_fold`) / keeps an invariant (`forLoop_inv`);
  * the candidate collection with the `seen` set (`stepC`) followed by the stable sort by identity: from ANY two lists that hold
    exactly the tagged rules with the action / with '*' — in whatever order, with whatever repetitions — the result is the tagged
    rules filtered in document order (`collect_sort_eq_filter`);
  * the bucket fold (`stepB`) and the selection of the first eligible bucket.
-/
namespace Rbacx.PyI
open PyVal Rbacx.PyE

/-! ### identified objects -/

theorem idOf_tag (i : Nat) (v : PyVal) : idOf (tag i v) = .int i := rfl
theorem untag_tag (i : Nat) (v : PyVal) : untag (tag i v) = v := rfl

/-- the identity of an object as a number -/
def tagNat : PyVal → Nat
  | .list [.int i, _] => i.toNat
  | _ => 0

theorem tagNat_tag (i : Nat) (v : PyVal) : tagNat (tag i v) = i := by simp [tagNat, tag]

def IsTagged (x : PyVal) : Prop := ∃ i v, x = tag i v

theorem IsTagged.idOf {x : PyVal} (h : IsTagged x) : idOf x = .int (tagNat x) := by
  obtain ⟨i, v, rfl⟩ := h
  rw [idOf_tag, tagNat_tag]

theorem mem_tagFrom {x : PyVal} {i : Nat} {rs : List PyVal} (h : x ∈ tagFrom i rs) : ∃ k v, x = tag k v ∧ i ≤ k ∧ v ∈ rs := by
  induction rs generalizing i with
  | nil => cases h
  | cons r rs ih =>
    simp only [tagFrom, List.mem_cons] at h
    rcases h with h | h
    · exact ⟨i, r, h, Nat.le_refl _, List.mem_cons_self ..⟩
    · obtain ⟨k, v, hk, hle, hv⟩ := ih h
      exact ⟨k, v, hk, by omega, List.mem_cons_of_mem _ hv⟩

theorem tagged_of_mem_tagFrom {x : PyVal} {i : Nat} {rs : List PyVal} (h : x ∈ tagFrom i rs) : IsTagged x := by
  obtain ⟨k, v, hk, _, _⟩ := mem_tagFrom h
  exact ⟨k, v, hk⟩

theorem map_untag_tagFrom (i : Nat) (rs : List PyVal) : (tagFrom i rs).map untag = rs := by
  induction rs generalizing i with
  | nil => rfl
  | cons r rs ih => simp only [tagFrom, List.map_cons, untag_tag, ih]

theorem tagFrom_sorted (i : Nat) (rs : List PyVal) : (tagFrom i rs).Pairwise (fun a b => tagNat a < tagNat b) := by
  induction rs generalizing i with
  | nil => exact List.Pairwise.nil
  | cons r rs ih =>
    simp only [tagFrom]
    refine List.Pairwise.cons ?_ (ih (i + 1))
    intro b hb
    obtain ⟨k, v, rfl, hle, _⟩ := mem_tagFrom hb
    rw [tagNat_tag, tagNat_tag]
    omega

theorem tagFrom_length (i : Nat) (rs : List PyVal) : (tagFrom i rs).length = rs.length := by
  induction rs generalizing i with
  | nil => rfl
  | cons r rs ih => simp only [tagFrom, List.length_cons, ih]

/-! ### strictly sorted lists with the same members are equal -/

theorem sorted_ext {α : Type} (k : α → Nat) : ∀ (l1 l2 : List α), l1.Pairwise (fun a b => k a < k b) → l2.Pairwise (fun a b => k a < k b) →
    (∀ x, x ∈ l1 ↔ x ∈ l2) → l1 = l2
  | [], [], _, _, _ => rfl
  | [], b :: _, _, _, h => by have := (h b).2 (List.mem_cons_self ..); cases this
  | a :: _, [], _, _, h => by have := (h a).1 (List.mem_cons_self ..); cases this
  | a :: t1, b :: t2, h1, h2, h => by
    have h1' := List.pairwise_cons.mp h1
    have h2' := List.pairwise_cons.mp h2
    have hab : a = b := by
      have ha := (h a).1 (List.mem_cons_self ..)
      have hb := (h b).2 (List.mem_cons_self ..)
      rcases List.mem_cons.mp ha with ha | ha
      · exact ha
      · rcases List.mem_cons.mp hb with hb | hb
        · exact hb.symm
        · have := h2'.1 a ha
          have := h1'.1 b hb
          omega
    subst hab
    congr 1
    refine sorted_ext k t1 t2 h1'.2 h2'.2 ?_
    intro x
    constructor
    · intro hx
      rcases List.mem_cons.mp ((h x).1 (List.mem_cons_of_mem _ hx)) with e | e
      · subst e; have := h1'.1 x hx; omega
      · exact e
    · intro hx
      rcases List.mem_cons.mp ((h x).2 (List.mem_cons_of_mem _ hx)) with e | e
      · subst e; have := h2'.1 x hx; omega
      · exact e

theorem sorted_inj {α : Type} (k : α → Nat) : ∀ (l : List α), l.Pairwise (fun a b => k a < k b) → ∀ x ∈ l, ∀ y ∈ l, k x = k y → x = y
  | [], _, x, hx, _, _, _ => by cases hx
  | t :: ts, h, x, hx, y, hy, e => by
    have hp := List.pairwise_cons.mp h
    rcases List.mem_cons.mp hx with ex | ex <;> rcases List.mem_cons.mp hy with ey | ey
    · rw [ex, ey]
    · subst ex; have := hp.1 y ey; omega
    · subst ey; have := hp.1 x ex; omega
    · exact sorted_inj k ts hp.2 x ex y ey e

theorem filter_sorted {α : Type} (k : α → Nat) (p : α → Bool) (l : List α) (h : l.Pairwise (fun a b => k a < k b)) :
    (l.filter p).Pairwise (fun a b => k a < k b) := h.sublist List.filter_sublist

/-! ### the stable sort by identity -/

theorem keyLt_int (a b : Int) : keyLt (.int a) (.int b) = decide (a < b) := rfl

theorem mem_insertByKey (key : PyVal → PyVal) (x y : PyVal) (l : List PyVal) : y ∈ insertByKey key x l ↔ y = x ∨ y ∈ l := by
  induction l with
  | nil => simp [insertByKey]
  | cons z zs ih =>
    unfold insertByKey
    split
    · simp only [List.mem_cons, ih]
      constructor
      · rintro (h | h | h) <;> simp [h]
      · rintro (h | h | h) <;> simp [h]
    · simp only [List.mem_cons]

theorem mem_sortListBy (key : PyVal → PyVal) (y : PyVal) (l : List PyVal) : y ∈ sortListBy key l ↔ y ∈ l := by
  induction l with
  | nil => simp [sortListBy]
  | cons x xs ih => simp only [sortListBy, mem_insertByKey, ih, List.mem_cons]

theorem insertByKey_sorted (key : PyVal → PyVal) (k : PyVal → Nat) (x : PyVal) (l : List PyVal)
    (hk : ∀ y, y = x ∨ y ∈ l → key y = .int (k y)) (hne : ∀ y ∈ l, k y ≠ k x)
    (hs : l.Pairwise (fun a b => k a < k b)) : (insertByKey key x l).Pairwise (fun a b => k a < k b) := by
  induction l with
  | nil => simp [insertByKey]
  | cons z zs ih =>
    have hs' := List.pairwise_cons.mp hs
    unfold insertByKey
    rw [hk z (Or.inr (List.mem_cons_self ..)), hk x (Or.inl rfl), keyLt_int]
    by_cases hlt : (k z : Int) < (k x : Int)
    · simp only [hlt, decide_true, if_true]
      refine List.Pairwise.cons ?_ (ih (fun y hy => hk y (hy.elim Or.inl (fun h => Or.inr (List.mem_cons_of_mem _ h))))
        (fun y hy => hne y (List.mem_cons_of_mem _ hy)) hs'.2)
      intro b hb
      rcases (mem_insertByKey key x b zs).mp hb with e | e
      · subst e; omega
      · exact hs'.1 b e
    · simp only [hlt, decide_false, Bool.false_eq_true, if_false]
      have hzx : k x < k z := by
        have := hne z (List.mem_cons_self ..)
        omega
      refine List.Pairwise.cons ?_ hs
      intro b hb
      rcases List.mem_cons.mp hb with e | e
      · subst e; exact hzx
      · have := hs'.1 b e; omega

theorem sortListBy_sorted (key : PyVal → PyVal) (k : PyVal → Nat) (l : List PyVal)
    (hk : ∀ y ∈ l, key y = .int (k y)) (hne : l.Pairwise (fun a b => k a ≠ k b)) :
    (sortListBy key l).Pairwise (fun a b => k a < k b) := by
  induction l with
  | nil => simp [sortListBy]
  | cons x xs ih =>
    have hne' := List.pairwise_cons.mp hne
    simp only [sortListBy]
    refine insertByKey_sorted key k x _ ?_ ?_ (ih (fun y hy => hk y (List.mem_cons_of_mem _ hy)) hne'.2)
    · intro y hy
      rcases hy with e | e
      · subst e; exact hk _ (List.mem_cons_self ..)
      · exact hk y (List.mem_cons_of_mem _ ((mem_sortListBy key y xs).mp e))
    · intro y hy
      exact fun e => hne'.1 y ((mem_sortListBy key y xs).mp hy) e.symm

/-! ### candidate collection: the two loops with the `seen` set -/

/-- one iteration of `for r in …: rid = id(r); if rid not in seen: candidates.append(r); seen.add(rid)` -/
def stepC (st : List PyVal × List PyVal) (r : PyVal) : List PyVal × List PyVal :=
  if pyIn (idOf r) st.2 then st else (st.1 ++ [r], idOf r :: st.2)

theorem pyIn_int (i : Nat) (s : List PyVal) (hs : ∀ y ∈ s, ∃ j : Nat, y = .int j) : pyIn (.int i) s = true ↔ PyVal.int i ∈ s := by
  unfold pyIn
  rw [List.any_eq_true]
  constructor
  · rintro ⟨y, hy, he⟩
    obtain ⟨j, rfl⟩ := hs y hy
    have : (j : Int) = (i : Int) := by simpa [pyEq] using he
    rw [← this]; exact hy
  · intro h
    exact ⟨_, h, by simp [pyEq]⟩

/-- what the collection keeps: `seen` holds exactly the identities of the collected objects, which are pairwise distinct -/
structure CInv (st : List PyVal × List PyVal) : Prop where
  tagged : ∀ x ∈ st.1, IsTagged x
  seen : ∀ y, y ∈ st.2 ↔ ∃ x ∈ st.1, y = idOf x
  nodup : st.1.Pairwise (fun a b => tagNat a ≠ tagNat b)

theorem cinv_nil : CInv ([], []) := ⟨by simp, by simp, List.Pairwise.nil⟩

theorem CInv.seen_int {st} (h : CInv st) : ∀ y ∈ st.2, ∃ j : Nat, y = .int j := by
  intro y hy
  obtain ⟨x, hx, rfl⟩ := (h.seen y).mp hy
  exact ⟨_, (h.tagged x hx).idOf⟩

theorem stepC_inv {st} (h : CInv st) (r : PyVal) (hr : IsTagged r) :
    CInv (stepC st r) ∧ (∀ x, x ∈ (stepC st r).1 → x ∈ st.1 ∨ x = r) ∧ (∀ x ∈ st.1, x ∈ (stepC st r).1) ∧
      (∃ y ∈ (stepC st r).1, tagNat y = tagNat r) := by
  unfold stepC
  rw [hr.idOf]
  by_cases hin : pyIn (.int (tagNat r)) st.2 = true
  · simp only [hin, if_true]
    refine ⟨h, fun x hx => Or.inl hx, fun x hx => hx, ?_⟩
    obtain ⟨x, hx, he⟩ := (h.seen _).mp ((pyIn_int _ _ h.seen_int).mp hin)
    rw [(h.tagged x hx).idOf] at he
    refine ⟨x, hx, ?_⟩
    have : (tagNat r : Int) = (tagNat x : Int) := by injection he
    omega
  · simp only [hin, Bool.false_eq_true, if_false]
    have hnot : PyVal.int (tagNat r) ∉ st.2 := fun hm => hin ((pyIn_int _ _ h.seen_int).mpr hm)
    refine ⟨⟨?_, ?_, ?_⟩, ?_, ?_, ?_⟩
    · intro x hx
      rcases List.mem_append.mp hx with hx | hx
      · exact h.tagged x hx
      · simp only [List.mem_singleton] at hx; subst hx; exact hr
    · intro y
      constructor
      · intro hy
        rcases List.mem_cons.mp hy with e | e
        · exact ⟨r, List.mem_append_right _ (List.mem_singleton.mpr rfl), by rw [e, hr.idOf]⟩
        · obtain ⟨x, hx, e⟩ := (h.seen y).mp e
          exact ⟨x, List.mem_append_left _ hx, e⟩
      · rintro ⟨x, hx, e⟩
        rcases List.mem_append.mp hx with hx | hx
        · exact List.mem_cons_of_mem _ ((h.seen y).mpr ⟨x, hx, e⟩)
        · rw [List.mem_singleton.mp hx, hr.idOf] at e; rw [e]; exact List.mem_cons_self ..
    · rw [List.pairwise_append]
      refine ⟨h.nodup, List.pairwise_singleton _ _, ?_⟩
      intro a ha b hb
      simp only [List.mem_singleton] at hb
      subst hb
      intro e
      apply hnot
      rw [(h.seen _)]
      exact ⟨a, ha, by rw [(h.tagged a ha).idOf, e]⟩
    · intro x hx
      rcases List.mem_append.mp hx with hx | hx
      · exact Or.inl hx
      · simp only [List.mem_singleton] at hx; exact Or.inr hx
    · intro x hx; exact List.mem_append_left _ hx
    · exact ⟨r, List.mem_append_right _ (List.mem_singleton.mpr rfl), rfl⟩

theorem foldl_stepC_inv (xs : List PyVal) (hx : ∀ x ∈ xs, IsTagged x) : ∀ st, CInv st →
    CInv (xs.foldl stepC st) ∧ (∀ x, x ∈ (xs.foldl stepC st).1 → x ∈ st.1 ∨ x ∈ xs) ∧ (∀ x ∈ st.1, x ∈ (xs.foldl stepC st).1) ∧
      (∀ r ∈ xs, ∃ y ∈ (xs.foldl stepC st).1, tagNat y = tagNat r) := by
  induction xs with
  | nil => intro st h; exact ⟨h, fun x hx => Or.inl hx, fun x hx => hx, by simp⟩
  | cons r rs ih =>
    intro st h
    obtain ⟨h1, h2, h3, h4⟩ := stepC_inv h r (hx r (List.mem_cons_self ..))
    obtain ⟨g1, g2, g3, g4⟩ := ih (fun x hx' => hx x (List.mem_cons_of_mem _ hx')) _ h1
    simp only [List.foldl_cons]
    refine ⟨g1, ?_, fun x hx' => g3 x (h3 x hx'), ?_⟩
    · intro x hx'
      rcases g2 x hx' with e | e
      · rcases h2 x e with e | e
        · exact Or.inl e
        · exact Or.inr (by rw [e]; exact List.mem_cons_self ..)
      · exact Or.inr (List.mem_cons_of_mem _ e)
    · intro q hq
      rcases List.mem_cons.mp hq with e | e
      · subst e
        obtain ⟨y, hy, he⟩ := h4
        exact ⟨y, g3 y hy, he⟩
      · exact g4 q e

/-- **collection + sort = filter in document order**: `T` strictly sorted by identity (the tagged rules); `A`, `S` hold — in any order,
    any number of times — exactly the members of `T` satisfying `pa` / `ps`; `key` maps an object of `T` to its identity.  Then
    collecting `A`, then `S`, through the `seen` set and sorting by `key` gives `T.filter (pa ∨ ps)`. -/
theorem collect_sort_eq_filter (T A S : List PyVal) (pa ps : PyVal → Bool) (key : PyVal → PyVal)
    (hT : T.Pairwise (fun a b => tagNat a < tagNat b)) (htag : ∀ x ∈ T, IsTagged x)
    (hA : ∀ x, x ∈ A ↔ x ∈ T ∧ pa x = true) (hS : ∀ x, x ∈ S ↔ x ∈ T ∧ ps x = true)
    (hkey : ∀ x ∈ T, key x = .int (tagNat x)) :
    sortListBy key (S.foldl stepC (A.foldl stepC ([], []))).1 = T.filter (fun x => pa x || ps x) := by
  obtain ⟨a1, a2, _, a4⟩ := foldl_stepC_inv A (fun x hx => htag x ((hA x).mp hx).1) _ cinv_nil
  obtain ⟨s1, s2, s3, s4⟩ := foldl_stepC_inv S (fun x hx => htag x ((hS x).mp hx).1) _ a1
  have hnd := s1.nodup
  generalize (S.foldl stepC (A.foldl stepC ([], []))).1 = C at *
  -- members of C are members of T satisfying pa or ps
  have hmem : ∀ x, x ∈ C → x ∈ T ∧ (pa x || ps x) = true := by
    intro x hx
    rcases s2 x hx with e | e
    · rcases a2 x e with e | e
      · cases e
      · have := (hA x).mp e; exact ⟨this.1, by simp [this.2]⟩
    · have := (hS x).mp e; exact ⟨this.1, by simp [this.2]⟩
  refine sorted_ext tagNat _ _ (sortListBy_sorted key tagNat C (fun y hy => hkey y (hmem y hy).1) hnd) (filter_sorted tagNat _ T hT) ?_
  intro x
  rw [mem_sortListBy, List.mem_filter]
  constructor
  · exact hmem x
  · rintro ⟨hxT, hp⟩
    have key2 : ∃ y ∈ C, tagNat y = tagNat x := by
      by_cases hpa : pa x = true
      · obtain ⟨y, hy, he⟩ := a4 x ((hA x).mpr ⟨hxT, hpa⟩)
        exact ⟨y, s3 y hy, he⟩
      · have hps : ps x = true := by
          cases h1 : pa x <;> cases h2 : ps x <;> simp_all
        exact s4 x ((hS x).mpr ⟨hxT, hps⟩)
    obtain ⟨y, hy, he⟩ := key2
    have := sorted_inj tagNat T hT y (hmem y hy).1 x hxT he
    rw [← this]; exact hy


/-! ### loops that never break -/

theorem forLoop_fold_enc {σ τ : Type} (enc : τ → σ) (f : τ → PyVal → τ) (body : σ → PyVal → Except CondErr (Ctl σ)) (xs : List PyVal)
    (h : ∀ s x, x ∈ xs → body (enc s) x = .ok (.next (enc (f s x)))) (s : τ) :
    forLoop xs (enc s) body = .ok (enc (xs.foldl f s)) := by
  induction xs generalizing s with
  | nil => rfl
  | cons x xs ih =>
    unfold forLoop
    rw [h s x (List.mem_cons_self ..)]
    simp only [PyE.bind, List.foldl_cons]
    exact ih (fun s x hx => h s x (List.mem_cons_of_mem _ hx)) _

/-- a loop whose body, from a state that satisfies the invariant for the items done so far, ends normally in a state that satisfies
    it for one item more -/
theorem forLoop_inv {σ : Type} (Inv : List PyVal → σ → Prop) (body : σ → PyVal → Except CondErr (Ctl σ)) :
    ∀ (xs pre : List PyVal) (all : List PyVal), all = pre ++ xs →
    (∀ p x q s, all = p ++ x :: q → Inv p s → ∃ s', body s x = .ok (.next s') ∧ Inv (p ++ [x]) s') →
    ∀ s, Inv pre s → ∃ s', forLoop xs s body = .ok s' ∧ Inv all s'
  | [], pre, all, hall, _, s, hs => by
    rw [hall, List.append_nil]; exact ⟨s, rfl, hs⟩
  | x :: xs, pre, all, hall, h, s, hs => by
    obtain ⟨s1, hb, h1⟩ := h pre x xs s hall hs
    unfold forLoop
    rw [hb]
    simp only [PyE.bind]
    exact forLoop_inv Inv body xs (pre ++ [x]) all (by rw [hall, List.append_assoc]; rfl) h s1 h1

theorem tagFrom_split {i : Nat} {rs p q : List PyVal} {x : PyVal} (h : tagFrom i rs = p ++ x :: q) : tagNat x = i + p.length := by
  induction p generalizing i rs with
  | nil =>
    cases rs with
    | nil => simp [tagFrom] at h
    | cons r rs =>
      simp only [tagFrom, List.nil_append, List.cons.injEq] at h
      rw [← h.1, tagNat_tag]; rfl
  | cons y p ih =>
    cases rs with
    | nil => simp [tagFrom] at h
    | cons r rs =>
      simp only [tagFrom, List.cons_append, List.cons.injEq] at h
      have := ih h.2
      simp only [List.length_cons]; omega

/-! ### the dict keyed by identities: `order` -/

/-- `order` after `n` rules: identity `i` ↦ position `i` -/
def idEntries (n : Nat) : List PyVal := (List.range n).map fun (i : Nat) => .list [.int i, .int i]

theorem idEntries_succ (n : Nat) : idEntries (n + 1) = idEntries n ++ [.list [.int n, .int n]] := by
  simp [idEntries, List.range_succ]

theorem idEntries_length (n : Nat) : (idEntries n).length = n := by simp [idEntries]

theorem idLookup_append (k : PyVal) (l1 l2 : List PyVal) :
    idLookup k (l1 ++ l2) = match idLookup k l1 with | some v => some v | Option.none => idLookup k l2 := by
  induction l1 with
  | nil => cases h : idLookup k l2 <;> simp [idLookup, h]
  | cons e es ih =>
    simp only [List.cons_append, idLookup]
    cases entryOf e with
    | none => exact ih
    | some kv =>
      obtain ⟨k', v⟩ := kv
      simp only []
      by_cases hk : pyEq k' k = true
      · simp [hk]
      · simp only [hk, Bool.false_eq_true, if_false]; exact ih

theorem idLookup_idEntries (i n : Nat) : idLookup (.int i) (idEntries n) = if i < n then some (.int i) else Option.none := by
  induction n with
  | zero => simp [idEntries, idLookup]
  | succ n ih =>
    rw [idEntries_succ, idLookup_append, ih]
    by_cases h : i < n
    · have : i < n + 1 := by omega
      simp [h, this]
    · simp only [h, if_false]
      by_cases h2 : i = n
      · subst h2; simp [idLookup, entryOf, pyEq]
      · have : ¬ i < n + 1 := by omega
        have h3 : ((n : Int) == (i : Int)) = false := by
          simp only [beq_eq_false_iff_ne, ne_eq]; omega
        simp [idLookup, entryOf, pyEq, this, h3]

theorem idSetdefault_idEntries (n : Nat) : idSetdefault (.list (idEntries n)) (.int n) (.int n) = .list (idEntries (n + 1)) := by
  unfold idSetdefault
  simp only [idLookup_idEntries, Nat.lt_irrefl, if_false, Option.isSome_none, Bool.false_eq_true, idEntries_succ]

theorem idGet_idEntries (i n : Nat) (h : i < n) (d : PyVal) : idGet (.list (idEntries n)) (.int i) d = .int i := by
  simp [idGet, idLookup_idEntries, h]

/-! ### the action index `by_action` -/

/-- does the rule (a tagged object) list the action under its name? -/
def namedP (a : String) (x : PyVal) : Bool := a != "*" && (compActions (untag x)).contains a
/-- does it list '*'? -/
def starP (x : PyVal) : Bool := (compActions (untag x)).contains "*"

/-- the dict holds, for every action, exactly the rules of `pre` that name it — and, of the rule `x` being indexed, those actions among
    the ones done so far (`done`) -/
def ByAct (kvs : List (String × PyVal)) (pre : List PyVal) (x : PyVal) (done : List String) : Prop :=
  ∀ a, match lookup a kvs with
    | some v => ∃ l, v = .list l ∧ ∀ y, y ∈ l ↔ (y ∈ pre ∧ namedP a y = true) ∨ (y = x ∧ a ≠ "*" ∧ a ∈ done)
    | Option.none => (∀ y ∈ pre, namedP a y = false) ∧ ¬(a ≠ "*" ∧ a ∈ done)

theorem byAct_nil (x : PyVal) : ByAct [] [] x [] := by
  intro a
  simp [lookup]

/-- a rule whose actions are all done joins `pre` -/
theorem ByAct.close {kvs pre x} (h : ByAct kvs pre x (compActions (untag x))) (x' : PyVal) : ByAct kvs (pre ++ [x]) x' [] := by
  intro a
  have ha := h a
  have hn : ∀ y, ((y ∈ pre ∧ namedP a y = true) ∨ (y = x ∧ a ≠ "*" ∧ a ∈ compActions (untag x))) ↔ (y ∈ pre ++ [x] ∧ namedP a y = true) := by
    intro y
    simp only [List.mem_append, List.mem_singleton, namedP, Bool.and_eq_true, bne_iff_ne, ne_eq, List.contains_iff_mem]
    constructor
    · rintro (⟨h1, h2⟩ | ⟨rfl, h2, h3⟩)
      · exact ⟨Or.inl h1, h2⟩
      · exact ⟨Or.inr rfl, h2, h3⟩
    · rintro ⟨h1 | rfl, h2⟩
      · exact Or.inl ⟨h1, h2⟩
      · exact Or.inr ⟨rfl, h2.1, h2.2⟩
  cases hl : lookup a kvs with
  | some v =>
    rw [hl] at ha
    obtain ⟨l, rfl, hm⟩ := ha
    refine ⟨l, rfl, fun y => ?_⟩
    rw [hm y, hn y]
    simp
  | none =>
    rw [hl] at ha
    refine ⟨?_, by simp⟩
    intro y hy
    rcases List.mem_append.mp hy with hy | hy
    · exact ha.1 y hy
    · simp only [List.mem_singleton] at hy
      subst hy
      cases hnp : namedP a y
      · rfl
      · exfalso
        apply ha.2
        simp only [namedP, Bool.and_eq_true, bne_iff_ne, ne_eq, List.contains_iff_mem] at hnp
        exact hnp

/-- `'*'` is skipped -/
theorem ByAct.skip_star {kvs pre x done} (h : ByAct kvs pre x done) : ByAct kvs pre x (done ++ ["*"]) := by
  intro a
  have ha := h a
  cases hl : lookup a kvs with
  | some v =>
    rw [hl] at ha
    obtain ⟨l, rfl, hm⟩ := ha
    refine ⟨l, rfl, fun y => ?_⟩
    rw [hm y]
    simp only [List.mem_append, List.mem_singleton]
    constructor
    · rintro (h1 | ⟨h1, h2, h3⟩)
      · exact Or.inl h1
      · exact Or.inr ⟨h1, h2, Or.inl h3⟩
    · rintro (h1 | ⟨h1, h2, h3 | h3⟩)
      · exact Or.inl h1
      · exact Or.inr ⟨h1, h2, h3⟩
      · exact absurd h3 h2
  | none =>
    rw [hl] at ha
    refine ⟨ha.1, ?_⟩
    simp only [List.mem_append, List.mem_singleton]
    rintro ⟨h2, h3 | h3⟩
    · exact ha.2 ⟨h2, h3⟩
    · exact h2 h3

/-- `by_action.setdefault(b, []).append(x)` for a named action `b` -/
theorem ByAct.add {kvs pre x done} (h : ByAct kvs pre x done) (b : String) (hb : b ≠ "*") :
    ∃ kvs', setdefaultAppendE (.dict kvs) (.str b) x = .ok (.dict kvs') ∧ ByAct kvs' pre x (done ++ [b]) := by
  have hbb := h b
  cases hl : lookup b kvs with
  | some v =>
    rw [hl] at hbb
    obtain ⟨l, rfl, hm⟩ := hbb
    refine ⟨Rbacx.Py.setKV b (.list (l ++ [x])) kvs, by simp only [setdefaultAppendE, hl], fun a => ?_⟩
    rw [Rbacx.Py.lookup_setKV]
    by_cases hab : b = a
    · subst hab
      simp only [if_true]
      refine ⟨_, rfl, fun y => ?_⟩
      simp only [List.mem_append, List.mem_singleton, hm y]
      constructor
      · rintro ((h1 | ⟨h1, h2, h3⟩) | h1)
        · exact Or.inl h1
        · exact Or.inr ⟨h1, h2, Or.inl h3⟩
        · exact Or.inr ⟨h1, hb, Or.inr trivial⟩
      · rintro (h1 | ⟨h1, h2, h3 | h3⟩)
        · exact Or.inl (Or.inl h1)
        · exact Or.inl (Or.inr ⟨h1, h2, h3⟩)
        · exact Or.inr h1
    · simp only [hab, if_false]
      have ha := h a
      cases hla : lookup a kvs with
      | some v =>
        rw [hla] at ha
        obtain ⟨l', rfl, hm'⟩ := ha
        refine ⟨l', rfl, fun y => ?_⟩
        rw [hm' y]
        simp only [List.mem_append, List.mem_singleton]
        constructor
        · rintro (h1 | ⟨h1, h2, h3⟩)
          · exact Or.inl h1
          · exact Or.inr ⟨h1, h2, Or.inl h3⟩
        · rintro (h1 | ⟨h1, h2, h3 | h3⟩)
          · exact Or.inl h1
          · exact Or.inr ⟨h1, h2, h3⟩
          · exact absurd h3.symm hab
      | none =>
        rw [hla] at ha
        refine ⟨ha.1, ?_⟩
        simp only [List.mem_append, List.mem_singleton]
        rintro ⟨h2, h3 | h3⟩
        · exact ha.2 ⟨h2, h3⟩
        · exact hab h3.symm
  | none =>
    rw [hl] at hbb
    refine ⟨Rbacx.Py.setKV b (.list [x]) kvs, by simp only [setdefaultAppendE, hl], fun a => ?_⟩
    rw [Rbacx.Py.lookup_setKV]
    by_cases hab : b = a
    · subst hab
      simp only [if_true]
      refine ⟨_, rfl, fun y => ?_⟩
      simp only [List.mem_append, List.mem_singleton, List.not_mem_nil, false_or]
      constructor
      · intro h1; exact Or.inr ⟨h1, hb, Or.inr trivial⟩
      · rintro (⟨h1, h2⟩ | ⟨h1, _, h3 | _⟩)
        · have := hbb.1 y h1; rw [this] at h2; cases h2
        · exact absurd ⟨hb, h3⟩ hbb.2
        · exact h1
    · simp only [hab, if_false]
      have ha := h a
      cases hla : lookup a kvs with
      | some v =>
        rw [hla] at ha
        obtain ⟨l', rfl, hm'⟩ := ha
        refine ⟨l', rfl, fun y => ?_⟩
        rw [hm' y]
        simp only [List.mem_append, List.mem_singleton]
        constructor
        · rintro (h1 | ⟨h1, h2, h3⟩)
          · exact Or.inl h1
          · exact Or.inr ⟨h1, h2, Or.inl h3⟩
        · rintro (h1 | ⟨h1, h2, h3 | h3⟩)
          · exact Or.inl h1
          · exact Or.inr ⟨h1, h2, h3⟩
          · exact absurd h3.symm hab
      | none =>
        rw [hla] at ha
        refine ⟨ha.1, ?_⟩
        simp only [List.mem_append, List.mem_singleton]
        rintro ⟨h2, h3 | h3⟩
        · exact ha.2 ⟨h2, h3⟩
        · exact hab h3.symm

/-- what `by_action.get(action, [])` yields once every rule of `T` is indexed -/
theorem ByAct.get {kvs T x} (h : ByAct kvs T x []) (a : String) :
    ∃ l, getDE (.dict kvs) (.str a) (.list []) = .ok (.list l) ∧ ∀ y, y ∈ l ↔ y ∈ T ∧ namedP a y = true := by
  have ha := h a
  cases hl : lookup a kvs with
  | some v =>
    rw [hl] at ha
    obtain ⟨l, rfl, hm⟩ := ha
    exact ⟨l, by simp only [getDE, hl, Option.getD], fun y => by rw [hm y]; simp⟩
  | none =>
    rw [hl] at ha
    refine ⟨[], by simp only [getDE, hl, Option.getD], fun y => ?_⟩
    simp only [List.not_mem_nil, false_iff, not_and, Bool.not_eq_true]
    exact ha.1 y

end Rbacx.PyI
