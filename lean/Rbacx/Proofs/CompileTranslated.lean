import Rbacx.Model.PyIdent
import Rbacx.Model.Compiler
import Rbacx.Proofs.EvaluatorsTranslated
import Rbacx.Proofs.PyLibLemmas
/-
  Rbacx.Proofs.CompileTranslated — what the per-run obligation `Run/C03_whole.lean` needs to prove the translation of `compile` and the
  closure it returns (`Generated.Src.compile_decide`, harness/pytolean_closure.py) equal to the model's `compiledDecide`.  Nothing here
  depends on the generated code:

  * identified objects (`PyI.tag`): the tagged list of a list of rules is strictly sorted by identity;
  * `forLoop` with a body that never breaks is a fold (`forLoop_fold`) / keeps an invariant (`forLoop_inv`);
  * the candidate collection with the `seen` set (`stepC`) followed by the stable sort by identity: from ANY two lists that hold
    exactly the tagged rules with the action / with '*' — in whatever order, with whatever repetitions — the result is the tagged
    rules filtered in document order (`collect_sort_eq_filter`);
  * the bucket fold (`stepB`) and the selection of the first eligible bucket.
-/
namespace Rbacx.PyI
open PyVal Rbacx.PyE

/-! ### identified objects -/

theorem idOf_tag (i : Nat) (v : PyVal) : idOf (tag i v) = .int i := rfl
theorem untag_tag (i : Nat) (v : PyVal) : untag (tag i v) = v := rfl

/-- the identity of an object as a number -/
def tagNat : PyVal → Nat
  | .list [.int i, _] => i.toNat
  | _ => 0

theorem tagNat_tag (i : Nat) (v : PyVal) : tagNat (tag i v) = i := by simp [tagNat, tag]

def IsTagged (x : PyVal) : Prop := ∃ i v, x = tag i v

theorem IsTagged.idOf {x : PyVal} (h : IsTagged x) : idOf x = .int (tagNat x) := by
  obtain ⟨i, v, rfl⟩ := h
  rw [idOf_tag, tagNat_tag]

theorem mem_tagFrom {x : PyVal} {i : Nat} {rs : List PyVal} (h : x ∈ tagFrom i rs) : ∃ k v, x = tag k v ∧ i ≤ k ∧ v ∈ rs := by
  induction rs generalizing i with
  | nil => cases h
  | cons r rs ih =>
    simp only [tagFrom, List.mem_cons] at h
    rcases h with h | h
    · exact ⟨i, r, h, Nat.le_refl _, List.mem_cons_self ..⟩
    · obtain ⟨k, v, hk, hle, hv⟩ := ih h
      exact ⟨k, v, hk, by omega, List.mem_cons_of_mem _ hv⟩

theorem tagged_of_mem_tagFrom {x : PyVal} {i : Nat} {rs : List PyVal} (h : x ∈ tagFrom i rs) : IsTagged x := by
  obtain ⟨k, v, hk, _, _⟩ := mem_tagFrom h
  exact ⟨k, v, hk⟩

theorem map_untag_tagFrom (i : Nat) (rs : List PyVal) : (tagFrom i rs).map untag = rs := by
  induction rs generalizing i with
  | nil => rfl
  | cons r rs ih => simp only [tagFrom, List.map_cons, untag_tag, ih]

theorem tagFrom_sorted (i : Nat) (rs : List PyVal) : (tagFrom i rs).Pairwise (fun a b => tagNat a < tagNat b) := by
  induction rs generalizing i with
  | nil => exact List.Pairwise.nil
  | cons r rs ih =>
    simp only [tagFrom]
    refine List.Pairwise.cons ?_ (ih (i + 1))
    intro b hb
    obtain ⟨k, v, rfl, hle, _⟩ := mem_tagFrom hb
    rw [tagNat_tag, tagNat_tag]
    omega

theorem tagFrom_length (i : Nat) (rs : List PyVal) : (tagFrom i rs).length = rs.length := by
  induction rs generalizing i with
  | nil => rfl
  | cons r rs ih => simp only [tagFrom, List.length_cons, ih]

/-! ### strictly sorted lists with the same members are equal -/

theorem sorted_ext {α : Type} (k : α → Nat) : ∀ (l1 l2 : List α), l1.Pairwise (fun a b => k a < k b) → l2.Pairwise (fun a b => k a < k b) →
    (∀ x, x ∈ l1 ↔ x ∈ l2) → l1 = l2
  | [], [], _, _, _ => rfl
  | [], b :: _, _, _, h => by have := (h b).2 (List.mem_cons_self ..); cases this
  | a :: _, [], _, _, h => by have := (h a).1 (List.mem_cons_self ..); cases this
  | a :: t1, b :: t2, h1, h2, h => by
    have h1' := List.pairwise_cons.mp h1
    have h2' := List.pairwise_cons.mp h2
    have hab : a = b := by
      have ha := (h a).1 (List.mem_cons_self ..)
      have hb := (h b).2 (List.mem_cons_self ..)
      rcases List.mem_cons.mp ha with ha | ha
      · exact ha
      · rcases List.mem_cons.mp hb with hb | hb
        · exact hb.symm
        · have := h2'.1 a ha
          have := h1'.1 b hb
          omega
    subst hab
    congr 1
    refine sorted_ext k t1 t2 h1'.2 h2'.2 ?_
    intro x
    constructor
    · intro hx
      rcases List.mem_cons.mp ((h x).1 (List.mem_cons_of_mem _ hx)) with e | e
      · subst e; have := h1'.1 x hx; omega
      · exact e
    · intro hx
      rcases List.mem_cons.mp ((h x).2 (List.mem_cons_of_mem _ hx)) with e | e
      · subst e; have := h2'.1 x hx; omega
      · exact e

theorem sorted_inj {α : Type} (k : α → Nat) : ∀ (l : List α), l.Pairwise (fun a b => k a < k b) → ∀ x ∈ l, ∀ y ∈ l, k x = k y → x = y
  | [], _, x, hx, _, _, _ => by cases hx
  | t :: ts, h, x, hx, y, hy, e => by
    have hp := List.pairwise_cons.mp h
    rcases List.mem_cons.mp hx with ex | ex <;> rcases List.mem_cons.mp hy with ey | ey
    · rw [ex, ey]
    · subst ex; have := hp.1 y ey; omega
    · subst ey; have := hp.1 x ex; omega
    · exact sorted_inj k ts hp.2 x ex y ey e

theorem filter_sorted {α : Type} (k : α → Nat) (p : α → Bool) (l : List α) (h : l.Pairwise (fun a b => k a < k b)) :
    (l.filter p).Pairwise (fun a b => k a < k b) := h.sublist List.filter_sublist

/-! ### the stable sort by identity -/

theorem keyLt_int (a b : Int) : keyLt (.int a) (.int b) = decide (a < b) := rfl

theorem mem_insertByKey (key : PyVal → PyVal) (x y : PyVal) (l : List PyVal) : y ∈ insertByKey key x l ↔ y = x ∨ y ∈ l := by
  induction l with
  | nil => simp [insertByKey]
  | cons z zs ih =>
    unfold insertByKey
    split
    · simp only [List.mem_cons, ih]
      constructor
      · rintro (h | h | h) <;> simp [h]
      · rintro (h | h | h) <;> simp [h]
    · simp only [List.mem_cons]

theorem mem_sortListBy (key : PyVal → PyVal) (y : PyVal) (l : List PyVal) : y ∈ sortListBy key l ↔ y ∈ l := by
  induction l with
  | nil => simp [sortListBy]
  | cons x xs ih => simp only [sortListBy, mem_insertByKey, ih, List.mem_cons]

theorem insertByKey_sorted (key : PyVal → PyVal) (k : PyVal → Nat) (x : PyVal) (l : List PyVal)
    (hk : ∀ y, y = x ∨ y ∈ l → key y = .int (k y)) (hne : ∀ y ∈ l, k y ≠ k x)
    (hs : l.Pairwise (fun a b => k a < k b)) : (insertByKey key x l).Pairwise (fun a b => k a < k b) := by
  induction l with
  | nil => simp [insertByKey]
  | cons z zs ih =>
    have hs' := List.pairwise_cons.mp hs
    unfold insertByKey
    rw [hk z (Or.inr (List.mem_cons_self ..)), hk x (Or.inl rfl), keyLt_int]
    by_cases hlt : (k z : Int) < (k x : Int)
    · simp only [hlt, decide_true, if_true]
      refine List.Pairwise.cons ?_ (ih (fun y hy => hk y (hy.elim Or.inl (fun h => Or.inr (List.mem_cons_of_mem _ h))))
        (fun y hy => hne y (List.mem_cons_of_mem _ hy)) hs'.2)
      intro b hb
      rcases (mem_insertByKey key x b zs).mp hb with e | e
      · subst e; omega
      · exact hs'.1 b e
    · simp only [hlt, decide_false, Bool.false_eq_true, if_false]
      have hzx : k x < k z := by
        have := hne z (List.mem_cons_self ..)
        omega
      refine List.Pairwise.cons ?_ hs
      intro b hb
      rcases List.mem_cons.mp hb with e | e
      · subst e; exact hzx
      · have := hs'.1 b e; omega

theorem sortListBy_sorted (key : PyVal → PyVal) (k : PyVal → Nat) (l : List PyVal)
    (hk : ∀ y ∈ l, key y = .int (k y)) (hne : l.Pairwise (fun a b => k a ≠ k b)) :
    (sortListBy key l).Pairwise (fun a b => k a < k b) := by
  induction l with
  | nil => simp [sortListBy]
  | cons x xs ih =>
    have hne' := List.pairwise_cons.mp hne
    simp only [sortListBy]
    refine insertByKey_sorted key k x _ ?_ ?_ (ih (fun y hy => hk y (List.mem_cons_of_mem _ hy)) hne'.2)
    · intro y hy
      rcases hy with e | e
      · subst e; exact hk _ (List.mem_cons_self ..)
      · exact hk y (List.mem_cons_of_mem _ ((mem_sortListBy key y xs).mp e))
    · intro y hy
      exact fun e => hne'.1 y ((mem_sortListBy key y xs).mp hy) e.symm

/-! ### candidate collection: the two loops with the `seen` set -/

/-- one iteration of `for r in …: rid = id(r); if rid not in seen: candidates.append(r); seen.add(rid)` -/
def stepC (st : List PyVal × List PyVal) (r : PyVal) : List PyVal × List PyVal :=
  if pyIn (idOf r) st.2 then st else (st.1 ++ [r], idOf r :: st.2)

theorem pyIn_int (i : Nat) (s : List PyVal) (hs : ∀ y ∈ s, ∃ j : Nat, y = .int j) : pyIn (.int i) s = true ↔ PyVal.int i ∈ s := by
  unfold pyIn
  rw [List.any_eq_true]
  constructor
  · rintro ⟨y, hy, he⟩
    obtain ⟨j, rfl⟩ := hs y hy
    have : (j : Int) = (i : Int) := by simpa [pyEq] using he
    rw [← this]; exact hy
  · intro h
    exact ⟨_, h, by simp [pyEq]⟩

/-- what the collection keeps: `seen` holds exactly the identities of the collected objects, which are pairwise distinct -/
structure CInv (st : List PyVal × List PyVal) : Prop where
  tagged : ∀ x ∈ st.1, IsTagged x
  seen : ∀ y, y ∈ st.2 ↔ ∃ x ∈ st.1, y = idOf x
  nodup : st.1.Pairwise (fun a b => tagNat a ≠ tagNat b)

theorem cinv_nil : CInv ([], []) := ⟨by simp, by simp, List.Pairwise.nil⟩

theorem CInv.seen_int {st} (h : CInv st) : ∀ y ∈ st.2, ∃ j : Nat, y = .int j := by
  intro y hy
  obtain ⟨x, hx, rfl⟩ := (h.seen y).mp hy
  exact ⟨_, (h.tagged x hx).idOf⟩

theorem stepC_inv {st} (h : CInv st) (r : PyVal) (hr : IsTagged r) :
    CInv (stepC st r) ∧ (∀ x, x ∈ (stepC st r).1 → x ∈ st.1 ∨ x = r) ∧ (∀ x ∈ st.1, x ∈ (stepC st r).1) ∧
      (∃ y ∈ (stepC st r).1, tagNat y = tagNat r) := by
  unfold stepC
  rw [hr.idOf]
  by_cases hin : pyIn (.int (tagNat r)) st.2 = true
  · simp only [hin, if_true]
    refine ⟨h, fun x hx => Or.inl hx, fun x hx => hx, ?_⟩
    obtain ⟨x, hx, he⟩ := (h.seen _).mp ((pyIn_int _ _ h.seen_int).mp hin)
    rw [(h.tagged x hx).idOf] at he
    refine ⟨x, hx, ?_⟩
    have : (tagNat r : Int) = (tagNat x : Int) := by injection he
    omega
  · simp only [hin, Bool.false_eq_true, if_false]
    have hnot : PyVal.int (tagNat r) ∉ st.2 := fun hm => hin ((pyIn_int _ _ h.seen_int).mpr hm)
    refine ⟨⟨?_, ?_, ?_⟩, ?_, ?_, ?_⟩
    · intro x hx
      rcases List.mem_append.mp hx with hx | hx
      · exact h.tagged x hx
      · simp only [List.mem_singleton] at hx; subst hx; exact hr
    · intro y
      constructor
      · intro hy
        rcases List.mem_cons.mp hy with e | e
        · exact ⟨r, List.mem_append_right _ (List.mem_singleton.mpr rfl), by rw [e, hr.idOf]⟩
        · obtain ⟨x, hx, e⟩ := (h.seen y).mp e
          exact ⟨x, List.mem_append_left _ hx, e⟩
      · rintro ⟨x, hx, e⟩
        rcases List.mem_append.mp hx with hx | hx
        · exact List.mem_cons_of_mem _ ((h.seen y).mpr ⟨x, hx, e⟩)
        · rw [List.mem_singleton.mp hx, hr.idOf] at e; rw [e]; exact List.mem_cons_self ..
    · rw [List.pairwise_append]
      refine ⟨h.nodup, List.pairwise_singleton _ _, ?_⟩
      intro a ha b hb
      simp only [List.mem_singleton] at hb
      subst hb
      intro e
      apply hnot
      rw [(h.seen _)]
      exact ⟨a, ha, by rw [(h.tagged a ha).idOf, e]⟩
    · intro x hx
      rcases List.mem_append.mp hx with hx | hx
      · exact Or.inl hx
      · simp only [List.mem_singleton] at hx; exact Or.inr hx
    · intro x hx; exact List.mem_append_left _ hx
    · exact ⟨r, List.mem_append_right _ (List.mem_singleton.mpr rfl), rfl⟩

theorem foldl_stepC_inv (xs : List PyVal) (hx : ∀ x ∈ xs, IsTagged x) : ∀ st, CInv st →
    CInv (xs.foldl stepC st) ∧ (∀ x, x ∈ (xs.foldl stepC st).1 → x ∈ st.1 ∨ x ∈ xs) ∧ (∀ x ∈ st.1, x ∈ (xs.foldl stepC st).1) ∧
      (∀ r ∈ xs, ∃ y ∈ (xs.foldl stepC st).1, tagNat y = tagNat r) := by
  induction xs with
  | nil => intro st h; exact ⟨h, fun x hx => Or.inl hx, fun x hx => hx, by simp⟩
  | cons r rs ih =>
    intro st h
    obtain ⟨h1, h2, h3, h4⟩ := stepC_inv h r (hx r (List.mem_cons_self ..))
    obtain ⟨g1, g2, g3, g4⟩ := ih (fun x hx' => hx x (List.mem_cons_of_mem _ hx')) _ h1
    simp only [List.foldl_cons]
    refine ⟨g1, ?_, fun x hx' => g3 x (h3 x hx'), ?_⟩
    · intro x hx'
      rcases g2 x hx' with e | e
      · rcases h2 x e with e | e
        · exact Or.inl e
        · exact Or.inr (by rw [e]; exact List.mem_cons_self ..)
      · exact Or.inr (List.mem_cons_of_mem _ e)
    · intro q hq
      rcases List.mem_cons.mp hq with e | e
      · subst e
        obtain ⟨y, hy, he⟩ := h4
        exact ⟨y, g3 y hy, he⟩
      · exact g4 q e

/-- **collection + sort = filter in document order**: `T` strictly sorted by identity (the tagged rules); `A`, `S` hold — in any order,
    any number of times — exactly the members of `T` satisfying `pa` / `ps`; `key` maps an object of `T` to its identity.  Then
    collecting `A`, then `S`, through the `seen` set and sorting by `key` gives `T.filter (pa ∨ ps)`. -/
theorem collect_sort_eq_filter (T A S : List PyVal) (pa ps : PyVal → Bool) (key : PyVal → PyVal)
    (hT : T.Pairwise (fun a b => tagNat a < tagNat b)) (htag : ∀ x ∈ T, IsTagged x)
    (hA : ∀ x, x ∈ A ↔ x ∈ T ∧ pa x = true) (hS : ∀ x, x ∈ S ↔ x ∈ T ∧ ps x = true)
    (hkey : ∀ x ∈ T, key x = .int (tagNat x)) :
    sortListBy key (S.foldl stepC (A.foldl stepC ([], []))).1 = T.filter (fun x => pa x || ps x) := by
  obtain ⟨a1, a2, _, a4⟩ := foldl_stepC_inv A (fun x hx => htag x ((hA x).mp hx).1) _ cinv_nil
  obtain ⟨s1, s2, s3, s4⟩ := foldl_stepC_inv S (fun x hx => htag x ((hS x).mp hx).1) _ a1
  have hnd := s1.nodup
  generalize (S.foldl stepC (A.foldl stepC ([], []))).1 = C at *
  -- members of C are members of T satisfying pa or ps
  have hmem : ∀ x, x ∈ C → x ∈ T ∧ (pa x || ps x) = true := by
    intro x hx
    rcases s2 x hx with e | e
    · rcases a2 x e with e | e
      · cases e
      · have := (hA x).mp e; exact ⟨this.1, by simp [this.2]⟩
    · have := (hS x).mp e; exact ⟨this.1, by simp [this.2]⟩
  refine sorted_ext tagNat _ _ (sortListBy_sorted key tagNat C (fun y hy => hkey y (hmem y hy).1) hnd) (filter_sorted tagNat _ T hT) ?_
  intro x
  rw [mem_sortListBy, List.mem_filter]
  constructor
  · exact hmem x
  · rintro ⟨hxT, hp⟩
    have key2 : ∃ y ∈ C, tagNat y = tagNat x := by
      by_cases hpa : pa x = true
      · obtain ⟨y, hy, he⟩ := a4 x ((hA x).mpr ⟨hxT, hpa⟩)
        exact ⟨y, s3 y hy, he⟩
      · have hps : ps x = true := by
          cases h1 : pa x <;> cases h2 : ps x <;> simp_all
        exact s4 x ((hS x).mpr ⟨hxT, hps⟩)
    obtain ⟨y, hy, he⟩ := key2
    have := sorted_inj tagNat T hT y (hmem y hy).1 x hxT he
    rw [← this]; exact hy


/-! ### loops that never break -/

theorem forLoop_fold_enc {σ τ : Type} (enc : τ → σ) (f : τ → PyVal → τ) (body : σ → PyVal → Except CondErr (Ctl σ)) (xs : List PyVal)
    (h : ∀ s x, x ∈ xs → body (enc s) x = .ok (.next (enc (f s x)))) (s : τ) :
    forLoop xs (enc s) body = .ok (enc (xs.foldl f s)) := by
  induction xs generalizing s with
  | nil => rfl
  | cons x xs ih =>
    unfold forLoop
    rw [h s x (List.mem_cons_self ..)]
    simp only [PyE.bind, List.foldl_cons]
    exact ih (fun s x hx => h s x (List.mem_cons_of_mem _ hx)) _

/-- a loop whose body, from a state that satisfies the invariant for the items done so far, ends normally in a state that satisfies
    it for one item more -/
theorem forLoop_inv {σ : Type} (Inv : List PyVal → σ → Prop) (body : σ → PyVal → Except CondErr (Ctl σ)) :
    ∀ (xs pre : List PyVal) (all : List PyVal), all = pre ++ xs →
    (∀ p x q s, all = p ++ x :: q → Inv p s → ∃ s', body s x = .ok (.next s') ∧ Inv (p ++ [x]) s') →
    ∀ s, Inv pre s → ∃ s', forLoop xs s body = .ok s' ∧ Inv all s'
  | [], pre, all, hall, _, s, hs => by
    rw [hall, List.append_nil]; exact ⟨s, rfl, hs⟩
  | x :: xs, pre, all, hall, h, s, hs => by
    obtain ⟨s1, hb, h1⟩ := h pre x xs s hall hs
    unfold forLoop
    rw [hb]
    simp only [PyE.bind]
    exact forLoop_inv Inv body xs (pre ++ [x]) all (by rw [hall, List.append_assoc]; rfl) h s1 h1

theorem tagFrom_split {i : Nat} {rs p q : List PyVal} {x : PyVal} (h : tagFrom i rs = p ++ x :: q) : tagNat x = i + p.length := by
  induction p generalizing i rs with
  | nil =>
    cases rs with
    | nil => simp [tagFrom] at h
    | cons r rs =>
      simp only [tagFrom, List.nil_append, List.cons.injEq] at h
      rw [← h.1, tagNat_tag]; rfl
  | cons y p ih =>
    cases rs with
    | nil => simp [tagFrom] at h
    | cons r rs =>
      simp only [tagFrom, List.cons_append, List.cons.injEq] at h
      have := ih h.2
      simp only [List.length_cons]; omega

/-! ### the dict keyed by identities: `order` -/

/-- `order` after `n` rules: identity `i` ↦ position `i` -/
def idEntries (n : Nat) : List PyVal := (List.range n).map fun (i : Nat) => .list [.int i, .int i]

theorem idEntries_succ (n : Nat) : idEntries (n + 1) = idEntries n ++ [.list [.int n, .int n]] := by
  simp [idEntries, List.range_succ]

theorem idEntries_length (n : Nat) : (idEntries n).length = n := by simp [idEntries]

theorem idLookup_append (k : PyVal) (l1 l2 : List PyVal) :
    idLookup k (l1 ++ l2) = match idLookup k l1 with | some v => some v | Option.none => idLookup k l2 := by
  induction l1 with
  | nil => cases h : idLookup k l2 <;> simp [idLookup, h]
  | cons e es ih =>
    simp only [List.cons_append, idLookup]
    cases entryOf e with
    | none => exact ih
    | some kv =>
      obtain ⟨k', v⟩ := kv
      simp only []
      by_cases hk : pyEq k' k = true
      · simp [hk]
      · simp only [hk, Bool.false_eq_true, if_false]; exact ih

theorem idLookup_idEntries (i n : Nat) : idLookup (.int i) (idEntries n) = if i < n then some (.int i) else Option.none := by
  induction n with
  | zero => simp [idEntries, idLookup]
  | succ n ih =>
    rw [idEntries_succ, idLookup_append, ih]
    by_cases h : i < n
    · have : i < n + 1 := by omega
      simp [h, this]
    · simp only [h, if_false]
      by_cases h2 : i = n
      · subst h2; simp [idLookup, entryOf, pyEq]
      · have : ¬ i < n + 1 := by omega
        have h3 : ((n : Int) == (i : Int)) = false := by
          simp only [beq_eq_false_iff_ne, ne_eq]; omega
        simp [idLookup, entryOf, pyEq, this, h3]

theorem idSetdefault_idEntries (n : Nat) : idSetdefault (.list (idEntries n)) (.int n) (.int n) = .list (idEntries (n + 1)) := by
  unfold idSetdefault
  simp only [idLookup_idEntries, Nat.lt_irrefl, if_false, Option.isSome_none, Bool.false_eq_true, idEntries_succ]

theorem idGet_idEntries (i n : Nat) (h : i < n) (d : PyVal) : idGet (.list (idEntries n)) (.int i) d = .int i := by
  simp [idGet, idLookup_idEntries, h]

/-! ### the action index `by_action` -/

/-- does the rule (a tagged object) list the action under its name? -/
def namedP (a : String) (x : PyVal) : Bool := a != "*" && (compActions (untag x)).contains a
/-- does it list '*'? -/
def starP (x : PyVal) : Bool := (compActions (untag x)).contains "*"

/-- the dict holds, for every action, exactly the rules of `pre` that name it — and, of the rule `x` being indexed, those actions among
    the ones done so far (`done`) -/
def ByAct (kvs : List (String × PyVal)) (pre : List PyVal) (x : PyVal) (done : List String) : Prop :=
  ∀ a, match lookup a kvs with
    | some v => ∃ l, v = .list l ∧ ∀ y, y ∈ l ↔ (y ∈ pre ∧ namedP a y = true) ∨ (y = x ∧ a ≠ "*" ∧ a ∈ done)
    | Option.none => (∀ y ∈ pre, namedP a y = false) ∧ ¬(a ≠ "*" ∧ a ∈ done)

theorem byAct_nil (x : PyVal) : ByAct [] [] x [] := by
  intro a
  simp [lookup]

/-- a rule whose actions are all done joins `pre` -/
theorem ByAct.close {kvs pre x} (h : ByAct kvs pre x (compActions (untag x))) (x' : PyVal) : ByAct kvs (pre ++ [x]) x' [] := by
  intro a
  have ha := h a
  have hn : ∀ y, ((y ∈ pre ∧ namedP a y = true) ∨ (y = x ∧ a ≠ "*" ∧ a ∈ compActions (untag x))) ↔ (y ∈ pre ++ [x] ∧ namedP a y = true) := by
    intro y
    simp only [List.mem_append, List.mem_singleton, namedP, Bool.and_eq_true, bne_iff_ne, ne_eq, List.contains_iff_mem]
    constructor
    · rintro (⟨h1, h2⟩ | ⟨rfl, h2, h3⟩)
      · exact ⟨Or.inl h1, h2⟩
      · exact ⟨Or.inr rfl, h2, h3⟩
    · rintro ⟨h1 | rfl, h2⟩
      · exact Or.inl ⟨h1, h2⟩
      · exact Or.inr ⟨rfl, h2.1, h2.2⟩
  cases hl : lookup a kvs with
  | some v =>
    rw [hl] at ha
    obtain ⟨l, rfl, hm⟩ := ha
    refine ⟨l, rfl, fun y => ?_⟩
    rw [hm y, hn y]
    simp
  | none =>
    rw [hl] at ha
    refine ⟨?_, by simp⟩
    intro y hy
    rcases List.mem_append.mp hy with hy | hy
    · exact ha.1 y hy
    · simp only [List.mem_singleton] at hy
      subst hy
      cases hnp : namedP a y
      · rfl
      · exfalso
        apply ha.2
        simp only [namedP, Bool.and_eq_true, bne_iff_ne, ne_eq, List.contains_iff_mem] at hnp
        exact hnp

/-- `'*'` is skipped -/
theorem ByAct.skip_star {kvs pre x done} (h : ByAct kvs pre x done) : ByAct kvs pre x (done ++ ["*"]) := by
  intro a
  have ha := h a
  cases hl : lookup a kvs with
  | some v =>
    rw [hl] at ha
    obtain ⟨l, rfl, hm⟩ := ha
    refine ⟨l, rfl, fun y => ?_⟩
    rw [hm y]
    simp only [List.mem_append, List.mem_singleton]
    constructor
    · rintro (h1 | ⟨h1, h2, h3⟩)
      · exact Or.inl h1
      · exact Or.inr ⟨h1, h2, Or.inl h3⟩
    · rintro (h1 | ⟨h1, h2, h3 | h3⟩)
      · exact Or.inl h1
      · exact Or.inr ⟨h1, h2, h3⟩
      · exact absurd h3 h2
  | none =>
    rw [hl] at ha
    refine ⟨ha.1, ?_⟩
    simp only [List.mem_append, List.mem_singleton]
    rintro ⟨h2, h3 | h3⟩
    · exact ha.2 ⟨h2, h3⟩
    · exact h2 h3

/-- `by_action.setdefault(b, []).append(x)` for a named action `b` -/
theorem ByAct.add {kvs pre x done} (h : ByAct kvs pre x done) (b : String) (hb : b ≠ "*") :
    ∃ kvs', setdefaultAppendE (.dict kvs) (.str b) x = .ok (.dict kvs') ∧ ByAct kvs' pre x (done ++ [b]) := by
  have hbb := h b
  cases hl : lookup b kvs with
  | some v =>
    rw [hl] at hbb
    obtain ⟨l, rfl, hm⟩ := hbb
    refine ⟨Rbacx.Py.setKV b (.list (l ++ [x])) kvs, by simp only [setdefaultAppendE, hl], fun a => ?_⟩
    rw [Rbacx.Py.lookup_setKV]
    by_cases hab : b = a
    · subst hab
      simp only [if_true]
      refine ⟨_, rfl, fun y => ?_⟩
      simp only [List.mem_append, List.mem_singleton, hm y]
      constructor
      · rintro ((h1 | ⟨h1, h2, h3⟩) | h1)
        · exact Or.inl h1
        · exact Or.inr ⟨h1, h2, Or.inl h3⟩
        · exact Or.inr ⟨h1, hb, Or.inr trivial⟩
      · rintro (h1 | ⟨h1, h2, h3 | h3⟩)
        · exact Or.inl (Or.inl h1)
        · exact Or.inl (Or.inr ⟨h1, h2, h3⟩)
        · exact Or.inr h1
    · simp only [hab, if_false]
      have ha := h a
      cases hla : lookup a kvs with
      | some v =>
        rw [hla] at ha
        obtain ⟨l', rfl, hm'⟩ := ha
        refine ⟨l', rfl, fun y => ?_⟩
        rw [hm' y]
        simp only [List.mem_append, List.mem_singleton]
        constructor
        · rintro (h1 | ⟨h1, h2, h3⟩)
          · exact Or.inl h1
          · exact Or.inr ⟨h1, h2, Or.inl h3⟩
        · rintro (h1 | ⟨h1, h2, h3 | h3⟩)
          · exact Or.inl h1
          · exact Or.inr ⟨h1, h2, h3⟩
          · exact absurd h3.symm hab
      | none =>
        rw [hla] at ha
        refine ⟨ha.1, ?_⟩
        simp only [List.mem_append, List.mem_singleton]
        rintro ⟨h2, h3 | h3⟩
        · exact ha.2 ⟨h2, h3⟩
        · exact hab h3.symm
  | none =>
    rw [hl] at hbb
    refine ⟨Rbacx.Py.setKV b (.list [x]) kvs, by simp only [setdefaultAppendE, hl], fun a => ?_⟩
    rw [Rbacx.Py.lookup_setKV]
    by_cases hab : b = a
    · subst hab
      simp only [if_true]
      refine ⟨_, rfl, fun y => ?_⟩
      simp only [List.mem_append, List.mem_singleton, List.not_mem_nil, false_or]
      constructor
      · intro h1; exact Or.inr ⟨h1, hb, Or.inr trivial⟩
      · rintro (⟨h1, h2⟩ | ⟨h1, _, h3 | _⟩)
        · have := hbb.1 y h1; rw [this] at h2; cases h2
        · exact absurd ⟨hb, h3⟩ hbb.2
        · exact h1
    · simp only [hab, if_false]
      have ha := h a
      cases hla : lookup a kvs with
      | some v =>
        rw [hla] at ha
        obtain ⟨l', rfl, hm'⟩ := ha
        refine ⟨l', rfl, fun y => ?_⟩
        rw [hm' y]
        simp only [List.mem_append, List.mem_singleton]
        constructor
        · rintro (h1 | ⟨h1, h2, h3⟩)
          · exact Or.inl h1
          · exact Or.inr ⟨h1, h2, Or.inl h3⟩
        · rintro (h1 | ⟨h1, h2, h3 | h3⟩)
          · exact Or.inl h1
          · exact Or.inr ⟨h1, h2, h3⟩
          · exact absurd h3.symm hab
      | none =>
        rw [hla] at ha
        refine ⟨ha.1, ?_⟩
        simp only [List.mem_append, List.mem_singleton]
        rintro ⟨h2, h3 | h3⟩
        · exact ha.2 ⟨h2, h3⟩
        · exact hab h3.symm

/-- what `by_action.get(action, [])` yields once every rule of `T` is indexed -/
theorem ByAct.get {kvs T x} (h : ByAct kvs T x []) (a : String) :
    ∃ l, getDE (.dict kvs) (.str a) (.list []) = .ok (.list l) ∧ ∀ y, y ∈ l ↔ y ∈ T ∧ namedP a y = true := by
  have ha := h a
  cases hl : lookup a kvs with
  | some v =>
    rw [hl] at ha
    obtain ⟨l, rfl, hm⟩ := ha
    exact ⟨l, by simp only [getDE, hl, Option.getD], fun y => by rw [hm y]; simp⟩
  | none =>
    rw [hl] at ha
    refine ⟨[], by simp only [getDE, hl, Option.getD], fun y => ?_⟩
    simp only [List.not_mem_nil, false_iff, not_and, Bool.not_eq_true]
    exact ha.1 y

end Rbacx.PyI

namespace Rbacx.PyI
open PyVal Rbacx.PyE

/-! ### loops followed by a continuation -/

theorem forLoop_inv_bind {σ β : Type} (Inv : List PyVal → σ → Prop) (body : σ → PyVal → Except CondErr (Ctl σ)) (xs : List PyVal)
    (init : σ) (k : σ → Except CondErr β) (R : Except CondErr β) (hinit : Inv [] init)
    (hstep : ∀ p x q s, xs = p ++ x :: q → Inv p s → ∃ s', body s x = .ok (.next s') ∧ Inv (p ++ [x]) s')
    (hk : ∀ s, Inv xs s → k s = R) : PyE.bind (forLoop xs init body) k = R := by
  obtain ⟨s', hs', hi⟩ := forLoop_inv Inv body xs [] xs rfl hstep init hinit
  rw [hs']
  exact hk s' hi

theorem forLoop_fold_enc_bind {σ τ β : Type} (enc : τ → σ) (f : τ → PyVal → τ) (body : σ → PyVal → Except CondErr (Ctl σ)) (xs : List PyVal)
    (s : τ) (k : σ → Except CondErr β) (R : Except CondErr β)
    (h : ∀ s x, x ∈ xs → body (enc s) x = .ok (.next (enc (f s x)))) (hk : k (enc (xs.foldl f s)) = R) :
    PyE.bind (forLoop xs (enc s) body) k = R := by
  rw [forLoop_fold_enc enc f body xs h s]
  exact hk

theorem tagList_list (rs : List PyVal) : tagList (.list rs) = .list (tagFrom 0 rs) := rfl

theorem mem_tagFrom_lt {x : PyVal} {i : Nat} {rs : List PyVal} (h : x ∈ tagFrom i rs) : tagNat x < i + rs.length := by
  induction rs generalizing i with
  | nil => cases h
  | cons r rs ih =>
    simp only [tagFrom, List.mem_cons] at h
    rcases h with h | h
    · subst h; rw [tagNat_tag]; simp
    · have := ih h; simp only [List.length_cons]; omega

theorem mem_tagFrom_untag {x : PyVal} {i : Nat} {rs : List PyVal} (h : x ∈ tagFrom i rs) : untag x ∈ rs := by
  obtain ⟨k, v, rfl, _, hv⟩ := mem_tagFrom h
  exact hv

theorem eq_tag_of_split {rs p q : List PyVal} {x : PyVal} (h : tagFrom 0 rs = p ++ x :: q) : x = tag p.length (untag x) ∧ untag x ∈ rs := by
  have hm : x ∈ tagFrom 0 rs := by rw [h]; simp
  obtain ⟨k, v, rfl, _, hv⟩ := mem_tagFrom hm
  have := tagFrom_split h
  rw [tagNat_tag] at this
  simp only [Nat.zero_add] at this
  rw [this, untag_tag]
  exact ⟨rfl, hv⟩

theorem lenE_idEntries (n : Nat) : lenE (.list (idEntries n)) = .ok (.int n) := by
  simp [lenE, idEntries_length]

/-! ### the index loop -/

theorem ByAct.retarget {kvs pre x} (h : ByAct kvs pre x []) (x' : PyVal) : ByAct kvs pre x' [] := by
  intro a
  have ha := h a
  cases hl : lookup a kvs with
  | some v =>
    rw [hl] at ha
    obtain ⟨l, rfl, hm⟩ := ha
    exact ⟨l, rfl, fun y => by rw [hm y]; simp⟩
  | none =>
    rw [hl] at ha
    exact ⟨ha.1, by simp⟩

/-- `for a in acts: if a == "*": continue; by_action.setdefault(a, []).append(x)` -/
theorem index_inner (body : PyVal → PyVal → Except CondErr (Ctl PyVal)) (x : PyVal) (pre : List PyVal)
    (hbody : ∀ s a, body s (.str a) = if (Rbacx.Py.eq (.str a) (.str "*")).truthy = true then .ok (.next s)
        else PyE.bind (setdefaultAppendE s (.str a) x) fun b => .ok (.next b)) :
    ∀ (acts done : List String) (kvs : List (String × PyVal)), ByAct kvs pre x done →
      ∃ kvs', forLoop (acts.map PyVal.str) (.dict kvs) body = .ok (.dict kvs') ∧ ByAct kvs' pre x (done ++ acts)
  | [], done, kvs, h => ⟨kvs, rfl, by rw [List.append_nil]; exact h⟩
  | a :: acts, done, kvs, h => by
    simp only [List.map_cons]
    unfold forLoop
    rw [hbody, eq_str]
    by_cases ha : a = "*"
    · subst ha
      simp only [beq_self_eq_true, if_true, bind_ok]
      obtain ⟨kvs', h1, h2⟩ := index_inner body x pre hbody acts (done ++ ["*"]) kvs h.skip_star
      exact ⟨kvs', h1, by rw [List.append_assoc] at h2; exact h2⟩
    · have hb : (a == "*") = false := by simpa using ha
      obtain ⟨kvs1, e1, b1⟩ := h.add a ha
      simp only [hb, Bool.false_eq_true, if_false, e1, bind_ok]
      obtain ⟨kvs', h1, h2⟩ := index_inner body x pre hbody acts (done ++ [a]) kvs1 b1
      exact ⟨kvs', h1, by rw [List.append_assoc] at h2; exact h2⟩

theorem filter_starP_snoc (p : List PyVal) (n : Nat) (v : PyVal) :
    (p ++ [tag n v]).filter starP = if (compActions v).contains "*" then p.filter starP ++ [tag n v] else p.filter starP := by
  have hs : starP (tag n v) = (compActions v).contains "*" := by simp only [starP, untag_tag]
  rw [List.filter_append, List.filter_cons, List.filter_nil, hs]
  cases (compActions v).contains "*" <;> simp

/-! ### the collection loops -/

def encCS (st : List PyVal × List PyVal) : PyVal × PyVal := (.list st.1, .list st.2)

theorem collect_body (c s : List PyVal) (r : PyVal) (hr : IsTagged r) :
    (PyE.bind (containsE (.list s) (idOf r)) fun t15 =>
      if (Rbacx.Py.pnot t15).truthy = true then
        PyE.bind (appendE (.list c) r) fun candidates =>
          PyE.bind (addE (.list s) (idOf r)) fun seen => Except.ok (Ctl.next (candidates, seen))
      else Except.ok (Ctl.next (PyVal.list c, PyVal.list s))) = .ok (.next (encCS (stepC (c, s) r))) := by
  unfold stepC encCS
  rw [hr.idOf]
  simp only [containsE, bind_ok, Rbacx.Py.pnot, PyVal.truthy]
  cases hin : pyIn (.int (tagNat r)) s
  · have hany : (s.any fun y => pyEq y (.int (tagNat r))) = false := hin
    simp [appendE, addE, Rbacx.Py.hashable, Rbacx.Py.setAdd, hany]
  · simp

/-! ### the buckets -/

/-- buckets and `matched` flags after the candidates `p` -/
def encB (cat : PyVal → Option Nat) (m : PyVal → Bool) (p : List PyVal) : PyVal × PyVal :=
  (.list [.list (p.filter fun x => cat x == some 0), .list (p.filter fun x => cat x == some 1),
          .list (p.filter fun x => cat x == some 2), .list (p.filter fun x => cat x == some 3)],
   .list [.bool ((p.filter fun x => cat x == some 0).any m), .bool ((p.filter fun x => cat x == some 1).any m),
          .bool ((p.filter fun x => cat x == some 2).any m), .bool ((p.filter fun x => cat x == some 3).any m)])

theorem encB_snoc_none {cat m} (p : List PyVal) (x : PyVal) (h : cat x = Option.none) : encB cat m (p ++ [x]) = encB cat m p := by
  simp [encB, List.filter_append, h]

/-- the first bucket with a matching rule -/
def selectB (m : PyVal → Bool) : List (List PyVal) → List PyVal
  | [] => []
  | b :: bs => if b.any m then b else selectB m bs

theorem select_loop (m : PyVal → Bool) (B0 B1 B2 B3 : List PyVal) (body : PyVal → PyVal → Except CondErr (Ctl PyVal))
    (h0 : ∀ sel, body sel (.int 0) = .ok (if B0.any m then .brk (.list B0) else .next sel))
    (h1 : ∀ sel, body sel (.int 1) = .ok (if B1.any m then .brk (.list B1) else .next sel))
    (h2 : ∀ sel, body sel (.int 2) = .ok (if B2.any m then .brk (.list B2) else .next sel))
    (h3 : ∀ sel, body sel (.int 3) = .ok (if B3.any m then .brk (.list B3) else .next sel)) :
    forLoop [.int 0, .int 1, .int 2, .int 3] (.list []) body = .ok (.list (selectB m [B0, B1, B2, B3])) := by
  simp only [forLoop, h0, h1, h2, h3, selectB]
  cases B0.any m <;> cases B1.any m <;> cases B2.any m <;> cases B3.any m <;> rfl

/-! ### the last step: `evaluate` on the compiled policy -/

theorem lowerChar_idem : ∀ n : Nat, n < 91 → 65 ≤ n → ¬ ('A' ≤ Char.ofNat (n + 32) ∧ Char.ofNat (n + 32) ≤ 'Z') := by decide

theorem sizeL_sublist {l1 l2 : List PyVal} (h : l1.Sublist l2) : sizeL l1 ≤ sizeL l2 := by
  induction h with
  | slnil => exact Nat.le_refl _
  | cons a _ ih => simp only [sizeL]; omega
  | cons_cons a _ ih => simp only [sizeL]; omega

theorem dictOf_two (a b : PyVal) : Rbacx.Py.dictOf [("algorithm", a), ("rules", b)] = .dict [("algorithm", a), ("rules", b)] := by
  simp [Rbacx.Py.dictOf, Rbacx.Py.setItem, Rbacx.Py.setKV]

end Rbacx.PyI

namespace Rbacx.PyI
open PyVal Rbacx.PyE

/-- the state of the index loop after the tagged rules `p`: (order, star_rules, by_action) -/
def InvA (p : List PyVal) (s : PyVal × PyVal × PyVal) : Prop :=
  s.1 = .list (idEntries p.length) ∧ s.2.1 = .list (p.filter starP) ∧ ∃ kvs, s.2.2 = .dict kvs ∧ ByAct kvs p PyVal.none []

/-- ONE ITERATION OF THE INDEX LOOP, for any inner body `ib` that does what `if a == "*": continue; by_action.setdefault(a, []).append(rule)`
    does: from the index of `p` to the index of `p ++ [rule]` -/
theorem index_step (ib : PyVal → PyVal → Except CondErr (Ctl PyVal)) (p : List PyVal) (kvs : List (String × PyVal)) (v : PyVal)
    (hib : ∀ s a, ib s (.str a) = if (Rbacx.Py.eq (.str a) (.str "*")).truthy = true then .ok (.next s)
        else PyE.bind (setdefaultAppendE s (.str a) (tag p.length v)) fun b => .ok (.next b))
    (hby : ByAct kvs p PyVal.none []) :
    ∃ s', (if (compActions v).isEmpty = true then
          Except.ok (Ctl.next (PyVal.list (idEntries (p.length + 1)), PyVal.list (List.filter starP p), PyVal.dict kvs))
        else
          PyE.bind
            (if (compActions v).contains "*" = true then
              PyE.bind (appendE (.list (List.filter starP p)) (tag p.length v)) fun star_rules => Except.ok star_rules
            else Except.ok (.list (List.filter starP p)))
            fun s =>
            PyE.bind (forLoop (List.map PyVal.str (compActions v)) (.dict kvs) ib)
              fun s_1 => Except.ok (Ctl.next (PyVal.list (idEntries (p.length + 1)), s, s_1))) =
        Except.ok (Ctl.next s') ∧ InvA (p ++ [tag p.length v]) s' := by
  have hlen : (p ++ [tag p.length v]).length = p.length + 1 := by simp
  by_cases hemp : (compActions v).isEmpty = true
  · have hnil : compActions v = [] := List.isEmpty_iff.mp hemp
    simp only [hemp, if_true]
    refine ⟨_, rfl, ?_, ?_, kvs, rfl, ?_⟩
    · simp only [hlen]
    · simp only [filter_starP_snoc, hnil]; rfl
    · have h2 : ByAct kvs p (tag p.length v) (compActions (untag (tag p.length v))) := by
        rw [untag_tag, hnil]; exact hby.retarget _
      exact h2.close _
  · simp only [hemp, Bool.false_eq_true, if_false]
    obtain ⟨kvs', e1, b1⟩ := index_inner ib (tag p.length v) p hib (compActions v) [] kvs (hby.retarget _)
    simp only [List.nil_append] at b1
    have h2 : ByAct kvs' p (tag p.length v) (compActions (untag (tag p.length v))) := by rw [untag_tag]; exact b1
    by_cases hst : (compActions v).contains "*" = true
    · simp only [hst, if_true, appendE, bind_ok, e1]
      refine ⟨_, rfl, ?_, ?_, kvs', rfl, h2.close _⟩
      · simp only [hlen]
      · simp only [filter_starP_snoc, hst, if_true]
    · simp only [hst, Bool.false_eq_true, if_false, bind_ok, e1]
      refine ⟨_, rfl, ?_, ?_, kvs', rfl, h2.close _⟩
      · simp only [hlen]
      · simp only [filter_starP_snoc, hst, Bool.false_eq_true, if_false]

end Rbacx.PyI

namespace Rbacx.PyI
open PyVal Rbacx.PyE Rbacx.Py

theorem encB_snoc_some {cat : PyVal → Option Nat} {m : PyVal → Bool} (p : List PyVal) (x : PyVal) (n : Nat) (h : cat x = some n) :
    encB cat m (p ++ [x]) =
      (.list [.list (p.filter (fun x => cat x == some 0) ++ if n = 0 then [x] else []),
              .list (p.filter (fun x => cat x == some 1) ++ if n = 1 then [x] else []),
              .list (p.filter (fun x => cat x == some 2) ++ if n = 2 then [x] else []),
              .list (p.filter (fun x => cat x == some 3) ++ if n = 3 then [x] else [])],
       .list [.bool ((p.filter fun x => cat x == some 0).any m || (n == 0 && m x)),
              .bool ((p.filter fun x => cat x == some 1).any m || (n == 1 && m x)),
              .bool ((p.filter fun x => cat x == some 2).any m || (n == 2 && m x)),
              .bool ((p.filter fun x => cat x == some 3).any m || (n == 3 && m x))]) := by
  simp only [encB, List.filter_append, List.filter_cons, List.filter_nil, h, Option.some.injEq, beq_iff_eq]
  by_cases h0 : n = 0 <;> by_cases h1 : n = 1 <;> by_cases h2 : n = 2 <;> by_cases h3 : n = 3 <;>
    simp [h0, h1, h2, h3, List.any_append]

/-- ONE ITERATION OF THE BUCKET LOOP (after `_categorize`, `match_resource` are replaced by what they are proved equal to) -/
theorem bucket_step (cat : PyVal → Option Nat) (m : PyVal → Bool) (hle : ∀ x n, cat x = some n → n ≤ 3) (p : List PyVal) (x : PyVal) :
    (if (Py.isNone (encOptNat (cat x))).truthy = true then Except.ok (Ctl.next ((encB cat m p).fst, (encB cat m p).snd))
     else PyE.bind (appendAtE (encB cat m p).fst (encOptNat (cat x)) x) fun buckets =>
       PyE.bind (itemE (encB cat m p).snd (encOptNat (cat x))) fun t19 =>
         PyE.bind (if (pnot t19).truthy = true then Except.ok (PyVal.bool (m x)) else Except.ok (pnot t19)) fun t21 =>
           if t21.truthy = true then
             PyE.bind (setIdxE (encB cat m p).snd (encOptNat (cat x)) (PyVal.bool true)) fun matched => Except.ok (Ctl.next (buckets, matched))
           else Except.ok (Ctl.next (buckets, (encB cat m p).snd)))
      = .ok (.next (encB cat m (p ++ [x]))) := by
  cases hc : cat x with
  | none => simp [encOptNat, Py.isNone, PyVal.isNone, PyVal.truthy, encB_snoc_none p x hc]
  | some n =>
    have hn := hle x n hc
    rw [encB_snoc_some p x n hc]
    have h4 : n = 0 ∨ n = 1 ∨ n = 2 ∨ n = 3 := by omega
    rcases h4 with rfl | rfl | rfl | rfl
    all_goals
      simp only [encB, encOptNat, Py.isNone, PyVal.isNone, PyVal.truthy, Bool.false_eq_true, if_false]
      generalize (p.filter fun x => cat x == some 0) = B0
      generalize (p.filter fun x => cat x == some 1) = B1
      generalize (p.filter fun x => cat x == some 2) = B2
      generalize (p.filter fun x => cat x == some 3) = B3
      cases B0.any m <;> cases B1.any m <;> cases B2.any m <;> cases B3.any m <;> cases m x <;>
        simp [appendAtE, appendE, itemE, listIdx, setIdxE, normIdx, Py.pnot, PyVal.truthy, PyE.bind]

end Rbacx.PyI

namespace Rbacx.PyI
open PyVal Rbacx.PyE Rbacx.Py

/-- one iteration of the selection loop, once `buckets[i]` = `Bi` and `matched[i]` = `Bi.any m` are read -/
theorem select_body_aux (Bi : List PyVal) (m : PyVal → Bool) (sel : PyVal) :
    (PyE.bind (Except.ok (PyVal.list Bi)) fun t23 =>
      PyE.bind (if (untagList t23).truthy = true then Except.ok (PyVal.bool (Bi.any m)) else Except.ok (untagList t23)) fun t25 =>
        if t25.truthy = true then PyE.bind (Except.ok (PyVal.list Bi)) fun t26 => Except.ok (Ctl.brk t26) else Except.ok (Ctl.next sel))
      = .ok (if Bi.any m = true then .brk (.list Bi) else .next sel) := by
  cases Bi with
  | nil => simp [untagList, PyVal.truthy]
  | cons b bs =>
    cases h : (b :: bs).any m <;> simp [untagList, PyVal.truthy, h]

theorem itemE4 (a b c d : PyVal) : itemE (.list [a, b, c, d]) (.int 0) = .ok a ∧ itemE (.list [a, b, c, d]) (.int 1) = .ok b ∧
    itemE (.list [a, b, c, d]) (.int 2) = .ok c ∧ itemE (.list [a, b, c, d]) (.int 3) = .ok d := by
  simp [itemE, listIdx]

end Rbacx.PyI

namespace Rbacx.PyI
open PyVal Rbacx.PyE Rbacx.Py

theorem select_loop_bind {β : Type} (m : PyVal → Bool) (B0 B1 B2 B3 : List PyVal) (body : PyVal → PyVal → Except CondErr (Ctl PyVal))
    (k : PyVal → Except CondErr β) (R : Except CondErr β)
    (h0 : ∀ sel, body sel (.int 0) = .ok (if B0.any m then .brk (.list B0) else .next sel))
    (h1 : ∀ sel, body sel (.int 1) = .ok (if B1.any m then .brk (.list B1) else .next sel))
    (h2 : ∀ sel, body sel (.int 2) = .ok (if B2.any m then .brk (.list B2) else .next sel))
    (h3 : ∀ sel, body sel (.int 3) = .ok (if B3.any m then .brk (.list B3) else .next sel))
    (hk : k (.list (selectB m [B0, B1, B2, B3])) = R) :
    PyE.bind (forLoop [.int 0, .int 1, .int 2, .int 3] (.list []) body) k = R := by
  rw [select_loop m B0 B1 B2 B3 body h0 h1 h2 h3]
  exact hk

/-- the model's bucket selection on the VALUES of the tagged candidates is the tagged selection, untagged -/
theorem selectBucket_map (o : Oracle) (strict : Bool) (C : List PyVal) (rt : Option String) (res : PyVal) :
    selectBucket o strict (C.map untag) rt res =
      (selectB (fun x => matchResource o strict (por ((untag x).get "resource") (.dict [])) res)
        [C.filter (fun x => categorize (untag x) rt == some 0), C.filter (fun x => categorize (untag x) rt == some 1),
         C.filter (fun x => categorize (untag x) rt == some 2), C.filter (fun x => categorize (untag x) rt == some 3)]).map untag := by
  unfold selectBucket bucket
  simp only [List.filter_map, List.any_map, Function.comp_def, List.find?, selectB]
  cases (C.filter (fun x => categorize (untag x) rt == some 0)).any (fun x => matchResource o strict (por ((untag x).get "resource") (.dict [])) res) <;>
  cases (C.filter (fun x => categorize (untag x) rt == some 1)).any (fun x => matchResource o strict (por ((untag x).get "resource") (.dict [])) res) <;>
  cases (C.filter (fun x => categorize (untag x) rt == some 2)).any (fun x => matchResource o strict (por ((untag x).get "resource") (.dict [])) res) <;>
  cases (C.filter (fun x => categorize (untag x) rt == some 3)).any (fun x => matchResource o strict (por ((untag x).get "resource") (.dict [])) res) <;>
  simp

/-- the candidates of the model are the values of the tagged candidates -/
theorem candidates_map (rs : List PyVal) (a : String) :
    rs.filter (fun x => isCandidate x a) = ((tagFrom 0 rs).filter (fun x => namedP a x || starP x)).map untag := by
  have h : ∀ x, (namedP a x || starP x) = isCandidate (untag x) a := by
    intro x
    unfold namedP starP isCandidate
    by_cases ha : a = "*"
    · subst ha; simp
    · have : (a != "*") = true := by simpa using ha
      simp only [this, Bool.true_and]
      exact Bool.or_comm _ _
  conv => lhs; rw [← map_untag_tagFrom 0 rs]
  rw [List.filter_map]
  congr 1
  apply List.filter_congr
  intro x _
  simp only [Function.comp, h]

theorem selectB_sublist (m : PyVal → Bool) (C : List PyVal) (p0 p1 p2 p3 : PyVal → Bool) :
    (selectB m [C.filter p0, C.filter p1, C.filter p2, C.filter p3]).Sublist C := by
  simp only [selectB]
  split
  · exact List.filter_sublist
  · split
    · exact List.filter_sublist
    · split
      · exact List.filter_sublist
      · split
        · exact List.filter_sublist
        · exact List.nil_sublist _

/-! ### lowering twice -/

def lowerChar (c : Char) : Char := if 'A' ≤ c ∧ c ≤ 'Z' then Char.ofNat (c.toNat + 32) else c

theorem lowerChar_idem' (c : Char) : lowerChar (lowerChar c) = lowerChar c := by
  unfold lowerChar
  by_cases h : 'A' ≤ c ∧ c ≤ 'Z'
  · simp only [h, and_self, if_true]
    have h1 : 65 ≤ c.toNat := by
      have := h.1
      rw [Char.le_def] at this
      exact UInt32.le_iff_toNat_le.mp this
    have h2 : c.toNat < 91 := by
      have := h.2
      rw [Char.le_def] at this
      have h3 : c.toNat ≤ 90 := UInt32.le_iff_toNat_le.mp this
      omega
    have := lowerChar_idem c.toNat h2 h1
    simp only [this, if_false]
  · simp only [h, if_false]

theorem asciiLower_idem (s : String) : asciiLower (asciiLower s) = asciiLower s := by
  unfold asciiLower
  rw [String.toList_ofList, List.map_map]
  congr 1
  apply List.map_congr_left
  intro c _
  exact lowerChar_idem' c

theorem asciiLower_ne_empty (s : String) (h : s ≠ "") : asciiLower s ≠ "" := by
  intro he
  apply h
  have h1 : (asciiLower s).toList = [] := by rw [he]; rfl
  unfold asciiLower at h1
  rw [String.toList_ofList] at h1
  have h2 : s.toList = [] := by simpa using h1
  have : String.ofList s.toList = String.ofList [] := by rw [h2]
  simpa using this

/-- what `(x or "<dflt>").lower()` returns is a non-empty fixpoint of `.lower()` -/
theorem lowerField_fix {v : PyVal} {dflt algo : String} (h : lowerField v dflt = .ok algo) (hd : dflt ≠ "") :
    algo ≠ "" ∧ asciiLower algo = algo := by
  unfold lowerField at h
  have hne : ∀ s, por v (.str dflt) = .str s → s ≠ "" := by
    intro s hs
    unfold por at hs
    by_cases ht : v.truthy = true
    · simp only [ht, if_true] at hs
      subst hs
      simpa [PyVal.truthy] using ht
    · simp only [ht, Bool.false_eq_true, if_false] at hs
      injection hs with hs; subst hs; exact hd
  cases hp : por v (.str dflt) with
  | str s =>
    rw [hp] at h
    simp only [Except.ok.injEq] at h
    subst h
    exact ⟨asciiLower_ne_empty s (hne s hp), asciiLower_idem s⟩
  | _ => rw [hp] at h; cases h

/-- `evaluate` on the policy the closure builds -/
theorem evaluate_compiled (cx : CondCtx) (algo : String) (sel : List PyVal) (h1 : algo ≠ "") (h2 : asciiLower algo = algo) :
    Rbacx.evaluate cx "deny-overrides" (.dict [("algorithm", .str algo), ("rules", .list sel)]) =
      (match rulesLoop cx algo {} sel with
       | .error e => .error e
       | .ok s => .ok (finalise algo s)) := by
  have hg : (PyVal.dict [("algorithm", .str algo), ("rules", .list sel)]).get "algorithm" = .str algo := by simp [PyVal.get, lookup]
  have hr : rulesOf (PyVal.dict [("algorithm", .str algo), ("rules", .list sel)]) = sel := by
    unfold rulesOf
    have : (PyVal.dict [("algorithm", .str algo), ("rules", .list sel)]).get "rules" = .list sel := by simp [PyVal.get, lookup]
    rw [this, por_list_nil]
  have hl : lowerField (.str algo) "deny-overrides" = .ok algo := by
    unfold lowerField por
    have : (PyVal.str algo).truthy = true := by simpa [PyVal.truthy] using h1
    simp only [this, if_true, h2]
  unfold Rbacx.evaluate
  rw [hg, hl, hr]
  simp only [Bind.bind, Except.bind, Pure.pure, Except.pure]
  cases rulesLoop cx algo {} sel <;> rfl

theorem size_compiled (algo : String) (sel : List PyVal) : (PyVal.dict [("algorithm", .str algo), ("rules", .list sel)]).size = 3 + sizeL sel := by
  simp only [PyVal.size, sizeD]
  omega

end Rbacx.PyI
