import Rbacx.Proofs.CompiledTier
import Rbacx.Proofs.EvaluateSpec
/-
  Rbacx.Proofs.Compiled — translation validation of `compile` (core/compiler.py):

  * rules whose action or resource target does not match the request only ever touch the
    `reason` of the loop state, so removing them from the rule list leaves decision, rule id and
    obligations unchanged — for every algorithm string and every starting state;
  * the compiler's bucket selection (action index → `_categorize` → first bucket holding a rule
    that matches the resource target) picks exactly the rules of the specification's most
    specific matching tier that list the request's action.
-/
namespace Rbacx
open PyVal

/-- the part of a raw decision C03 speaks about (the `reason` of a non-match may differ: the compiled
    path never sees the action-mismatching rules, the reference evaluator reports them) -/
def Raw.proj (r : Raw) : String × PyVal × PyVal × PyVal × List PyVal :=
  (r.decision, r.ruleId, r.lastRuleId, r.policyId, r.obligations)

def LoopSt.noReason (s : LoopSt) : LoopSt := { s with reason := "" }

theorem stepRule_noReason (algo : String) (s : LoopSt) (o : Outcome) :
    (stepRule algo s.noReason o).1.noReason = (stepRule algo s o).1.noReason ∧
      (stepRule algo s.noReason o).2 = (stepRule algo s o).2 := by
  cases o <;> simp only [stepRule, LoopSt.noReason, and_self]
  repeat' split
  all_goals simp

theorem stepRule_notApplied (algo : String) (s : LoopSt) (o : Outcome) (h : o.applied = false) :
    (stepRule algo s o).1.noReason = s.noReason ∧ (stepRule algo s o).2 = false := by
  cases o <;> simp [Outcome.applied] at h <;> simp [stepRule, LoopSt.noReason]

/-- the loop result, up to `reason`, depends on the starting state only up to `reason` -/
theorem rulesLoop_noReason (cx : CondCtx) (algo : String) (l : List PyVal) :
    ∀ s : LoopSt, (rulesLoop cx algo s.noReason l).map LoopSt.noReason = (rulesLoop cx algo s l).map LoopSt.noReason := by
  induction l with
  | nil => intro s; simp [rulesLoop, Except.map, LoopSt.noReason]
  | cons r rs ih =>
    intro s
    simp only [rulesLoop]
    cases hr : ruleOutcome cx r with
    | error e => rfl
    | ok out =>
      simp only []
      obtain ⟨h1, h2⟩ := stepRule_noReason algo s out
      rw [h2]
      cases hb : (stepRule algo s out).2 with
      | true => simp only [if_true, Except.map, h1]
      | false =>
        simp only [Bool.false_eq_true, if_false]
        rw [← ih (stepRule algo s.noReason out).1, ← ih (stepRule algo s out).1, h1]

theorem rulesLoop_congr (cx : CondCtx) (algo : String) (l : List PyVal) (s s' : LoopSt) (h : s.noReason = s'.noReason) :
    (rulesLoop cx algo s l).map LoopSt.noReason = (rulesLoop cx algo s' l).map LoopSt.noReason := by
  rw [← rulesLoop_noReason cx algo l s, ← rulesLoop_noReason cx algo l s', h]

/-- **rules that do not apply can be dropped**: if every rule rejected by `q` has a non-applicable
    outcome, the loop over the `q`-filtered list ends in the same state up to `reason`. -/
theorem rulesLoop_filter (cx : CondCtx) (algo : String) (q : PyVal → Bool)
    (hq : ∀ r, q r = false → ∃ out, ruleOutcome cx r = .ok out ∧ out.applied = false) (l : List PyVal) :
    ∀ s : LoopSt, (rulesLoop cx algo s (l.filter q)).map LoopSt.noReason = (rulesLoop cx algo s l).map LoopSt.noReason := by
  induction l with
  | nil => intro s; rfl
  | cons r rs ih =>
    intro s
    cases hqr : q r with
    | true =>
      simp only [List.filter_cons, hqr, if_true, rulesLoop]
      cases hr : ruleOutcome cx r with
      | error e => rfl
      | ok out =>
        simp only []
        cases hb : (stepRule algo s out).2 with
        | true => rfl
        | false => simp only [Bool.false_eq_true, if_false]; exact ih _
    | false =>
      obtain ⟨out, hr, ha⟩ := hq r hqr
      obtain ⟨h1, h2⟩ := stepRule_notApplied algo s out ha
      simp only [List.filter_cons, hqr, Bool.false_eq_true, if_false, rulesLoop, hr, h2]
      rw [ih s]
      exact (rulesLoop_congr cx algo rs _ _ h1).symm

theorem finalise_noReason (algo : String) (s : LoopSt) : (finalise algo s.noReason).proj = (finalise algo s).proj := by
  unfold finalise LoopSt.noReason Raw.proj
  by_cases h1 : (algo == "deny-overrides") = true <;> by_cases h2 : (algo == "permit-overrides") = true <;>
    cases hd : s.anyDeny <;> cases hp : s.anyPermit <;> cases hl : s.lastRuleId.isNone <;> simp [*]

/-- the projected final answer of two loop runs that agree up to `reason` -/
theorem finish_congr (algo : String) (a b : Except CondErr LoopSt)
    (h : a.map LoopSt.noReason = b.map LoopSt.noReason) :
    (match a with | .error e => Except.error e | .ok s => .ok (finalise algo s)).map Raw.proj =
      (match b with | .error e => Except.error e | .ok s => .ok (finalise algo s)).map Raw.proj := by
  cases a with
  | error e =>
    cases b with
    | error e' => simp only [Except.map] at h ⊢; injection h with h; rw [h]
    | ok s' => simp [Except.map] at h
  | ok s =>
    cases b with
    | error e' => simp [Except.map] at h
    | ok s' =>
      simp only [Except.map] at h ⊢
      injection h with h
      rw [← finalise_noReason algo s, ← finalise_noReason algo s', h]

/-! ### action index -/

/-- the request's action is a string (or absent): what `Action.name` is typed as -/
def actionOk (v : PyVal) : Bool :=
  match v with
  | .str _ => true
  | .none => true
  | _ => false

/-- the compiler's action index (`by_action[str(action)]` plus the `'*'` rules) holds exactly the rules
    whose actions `match_actions` accepts -/
theorem isCandidate_eq (o : Oracle) (rule av : PyVal) (h : actionOk av = true) :
    isCandidate rule (if av.isNone then "" else o.pyStr av) = matchActions rule (por av (.str "")) := by
  have key : ∀ a : String, isCandidate rule a = matchActions rule (.str a) := by
    intro a
    unfold isCandidate matchActions compActions
    cases actionStrings (rule.get "actions") with
    | none => rfl
    | some acts => simp only [Option.getD]; exact Bool.or_comm _ _
  cases av with
  | none => exact key ""
  | str a =>
    have : por (.str a) (.str "") = .str a := by
      unfold por truthy
      by_cases ha : a = ""
      · subst ha; simp
      · simp [ha]
    rw [this]
    exact key a
  | bool b => simp [actionOk] at h
  | int b => simp [actionOk] at h
  | float b => simp [actionOk] at h
  | list b => simp [actionOk] at h
  | dict b => simp [actionOk] at h
  | dt a b => simp [actionOk] at h

/-- a rule whose action or resource target does not match has a non-applicable outcome -/
theorem outcome_of_not_target (cx : CondCtx) (r : PyVal) (h : Spec.targetMatches cx r = false) :
    ∃ out, ruleOutcome cx r = .ok out ∧ out.applied = false := by
  unfold Spec.targetMatches at h
  unfold ruleOutcome
  cases ha : matchActions r (por (cx.env.get "action") (.str "")) with
  | false => exact ⟨.actionMismatch, by simp, rfl⟩
  | true =>
    rw [ha, Bool.true_and] at h
    exact ⟨.resourceMismatch, by simp [h], rfl⟩

theorem outcome_of_not_action (cx : CondCtx) (r : PyVal)
    (h : matchActions r (por (cx.env.get "action") (.str "")) = false) :
    ∃ out, ruleOutcome cx r = .ok out ∧ out.applied = false := by
  unfold ruleOutcome
  exact ⟨.actionMismatch, by simp [h], rfl⟩

/-! ### the specification's restricted rule list, named -/

/-- the rules of the most specific tier that holds a rule whose action and resource target match -/
def refRestricted (cx : CondCtx) (rules : List PyVal) : List PyVal :=
  let resType := (por (cx.env.get "resource") (.dict [])).get "type"
  match [0, 1, 2, 3].find? (fun i => rules.any fun r => Spec.tier cx.o r resType == some i && Spec.targetMatches cx r) with
  | some i => rules.filter fun r => Spec.tier cx.o r resType == some i
  | Option.none => []

theorem c03Reference_eq (cx : CondCtx) (policy : PyVal) :
    Spec.c03Reference cx policy =
      (match lowerField (policy.get "algorithm") "deny-overrides" with
       | .error e => .error e
       | .ok algo =>
         match rulesLoop cx algo {} (refRestricted cx (rulesOf policy)) with
         | .error e => .error e
         | .ok s => .ok (finalise algo s)) := rfl

/-- what the compiled function evaluates -/
def compiledSelected (cx : CondCtx) (rules : List PyVal) : List PyVal :=
  let actionVal := cx.env.get "action"
  let action := if actionVal.isNone then "" else cx.o.pyStr actionVal
  let res := por (cx.env.get "resource") (.dict [])
  let rt := res.get "type"
  let resType : Option String := if rt.isNone then Option.none else some (cx.o.pyStr rt)
  selectBucket cx.o (isStrict cx.env) (rules.filter (isCandidate · action)) resType res

theorem compiledDecide_single (cx : CondCtx) (c : Consts) (policy : PyVal) (h : policy.hasKey "policies" = false) :
    compiledDecide cx c policy =
      (match lowerField (policy.get "algorithm") c.compilerDefault with
       | .error e => .error e
       | .ok algo =>
         match rulesLoop cx algo {} (compiledSelected cx (rulesOf policy)) with
         | .error e => .error e
         | .ok s => .ok (finalise algo s)) := by
  unfold compiledDecide
  simp only [h, Bool.false_eq_true, if_false]
  rfl

/-- **bucket selection = most specific matching tier, restricted to the rules listing the action** -/
theorem compiledSelected_eq (cx : CondCtx) (rules : List PyVal) (hact : actionOk (cx.env.get "action") = true) :
    compiledSelected cx rules =
      (refRestricted cx rules).filter fun r => matchActions r (por (cx.env.get "action") (.str "")) := by
  unfold compiledSelected refRestricted selectBucket
  simp only []
  generalize hres : por (cx.env.get "resource") (.dict []) = res
  have hcand : ∀ r, isCandidate r (if (cx.env.get "action").isNone then "" else cx.o.pyStr (cx.env.get "action")) =
      matchActions r (por (cx.env.get "action") (.str "")) := fun r => isCandidate_eq cx.o r _ hact
  have hcat : ∀ r, categorize r (if (res.get "type").isNone then Option.none else some (cx.o.pyStr (res.get "type"))) =
      Spec.tier cx.o r (res.get "type") := fun r => categorize_eq_tier cx.o r (res.get "type")
  have hbucket : ∀ i, bucket (rules.filter (isCandidate · (if (cx.env.get "action").isNone then "" else cx.o.pyStr (cx.env.get "action"))))
      (if (res.get "type").isNone then Option.none else some (cx.o.pyStr (res.get "type"))) i =
      (rules.filter fun r => Spec.tier cx.o r (res.get "type") == some i).filter
        fun r => matchActions r (por (cx.env.get "action") (.str "")) := by
    intro i
    unfold bucket
    simp only [List.filter_filter, hcand, hcat]
    apply List.filter_congr
    intro r _
    exact Bool.and_comm _ _
  have helig : (fun i => (bucket (rules.filter (isCandidate · (if (cx.env.get "action").isNone then "" else cx.o.pyStr (cx.env.get "action"))))
        (if (res.get "type").isNone then Option.none else some (cx.o.pyStr (res.get "type"))) i).any
        fun r => matchResource cx.o (isStrict cx.env) (por (r.get "resource") (.dict [])) res) =
      (fun i => rules.any fun r => Spec.tier cx.o r (res.get "type") == some i && Spec.targetMatches cx r) := by
    funext i
    rw [hbucket i]
    simp only [List.any_filter, Spec.targetMatches, hres]
  rw [helig]
  cases [0, 1, 2, 3].find? (fun i => rules.any fun r => Spec.tier cx.o r (res.get "type") == some i && Spec.targetMatches cx r) with
  | none => rfl
  | some i => exact hbucket i

/-- the reference evaluation only depends on the rules whose action and resource target match -/
theorem refRestricted_insert (cx : CondCtx) (l1 l2 : List PyVal) (r0 : PyVal) (h : Spec.targetMatches cx r0 = false) :
    (refRestricted cx (l1 ++ r0 :: l2)).filter (Spec.targetMatches cx) =
      (refRestricted cx (l1 ++ l2)).filter (Spec.targetMatches cx) := by
  unfold refRestricted
  simp only []
  have hany : (fun i => (l1 ++ r0 :: l2).any fun r =>
        Spec.tier cx.o r ((por (cx.env.get "resource") (.dict [])).get "type") == some i && Spec.targetMatches cx r) =
      (fun i => (l1 ++ l2).any fun r =>
        Spec.tier cx.o r ((por (cx.env.get "resource") (.dict [])).get "type") == some i && Spec.targetMatches cx r) := by
    funext i
    simp only [List.any_append, List.any_cons, h, Bool.and_false, Bool.false_or]
  rw [hany]
  cases [0, 1, 2, 3].find? (fun i => (l1 ++ l2).any fun r =>
      Spec.tier cx.o r ((por (cx.env.get "resource") (.dict [])).get "type") == some i && Spec.targetMatches cx r) with
  | none => rfl
  | some i =>
    simp only [List.filter_append, List.filter_cons]
    split
    · simp only [List.filter_cons, h, Bool.false_eq_true, if_false]
    · rfl

/-- everything `Guard` derives from the raw decision except the `reason` of a non-match -/
theorem finishDecision_proj (o : Oracle) (cfg : GuardCfg) (req : Request) (env : PyVal) (raw raw' : Raw)
    (h : raw.proj = raw'.proj) :
    let d := (finishDecision o cfg req env raw).1
    let d' := (finishDecision o cfg req env raw').1
    d.allowed = d'.allowed ∧ d.effect = d'.effect ∧ d.obligations = d'.obligations ∧ d.challenge = d'.challenge ∧
      d.ruleId = d'.ruleId ∧ d.policyId = d'.policyId := by
  simp only [Raw.proj, Prod.mk.injEq] at h
  obtain ⟨h1, h2, h3, h4, h5⟩ := h
  simp only [finishDecision, Raw.rid, h1, h2, h3, h4, h5, and_self]

end Rbacx
