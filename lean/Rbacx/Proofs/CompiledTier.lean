import Rbacx.Spec.Engine
/-
  Rbacx.Proofs.CompiledTier — the compiler's `_categorize` (built on `_resource_types`, a list of
  optional strings) computes the tier the specification reads off the rule's declared shape
  (`Spec.tier`, written independently over the raw `type` value).
-/
namespace Rbacx
open PyVal

/-- the compiler's view of the request type: `None` or `str(type)` -/
def optType (o : Oracle) (rt : PyVal) : Option String := if rt.isNone then Option.none else some (o.pyStr rt)

/-- `_resource_types` on a list entry -/
def typeEntry (x : PyVal) : Option (Option String) :=
  match x with
  | .str s => some (if s == "*" then Option.none else some s)
  | _ => Option.none

def starToNone (s : String) : Option String := if s == "*" then Option.none else some s

theorem filterMap_typeEntry (xs : List PyVal) :
    xs.filterMap typeEntry = (xs.filterMap PyVal.asStr?).map starToNone := by
  induction xs with
  | nil => rfl
  | cons x xs ih =>
    cases x <;> simp [List.filterMap_cons, typeEntry, PyVal.asStr?, starToNone, ih]

theorem map_starToNone_isEmpty (strs : List String) : (strs.map starToNone).isEmpty = strs.isEmpty := by
  cases strs <;> rfl

theorem contains_none_starToNone (strs : List String) :
    (strs.map starToNone).contains Option.none = strs.contains "*" := by
  induction strs with
  | nil => rfl
  | cons s ss ih =>
    simp only [List.map_cons, List.contains_cons, ih, starToNone]
    by_cases h : s = "*"
    · subst h; simp
    · have h1 : (s == "*") = false := by simpa using h
      have h2 : ("*" == s) = false := by simpa using fun e => h e.symm
      simp [h1, h2]

theorem contains_some_starToNone (strs : List String) (t : String) :
    (strs.map starToNone).contains (some t) = (strs.filter (· != "*")).contains t := by
  induction strs with
  | nil => rfl
  | cons s ss ih =>
    simp only [List.map_cons, List.contains_cons, ih, starToNone, List.filter_cons]
    by_cases h : s = "*"
    · subst h; simp
    · have h1 : (s == "*") = false := by simpa using h
      have h2 : (s != "*") = true := by simp [bne, h1]
      simp only [h1, h2, Bool.false_eq_true, if_false, if_true, List.contains_cons, Option.some_beq_some]

/-- the two membership facts `_categorize` asks of `_resource_types`, in terms of the declared strings -/
theorem resourceTypes_list_contains_none (xs : List PyVal) :
    (let out := xs.filterMap typeEntry
     (if out.isEmpty then [Option.none] else out).contains (Option.none : Option String)) =
      ((xs.filterMap PyVal.asStr?).contains "*" || (xs.filterMap PyVal.asStr?).isEmpty) := by
  simp only [filterMap_typeEntry, map_starToNone_isEmpty]
  cases h : (xs.filterMap PyVal.asStr?).isEmpty
  · simp only [Bool.false_eq_true, if_false, contains_none_starToNone, Bool.or_false]
  · have : xs.filterMap PyVal.asStr? = [] := List.isEmpty_iff.mp h
    simp only [this]; rfl

theorem resourceTypes_list_contains_some (xs : List PyVal) (t : String) :
    (let out := xs.filterMap typeEntry
     (if out.isEmpty then [Option.none] else out).contains (some t)) =
      ((xs.filterMap PyVal.asStr?).filter (· != "*")).contains t := by
  simp only [filterMap_typeEntry, map_starToNone_isEmpty]
  cases h : (xs.filterMap PyVal.asStr?).isEmpty
  · simp only [Bool.false_eq_true, if_false, contains_some_starToNone]
  · have : xs.filterMap PyVal.asStr? = [] := List.isEmpty_iff.mp h
    simp only [this]; rfl

/-- `resourceTypes` with the list lambda named -/
theorem resourceTypes_eq (rule : PyVal) :
    resourceTypes rule =
      (match (por (rule.get "resource") (.dict [])).get "type" with
       | .none => [Option.none]
       | .str t => if t == "*" then [Option.none] else [some t]
       | .list xs => (let out := xs.filterMap typeEntry; if out.isEmpty then [Option.none] else out)
       | _ => [Option.none]) := by
  unfold resourceTypes
  simp only []
  generalize (por (rule.get "resource") (.dict [])).get "type" = t
  cases t <;> rfl

def catB (a w hid hat : Bool) : Option Nat :=
  if !(a || w) then Option.none
  else if a && hid then some 0
  else if a && hat then some 1
  else if a then some 2
  else some 3

def tierB (named wild hid hat : Bool) : Option Nat :=
  if named then (if hid then some 0 else if hat then some 1 else some 2)
  else if wild then some 3 else Option.none

theorem catB_eq_tierB (a w hid hat : Bool) : catB a w hid hat = tierB a w hid hat := by
  cases a <;> cases w <;> cases hid <;> cases hat <;> rfl

theorem categorize_catB (rule : PyVal) (ot : Option String) :
    categorize rule ot =
      catB ((resourceTypes rule).contains ot) ((resourceTypes rule).contains Option.none) (hasId rule) (hasAttrs rule) := rfl

theorem tier_tierB (o : Oracle) (rule rt : PyVal) :
    Spec.tier o rule rt =
      tierB (Spec.namesType rule o rt).1 (Spec.namesType rule o rt).2 (hasId rule) (hasAttrs rule) := rfl

/-- the strings the rule declares as its type(s) -/
def declStrs (t : PyVal) : List String :=
  ((match t with | .list xs => xs | .none => [] | v => [v]) : List PyVal).filterMap PyVal.asStr?

theorem namesType_eq (rule : PyVal) (o : Oracle) (rt : PyVal) :
    Spec.namesType rule o rt =
      (let t := (por (rule.get "resource") (.dict [])).get "type"
       let wild := t.isNone || (declStrs t).contains "*" || (declStrs t).isEmpty
       ((!rt.isNone && ((declStrs t).filter (· != "*")).contains (o.pyStr rt)) || (rt.isNone && wild), wild)) := rfl

theorem types_wild (rule : PyVal) (o : Oracle) (rt : PyVal) :
    (resourceTypes rule).contains Option.none = (Spec.namesType rule o rt).2 := by
  rw [namesType_eq, resourceTypes_eq]
  simp only []
  generalize (por (rule.get "resource") (.dict [])).get "type" = t
  cases t with
  | list xs => exact resourceTypes_list_contains_none xs
  | str s =>
    by_cases h : s = "*"
    · subst h; rfl
    · have h1 : (s == "*") = false := by simpa using h
      have h2 : ("*" == s) = false := by simpa using fun e => h e.symm
      simp only [h1, Bool.false_eq_true, if_false, declStrs, List.filterMap_cons, PyVal.asStr?, List.filterMap_nil,
        List.contains_cons, List.contains_nil, h2, Bool.or_false, List.isEmpty_cons]
      rfl
  | none => rfl
  | bool b => rfl
  | int b => rfl
  | float b => rfl
  | dict b => rfl
  | dt a b => rfl

theorem types_named (rule : PyVal) (o : Oracle) (rt : PyVal) :
    (resourceTypes rule).contains (optType o rt) = (Spec.namesType rule o rt).1 := by
  rw [namesType_eq, resourceTypes_eq]
  simp only []
  generalize (por (rule.get "resource") (.dict [])).get "type" = t
  cases hrt : rt.isNone with
  | true =>
    have hw := types_wild
    simp only [optType, hrt, if_true, Bool.not_true, Bool.false_and, Bool.false_or, Bool.true_and]
    cases t with
    | list xs => exact resourceTypes_list_contains_none xs
    | str s =>
      by_cases h : s = "*"
      · subst h; rfl
      · have h1 : (s == "*") = false := by simpa using h
        have h2 : ("*" == s) = false := by simpa using fun e => h e.symm
        simp only [h1, Bool.false_eq_true, if_false, declStrs, List.filterMap_cons, PyVal.asStr?, List.filterMap_nil,
          List.contains_cons, List.contains_nil, h2, Bool.or_false, List.isEmpty_cons]
        rfl
    | none => rfl
    | bool b => rfl
    | int b => rfl
    | float b => rfl
    | dict b => rfl
    | dt a b => rfl
  | false =>
    simp only [optType, hrt, Bool.false_eq_true, if_false, Bool.not_false, Bool.true_and, Bool.false_and, Bool.or_false]
    cases t with
    | list xs => exact resourceTypes_list_contains_some xs (o.pyStr rt)
    | str s =>
      by_cases h : s = "*"
      · subst h; rfl
      · have h1 : (s == "*") = false := by simpa using h
        have h3 : (s != "*") = true := by simp [bne, h1]
        simp only [h1, Bool.false_eq_true, if_false, declStrs, List.filterMap_cons, PyVal.asStr?, List.filterMap_nil,
          List.filter_cons, h3, if_true, List.filter_nil, List.contains_cons, List.contains_nil, Option.some_beq_some]
    | none => rfl
    | bool b => rfl
    | int b => rfl
    | float b => rfl
    | dict b => rfl
    | dt a b => rfl

/-- **`_categorize` = the declared-shape tier of the specification** -/
theorem categorize_eq_tier (o : Oracle) (rule rt : PyVal) :
    categorize rule (optType o rt) = Spec.tier o rule rt := by
  rw [categorize_catB, tier_tierB, types_named rule o rt, types_wild rule o rt, catB_eq_tierB]

end Rbacx
